(* C18 — proofs, part 2: text made of well-separated pieces lexes to its tokens; the tokens of a value parse
   back to the value; the four writers produce well-separated pieces. *)
From Coq Require Import List ZArith NArith Bool Strings.Byte String Lia Arith.
From C18 Require Import Tables Model Spec ProofsLex.
Import ListNotations.
Open Scope list_scope.

(* ---------------------------------------------------------------------------------------------- *)
(* pieces *)
Inductive pend := PNone | PBare | PNum.
Definition tok_pend (t : token) : pend := match t with TBare _ => PBare | TNum _ _ => PNum | _ => PNone end.
Definition num_ok (i : bool) (raw : bytes) : bool :=
  match num_end raw with Some st => num_final st && Bool.eqb (num_isint st) i | None => false end.
Definition tok_ok (f : fmt) (t : token) : bool :=
  match t with
  | TStr s => utf8_ok s
  | TBare s => bare_safe s && bytes_eqb (esc f SNone s) s
  | TNum i raw => num_ok i raw
  | _ => true
  end.
(* may t come directly after a pending bare token / number? only a bracket (or a colon after a bare token) *)
Definition follows (pd : pend) (t : token) : bool :=
  match pd with
  | PNone => true
  | PBare => match punct t with Some _ => true | None => false end
  | PNum => match t with TLBrace | TRBrace | TLBrack | TRBrack => true | _ => false end
  end.
Fixpoint wf_pieces (f : fmt) (pd : pend) (ps : list piece) : bool :=
  match ps with
  | [] => true
  | PWs w :: r => forallb is_ws w && wf_pieces f (if is_nil w then pd else PNone) r
  | PTok t :: r => tok_ok f t && follows pd t && wf_pieces f (tok_pend t) r
  end.
Fixpoint end_pend (pd : pend) (ps : list piece) : pend :=
  match ps with
  | [] => pd
  | PWs w :: r => end_pend (if is_nil w then pd else PNone) r
  | PTok t :: r => end_pend (tok_pend t) r
  end.

Lemma wf_app : forall f a b pd, wf_pieces f pd (a ++ b) = wf_pieces f pd a && wf_pieces f (end_pend pd a) b.
Proof.
  induction a as [|p a IH]; intros b pd; cbn [app wf_pieces end_pend]; auto.
  destruct p; rewrite IH, andb_assoc; reflexivity.
Qed.
Lemma end_pend_app : forall a b pd, end_pend pd (a ++ b) = end_pend (end_pend pd a) b.
Proof. induction a as [|p a IH]; intros; cbn [app end_pend]; auto. destruct p; apply IH. Qed.
Lemma toks_app : forall a b, toks (a ++ b) = toks a ++ toks b.
Proof. induction a as [|p a IH]; intros; cbn [app toks]; auto. destruct p; cbn [app]; rewrite IH; reflexivity. Qed.
Lemma print_app : forall f a b, print f (a ++ b) = print f a ++ print f b.
Proof. intros. unfold print. apply flat_map_app. Qed.

(* the lexer state after reading text whose tokens are ts, the last one possibly still open *)
Definition holds (pd : pend) (st : lstate) (ts : list token) : Prop :=
  match pd with
  | PNone => st = (LValue, List.rev ts)
  | PBare => exists ts' s, ts = ts' ++ [TBare s] /\ st = (LBare (List.rev s), List.rev ts')
  | PNum => exists ts' raw ns, ts = ts' ++ [TNum (num_isint ns) raw] /\ st = (LNum ns (List.rev raw), List.rev ts') /\ num_final ns = true
  end.

Lemma holds_finish : forall pd st ts, holds pd st ts -> lex_finish st = Some ts.
Proof.
  intros pd st ts H. destruct pd; cbn [holds] in H.
  - subst st. cbn. rewrite rev_involutive. reflexivity.
  - destruct H as (ts' & s & -> & ->). cbn. rewrite rev_involutive. cbn [List.rev]. rewrite !rev_involutive. reflexivity.
  - destruct H as (ts' & raw & ns & -> & -> & F). cbn [lex_finish].
    destruct ns; try discriminate F; cbn [List.rev]; rewrite !rev_involutive; reflexivity.
Qed.

Lemma holds_ws1 : forall pd st ts b, holds pd st ts -> is_ws b = true -> holds PNone (lstep st b) ts.
Proof.
  intros pd st ts b H Hw. destruct pd; cbn [holds] in *.
  - subst st. apply ws_value. assumption.
  - destruct H as (ts' & s & -> & ->). rewrite ws_bare by assumption. rewrite rev_involutive, rev_app_distr. reflexivity.
  - destruct H as (ts' & raw & ns & -> & -> & F). rewrite ws_num by assumption. rewrite rev_involutive, rev_app_distr. reflexivity.
Qed.
Lemma holds_ws : forall w pd st ts, holds pd st ts -> forallb is_ws w = true ->
  holds (if is_nil w then pd else PNone) (lex_run st w) ts.
Proof.
  intros w pd st ts H Hw. destruct w as [|b w]; [exact H|].
  cbn [forallb] in Hw. apply andb_true_iff in Hw. destruct Hw as [Hb Hw]. cbn [is_nil].
  rewrite lex_run_cons. pose proof (holds_ws1 _ _ _ _ H Hb) as H1. cbn [holds] in H1. rewrite H1.
  cbn [holds]. apply lex_ws_value. assumption.
Qed.

Lemma holds_tok : forall f pd st ts t, holds pd st ts -> tok_ok f t = true -> follows pd t = true ->
  holds (tok_pend t) (lex_run st (print_token f t)) (ts ++ [t]).
Proof.
  intros f pd st ts t H Hok Hf.
  destruct (punct t) as [b|] eqn:Ep.
  { (* brackets and the colon: one byte, in any state *)
    rewrite (punct_print f t b Ep). rewrite lex_run_cons, lex_run_nil.
    assert (Hp : tok_pend t = PNone) by (destruct t; cbn in Ep; try discriminate; reflexivity). rewrite Hp. cbn [holds].
    destruct pd; cbn [holds] in H.
    - subst st. rewrite (punct_value t b _ Ep), rev_app_distr. reflexivity.
    - destruct H as (ts' & s & -> & ->). rewrite (punct_bare t b _ _ Ep). rewrite rev_involutive, !rev_app_distr. reflexivity.
    - destruct H as (ts' & raw & ns & -> & -> & F). cbn [follows] in Hf.
      rewrite (bracket_num t b ns _ _ Ep) by (auto; destruct t; cbn in Hf; congruence).
      rewrite rev_involutive, !rev_app_distr. reflexivity. }
  (* other tokens only come when nothing is pending *)
  assert (pd = PNone) as -> by (destruct pd; cbn [follows] in Hf; auto; [rewrite Ep in Hf; discriminate | destruct t; cbn in *; congruence]).
  cbn [holds] in H. subst st.
  destruct t; cbn in Ep; try discriminate; cbn [tok_ok] in Hok; cbn [tok_pend holds].
  - (* quoted string *) rewrite lex_quoted by assumption. rewrite rev_app_distr. reflexivity.
  - (* bare token *)
    apply andb_true_iff in Hok. destruct Hok as [Hb He]. apply bytes_eqb_eq in He.
    cbn [print_token]. rewrite He. exists ts, s. split; auto. apply lex_bare. assumption.
  - (* number *)
    unfold num_ok in Hok. destruct (num_end raw) as [ns|] eqn:En; [|discriminate].
    apply andb_true_iff in Hok. destruct Hok as [F Hi]. apply eqb_prop in Hi.
    cbn [print_token]. exists ts, raw, ns. rewrite Hi. repeat split; auto. apply lex_num. assumption.
Qed.

(* Theorem A: well-separated pieces lex to their tokens *)
Lemma lex_pieces : forall f ps pd st ts, wf_pieces f pd ps = true -> holds pd st ts ->
  holds (end_pend pd ps) (lex_run st (print f ps)) (ts ++ toks ps).
Proof.
  intros f. induction ps as [|p ps IH]; intros pd st ts Hwf H.
  - cbn. rewrite app_nil_r. exact H.
  - change (print f (p :: ps)) with (print_piece f p ++ print f ps). rewrite lex_run_app.
    destruct p as [t | w]; cbn [wf_pieces] in Hwf; cbn [end_pend toks print_piece].
    + apply andb_true_iff in Hwf. destruct Hwf as [Hwf Hr]. apply andb_true_iff in Hwf. destruct Hwf as [Hok Hf].
      replace (ts ++ t :: toks ps) with ((ts ++ [t]) ++ toks ps) by (rewrite <- app_assoc; reflexivity).
      apply IH; auto. eapply holds_tok; eauto.
    + apply andb_true_iff in Hwf. destruct Hwf as [Hw Hr]. apply IH; auto. apply holds_ws; auto.
Qed.
Theorem lex_print : forall f ps, wf_pieces f PNone ps = true -> lex (print f ps) = Some (toks ps).
Proof.
  intros f ps H. unfold lex. eapply holds_finish.
  apply (lex_pieces f ps PNone (LValue, []) [] H). reflexivity.
Qed.

(* ---------------------------------------------------------------------------------------------- *)
(* induction over values *)
Section jv_ind2.
  Variable P : jv -> Prop.
  Hypothesis HNull : P JNull.
  Hypothesis HBool : forall b, P (JBool b).
  Hypothesis HInt : forall z, P (JInt z).
  Hypothesis HBig : forall z, P (JBig z).
  Hypothesis HDec : forall r, P (JDec r).
  Hypothesis HStr : forall s, P (JStr s).
  Hypothesis HArr : forall l, Forall P l -> P (JArr l).
  Hypothesis HObj : forall kvs, Forall (fun kv => P (snd kv)) kvs -> P (JObj kvs).
  Fixpoint jv_ind2 (v : jv) : P v :=
    match v with
    | JNull => HNull | JBool b => HBool b | JInt z => HInt z | JBig z => HBig z | JDec r => HDec r | JStr s => HStr s
    | JArr l => HArr l ((fix go (l : list jv) : Forall P l :=
                           match l with [] => Forall_nil _ | x :: r => Forall_cons x (jv_ind2 x) (go r) end) l)
    | JObj kvs => HObj kvs ((fix go (l : list (bytes * jv)) : Forall (fun kv => P (snd kv)) l :=
                               match l with [] => Forall_nil _ | kv :: r => Forall_cons kv (jv_ind2 (snd kv)) (go r) end) kvs)
    end.
End jv_ind2.

(* ---------------------------------------------------------------------------------------------- *)
(* the tokens of a value, and the token-level parser on them *)
Fixpoint tokens_of (f : fmt) (v : jv) : list token :=
  match v with
  | JNull => [TBare (Bs "null")]
  | JBool true => [TBare (Bs "true")]
  | JBool false => [TBare (Bs "false")]
  | JInt z => [TNum true (print_int z)]
  | JBig z => [TNum true (print_int z)]
  | JDec raw => [TNum false raw]
  | JStr s => [str_token f s]
  | JArr l => TLBrack :: flat_map (tokens_of f) l ++ [TRBrack]
  | JObj kvs => TLBrace :: flat_map (fun kv => str_token f (fst kv) :: TColon :: tokens_of f (snd kv)) kvs ++ [TRBrace]
  end.

(* what the token parser needs of a value *)
Definition strval_ok (f : fmt) (s : bytes) : bool :=
  match str_token f s with TBare s' => negb (keyword s') | _ => true end.
Fixpoint value_ok (f : fmt) (v : jv) : bool :=
  match v with
  | JNull | JBool _ | JDec _ => true
  | JInt z => small z
  | JBig z => negb (small z)
  | JStr s => strval_ok f s
  | JArr l => forallb (value_ok f) l
  | JObj kvs => keys_nodup (map fst kvs) && forallb (fun kv => value_ok f (snd kv)) kvs
  end.

Definition val_pos (st : pstate) : Prop :=
  match st with PS (FrObj _ None _ :: _) _ => False | _ => True end.

Lemma prun_app : forall a b st, prun st (a ++ b) = prun (prun st a) b.
Proof. intros. unfold prun. apply fold_left_app. Qed.
Lemma prun_err : forall ts, prun PErr ts = PErr.
Proof. induction ts; auto. Qed.
Lemma key_or_value_val : forall st s v, val_pos st -> key_or_value st s v = add_value st v.
Proof.
  intros st s v H. destruct st as [stk res|]; [|reflexivity].
  destruct stk as [|[acc|acc [k|] c] r]; try reflexivity. destruct H.
Qed.
Lemma bare_value_str : forall s, keyword s = false -> bare_value s = JStr s.
Proof.
  intros s H. unfold keyword in H. apply orb_false_iff in H. destruct H as [H H3]. apply orb_false_iff in H. destruct H as [H1 H2].
  unfold bare_value. rewrite H1, H2, H3. reflexivity.
Qed.
Lemma upsert_none : forall acc k v, (forall k', In k' (map fst acc) -> bytes_eqb k k' = false) -> upsert acc k v = None.
Proof.
  induction acc as [|[k' v'] acc IH]; intros k v H; cbn [upsert]; auto.
  rewrite (H k') by (left; reflexivity). rewrite IH; auto. intros k2 Hin. apply H. right. exact Hin.
Qed.
Lemma existsb_false_in : forall k l, existsb (bytes_eqb k) l = false -> forall k', In k' l -> bytes_eqb k k' = false.
Proof.
  induction l; intros H k' Hin; [destruct Hin|]. cbn [existsb] in H. apply orb_false_iff in H. destruct H as [H1 H2].
  destruct Hin as [<- | Hin]; auto.
Qed.
Lemma bytes_eqb_sym : forall a b, bytes_eqb a b = bytes_eqb b a.
Proof.
  intros a b. destruct (bytes_eqb a b) eqn:E.
  - apply bytes_eqb_eq in E. subst. symmetry. apply bytes_eqb_refl.
  - destruct (bytes_eqb b a) eqn:E2; auto. apply bytes_eqb_eq in E2. subst. rewrite bytes_eqb_refl in E. discriminate.
Qed.

(* Theorem B *)
Lemma parse_tokens_of : forall f v, value_ok f v = true -> forall st, val_pos st -> prun st (tokens_of f v) = add_value st v.
Proof.
  intros f v. induction v using jv_ind2; intros Hok st Hpos; cbn [tokens_of].
  - cbn. destruct st; [|reflexivity]. cbn [pstep]. change (bare_value (Bs "null")) with JNull. apply key_or_value_val; auto.
  - destruct b; cbn; (destruct st; [|reflexivity]); cbn [pstep];
      [change (bare_value (Bs "true")) with (JBool true) | change (bare_value (Bs "false")) with (JBool false)];
      apply key_or_value_val; auto.
  - cbn [value_ok] in Hok. cbn. destruct st; [|reflexivity]. cbn [pstep]. unfold num_value. rewrite print_int_value, Hok. reflexivity.
  - cbn [value_ok] in Hok. apply negb_true_iff in Hok. cbn. destruct st; [|reflexivity]. cbn [pstep]. unfold num_value.
    rewrite print_int_value, Hok. reflexivity.
  - cbn. destruct st; reflexivity.
  - cbn [value_ok] in Hok. unfold strval_ok in Hok. cbn. destruct st; [|reflexivity]. cbn [pstep].
    destruct (str_token f s) eqn:E; try (destruct f; cbn in E; [discriminate | destruct (sen_quote s); discriminate]).
    + assert (s0 = s) by (destruct f; cbn in E; [| destruct (sen_quote s)]; congruence). subst. apply key_or_value_val; auto.
    + assert (s0 = s) by (destruct f; cbn in E; [| destruct (sen_quote s)]; congruence). subst.
      apply negb_true_iff in Hok. rewrite bare_value_str by assumption. apply key_or_value_val; auto.
  - (* array *)
    cbn [value_ok] in Hok. destruct st as [stk res|]; [|apply prun_err].
    change (TLBrack :: flat_map (tokens_of f) l ++ [TRBrack]) with ([TLBrack] ++ flat_map (tokens_of f) l ++ [TRBrack]).
    rewrite !prun_app. cbn [prun fold_left pstep].
    assert (Hel : forall l acc, Forall (fun v => value_ok f v = true -> forall st, val_pos st -> prun st (tokens_of f v) = add_value st v) l ->
                  forallb (value_ok f) l = true ->
                  prun (PS (FrArr acc :: stk) res) (flat_map (tokens_of f) l) = PS (FrArr (List.rev l ++ acc) :: stk) res).
    { clear. induction l as [|x l IHl]; intros acc HF Hall; [reflexivity|].
      inversion HF; subst. cbn [forallb] in Hall. apply andb_true_iff in Hall. destruct Hall as [Hx Hl].
      cbn [flat_map]. rewrite prun_app. rewrite H1; auto; [|exact I]. cbn [add_value].
      rewrite IHl; auto. cbn [List.rev]. rewrite <- app_assoc. reflexivity. }
    rewrite (Hel l [] H Hok). rewrite app_nil_r. cbn [prun fold_left pstep]. rewrite rev_involutive. reflexivity.
  - (* object *)
    cbn [value_ok] in Hok. apply andb_true_iff in Hok. destruct Hok as [Hnd Hok].
    destruct st as [stk res|]; [|apply prun_err].
    match goal with |- prun _ (TLBrace :: ?m ++ [TRBrace]) = _ => change (TLBrace :: m ++ [TRBrace]) with ([TLBrace] ++ m ++ [TRBrace]) end.
    rewrite !prun_app. cbn [prun fold_left pstep].
    assert (Hel : forall kvs acc,
                  Forall (fun kv => value_ok f (snd kv) = true -> forall st, val_pos st -> prun st (tokens_of f (snd kv)) = add_value st (snd kv)) kvs ->
                  forallb (fun kv => value_ok f (snd kv)) kvs = true -> keys_nodup (map fst kvs) = true ->
                  (forall k, In k (map fst kvs) -> forall k', In k' (map fst acc) -> bytes_eqb k k' = false) ->
                  prun (PS (FrObj acc None false :: stk) res) (flat_map (fun kv => str_token f (fst kv) :: TColon :: tokens_of f (snd kv)) kvs)
                  = PS (FrObj (List.rev kvs ++ acc) None false :: stk) res).
    { clear. induction kvs as [|[k x] kvs IHk]; intros acc HF Hall Hnd Hfresh; [reflexivity|].
      inversion HF; subst. cbn [forallb snd] in Hall. apply andb_true_iff in Hall. destruct Hall as [Hx Hl].
      cbn [map fst keys_nodup] in Hnd. apply andb_true_iff in Hnd. destruct Hnd as [Hk Hnd]. apply negb_true_iff in Hk.
      cbn [flat_map fst snd].
      change (str_token f k :: TColon :: tokens_of f x) with ([str_token f k; TColon] ++ tokens_of f x).
      rewrite <- app_assoc, !prun_app.
      assert (Hkey : prun (PS (FrObj acc None false :: stk) res) [str_token f k; TColon] = PS (FrObj acc (Some k) true :: stk) res).
      { destruct f; cbn [str_token]; [| destruct (sen_quote k)]; reflexivity. }
      rewrite Hkey. cbn [snd] in H1. rewrite H1; auto; [|exact I]. cbn [add_value]. unfold put.
      rewrite upsert_none by (intros k' Hin; apply Hfresh; [left; reflexivity | exact Hin]).
      rewrite IHk; auto.
      - cbn [List.rev]. rewrite <- app_assoc. reflexivity.
      - intros k1 Hin1 k' Hin'. cbn [map fst] in Hin'. destruct Hin' as [<- | Hin'].
        + rewrite bytes_eqb_sym. eapply existsb_false_in; eauto.
        + apply Hfresh; [right; exact Hin1 | exact Hin']. }
    rewrite (Hel kvs [] H Hok Hnd) by (intros k _ k' []). rewrite app_nil_r. cbn [prun fold_left pstep]. rewrite rev_involutive. reflexivity.
Qed.

(* ---------------------------------------------------------------------------------------------- *)
(* AppendSENString without quotes emits the string itself *)
Lemma sen_unquoted_id : forall s st, match st with SDrop (S _) => False | _ => True end ->
  sen_loop_quote st s = false -> esc FSen st s = s.
Proof.
  induction s as [|b s IH]; intros st Hst H; [reflexivity|].
  destruct st as [|[|k]|[|k]]; try (destruct Hst; fail).
  all: try (cbn [esc sen_loop_quote] in *; f_equal; apply IH; auto; fail).
  all: cbn [sen_loop_quote] in H; cbn [esc];
    destruct ((cls tbl_senMap b =? K "o")%N || (cls tbl_senMap b =? K "0")%N || (cls tbl_senMap b =? K "h")%N) eqn:E1.
  all: try (assert (Hp : plain_class FSen (cls (str_tbl FSen) b) = true)
              by (cbn [str_tbl]; unfold plain_class;
                  apply orb_true_iff in E1; destruct E1 as [E1|E1]; [apply orb_true_iff in E1; destruct E1 as [E1|E1]|]; rewrite E1;
                  rewrite ?orb_true_r; reflexivity);
            rewrite Hp; f_equal; apply IH; auto; fail).
  all: destruct (cls tbl_senMap b =? K "8")%N eqn:E8; [|discriminate].
  all: apply N.eqb_eq in E8; cbn [str_tbl]; rewrite E8;
    change (plain_class FSen (K "8")) with false; change (K "8" =? K ".")%N with false; change (K "8" =? K "8")%N with true;
    cbv iota; destruct (decode_rune (b :: s)) as [r cnt];
    destruct (r =? 8232)%N; [discriminate|]; destruct (r =? 8233)%N; [discriminate|]; destruct (r =? RuneError)%N; [discriminate|];
    cbn [orb] in H; f_equal; apply IH; auto; destruct (cnt - 1); exact I.
Qed.
Lemma sen_quote_false : forall s, sen_quote s = false -> esc FSen SNone s = s.
Proof.
  intros s H. apply sen_unquoted_id; [exact I|]. unfold sen_quote in H. destruct s; [discriminate|].
  apply orb_false_iff in H. destruct H as [_ H]. exact H.
Qed.

(* ---------------------------------------------------------------------------------------------- *)
(* the writers emit well-separated pieces *)
Lemma ws_nlsp : forall n, forallb is_ws (nlsp n) = true.
Proof. intros n. unfold nlsp. cbn [forallb is_ws andb]. induction (Nat.min n 128); cbn; auto. Qed.
Lemma end_pend_last : forall pd ps t, end_pend pd (ps ++ [PTok t]) = tok_pend t.
Proof. intros. rewrite end_pend_app. reflexivity. Qed.
Lemma wf_seq : forall f a b, wf_pieces f PNone a = true ->
  (end_pend PNone a = PNone \/ b = [] \/ exists w ps, b = PWs w :: ps /\ is_nil w = false) ->
  wf_pieces f PNone b = true -> wf_pieces f PNone (a ++ b) = true.
Proof.
  intros f a b Ha Hd Hb. rewrite wf_app, Ha. cbn [andb].
  destruct Hd as [-> | [-> | (w & ps & -> & Hw)]]; auto.
  cbn [wf_pieces] in *. rewrite Hw in *. exact Hb.
Qed.
Lemma wf_close : forall f pd t, (t = TRBrack \/ t = TRBrace) -> wf_pieces f pd [PTok t] = true.
Proof. intros f pd t [-> | ->]; destruct pd; reflexivity. Qed.
Lemma wf_close_nl : forall f pd n t, (t = TRBrack \/ t = TRBrace) -> wf_pieces f pd [PWs (nlsp n); PTok t] = true.
Proof. intros f pd n t H. cbn [wf_pieces]. rewrite ws_nlsp. cbn [nlsp is_nil andb]. destruct H as [-> | ->]; reflexivity. Qed.

Lemma container_end : forall f sty d v, is_container v = true -> end_pend PNone (wr f sty d v) = PNone.
Proof.
  intros f sty d v H. destruct v; try discriminate.
  - destruct l; [reflexivity|]. cbn [wr].
    rewrite app_comm_cons, app_assoc. apply end_pend_last.
  - cbn [wr]. rewrite app_comm_cons, app_assoc. apply end_pend_last.
Qed.

Lemma str_tok_ok : forall f k s, str_ok f k s = true -> tok_ok f (str_token f s) = true.
Proof.
  intros f k s H. unfold str_ok in H. apply andb_true_iff in H. destruct H as [Hu H].
  destruct f; cbn [str_token]; [exact Hu|].
  destruct (sen_quote s) eqn:Q; [exact Hu|]. cbn [orb] in H. apply andb_true_iff in H. destruct H as [Hb _].
  cbn [tok_ok]. rewrite Hb, (sen_quote_false s Q), bytes_eqb_refl. reflexivity.
Qed.
Lemma keyword_tok_ok : forall f s, (s = Bs "null" \/ s = Bs "true" \/ s = Bs "false") -> tok_ok f (TBare s) = true.
Proof. intros f s [-> | [-> | ->]]; destruct f; reflexivity. Qed.
Lemma int_tok_ok : forall z, num_ok true (print_int z) = true.
Proof. intros z. destruct (print_int_scan z) as (st & E & I & F). unfold num_ok. rewrite E, I, F. reflexivity. Qed.
Lemma dec_tok_ok : forall raw, dec_ok raw = true -> num_ok false raw = true.
Proof. intros raw H. unfold dec_ok in H. unfold num_ok. destruct (num_end raw) as [[]|]; try discriminate; reflexivity. Qed.

(* after a key token the colon may follow directly *)
Lemma follows_colon : forall f s, follows (tok_pend (str_token f s)) TColon = true.
Proof. intros f s. destruct f; cbn [str_token]; [reflexivity|]. destruct (sen_quote s); reflexivity. Qed.

Section WriterWf.
  Variables (f : fmt) (sty : style) (pretty : bool).
  Let E (m : jv) : Prop := text_ok pretty f m = true -> forall d, wf_pieces f PNone (wr f sty d m) = true.

  Lemma arr_items_wf : forall l d, Forall E l -> forallb (text_ok pretty f) l = true ->
    wf_pieces f PNone (arr_items f sty d (wr f sty (S d)) l) = true.
  Proof.
    induction l as [|m r IH]; intros d HF Hall; [reflexivity|].
    inversion HF as [|? ? Hm Hr]; subst. cbn [forallb] in Hall. apply andb_true_iff in Hall. destruct Hall as [Hok Hall].
    specialize (Hm Hok (S d)). specialize (IH d Hr Hall).
    cbn [arr_items].
    assert (Hshape : r = [] \/ exists m2 r2, r = m2 :: r2) by (destruct r; [left | right; eauto]; reflexivity).
    destruct f eqn:Ef, sty eqn:Es.
    - (* JSON tight *)
      apply wf_seq; auto.
      + apply wf_seq; auto. destruct (is_nil r); [right; left; reflexivity | right; right; exists [x2c], []; split; reflexivity].
        destruct (is_nil r); reflexivity.
      + destruct r; [right; left; reflexivity|]. left. cbn [is_nil]. rewrite end_pend_app. reflexivity.
    - (* JSON indent *)
      change (PWs (nlsp (2 * S d)) :: wr FJson Indent2 (S d) m ++ (if is_nil r then [] else [comma]))
        with ([PWs (nlsp (2 * S d))] ++ (wr FJson Indent2 (S d) m ++ (if is_nil r then [] else [comma]))).
      rewrite <- app_assoc. apply wf_seq; [cbn [wf_pieces]; rewrite ws_nlsp; reflexivity | left; reflexivity |].
      apply wf_seq; auto.
      + apply wf_seq; auto. destruct (is_nil r); [right; left; reflexivity | right; right; exists [x2c], []; split; reflexivity].
        destruct (is_nil r); reflexivity.
      + destruct r; [right; left; reflexivity|]. right; right. cbn [arr_items]. eexists; eexists; split; reflexivity.
    - (* SEN tight *)
      apply wf_seq; auto.
      + apply wf_seq; auto. destruct (is_nil r || is_container m); [right; left; reflexivity | right; right; exists [x20], []; split; reflexivity].
        destruct (is_nil r || is_container m); reflexivity.
      + destruct r; [right; left; reflexivity|]. left. cbn [is_nil orb]. rewrite end_pend_app.
        destruct (is_container m) eqn:C; [rewrite container_end by assumption|]; reflexivity.
    - (* SEN indent *)
      change (PWs (nlsp (2 * S d)) :: wr FSen Indent2 (S d) m) with ([PWs (nlsp (2 * S d))] ++ wr FSen Indent2 (S d) m).
      rewrite <- app_assoc. apply wf_seq; [cbn [wf_pieces]; rewrite ws_nlsp; reflexivity | left; reflexivity |].
      apply wf_seq; auto.
      destruct r; [right; left; reflexivity|]. right; right. cbn [arr_items]. eexists; eexists; split; reflexivity.
  Qed.

  Lemma obj_items_wf : forall l d, Forall (fun kv => E (snd kv)) l ->
    forallb (fun kv => str_ok f true (fst kv) && text_ok pretty f (snd kv)) l = true ->
    wf_pieces f PNone (obj_items f sty d (wr f sty (S d)) l) = true.
  Proof.
    induction l as [|[k m] r IH]; intros d HF Hall; [reflexivity|].
    inversion HF as [|? ? Hm Hr]; subst. cbn [forallb fst snd] in Hall. apply andb_true_iff in Hall. destruct Hall as [Hok Hall].
    apply andb_true_iff in Hok. destruct Hok as [Hk Hok].
    cbn [snd] in Hm. specialize (Hm Hok (S d)). specialize (IH d Hr Hall).
    pose proof (str_tok_ok _ _ _ Hk) as Htk. pose proof (follows_colon f k) as Hfc.
    cbn [obj_items].
    assert (Hkey : forall rest, wf_pieces f PNone rest = true -> wf_pieces f PNone ([PTok (str_token f k); PTok TColon] ++ rest) = true).
    { intros rest Hrest. cbn [app wf_pieces]. rewrite Htk, Hfc. cbn [follows tok_ok tok_pend andb]. exact Hrest. }
    assert (Hkeysp : forall rest, wf_pieces f PNone rest = true -> wf_pieces f PNone ([PTok (str_token f k); PTok TColon; sp] ++ rest) = true).
    { intros rest Hrest. cbn [app wf_pieces sp]. rewrite Htk, Hfc. cbn [follows tok_ok tok_pend andb forallb is_ws is_nil]. exact Hrest. }
    destruct f eqn:Ef, sty eqn:Es.
    - (* JSON tight *)
      rewrite <- app_assoc. apply Hkey. apply wf_seq; auto.
      + apply wf_seq; auto. destruct (is_nil r); [right; left; reflexivity | right; right; exists [x2c], []; split; reflexivity].
        destruct (is_nil r); reflexivity.
      + destruct r; [right; left; reflexivity|]. left. cbn [is_nil]. rewrite end_pend_app. reflexivity.
    - (* JSON indent *)
      change ([PWs (nlsp (2 * S d)); PTok (str_token FJson k); PTok TColon; sp])
        with ([PWs (nlsp (2 * S d))] ++ [PTok (str_token FJson k); PTok TColon; sp]).
      rewrite <- app_assoc, <- app_assoc. apply wf_seq; [cbn [wf_pieces]; rewrite ws_nlsp; reflexivity | left; reflexivity |].
      apply Hkeysp. apply wf_seq; auto.
      + apply wf_seq; auto. destruct (is_nil r); [right; left; reflexivity | right; right; exists [x2c], []; split; reflexivity].
        destruct (is_nil r); reflexivity.
      + destruct r as [|[k2 m2] r2]; [right; left; reflexivity|]. right; right. cbn [obj_items]. eexists; eexists; split; reflexivity.
    - (* SEN tight *)
      rewrite <- app_assoc. apply Hkey. apply wf_seq; auto.
      + apply wf_seq; auto. destruct (is_nil r); [right; left; reflexivity | right; right; exists [x20], []; split; reflexivity].
        destruct (is_nil r); reflexivity.
      + destruct r; [right; left; reflexivity|]. left. cbn [is_nil]. rewrite end_pend_app. reflexivity.
    - (* SEN indent *)
      change ([PWs (nlsp (2 * S d)); PTok (str_token FSen k); PTok TColon; sp])
        with ([PWs (nlsp (2 * S d))] ++ [PTok (str_token FSen k); PTok TColon; sp]).
      rewrite <- app_assoc, <- app_assoc. apply wf_seq; [cbn [wf_pieces]; rewrite ws_nlsp; reflexivity | left; reflexivity |].
      apply Hkeysp. apply wf_seq; auto.
      destruct r as [|[k2 m2] r2]; [right; left; reflexivity|]. right; right. cbn [obj_items]. eexists; eexists; split; reflexivity.
  Qed.

  Lemma wr_wf : forall v, E v.
  Proof.
    induction v using jv_ind2; unfold E; intros Hok d; cbn [text_ok] in Hok; cbn [wr].
    - cbn [wf_pieces]. rewrite keyword_tok_ok by auto. reflexivity.
    - destruct b; cbn [wf_pieces]; rewrite keyword_tok_ok by auto; reflexivity.
    - cbn [wf_pieces tok_ok]. rewrite int_tok_ok. reflexivity.
    - cbn [wf_pieces tok_ok]. rewrite int_tok_ok. reflexivity.
    - cbn [wf_pieces tok_ok]. rewrite dec_tok_ok by assumption. reflexivity.
    - cbn [wf_pieces]. rewrite (str_tok_ok _ _ _ Hok). reflexivity.
    - destruct l as [|x l']; [reflexivity|].
      change (PTok TLBrack :: ?a) with ([PTok TLBrack] ++ a).
      apply wf_seq; [reflexivity | left; reflexivity |].
      rewrite wf_app. rewrite (arr_items_wf (x :: l') d H Hok). cbn [andb].
      destruct sty; cbn [app]; [apply wf_close | apply wf_close_nl]; auto.
    - apply andb_true_iff in Hok. destruct Hok as [Hnd Hok].
      change (PTok TLBrace :: ?a) with ([PTok TLBrace] ++ a).
      apply wf_seq; [reflexivity | left; reflexivity |].
      rewrite wf_app. rewrite (obj_items_wf kvs d H Hok). cbn [andb].
      destruct sty, f, kvs; cbn [app]; try (apply wf_close; auto); apply wf_close_nl; auto.
  Qed.
End WriterWf.

(* the tokens among the pieces are the tokens of the value, whatever the style and depth *)
Lemma toks_sep : forall (c : bool) (p : list piece), (p = [sp] \/ p = [comma]) -> toks (if c then [] else p) = [].
Proof. intros c p [-> | ->]; destruct c; reflexivity. Qed.
Lemma toks_wr : forall f sty v d, toks (wr f sty d v) = tokens_of f v.
Proof.
  intros f sty v. induction v using jv_ind2; intros d; try reflexivity.
  - destruct b; reflexivity.
  - destruct l as [|x l']; [reflexivity|]. cbn [wr tokens_of toks].
    rewrite !toks_app. f_equal.
    assert (Hi : forall l d, Forall (fun v => forall d, toks (wr f sty d v) = tokens_of f v) l ->
                 toks (arr_items f sty d (wr f sty (S d)) l) = flat_map (tokens_of f) l).
    { clear. induction l as [|m r IH]; intros d HF; [reflexivity|]. inversion HF; subst.
      cbn [arr_items flat_map]. rewrite toks_app, IH by assumption. f_equal.
      destruct f, sty; cbn [toks]; rewrite ?toks_app, ?H1; rewrite ?toks_sep by auto; rewrite ?app_nil_r; reflexivity. }
    rewrite (Hi _ _ H). f_equal. destruct sty; reflexivity.
  - cbn [wr tokens_of toks]. rewrite !toks_app. f_equal.
    assert (Hi : forall l d, Forall (fun kv => forall d, toks (wr f sty d (snd kv)) = tokens_of f (snd kv)) l ->
                 toks (obj_items f sty d (wr f sty (S d)) l) =
                 flat_map (fun kv => str_token f (fst kv) :: TColon :: tokens_of f (snd kv)) l).
    { clear. induction l as [|[k m] r IH]; intros d HF; [reflexivity|]. inversion HF; subst. cbn [snd] in H1.
      cbn [obj_items flat_map fst snd]. rewrite toks_app, IH by assumption. f_equal.
      destruct f, sty; cbn [toks app sp]; rewrite ?toks_app, ?H1; rewrite ?toks_sep by auto; rewrite ?app_nil_r; reflexivity. }
    rewrite (Hi _ _ H). f_equal. destruct sty, f, kvs; reflexivity.
Qed.

Lemma text_value_ok : forall pretty f v, text_ok pretty f v = true -> value_ok f v = true.
Proof.
  intros pretty f v. induction v using jv_ind2; cbn [text_ok value_ok]; intros Hok; auto.
  - apply andb_true_iff in Hok. tauto.
  - unfold str_ok in Hok. apply andb_true_iff in Hok. destruct Hok as [_ Hok]. unfold strval_ok.
    destruct f; cbn [str_token]; [reflexivity|]. destruct (sen_quote s); [reflexivity|].
    cbn [orb] in Hok. apply andb_true_iff in Hok. tauto.
  - rewrite forallb_forall in *. rewrite Forall_forall in H. auto.
  - apply andb_true_iff in Hok. destruct Hok as [Hnd Hok]. rewrite Hnd. cbn [andb].
    rewrite forallb_forall in *. rewrite Forall_forall in H. intros kv Hin. specialize (Hok kv Hin).
    apply andb_true_iff in Hok. apply H; tauto.
Qed.

(* ---------------------------------------------------------------------------------------------- *)
(* the round trip *)
Lemma strip_no_bom : forall s, no_bom s = true -> strip_bom s = Some s.
Proof.
  intros s H. destruct s as [|b0 [|b1 [|b2 [|b3 r]]]]; try reflexivity. cbn [no_bom] in H. apply negb_true_iff in H.
  cbn [strip_bom]. rewrite H. reflexivity.
Qed.
Lemma num_start_not_ef : forall b st, num_start b = Some st -> Byte.eqb b xef = false.
Proof. intros b st. destruct b; vm_compute; intros H; try reflexivity; discriminate H. Qed.
Lemma num_end_no_bom : forall raw st r, num_end raw = Some st -> no_bom (raw ++ r) = true.
Proof.
  intros raw st r H. destruct raw as [|b t]; [discriminate|]. cbn [num_end] in H.
  destruct (num_start b) eqn:E; [|discriminate]. cbn [app no_bom]. rewrite (num_start_not_ef _ _ E). reflexivity.
Qed.
Lemma write_no_bom : forall f sty v, text_ok false f v = true -> top_ok f v = true -> no_bom (write f sty v) = true.
Proof.
  intros f sty v Hok Htop. unfold write. destruct v; cbn [wr].
  - destruct f; reflexivity.
  - destruct b, f; reflexivity.
  - unfold print. cbn [flat_map print_piece print_token]. destruct (print_int_scan z) as (st & E & _). eapply num_end_no_bom; eauto.
  - unfold print. cbn [flat_map print_piece print_token]. destruct (print_int_scan z) as (st & E & _). eapply num_end_no_bom; eauto.
  - cbn [text_ok] in Hok. unfold dec_ok in Hok. unfold print. cbn [flat_map print_piece print_token].
    destruct (num_end raw) eqn:E; [|discriminate]. eapply num_end_no_bom; eauto.
  - destruct f; [reflexivity|]. cbn [str_token]. destruct (sen_quote s) eqn:Q; [reflexivity|].
    unfold print. cbn [flat_map print_piece print_token]. rewrite (sen_quote_false s Q), app_nil_r.
    destruct s as [|b t]; [reflexivity|]. cbn [top_ok] in Htop. rewrite Q in Htop. cbn [orb] in Htop. exact Htop.
  - destruct l; reflexivity.
  - reflexivity.
Qed.
Lemma parse_of_tokens : forall f v, value_ok f v = true -> parse_tokens (tokens_of f v) = Some v.
Proof. intros f v H. unfold parse_tokens. rewrite (parse_tokens_of f v H (PS [] None) I). reflexivity. Qed.

(* any text that consists of the tokens of v separated (where needed) by white space or commas parses to v *)
Theorem parse_any_layout : forall f ps v,
  wf_pieces f PNone ps = true -> toks ps = tokens_of f v -> value_ok f v = true -> no_bom (print f ps) = true ->
  parse (print f ps) = Some v.
Proof.
  intros f ps v Hwf Ht Hv Hb. unfold parse. rewrite (strip_no_bom _ Hb). unfold parse_body.
  rewrite (lex_print f ps Hwf), Ht. apply parse_of_tokens. exact Hv.
Qed.

(* the four writers *)
Theorem write_parse_roundtrip : forall f sty v, text_ok false f v = true -> top_ok f v = true -> parse (write f sty v) = Some v.
Proof.
  intros f sty v H Ht. pose proof (write_no_bom f sty v H Ht) as Hb. unfold write in *. apply parse_any_layout.
  - apply (wr_wf f sty false v H).
  - apply toks_wr.
  - eapply text_value_ok; eauto.
  - exact Hb.
Qed.

(* ---------------------------------------------------------------------------------------------- *)
(* stand-alone corollaries *)
Theorem string_roundtrip : forall f s, utf8_ok s = true -> lex (print_token f (TStr s)) = Some [TStr s].
Proof. intros f s H. unfold lex. rewrite lex_quoted by assumption. reflexivity. Qed.
Theorem integer_roundtrip : forall z, parse (print_int z) = Some (if small z then JInt z else JBig z).
Proof.
  intros z. destruct (print_int_scan z) as (st & E & I & F).
  unfold parse. rewrite strip_no_bom by (rewrite <- (app_nil_r (print_int z)); eapply num_end_no_bom; eauto).
  unfold parse_body, lex. rewrite (lex_num _ _ _ E).
  assert (Hf : lex_finish (LNum st (List.rev (print_int z)), []) = Some [TNum true (print_int z)]).
  { cbn [lex_finish]. destruct st; try discriminate F; try discriminate I; cbn [List.rev app]; rewrite rev_involutive; reflexivity. }
  rewrite Hf. unfold parse_tokens. cbn [prun fold_left pstep]. unfold num_value. rewrite print_int_value. reflexivity.
Qed.

(* ---------------------------------------------------------------------------------------------- *)
(* the guard is satisfiable by documents with every kind of value ... *)
Definition sample_doc : jv :=
  JObj [(Bs "k", JArr [JNull; JBool true; JBool false; JInt 0; JInt (-42); JInt 9223372036854775799;
                       JBig 123456789012345678901234567890; JBig (-9223372036854775808); JDec (Bs "-1.5e-07");
                       JStr []; JStr (Bs "plain"); JStr (Bs "two words"); JStr (B [34; 92; 10; 1; 127]%N);
                       JStr (B [195; 169; 226; 128; 168; 240; 159; 152; 128; 239; 191; 189]%N);
                       JArr []; JObj []; JArr [JArr [JArr [JArr [JInt 1]]]]]);
        (Bs "null", JStr (Bs "nullx")); (B [228; 184; 173]%N, JObj [(Bs "a b", JStr (Bs "1"))])].
Example sample_in_guard : text_ok false FJson sample_doc = true /\ text_ok false FSen sample_doc = true /\ top_ok FSen (JStr (B [239; 189; 177; 98]%N)) = false.
Proof. repeat split; vm_compute; reflexivity. Qed.
Example sample_roundtrips :
  forallb (fun fs => match parse (write (fst fs) (snd fs) sample_doc) with Some v => true | None => false end)
          [(FJson, Tight); (FJson, Indent2); (FSen, Tight); (FSen, Indent2)] = true.
Proof. vm_compute. reflexivity. Qed.

(* ... and each of its clauses is there because the faithful model breaks the round trip without it *)
Theorem sen_keyword_string_refuted : parse (write FSen Tight (JStr (Bs "true"))) = Some (JBool true).
Proof. vm_compute. reflexivity. Qed.
Theorem sen_minus_string_refuted : parse (write FSen Tight (JArr [JStr (Bs "-1")])) = Some (JArr [JInt (-1)]).
Proof. vm_compute. reflexivity. Qed.
Theorem sen_backquote_string_refuted : parse (write FSen Indent2 (JObj [(Bs "a`b", JInt 1)])) = None.
Proof. vm_compute. reflexivity. Qed.
Theorem sen_plus_string_refuted : parse (write FSen Tight (JStr (Bs "+1"))) = None.
Proof. vm_compute. reflexivity. Qed.
Theorem invalid_utf8_refuted :
  parse (write FJson Tight (JStr (B [255]%N))) = Some (JStr (B [239; 191; 189]%N)) /\
  parse (write FSen Tight (JStr (B [97; 195]%N))) = Some (JStr (B [97; 239; 191; 189]%N)).
Proof. split; vm_compute; reflexivity. Qed.
Theorem sen_bom_string_refuted :
  parse (write FSen Tight (JStr (B [239; 187; 191; 98; 111; 109]%N))) = Some (JStr (Bs "bom")) /\
  parse (write FSen Indent2 (JStr (B [239; 189; 177; 98; 99; 100]%N))) = None.
Proof. split; vm_compute; reflexivity. Qed.
Theorem int64_edge_refuted :
  parse (write FJson Tight (JInt 9223372036854775807)) = Some (JBig 9223372036854775807) /\
  parse (write FSen Tight (JInt (-9223372036854775808))) = Some (JBig (-9223372036854775808)).
Proof. split; vm_compute; reflexivity. Qed.
