(* C18 — executable comparison of the model with what the harness observed. *)
From Coq Require Import List ZArith NArith Bool Strings.Byte String.
From C18 Require Import Tables Model Spec.
Import ListNotations.
Open Scope list_scope.

(* ---- canonical form: object keys sorted bytewise (Go's sort.Strings), recursively -------------- *)
Fixpoint bytes_ltb (a b : bytes) : bool :=
  match a, b with
  | [], [] => false
  | [], _ :: _ => true
  | _ :: _, [] => false
  | x :: a', y :: b' => (bN x <? bN y)%N || ((bN x =? bN y)%N && bytes_ltb a' b')
  end.
Fixpoint ins_kv (k : bytes) (v : jv) (l : list (bytes * jv)) : list (bytes * jv) :=
  match l with
  | [] => [(k, v)]
  | (k', v') :: r => if bytes_ltb k' k then (k', v') :: ins_kv k v r else (k, v) :: l
  end.
Fixpoint canon (v : jv) : jv :=
  match v with
  | JArr l => JArr (map canon l)
  | JObj kvs => JObj ((fix go (l : list (bytes * jv)) : list (bytes * jv) :=
                         match l with [] => [] | (k, x) :: r => ins_kv k (canon x) (go r) end) kvs)
  | _ => v
  end.
Fixpoint jv_eqb (a b : jv) {struct a} : bool :=
  match a, b with
  | JNull, JNull => true
  | JBool x, JBool y => Bool.eqb x y
  | JInt x, JInt y => Z.eqb x y
  | JBig x, JBig y => Z.eqb x y
  | JDec x, JDec y => bytes_eqb x y
  | JStr x, JStr y => bytes_eqb x y
  | JArr l, JArr m =>
    (fix go (l m : list jv) : bool :=
       match l, m with [], [] => true | x :: l', y :: m' => jv_eqb x y && go l' m' | _, _ => false end) l m
  | JObj l, JObj m =>
    (fix go (l m : list (bytes * jv)) : bool :=
       match l, m with
       | [], [] => true
       | (k, x) :: l', (k', y) :: m' => bytes_eqb k k' && jv_eqb x y && go l' m'
       | _, _ => false
       end) l m
  | _, _ => false
  end.
Definition same (a b : jv) : bool := jv_eqb (canon a) (canon b).
Definition osame (a b : option jv) : bool :=
  match a, b with Some x, Some y => same x y | None, None => true | _, _ => false end.

(* ---- cases ------------------------------------------------------------------------------------- *)
Inductive wkind :=
  | WExact (f : fmt) (s : style)     (* sen.Bytes / oj.JSON with sorted keys: the text itself is compared *)
  | WUnsorted (f : fmt)              (* the same writers without sorting: only what the text parses to is compared *)
  | WPretty (f : fmt).               (* pretty.Writer: the layout is not modelled, only what the text parses to *)
Inductive case :=
  (* bag holding v written with some options; the text; what parsing the text gave (None = error) *)
  | CText (w : wkind) (v : jv) (written : bytes) (reparsed : option jv)
  (* text rendered by the harness from v in some spelling (white space, quotes, escapes); what parsing gave *)
  | CParse (v : jv) (text : bytes) (parsed : option jv).

Definition wfmt (w : wkind) : fmt := match w with WExact f _ => f | WUnsorted f => f | WPretty f => f end.
Definition wpretty (w : wkind) : bool := match w with WPretty _ => true | _ => false end.
Definition code (agree in_guard spec_ok : bool) : N :=
  if agree then (if in_guard && negb spec_ok then 3%N else 0%N)
  else (if in_guard && negb spec_ok then 2%N else 1%N).

Definition check_case (c : case) : N :=
  match c with
  | CText w v written reparsed =>
    let agree_text := match w with WExact f s => bytes_eqb (write f s v) written | _ => true end in
    let agree := agree_text && osame (parse written) reparsed in
    code agree (text_ok (wpretty w) (wfmt w) v) (osame reparsed (Some v))
  | CParse v text parsed =>
    code (osame (parse text) parsed) (osame (parse text) (Some v)) (osame parsed (Some v))
  end.

Fixpoint check_all_from (i : N) (cs : list case) : list (N * N) :=
  match cs with
  | [] => []
  | c :: cs' => let r := check_case c in (if N.eqb r 0 then [] else [(i, r)]) ++ check_all_from (N.succ i) cs'
  end.
Definition check_all := check_all_from 0%N.

(* counters for the evidence *)
Definition in_guard (c : case) : bool :=
  match c with CText w v _ _ => text_ok (wpretty w) (wfmt w) v | CParse v text _ => osame (parse text) (Some v) end.
Definition guard_count (cs : list case) : N := N.of_nat (List.length (filter in_guard cs)).
Definition outside_guard_broken (cs : list case) : N :=
  N.of_nat (List.length (filter (fun c => match c with
                                        | CText w v _ r => negb (text_ok (wpretty w) (wfmt w) v) && negb (osame r (Some v))
                                        | _ => false end) cs)).
