(* C18 — executable comparison of the model with what the harness observed. *)
From Coq Require Import List ZArith NArith Bool Strings.Byte String.
From C18 Require Import Tables Model Spec ModelPath ModelBridge SpecPath ModelStore SpecStore.
Import ListNotations.
Open Scope list_scope.

(* ---- canonical form: object keys sorted bytewise (Go's sort.Strings), recursively -------------- *)
Fixpoint bytes_ltb (a b : bytes) : bool :=
  match a, b with
  | [], [] => false
  | [], _ :: _ => true
  | _ :: _, [] => false
  | x :: a', y :: b' => (bN x <? bN y)%N || ((bN x =? bN y)%N && bytes_ltb a' b')
  end.
Fixpoint ins_kv (k : bytes) (v : jv) (l : list (bytes * jv)) : list (bytes * jv) :=
  match l with
  | [] => [(k, v)]
  | (k', v') :: r => if bytes_ltb k' k then (k', v') :: ins_kv k v r else (k, v) :: l
  end.
Fixpoint canon (v : jv) : jv :=
  match v with
  | JArr l => JArr (map canon l)
  | JObj kvs => JObj ((fix go (l : list (bytes * jv)) : list (bytes * jv) :=
                         match l with [] => [] | (k, x) :: r => ins_kv k (canon x) (go r) end) kvs)
  | _ => v
  end.
Fixpoint jv_eqb (a b : jv) {struct a} : bool :=
  match a, b with
  | JNull, JNull => true
  | JBool x, JBool y => Bool.eqb x y
  | JInt x, JInt y => Z.eqb x y
  | JBig x, JBig y => Z.eqb x y
  | JDec x, JDec y => bytes_eqb x y
  | JStr x, JStr y => bytes_eqb x y
  | JArr l, JArr m =>
    (fix go (l m : list jv) : bool :=
       match l, m with [], [] => true | x :: l', y :: m' => jv_eqb x y && go l' m' | _, _ => false end) l m
  | JObj l, JObj m =>
    (fix go (l m : list (bytes * jv)) : bool :=
       match l, m with
       | [], [] => true
       | (k, x) :: l', (k', y) :: m' => bytes_eqb k k' && jv_eqb x y && go l' m'
       | _, _ => false
       end) l m
  | _, _ => false
  end.
Definition same (a b : jv) : bool := jv_eqb (canon a) (canon b).
Definition osame (a b : option jv) : bool :=
  match a, b with Some x, Some y => same x y | None, None => true | _, _ => false end.

Fixpoint lsame (a b : list jv) : bool :=
  match a, b with [], [] => true | x :: a', y :: b' => same x y && lsame a' b' | _, _ => false end.
Definition olsame (a b : option (list jv)) : bool :=
  match a, b with Some x, Some y => lsame x y | None, None => true | _, _ => false end.

(* ---- cases ------------------------------------------------------------------------------------- *)
Inductive wkind :=
  | WExact (f : fmt) (s : style)     (* sen.Bytes / oj.JSON with sorted keys: the text itself is compared *)
  | WUnsorted (f : fmt)              (* the same writers without sorting: only what the text parses to is compared *)
  | WPretty (f : fmt).               (* pretty.Writer: the layout is not modelled, only what the text parses to *)
Inductive pop :=
  | OSet (p : path) (x : lobj)
  | OGet (p : path)
  | OHas (p : path)
  | ORemove (p : path)
  | OWalk (p : path)
  | OModify (p : path) (z : Z)       (* (bag-modify b (lambda (x) z) path) *)
  | OModifyFn (p : path) (f : mfn).  (* (bag-modify b (lambda (x) x) path) / (lambda (x) 'constant) *)

(* ---- equality of Lisp objects and Go data ------------------------------------------------------- *)
Fixpoint lobj_eqb (a b : lobj) {struct a} : bool :=
  match a, b with
  | LNil, LNil | LT, LT => true
  | LFix x, LFix y | LBig x, LBig y | LOctet x, LOctet y | LTime x, LTime y => Z.eqb x y
  | LDouble x, LDouble y | LLong x, LLong y | LStr x, LStr y | LSym x, LSym y => bytes_eqb x y
  | LList l, LList m =>
    (fix go (l m : list lobj) : bool :=
       match l, m with [], [] => true | x :: l', y :: m' => lobj_eqb x y && go l' m' | _, _ => false end) l m
  | LTail x, LTail y => lobj_eqb x y
  | _, _ => false
  end.
Definition ikind_eqb (a b : ikind) : bool :=
  match a, b with
  | KInt, KInt | KInt8, KInt8 | KInt16, KInt16 | KInt32, KInt32 | KInt64, KInt64
  | KUint, KUint | KUint8, KUint8 | KUint16, KUint16 | KUint32, KUint32 | KUint64, KUint64 => true
  | _, _ => false
  end.
Fixpoint gov_eqb (a b : gov) {struct a} : bool :=
  match a, b with
  | GNil, GNil => true
  | GBool x, GBool y => Bool.eqb x y
  | GInt k x, GInt k' y => ikind_eqb k k' && Z.eqb x y
  | GF64 x, GF64 y | GStr x, GStr y | GBytes x, GBytes y | GNum x, GNum y => bytes_eqb x y
  | GTime x, GTime y => Z.eqb x y
  | GSlice l, GSlice m =>
    (fix go (l m : list gov) : bool :=
       match l, m with [], [] => true | x :: l', y :: m' => gov_eqb x y && go l' m' | _, _ => false end) l m
  | GMap l, GMap m =>
    (fix go (l m : list (bytes * gov)) : bool :=
       match l, m with
       | [], [] => true
       | (k, x) :: l', (k', y) :: m' => bytes_eqb k k' && gov_eqb x y && go l' m'
       | _, _ => false
       end) l m
  | _, _ => false
  end.
(* the Lisp value of bag data with keys in canonical order (the harness sorts the pairs it observes) *)
Definition native (v : jv) : lobj := to_native (canon v).
Fixpoint remove_first (x : lobj) (l : list lobj) : option (list lobj) :=
  match l with
  | [] => None
  | y :: r => if lobj_eqb x y then Some r else option_map (cons y) (remove_first x r)
  end.
Fixpoint perm_eqb (a b : list lobj) : bool :=
  match a with
  | [] => match b with [] => true | _ => false end
  | x :: a' => match remove_first x b with Some b' => perm_eqb a' b' | None => false end
  end.

Inductive case :=
  (* bag holding v written with some options; the text; what parsing the text gave (None = error) *)
  | CText (w : wkind) (v : jv) (written : bytes) (reparsed : option jv)
  (* text rendered by the harness from v in some spelling (white space, quotes, escapes); what parsing gave *)
  | CParse (v : jv) (text : bytes) (parsed : option jv)
  (* one step of an operation history on a bag: contents before, the operation, did it signal an error,
     contents after, and the Lisp values it returned / passed to the walk function *)
  | CPath (pre : jv) (op : pop) (err : bool) (post : jv) (res : list lobj)
  (* bag-native of a bag holding v, and the contents of make-bag of that Lisp value (None = error) *)
  | CNative (v : jv) (native : lobj) (back : option jv)
  (* slip.SimpleObject of plain Go data and slip.Simplify of the result *)
  | CBridge (g : gov) (o : lobj) (back : gov)
  (* json-parse of a text with several documents, the delivered bags kept and looked at after it returned:
     their contents in order (None = error) and whether they are all different objects *)
  | CMulti (docs : list jv) (text : bytes) (delivered : option (list jv)) (distinct : bool)
  (* one call of a history of bag-parse / bag-set calls on several bags held at the same time: the contents of
     ALL bags before, the call, did it signal an error, the contents of ALL bags after *)
  | CStore (pre : list jv) (op : sop) (err : bool) (post : list jv).

Definition wfmt (w : wkind) : fmt := match w with WExact f _ => f | WUnsorted f => f | WPretty f => f end.
Definition wpretty (w : wkind) : bool := match w with WPretty _ => true | _ => false end.
Definition code (agree in_guard spec_ok : bool) : N :=
  if agree then (if in_guard && negb spec_ok then 3%N else 0%N)
  else (if in_guard && negb spec_ok then 2%N else 1%N).

(* ---- one step of a history ------------------------------------------------------------------------
   For reads the reference semantics is the specification, for set/remove the model is the reference
   wherever it obeys the laws (the guard); so inside the guard any disagreement is a failing input. *)
Definition set_guard (p : path) (jx : jv) (pre : jv) : bool :=
  if concrete p then
    fits p pre && match bag_set p jx pre with SErr v' => same v' pre | SOk _ => true end
  else negb (is_container jx).        (* a container stored at several places is shared between them *)
Definition set_laws (p : path) (jx : jv) (pre post : jv) (ok : bool) : bool :=
  if negb (concrete p) then true
  else if ok then
    match get p post with Some c => same c jx | None => false end &&
    forallb (fun qc => negb (disjoint p (fst qc) pre) || match get (fst qc) post with Some c => same c (snd qc) | None => false end)
            (all_paths pre)
  else same post pre.
Definition remove_laws (p : path) (pre post : jv) : bool :=
  if negb (concrete p) then true
  else
    match List.rev p with
    | FKey _ :: _ => negb (mhas p post)
    | _ => true
    end &&
    forallb (fun qc => negb (rm_disjoint p (fst qc) pre) || match get (fst qc) post with Some c => same c (snd qc) | None => false end)
            (all_paths pre).

Definition check_path (pre : jv) (op : pop) (err : bool) (post : jv) (res : list lobj) : N :=
  let g := keys_unique pre in
  match op with
  | OGet p =>
    let want := match get p pre with None => [] | Some _ => map native (get_all_top p pre) end in
    let agree_res :=
      match res with
      | [r] => match want with
               | [] => lobj_eqb r LNil
               | w :: _ => if concrete p then lobj_eqb r w else existsb (lobj_eqb r) want
               end
      | _ => false
      end in
    code (negb err && same post pre && agree_res) g (negb err && same post pre && agree_res)
  | OHas p =>
    let agree := negb err && same post pre && match res with [r] => lobj_eqb r (if mhas p pre then LT else LNil) | _ => false end in
    (* has must say whether get finds something; ojg's Has does not for a path ending in a descent *)
    let ends_desc := match List.rev p with FDesc :: _ => true | _ => false end in
    let consistent := Bool.eqb (mhas p pre) (negb (match get_all_top p pre with [] => true | _ => false end)) in
    if agree then (if g && negb ends_desc && negb consistent then 3%N else 0%N)
    else if g && negb ends_desc then 2%N else 1%N
  | OWalk p =>
    let agree := negb err && same post pre && perm_eqb (map native (get_all_top p pre)) res in
    code agree g agree
  | OSet p x =>
    match object_to_bag x with
    | None => code err false true
    | Some jx =>
      let r := bag_set p jx pre in
      let compare_tree := sres_ok r || concrete p in
      let agree := Bool.eqb err (negb (sres_ok r)) && (negb compare_tree || same post (sres_tree r)) in
      let ing := g && set_guard p jx pre in
      if agree then (if ing && negb (set_laws p jx pre (sres_tree r) (sres_ok r)) then 3%N else 0%N)
      else if ing then 2%N else 1%N
    end
  | OModify p z =>
    match bag_modify p (JInt z) pre with
    | None => code (err && same post pre) g (err && same post pre)
    | Some v' => code (negb err && same post v') g (negb err && same post v')
    end
  | OModifyFn p f =>
    match bag_modify_fn p f pre with
    | None => code (err && same post pre) g (err && same post pre)
    | Some v' =>
      let agree := negb err && same post v' in
      (* the identity leaves the bag as it was when every match survives the native round trip *)
      let idg := match f with MId => forallb native_ok (get_all p pre) | MConst _ => false end in
      if agree then (if g && idg && negb (same v' pre) then 3%N else 0%N)
      else if g then 2%N else 1%N
    end
  | ORemove p =>
    match bag_remove p pre with
    | None => code (err && same post pre) g (err && same post pre)
    | Some v' =>
      let agree := negb err && same post v' in
      if agree then (if g && negb (remove_laws p pre v') then 3%N else 0%N)
      else if g then 2%N else 1%N
    end
  end.

Definition check_case (c : case) : N :=
  match c with
  | CText w v written reparsed =>
    let agree_text := match w with WExact f s => bytes_eqb (write f s v) written | _ => true end in
    let agree := agree_text && osame (parse written) reparsed in
    code agree (text_ok (wpretty w) (wfmt w) v && top_ok (wfmt w) v) (osame reparsed (Some v))
  | CParse v text parsed =>
    code (osame (parse text) parsed) (osame (parse text) (Some v)) (osame parsed (Some v))
  | CPath pre op err post res => check_path pre op err post res
  | CNative v nat back =>
    let agree := lobj_eqb (native v) nat && osame (object_to_bag nat) back in
    code agree (native_ok v && keys_unique v) (osame back (Some v))
  | CBridge g o back =>
    let agree := lobj_eqb (simple_object g) o && gov_eqb (simplify o) back in
    code agree (plain g) (gov_eqb back (norm_gov g))
  | CMulti docs text delivered distinct =>
    let agree := olsame (parse_multi text) delivered && distinct in
    code agree (olsame (parse_multi text) (Some docs)) (olsame delivered (Some docs) && distinct)
  | CStore pre op err post =>
    let m := sstep op pre in
    let agree := Bool.eqb err (snd m) && lsame post (fst m) in
    let g := forallb keys_unique pre in
    if agree then
      (* self-check: the model keeps the frame (store_others, store_path_frame) *)
      (if g && negb (frame_kept same op pre (fst m)) then 3%N else 0%N)
    else
      (* a failing input: what was observed changed another bag or a disjoint path (the frame of the property,
         judged on the observation alone), or the call is inside the guard where the model is the reference *)
      if g && (negb (frame_kept same op pre post) || store_guard same op pre) then 2%N else 1%N
  end.

Fixpoint check_all_from (i : N) (cs : list case) : list (N * N) :=
  match cs with
  | [] => []
  | c :: cs' => let r := check_case c in (if N.eqb r 0 then [] else [(i, r)]) ++ check_all_from (N.succ i) cs'
  end.
Definition check_all := check_all_from 0%N.

(* counters for the evidence *)
Definition in_guard (c : case) : bool :=
  match c with
  | CText w v _ _ => text_ok (wpretty w) (wfmt w) v && top_ok (wfmt w) v
  | CParse v text _ => osame (parse text) (Some v)
  | CPath pre (OSet p x) _ _ _ =>
    keys_unique pre && match object_to_bag x with Some jx => set_guard p jx pre | None => false end
  | CPath pre _ _ _ _ => keys_unique pre
  | CNative v _ _ => native_ok v && keys_unique v
  | CBridge g _ _ => plain g
  | CMulti docs text _ _ => olsame (parse_multi text) (Some docs)
  | CStore pre op _ _ => store_guard same op pre
  end.
Definition guard_count (cs : list case) : N := N.of_nat (List.length (filter in_guard cs)).
Definition outside_guard_broken (cs : list case) : N :=
  N.of_nat (List.length (filter (fun c => match c with
                                        | CText w v _ r => negb (text_ok (wpretty w) (wfmt w) v && top_ok (wfmt w) v) && negb (osame r (Some v))
                                        | _ => false end) cs)).

(* how many of the history steps were taken with an object still held from an earlier parse (the shape in which
   aliasing between parses would show) is counted by the harness; here: steps whose observation kept the frame *)
Definition store_frames_kept (cs : list case) : N :=
  N.of_nat (List.length (filter (fun c => match c with CStore pre op _ post => frame_kept same op pre post | _ => false end) cs)).
