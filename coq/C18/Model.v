(* C18 — model of JSON/SEN text <-> bag data (part 1 of the model; paths are in ModelPath.v, the Lisp and
   Go bridges in ModelBridge.v).

   What is transcribed from code:
   - string writers ojg.AppendJSONString / ojg.AppendSENString (string.go) with htmlSafe = false (bag options are
     ojg.DefaultOptions, HTMLUnsafe = true), including the UTF-8 decoding they perform (Go unicode/utf8
     DecodeRuneInString) and the SEN decision whether to quote;
   - the four exact writers slip's bag-write reaches when the pretty printer is not used (pkg/bag/write.go:
     prty && 1 < MaxDepth is false): sen.Bytes / oj.JSON, each with Indent 0 (tight, :depth <= 0) or Indent 2;
   - the SEN parser sen.Parser as a byte-at-a-time machine over the same class tables (sen/maps.go, Tables.v)
     for the fragment: white space and commas, "..." and '...' strings with escapes, bare tokens, numbers,
     [ ] { } and colons.  Comments, token functions f(...), string concatenation with + are NOT modelled
     (LErr); the split into a lexer and a token-level parser is the model's, not ojg's.
   Objects are association lists in writing order; Go maps have no order (the harness sorts keys). *)
From Coq Require Import List ZArith NArith Bool Strings.Byte String Decimal DecimalZ.
From C18 Require Import Tables.
Import ListNotations.
Open Scope list_scope.

Definition bytes := list byte.
Definition bN (b : byte) : N := Byte.to_N b.
Definition Bs (s : string) : bytes := list_byte_of_string s.
(* harness -> Coq: byte strings are written as lists of numbers *)
Definition B (l : list N) : bytes := map (fun n => match Byte.of_N n with Some b => b | None => x00 end) l.
Definition K (c : byte) : N := Byte.to_N c.
Definition cls (tbl : list N) (b : byte) : N := nth (N.to_nat (bN b)) tbl 0%N.
Definition byte_of_code (n : N) : byte := match Byte.of_N n with Some b => b | None => x00 end.

Fixpoint bytes_eqb (a b : bytes) : bool :=
  match a, b with
  | [], [] => true
  | x :: a', y :: b' => Byte.eqb x y && bytes_eqb a' b'
  | _, _ => false
  end.

(* ---------------------------------------------------------------------------------------------- *)
(* JSON values as the bag holds them: nil, bool, int64, json.Number (integer text / other text),
   float64 (by its shortest 'g' text), string, []any, map[string]any *)
Inductive jv :=
  | JNull
  | JBool (b : bool)
  | JInt (z : Z)            (* Go int64 *)
  | JBig (z : Z)            (* Go json.Number whose text is an integer literal *)
  | JDec (raw : bytes)      (* float64 (shortest text) or json.Number with a fraction/exponent: opaque text *)
  | JStr (s : bytes)
  | JArr (l : list jv)
  | JObj (kvs : list (bytes * jv)).

Inductive fmt := FJson | FSen.
Inductive style := Tight | Indent2.

(* ---------------------------------------------------------------------------------------------- *)
(* UTF-8 as Go's utf8.DecodeRuneInString / utf8.EncodeRune (the masks are written as subtractions, equal
   under the range checks that precede them) *)
Definition RuneError : N := 65533.
Definition in_rng (lo hi : N) (b : byte) : bool := (lo <=? bN b)%N && (bN b <=? hi)%N.

Definition decode_rune (s : bytes) : N * nat :=
  match s with
  | [] => (RuneError, 0)
  | s0 :: t =>
    let n0 := bN s0 in
    if (n0 <? 128)%N then (n0, 1)
    else if (n0 <? 194)%N || (244 <? n0)%N then (RuneError, 1)
    else
      let lo := if (n0 =? 224)%N then 160%N else if (n0 =? 240)%N then 144%N else 128%N in
      let hi := if (n0 =? 237)%N then 159%N else if (n0 =? 244)%N then 143%N else 191%N in
      match t with
      | [] => (RuneError, 1)
      | s1 :: t1 =>
        if negb (in_rng lo hi s1) then (RuneError, 1)
        else if (n0 <? 224)%N then (((n0 - 192) * 64 + (bN s1 - 128))%N, 2)
        else
          match t1 with
          | [] => (RuneError, 1)
          | s2 :: t2 =>
            if negb (in_rng 128 191 s2) then (RuneError, 1)
            else if (n0 <? 240)%N then (((n0 - 224) * 4096 + (bN s1 - 128) * 64 + (bN s2 - 128))%N, 3)
            else
              match t2 with
              | [] => (RuneError, 1)
              | s3 :: _ =>
                if negb (in_rng 128 191 s3) then (RuneError, 1)
                else (((n0 - 240) * 262144 + (bN s1 - 128) * 4096 + (bN s2 - 128) * 64 + (bN s3 - 128))%N, 4)
              end
          end
      end
  end.

(* utf8.EncodeRune for the 16-bit values a \uXXXX escape can denote (surrogates become U+FFFD) *)
Definition encode_rune (r : N) : bytes :=
  if (r <? 128)%N then [byte_of_code r]
  else if (r <? 2048)%N then [byte_of_code (192 + r / 64); byte_of_code (128 + r mod 64)]
  else if (55296 <=? r)%N && (r <=? 57343)%N then [xef; xbf; xbd]
  else [byte_of_code (224 + r / 4096); byte_of_code (128 + (r / 64) mod 64); byte_of_code (128 + r mod 64)].

(* ---------------------------------------------------------------------------------------------- *)
(* string.go: the escaping loop shared by AppendJSONString and AppendSENString.
   skip state: Go's `skip` index (bytes of a multi-byte rune that stay in the pending raw segment) is SCopy,
   the bytes of a rune replaced by an escape (start = i+cnt) are SDrop. *)
Inductive skipst := SNone | SCopy (n : nat) | SDrop (n : nat).
Definition str_tbl (f : fmt) : list N := match f with FJson => tbl_jMap | FSen => tbl_senMap end.
Definition hexdigits : bytes := Bs "0123456789abcdef".
Definition hexd (n : N) : byte := nth (N.to_nat n) hexdigits x30.
Definition u00 (b : byte) : bytes := Bs "\u00" ++ [hexd (bN b / 16); hexd (bN b mod 16)].
(* classes that leave the byte in the raw segment: 'o', 'h' (htmlSafe is false); for SEN also '0' and 'x' *)
Definition plain_class (f : fmt) (c : N) : bool :=
  (c =? K "o")%N || (c =? K "h")%N ||
  match f with FSen => (c =? K "0")%N || (c =? K "x")%N | FJson => false end.

Fixpoint esc (f : fmt) (st : skipst) (s : bytes) : bytes :=
  match s with
  | [] => []
  | b :: s' =>
    match st with
    | SCopy (S k) => b :: esc f (SCopy k) s'
    | SDrop (S k) => esc f (SDrop k) s'
    | _ =>
      let c := cls (str_tbl f) b in
      if plain_class f c then b :: esc f SNone s'
      else if (c =? K ".")%N then u00 b ++ esc f SNone s'
      else if (c =? K "8")%N then
        let '(r, cnt) := decode_rune s in
        if (r =? 8232)%N then Bs "\u2028" ++ esc f (SDrop (cnt - 1)) s'
        else if (r =? 8233)%N then Bs "\u2029" ++ esc f (SDrop (cnt - 1)) s'
        else if (r =? RuneError)%N then Bs "\ufffd" ++ esc f (SDrop (cnt - 1)) s'
        else b :: esc f (SCopy (cnt - 1)) s'
      else x5c :: byte_of_code c :: esc f SNone s'
    end
  end.

(* AppendSENString: does the loop set quote? (same walk as esc) *)
Fixpoint sen_loop_quote (st : skipst) (s : bytes) : bool :=
  match s with
  | [] => false
  | b :: s' =>
    match st with
    | SCopy (S k) => sen_loop_quote (SCopy k) s'
    | SDrop (S k) => sen_loop_quote (SDrop k) s'
    | _ =>
      let c := cls tbl_senMap b in
      if (c =? K "o")%N || (c =? K "0")%N || (c =? K "h")%N then sen_loop_quote SNone s'
      else if (c =? K "8")%N then
        let '(r, cnt) := decode_rune s in
        if (r =? 8232)%N || (r =? 8233)%N || (r =? RuneError)%N then true
        else sen_loop_quote (SCopy (cnt - 1)) s'
      else true                     (* 'x', '.', and the escaped ones *)
    end
  end.
Definition maxTokenLen : nat := 64.
Definition sen_quote (s : bytes) : bool :=
  match s with
  | [] => true                      (* written as "" *)
  | b0 :: _ =>
    let m := cls tbl_senMap b0 in
    Nat.ltb maxTokenLen (List.length s) ||
    negb ((m =? K "o")%N || (m =? K "8")%N || (m =? K "h")%N) ||
    sen_loop_quote SNone s
  end.

(* ---------------------------------------------------------------------------------------------- *)
(* tokens and pieces of text *)
Inductive token :=
  | TLBrace | TRBrace | TLBrack | TRBrack | TColon
  | TStr (s : bytes)                    (* quoted string, content unescaped *)
  | TBare (s : bytes)                   (* unquoted token, raw *)
  | TNum (isint : bool) (raw : bytes).  (* number, raw text *)
Inductive piece := PTok (t : token) | PWs (w : bytes).

Definition print_token (f : fmt) (t : token) : bytes :=
  match t with
  | TLBrace => [x7b] | TRBrace => [x7d] | TLBrack => [x5b] | TRBrack => [x5d] | TColon => [x3a]
  | TStr s => x22 :: esc f SNone s ++ [x22]
  | TBare s => esc f SNone s            (* the writer emits the loop's buffer without the quotes *)
  | TNum _ raw => raw
  end.
Definition print_piece (f : fmt) (p : piece) : bytes := match p with PTok t => print_token f t | PWs w => w end.
Definition print (f : fmt) (ps : list piece) : bytes := flat_map (print_piece f) ps.
Fixpoint toks (ps : list piece) : list token :=
  match ps with [] => [] | PTok t :: r => t :: toks r | PWs _ :: r => toks r end.

(* numbers: strconv.AppendInt / json.Number text of an integer *)
Fixpoint print_uint (u : uint) : bytes :=
  match u with
  | Nil => []
  | D0 r => x30 :: print_uint r | D1 r => x31 :: print_uint r | D2 r => x32 :: print_uint r
  | D3 r => x33 :: print_uint r | D4 r => x34 :: print_uint r | D5 r => x35 :: print_uint r
  | D6 r => x36 :: print_uint r | D7 r => x37 :: print_uint r | D8 r => x38 :: print_uint r
  | D9 r => x39 :: print_uint r
  end.
Definition print_int (z : Z) : bytes :=
  match Z.to_int z with Pos u => print_uint u | Neg u => x2d :: print_uint u end.

Definition str_token (f : fmt) (s : bytes) : token :=
  match f with FJson => TStr s | FSen => if sen_quote s then TStr s else TBare s end.

(* indentation strings of sen/writer.go and oj/writer.go: "\n" + spaces, at most 128 spaces *)
Definition nlsp (n : nat) : bytes := x0a :: repeat x20 (Nat.min n 128).
Definition is_container (v : jv) : bool := match v with JArr _ | JObj _ => true | _ => false end.

(* separator pieces *)
Definition sp : piece := PWs [x20].
Definition comma : piece := PWs [x2c].
Definition is_nil {A} (l : list A) : bool := match l with [] => true | _ => false end.

(* the elements of a non-empty array / the members of a non-empty object; w writes a value one level deeper *)
Section Items.
Variables (f : fmt) (sty : style) (d : nat) (w : jv -> list piece).
Fixpoint arr_items (l : list jv) : list piece :=
  match l with
  | [] => []
  | m :: r =>
    let last := is_nil r in
    match f, sty with
    | FSen, Tight => w m ++ (if last || is_container m then [] else [sp])     (* needSep; the last space becomes ']' *)
    | FSen, Indent2 => PWs (nlsp (2 * S d)) :: w m
    | FJson, Tight => w m ++ (if last then [] else [comma])
    | FJson, Indent2 => PWs (nlsp (2 * S d)) :: w m ++ (if last then [] else [comma])
    end ++ arr_items r
  end.
Fixpoint obj_items (l : list (bytes * jv)) : list piece :=
  match l with
  | [] => []
  | (k, m) :: r =>
    let last := is_nil r in
    match f, sty with
    | FSen, Tight => [PTok (str_token f k); PTok TColon] ++ w m ++ (if last then [] else [sp])
    | FSen, Indent2 => [PWs (nlsp (2 * S d)); PTok (str_token f k); PTok TColon; sp] ++ w m
    | FJson, Tight => [PTok (str_token f k); PTok TColon] ++ w m ++ (if last then [] else [comma])
    | FJson, Indent2 => [PWs (nlsp (2 * S d)); PTok (str_token f k); PTok TColon; sp] ++ w m ++ (if last then [] else [comma])
    end ++ obj_items r
  end.
End Items.

Fixpoint wr (f : fmt) (sty : style) (d : nat) (v : jv) {struct v} : list piece :=
  match v with
  | JNull => [PTok (TBare (Bs "null"))]
  | JBool true => [PTok (TBare (Bs "true"))]
  | JBool false => [PTok (TBare (Bs "false"))]
  | JInt z => [PTok (TNum true (print_int z))]
  | JBig z => [PTok (TNum true (print_int z))]
  | JDec raw => [PTok (TNum false raw)]
  | JStr s => [PTok (str_token f s)]
  | JArr [] => [PTok TLBrack; PTok TRBrack]
  | JArr l =>
    PTok TLBrack :: arr_items f sty d (wr f sty (S d)) l ++
    match sty with Tight => [] | Indent2 => [PWs (nlsp (2 * d))] end ++ [PTok TRBrack]
  | JObj kvs =>
    PTok TLBrace :: obj_items f sty d (wr f sty (S d)) kvs ++
    (* closing: SEN indent always breaks the line ("{" is "}"), JSON indent only when not empty *)
    match sty, f, kvs with
    | Tight, _, _ => []
    | Indent2, FSen, _ => [PWs (nlsp (2 * d))]
    | Indent2, FJson, [] => []
    | Indent2, FJson, _ => [PWs (nlsp (2 * d))]
    end ++ [PTok TRBrace]
  end.

Definition write (f : fmt) (sty : style) (v : jv) : bytes := print f (wr f sty 0 v).

(* ---------------------------------------------------------------------------------------------- *)
(* the lexer: sen.Parser.parseBuffer one byte at a time *)
Inductive nst := NNeg | NZero | NInt | NDot | NFrac | NExpSign | NExpZero | NExp.
Inductive lmode :=
  | LValue
  | LStr (q : byte) (acc : bytes)
  | LEsc (q : byte) (acc : bytes)
  | LU (q : byte) (acc : bytes) (n : nat) (r : N)
  | LBare (acc : bytes)
  | LNum (st : nst) (acc : bytes)
  | LErr.
Definition lstate := (lmode * list token)%type.      (* tokens in reverse *)

Definition num_tbl (st : nst) : list N :=
  match st with
  | NNeg => tbl_negMap | NZero => tbl_zeroMap | NInt => tbl_digitMap | NDot => tbl_dotMap | NFrac => tbl_fracMap
  | NExpSign => tbl_expSignMap | NExpZero => tbl_expZeroMap | NExp => tbl_expMap
  end.
Definition num_isint (st : nst) : bool := match st with NZero | NInt => true | _ => false end.

(* a byte seen between tokens (valueMap) *)
Definition value_step (out : list token) (b : byte) : lstate :=
  let c := cls tbl_valueMap b in
  if (c =? K "a")%N || (c =? K "b")%N then (LValue, out)
  else if (c =? K "i")%N then (LStr b [], out)
  else if (c =? K "j")%N then (LBare [b], out)
  else if (c =? K "k")%N then (LValue, TLBrack :: out)
  else if (c =? K "l")%N then (LValue, TLBrace :: out)
  else if (c =? K "m")%N then (LValue, TRBrack :: out)
  else if (c =? K "n")%N then (LValue, TRBrace :: out)
  else if (c =? K "f")%N then (LNum NNeg [b], out)
  else if (c =? K "g")%N then (LNum NZero [b], out)
  else if (c =? K "h")%N then (LNum NInt [b], out)
  else if Byte.eqb b x3a then (LValue, TColon :: out)   (* colonMap after a key; placement is checked by pstep *)
  else (LErr, out).       (* '.', and the unmodelled '+' (e), '/' (c), ')' (p) *)

(* a bracket that ends a bare token or a number and is then handled as in value_step *)
Definition bracket_of (c : N) : option token :=
  if (c =? K "k")%N then Some TLBrack
  else if (c =? K "l")%N then Some TLBrace
  else if (c =? K "m")%N then Some TRBrack
  else if (c =? K "n")%N then Some TRBrace
  else None.

(* what a byte means while a number is being read (the eight number maps) *)
Inductive nres := NCont (st : nst) | NTerm | NBracket (t : token) | NBad.
Definition nstep (ns : nst) (b : byte) : nres :=
  let c := cls (num_tbl ns) b in
  if (c =? K "r")%N || (c =? K "s")%N then NTerm
  else if (c =? K "O")%N then NCont NZero
  else if (c =? K "-")%N || (c =? K "N")%N then NCont NInt
  else if (c =? K "t")%N then NCont NDot
  else if (c =? K "v")%N then NCont NFrac
  else if (c =? K "w")%N then NCont NExpSign
  else if (c =? K "x")%N then NCont NExpZero
  else if (c =? K "y")%N then NCont NExp
  else match bracket_of c with Some t => NBracket t | None => NBad end.
(* ... while a bare token is being read (tokenMap) *)
Inductive bres := BCont | BTerm | BColon | BBracket (t : token) | BBad.
Definition bstep (b : byte) : bres :=
  let c := cls tbl_tokenMap b in
  if (c =? K "u")%N then BCont
  else if (c =? K "G")%N || (c =? K "J")%N then BTerm
  else if (c =? K "I")%N then BColon
  else match bracket_of c with Some t => BBracket t | None => BBad end.   (* '(' , ')' , '/' are not modelled *)
(* ... inside a quoted string (stringMap) *)
Inductive sres_ := SPlain | SQuote | SBack | SBad.
Definition sstep (b : byte) : sres_ :=
  let c := cls tbl_stringMap b in
  if (c =? K "R")%N then SPlain else if (c =? K "z")%N then SQuote else if (c =? K "A")%N then SBack else SBad.
Definition hexval (b : byte) : N :=
  if (bN b <? 58)%N then (bN b - 48)%N else if (bN b <? 71)%N then (bN b - 55)%N else (bN b - 87)%N.

Definition lstep (st : lstate) (b : byte) : lstate :=
  let '(m, out) := st in
  match m with
  | LErr => (LErr, out)
  | LValue => value_step out b
  | LStr q acc =>
    match sstep b with
    | SPlain => (LStr q (b :: acc), out)
    | SQuote => if Byte.eqb b q then (LValue, TStr (List.rev acc) :: out) else (LStr q (b :: acc), out)
    | SBack => (LEsc q acc, out)
    | SBad => (LErr, out)
    end
  | LEsc q acc =>
    let c := cls tbl_escMap b in
    if (c =? K "B")%N then (LStr q (byte_of_code (cls tbl_escByteMap b) :: acc), out)
    else if (c =? K "U")%N then (LU q acc 0 0%N, out)
    else (LErr, out)
  | LU q acc n r =>
    if (cls tbl_uMap b =? K "E")%N then
      let r' := (r * 16 + hexval b)%N in
      if Nat.eqb n 3 then (LStr q (List.rev (encode_rune r') ++ acc), out) else (LU q acc (S n) r', out)
    else (LErr, out)
  | LBare acc =>
    match bstep b with
    | BCont => (LBare (b :: acc), out)
    | BTerm => (LValue, TBare (List.rev acc) :: out)
    | BColon => (LValue, TColon :: TBare (List.rev acc) :: out)
    | BBracket t => (LValue, t :: TBare (List.rev acc) :: out)
    | BBad => (LErr, out)
    end
  | LNum ns acc =>
    match nstep ns b with
    | NCont ns' => (LNum ns' (b :: acc), out)
    | NTerm => (LValue, TNum (num_isint ns) (List.rev acc) :: out)
    | NBracket t => (LValue, t :: TNum (num_isint ns) (List.rev acc) :: out)
    | NBad => (LErr, out)
    end
  end.

Definition lex_run (st : lstate) (s : bytes) : lstate := fold_left lstep s st.
(* end of input: the maps that are "valid finishing" carry a 257th byte (value, token, zero, digit, frac, exp, space) *)
Definition lex_finish (st : lstate) : option (list token) :=
  match st with
  | (LValue, out) => Some (List.rev out)
  | (LBare acc, out) => Some (List.rev (TBare (List.rev acc) :: out))
  | (LNum ns acc, out) =>
    match ns with
    | NZero | NInt | NFrac | NExp => Some (List.rev (TNum (num_isint ns) (List.rev acc) :: out))
    | _ => None
    end
  | _ => None
  end.
Definition lex (s : bytes) : option (list token) := lex_finish (lex_run (LValue, []) s).

(* ---------------------------------------------------------------------------------------------- *)
(* numbers: value of an integer literal; gen.Number keeps an int64 only below BigLimit*10 *)
Fixpoint uint_of_bytes (s : bytes) : option uint :=
  match s with
  | [] => Some Nil
  | b :: r =>
    match uint_of_bytes r with
    | None => None
    | Some u =>
      match bN b with
      | 48%N => Some (D0 u) | 49%N => Some (D1 u) | 50%N => Some (D2 u) | 51%N => Some (D3 u) | 52%N => Some (D4 u)
      | 53%N => Some (D5 u) | 54%N => Some (D6 u) | 55%N => Some (D7 u) | 56%N => Some (D8 u) | 57%N => Some (D9 u)
      | _ => None
      end
    end
  end.
Definition int_of_bytes (s : bytes) : option Z :=
  match s with
  | b :: r => if Byte.eqb b x2d then option_map (fun u => Z.of_int (Neg u)) (uint_of_bytes r)
              else option_map (fun u => Z.of_int (Pos u)) (uint_of_bytes s)
  | [] => None
  end.
(* which integer literals the parser keeps as int64 (gen.Number): a literal that starts with a digit goes through
   the parser's digit loop, which turns to json.Number as soon as 18 digits reach gen.BigLimit = MaxInt64/10 and
   another digit follows; after a minus sign the digits go through Number.AddDigit, which only gives up when the
   value exceeds MaxInt64 *)
Definition int64_limit : Z := 9223372036854775800.     (* gen.BigLimit * 10 *)
Definition max_int64 : Z := 9223372036854775807.
Definition small (z : Z) : bool := if (z <? 0)%Z then (- z <=? max_int64)%Z else (z <? int64_limit)%Z.
Definition num_value (isint : bool) (raw : bytes) : option jv :=
  if isint then
    match int_of_bytes raw with
    | Some z => Some (if small z then JInt z else JBig z)
    | None => None
    end
  else Some (JDec raw).

(* ---------------------------------------------------------------------------------------------- *)
(* the token-level parser: sen.Parser's stack of open containers *)
Inductive frame :=
  | FrArr (acc : list jv)
  | FrObj (acc : list (bytes * jv)) (key : option bytes) (colon : bool).
Inductive pstate := PS (stk : list frame) (res : option jv) | PErr.

(* obj[k] = v on an association list kept in reverse order of first insertion *)
Fixpoint upsert (acc : list (bytes * jv)) (k : bytes) (v : jv) : option (list (bytes * jv)) :=
  match acc with
  | [] => None
  | (k', v') :: r =>
    if bytes_eqb k k' then Some ((k', v) :: r)
    else match upsert r k v with Some r' => Some ((k', v') :: r') | None => None end
  end.
Definition put (acc : list (bytes * jv)) (k : bytes) (v : jv) : list (bytes * jv) :=
  match upsert acc k v with Some a => a | None => (k, v) :: acc end.

Definition add_value (st : pstate) (v : jv) : pstate :=
  match st with
  | PErr => PErr
  | PS [] None => PS [] (Some v)
  | PS [] (Some _) => PErr                          (* OnlyOne: extra characters after close *)
  | PS (FrArr acc :: r) res => PS (FrArr (v :: acc) :: r) res
  | PS (FrObj acc (Some k) true :: r) res => PS (FrObj (put acc k v) None false :: r) res
  | PS (FrObj _ _ _ :: _) _ => PErr                 (* expected a key / a colon *)
  end.
Definition bare_value (s : bytes) : jv :=
  if bytes_eqb s (Bs "null") then JNull
  else if bytes_eqb s (Bs "true") then JBool true
  else if bytes_eqb s (Bs "false") then JBool false
  else JStr s.
Definition key_or_value (st : pstate) (s : bytes) (v : jv) : pstate :=
  match st with
  | PS (FrObj acc None _ :: r) res => PS (FrObj acc (Some s) false :: r) res
  | _ => add_value st v
  end.
Definition pstep (st : pstate) (t : token) : pstate :=
  match st with
  | PErr => PErr
  | PS stk res =>
    match t with
    | TStr s => key_or_value st s (JStr s)
    | TBare s => key_or_value st s (bare_value s)
    | TNum i raw => match num_value i raw with Some v => add_value st v | None => PErr end
    | TColon => match stk with FrObj acc (Some k) false :: r => PS (FrObj acc (Some k) true :: r) res | _ => PErr end
    | TLBrack => PS (FrArr [] :: stk) res          (* a second top-level value is refused when it is complete *)
    | TLBrace => PS (FrObj [] None false :: stk) res
    | TRBrack => match stk with FrArr acc :: r => add_value (PS r res) (JArr (List.rev acc)) | _ => PErr end
    | TRBrace => match stk with FrObj acc None _ :: r => add_value (PS r res) (JObj (List.rev acc)) | _ => PErr end
    end
  end.
Definition prun (st : pstate) (ts : list token) : pstate := fold_left pstep ts st.
Definition pfinish (st : pstate) : option jv :=
  match st with
  | PS [] (Some v) => Some v
  | PS [] None => Some JNull          (* empty input: the parser's result stays nil *)
  | _ => None
  end.
Definition parse_tokens (ts : list token) : option jv := pfinish (prun (PS [] None) ts).
Definition parse_body (s : bytes) : option jv :=
  match lex s with Some ts => parse_tokens ts | None => None end.
(* sen.Parser.Parse: a buffer of more than 3 bytes that starts with 0xEF must start with the UTF-8 byte order
   mark, which is skipped ("expected BOM" otherwise) *)
Definition strip_bom (s : bytes) : option bytes :=
  match s with
  | b0 :: b1 :: b2 :: b3 :: r =>
    if Byte.eqb b0 xef then (if Byte.eqb b1 xbb && Byte.eqb b2 xbf then Some (b3 :: r) else None) else Some s
  | _ => Some s
  end.
Definition parse (s : bytes) : option jv :=
  match strip_bom s with Some s' => parse_body s' | None => None end.

(* several documents in one input (json-parse: the parser's OnlyOne is off): every completed top-level value is
   delivered and the parser starts afresh; an empty input delivers nothing *)
Fixpoint prun_multi (st : pstate) (ts : list token) (acc : list jv) : option (list jv) :=
  match ts with
  | [] => match st with PS [] None => Some (List.rev acc) | _ => None end
  | t :: r =>
    match pstep st t with
    | PS [] (Some v) => prun_multi (PS [] None) r (v :: acc)
    | PErr => None
    | st' => prun_multi st' r acc
    end
  end.
Definition parse_multi (s : bytes) : option (list jv) :=
  match strip_bom s with
  | Some s' => match lex s' with Some ts => prun_multi (PS [] None) ts [] | None => None end
  | None => None
  end.
