(* C18 — model of a HISTORY of bag-parse / bag-set calls on SEVERAL bags held at the same time
   (pkg/bag/parse.go parseBag: sen.MustParse of the text, then obj.Any = v or Expr.MustSet(obj.Any, v);
   pkg/bag/set.go setBag: ObjectToBag of the value, then the same).  Every call parses / converts into fresh Go
   maps and slices, so a bag holds values: an operation changes the bag it is addressed to and nothing else.
   The state is the list of the bags' contents; the correspondence run looks at ALL bags after every call. *)
From Coq Require Import List ZArith NArith Bool Strings.Byte String.
From C18 Require Import Tables Model ModelPath ModelBridge.
Import ListNotations.
Open Scope list_scope.

Inductive sop :=
  | SParse (i : nat) (text : bytes) (p : option path)   (* (bag-parse b_i text [path]) / (send b_i :parse text [path]) *)
  | SSet (i : nat) (x : lobj) (p : option path).        (* (bag-set b_i x [path]) / (send b_i :set x [path]) *)
Definition starget (o : sop) : nat := match o with SParse i _ _ | SSet i _ _ => i end.
Definition spath (o : sop) : option path := match o with SParse _ _ p | SSet _ _ p => p end.

Fixpoint upd (i : nat) (x : jv) (st : list jv) : list jv :=
  match st, i with
  | [], _ => []
  | _ :: r, O => x :: r
  | b :: r, S i' => b :: upd i' x r
  end.

(* the value of the operation: what the text parses to / what the Lisp value converts to (None = the call
   signals an error before it touches anything) *)
Definition svalue (o : sop) : option jv :=
  match o with
  | SParse _ text _ => parse text
  | SSet _ x _ => object_to_bag x
  end.
(* storing x in a bag holding b: without a path the contents are replaced, with one it is Expr.MustSet *)
Definition store_value (x : jv) (p : option path) (b : jv) : jv * bool :=
  match p with
  | None => (x, false)
  | Some p => let r := bag_set p x b in (sres_tree r, negb (sres_ok r))
  end.
(* what the operation does to the bag it is addressed to; the flag says that the call signalled an error *)
Definition bstep (o : sop) (b : jv) : jv * bool :=
  match svalue o with
  | Some x => store_value x (spath o) b
  | None => (b, true)
  end.
Definition sstep (o : sop) (st : list jv) : list jv * bool :=
  match nth_error st (starget o) with
  | Some b => (upd (starget o) (fst (bstep o b)) st, snd (bstep o b))
  | None => (st, true)
  end.
Definition srun (ops : list sop) (st : list jv) : list jv := fold_left (fun st o => fst (sstep o st)) ops st.
