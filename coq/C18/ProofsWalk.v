(* C18 — proofs, part 5: walk / get-all for EVERY pattern (keys, indices, wildcards and any number of
   descents anywhere), in terms of get on the concrete paths the pattern stands for. *)
From Coq Require Import List ZArith NArith Bool Strings.Byte String Lia Arith.
From C18 Require Import Tables Model Spec ModelPath ModelBridge SpecPath ProofsLex ProofsText ProofsPath.
Import ListNotations.
Open Scope list_scope.

(* ---------------------------------------------------------------------------------------------- *)
(* instances of a pattern: a key or index stands for itself, a wildcard for any key or any index written
   from the front, a descent for any (possibly empty) concrete path *)
Inductive dinst : path -> path -> Prop :=
  | DNil : dinst [] []
  | DFrag : forall fq f q p, inst_frag fq f -> dinst q p -> dinst (fq :: q) (f :: p)
  | DDesc : forall d q p, concrete d = true -> dinst q p -> dinst (d ++ q) (FDesc :: p).

(* the same, followed inside a value: what ojg adds is that a descent only starts at a container (array or
   object), never at a scalar - not even for its zero-length match *)
Inductive vinst : jv -> path -> path -> Prop :=
  | VNil : forall v, vinst v [] []
  | VFrag : forall v x fq f q p, inst_frag fq f -> cget [fq] v = Some x -> vinst x q p -> vinst v (fq :: q) (f :: p)
  | VDesc : forall v x d q p, is_container v = true -> concrete d = true -> cget d v = Some x -> vinst x q p ->
            vinst v (d ++ q) (FDesc :: p).

(* ---------------------------------------------------------------------------------------------- *)
Lemma cget_cons : forall f q v, cget (f :: q) v = match cget [f] v with Some x => cget q x | None => None end.
Proof. intros f q v. exact (cget_app [f] q v). Qed.

Lemma cget_keys_unique : forall q v c, cget q v = Some c -> keys_unique v = true -> keys_unique c = true.
Proof.
  induction q as [|f r IH]; intros v c H Hu.
  - inversion H; subst. exact Hu.
  - destruct f; try discriminate; cbn [cget] in H.
    + destruct v; try discriminate. destruct (lookup k kvs) as [x|] eqn:El; [|discriminate].
      rewrite keys_unique_obj in Hu. apply andb_true_iff in Hu. destruct Hu as [_ Hu]. rewrite forallb_forall in Hu.
      apply (IH x c H). exact (Hu (k, x) (lookup_in _ _ _ El)).
    + destruct v; try discriminate. destruct (norm_idx i (List.length l)); [|discriminate].
      destruct (nth_error l n) as [x|] eqn:Ee; [|discriminate].
      rewrite keys_unique_arr in Hu. rewrite forallb_forall in Hu.
      apply (IH x c H). exact (Hu x (nth_error_In _ _ Ee)).
Qed.

Lemma cget_scalar : forall q v c, is_container v = false -> cget q v = Some c -> q = [].
Proof. intros q v c Hs H. destruct q as [|f r]; [reflexivity|]. destruct f; try discriminate; destruct v; discriminate. Qed.

Definition is_desc (f : frag) : bool := match f with FDesc => true | _ => false end.

(* one non-descent fragment: the matches of f :: r are the matches of r below the members f stands for *)
Lemma get_all_step : forall f r v c, is_desc f = false -> keys_unique v = true ->
  (In c (get_all (f :: r) v) <-> exists fq x, inst_frag fq f /\ cget [fq] v = Some x /\ In c (get_all r x)).
Proof.
  intros f r v c Hf Hu. destruct f; try discriminate; cbn [get_all].
  - (* key *)
    split.
    + intros Hin. destruct v; try destruct Hin. destruct (lookup k kvs) as [x|] eqn:El; [|destruct Hin].
      exists (FKey k), x. split; [constructor|]. split; [cbn [cget]; rewrite El; reflexivity | exact Hin].
    + intros (fq & x & Hi & Hg & Hin). inversion Hi; subst. cbn [cget] in Hg.
      destruct v; try discriminate. destruct (lookup k kvs); [|discriminate]. inversion Hg; subst. exact Hin.
  - (* index *)
    split.
    + intros Hin. destruct v; try destruct Hin. destruct (norm_idx i (List.length l)) as [n|] eqn:En; [|destruct Hin].
      destruct (nth_error l n) as [x|] eqn:Ee; [|destruct Hin].
      exists (FIdx i), x. split; [constructor|]. split; [cbn [cget]; rewrite En, Ee; reflexivity | exact Hin].
    + intros (fq & x & Hi & Hg & Hin). inversion Hi; subst. cbn [cget] in Hg.
      destruct v; try discriminate. destruct (norm_idx i (List.length l)); [|discriminate].
      destruct (nth_error l n); [|discriminate]. inversion Hg; subst. exact Hin.
  - (* wildcard *)
    split.
    + intros Hin. apply in_flat_map in Hin. destruct Hin as (x & Hx & Hc).
      destruct v; try destruct Hx.
      * cbn [children] in Hx. apply In_nth_error in Hx. destruct Hx as [n Hn].
        assert (Hlt : n < List.length l) by (apply nth_error_Some; congruence).
        exists (FIdx (Z.of_nat n)), x. split; [constructor; lia|]. split; [|exact Hc].
        cbn [cget]. rewrite norm_idx_nonneg by lia.
        assert (E : (Z.of_nat n <? Z.of_nat (List.length l))%Z = true) by (apply Z.ltb_lt; lia).
        rewrite E, Nat2Z.id, Hn. reflexivity.
      * rewrite keys_unique_obj in Hu. apply andb_true_iff in Hu. destruct Hu as [Hnd _].
        cbn [children] in Hx. apply in_map_iff in Hx. destruct Hx as ([k x'] & Hxe & Hx). cbn [snd] in Hxe. subst x'.
        exists (FKey k), x. split; [constructor|]. split; [|exact Hc].
        cbn [cget]. rewrite (lookup_nodup kvs k x Hnd Hx). reflexivity.
    + intros (fq & x & Hi & Hg & Hin). apply in_flat_map. exists x. split; [|exact Hin].
      inversion Hi; subst; cbn [cget] in Hg.
      * destruct v; try discriminate. destruct (lookup k kvs) as [y|] eqn:El; [|discriminate]. inversion Hg; subst.
        cbn [children]. apply in_map_iff. exists (k, x). split; [reflexivity | apply lookup_in; assumption].
      * destruct v; try discriminate. destruct (norm_idx i (List.length l)); [|discriminate].
        destruct (nth_error l n) as [y|] eqn:Ee; [|discriminate]. inversion Hg; subst.
        cbn [children]. eapply nth_error_In; eauto.
Qed.

(* ---------------------------------------------------------------------------------------------- *)
(* every pattern: Expr.Get returns exactly what get reaches through the instances of the pattern in which
   every descent starts at a container *)
Theorem walk_any_pattern : forall p v c, keys_unique v = true ->
  (In c (get_all p v) <-> exists q, vinst v q p /\ cget q v = Some c).
Proof.
  induction p as [|f r IH]; intros v c Hu.
  - cbn [get_all]. split.
    + intros [<- | []]. exists []. split; [constructor | reflexivity].
    + intros (q & Hi & Hq). inversion Hi; subst. inversion Hq. left; reflexivity.
  - destruct (is_desc f) eqn:Hf.
    + (* descent: at v and at everything below it, provided v is a container *)
      destruct f; try discriminate. cbn [get_all]. split.
      * intros Hin. destruct (is_container v) eqn:C; [|destruct Hin].
        apply in_flat_map in Hin. destruct Hin as (x & Hx & Hc).
        destruct (nodes_reach v x Hu Hx) as (d & Hd1 & _ & Hd3).
        apply (IH x c (cget_keys_unique d v x Hd3 Hu)) in Hc. destruct Hc as (q & Hi & Hq).
        exists (d ++ q). split; [eapply VDesc; eauto|]. rewrite cget_app, Hd3. exact Hq.
      * intros (q' & Hv & Hq). inversion Hv as [| ? ? ? ? ? ? Hif | ? x d q ? C Hd Hdx Hi]; subst.
        -- inversion Hif.
        -- rewrite C. apply in_flat_map. exists x. split; [eapply reach_nodes; eauto|].
           apply (IH x c (cget_keys_unique d v x Hdx Hu)). exists q. split; [exact Hi|].
           rewrite cget_app, Hdx in Hq. exact Hq.
    + rewrite (get_all_step f r v c Hf Hu). split.
      * intros (fq & x & Hi & Hg & Hin).
        apply (IH x c (cget_keys_unique [fq] v x Hg Hu)) in Hin. destruct Hin as (q & Hv & Hq).
        exists (fq :: q). split; [eapply VFrag; eauto|]. rewrite cget_cons, Hg. exact Hq.
      * intros (q' & Hv & Hq). inversion Hv as [| ? x fq ? q ? Hif Hg Hi | ]; subst; [|discriminate Hf].
        exists fq, x. split; [exact Hif|]. split; [exact Hg|].
        apply (IH x c (cget_keys_unique [fq] v x Hg Hu)). exists q. split; [exact Hi|].
        rewrite cget_cons, Hg in Hq. exact Hq.
Qed.

(* ---------------------------------------------------------------------------------------------- *)
(* the container condition only matters for a pattern that ENDS in a descent *)
Lemma vinst_dinst : forall v q p, vinst v q p -> dinst q p.
Proof. induction 1; [constructor | constructor; assumption | constructor; assumption]. Qed.

Lemma ends_desc_tail : forall f p, ends_desc (f :: p) = false -> ends_desc p = false.
Proof. intros f p H. destruct p as [|g r]; [reflexivity|]. rewrite ends_desc_cons in H. exact H. Qed.
Lemma ends_desc_single : ends_desc [FDesc] = true.
Proof. reflexivity. Qed.

Lemma dinst_nil_ends : forall q p, dinst q p -> q = [] -> p = [] \/ ends_desc p = true.
Proof.
  induction 1 as [| fq f q p Hif Hd IH | d q p Hc Hd IH]; intros Hq.
  - left; reflexivity.
  - discriminate.
  - apply app_eq_nil in Hq. destruct Hq as [_ Hq]. right. destruct (IH Hq) as [-> | He]; [reflexivity|].
    destruct p as [|g r]; [discriminate He|]. rewrite ends_desc_cons. exact He.
Qed.

Lemma dinst_vinst : forall q p, dinst q p -> forall v c, ends_desc p = false -> cget q v = Some c -> vinst v q p.
Proof.
  induction 1 as [| fq f q p Hif Hd IH | d q p Hc Hd IH]; intros v c He Hq.
  - constructor.
  - rewrite cget_cons in Hq. destruct (cget [fq] v) as [x|] eqn:Hg; [|discriminate].
    eapply VFrag; eauto. eapply IH; eauto. eapply ends_desc_tail; eauto.
  - rewrite cget_app in Hq. destruct (cget d v) as [x|] eqn:Hg; [|discriminate].
    assert (He' : ends_desc p = false) by (eapply ends_desc_tail; eauto).
    eapply VDesc; eauto.
    destruct (is_container v) eqn:C; [reflexivity|]. exfalso.
    pose proof (cget_scalar d v x C Hg) as ->. cbn [cget] in Hg. inversion Hg; subst x.
    pose proof (cget_scalar q v c C Hq) as Hqn.
    destruct (dinst_nil_ends q p Hd Hqn) as [-> | He2]; [discriminate He | congruence].
Qed.

(* walk / get-all with a pattern that does not end in a descent: exactly what get returns for the concrete
   paths that are instances of the pattern, a descent standing for any concrete path (also the empty one) *)
Theorem walk_pattern_desc : forall p v c, ends_desc p = false -> keys_unique v = true ->
  (In c (get_all p v) <-> exists q, dinst q p /\ cget q v = Some c).
Proof.
  intros p v c He Hu. rewrite (walk_any_pattern p v c Hu). split.
  - intros (q & Hv & Hq). exists q. split; [eapply vinst_dinst; eauto | exact Hq].
  - intros (q & Hd & Hq). exists q. split; [eapply dinst_vinst; eauto | exact Hq].
Qed.
Lemma ends_desc_top : forall p v, ends_desc p = false -> get_all_top p v = get_all p v.
Proof. intros p v H. destruct p as [|[] [|]]; try reflexivity. discriminate H. Qed.
Theorem walk_pattern_desc_top : forall p v c, ends_desc p = false -> keys_unique v = true ->
  (In c (get_all_top p v) <-> exists q, dinst q p /\ cget q v = Some c).
Proof. intros p v c He Hu. rewrite ends_desc_top by assumption. apply walk_pattern_desc; assumption. Qed.

(* for one that does the unguarded statement is false: ojg does not start a descent at a scalar, so the
   zero-length match of the descent is missed there *)
Theorem walk_trailing_descent_refuted :
  let p := [FKey (Bs "a"); FDesc] in
  let v := JObj [(Bs "a", JInt 1)] in
  get_all_top p v = [] /\ dinst [FKey (Bs "a")] p /\ cget [FKey (Bs "a")] v = Some (JInt 1).
Proof.
  cbv zeta. split; [reflexivity|]. split; [|reflexivity].
  change [FKey (Bs "a")] with (FKey (Bs "a") :: ([] ++ [])). constructor; [constructor|].
  apply DDesc; [reflexivity | constructor].
Qed.

(* without descents dinst is the fragment-wise instance relation of walk_pattern *)
Lemma dinst_no_desc : forall q p, no_desc p = true -> (dinst q p <-> inst q p).
Proof.
  intros q p. revert q. induction p as [|f r IH]; intros q Hn.
  - split; intros H; inversion H; subst; constructor.
  - cbn [no_desc forallb] in Hn. apply andb_true_iff in Hn. destruct Hn as [Hf Hr]. fold (no_desc r) in Hr. split.
    + intros H. inversion H; subst; [|discriminate Hf]. constructor; [assumption | apply IH; assumption].
    + intros H. inversion H; subst. constructor; [assumption | apply IH; assumption].
Qed.

(* non-vacuity: a pattern with a descent in the middle, and a double descent *)
Example walk_desc_example :
  let v := JObj [(Bs "a", JArr [JObj [(Bs "k", JInt 1)]; JInt 2]); (Bs "k", JInt 3)] in
  get_all [FDesc; FKey (Bs "k")] v = [JInt 3; JInt 1] /\
  get_all [FKey (Bs "a"); FDesc; FKey (Bs "k")] v = [JInt 1] /\
  get_all [FKey (Bs "a"); FDesc; FIdx (-1)] v = [JInt 2] /\
  List.length (get_all [FDesc; FDesc; FKey (Bs "k")] v) = 4.
Proof. repeat split; reflexivity. Qed.
