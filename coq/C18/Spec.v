(* C18 — specification side for the text round trip: what the property demands is simply
     parse (write v) = Some v
   and the guard text_ok delimits the values for which slip/ojg meet it. *)
From Coq Require Import List ZArith NArith Bool Strings.Byte String.
From C18 Require Import Tables Model.
Import ListNotations.
Open Scope list_scope.

(* the escaping loop never meets an undecodable byte (= Go's utf8.ValidString) *)
Fixpoint utf8_ok_from (st : skipst) (s : bytes) : bool :=
  match s with
  | [] => true
  | b :: s' =>
    match st with
    | SCopy (S k) => utf8_ok_from (SCopy k) s'
    | SDrop (S k) => utf8_ok_from (SDrop k) s'
    | _ =>
      if (bN b <? 128)%N then utf8_ok_from SNone s'
      else let '(r, cnt) := decode_rune s in
           if Nat.eqb cnt 1 then false else utf8_ok_from (SCopy (cnt - 1)) s'
    end
  end.
Definition utf8_ok (s : bytes) : bool := utf8_ok_from SNone s.

(* a string the SEN writer leaves unquoted must come back as the same bare token *)
Definition bare_safe (s : bytes) : bool :=
  match s with
  | [] => false
  | b0 :: _ => (cls tbl_valueMap b0 =? K "j")%N && forallb (fun b => (cls tbl_tokenMap b =? K "u")%N) s
  end.
Definition keyword (s : bytes) : bool :=
  bytes_eqb s (Bs "null") || bytes_eqb s (Bs "true") || bytes_eqb s (Bs "false").
Definition str_ok (f : fmt) (iskey : bool) (s : bytes) : bool :=
  utf8_ok s &&
  match f with
  | FJson => true
  | FSen => sen_quote s || (bare_safe s && (iskey || negb (keyword s)))
  end.

(* a number text: following the number maps from its first byte never leaves the number; where it ends *)
Definition num_start (b : byte) : option nst :=
  let c := cls tbl_valueMap b in
  if (c =? K "f")%N then Some NNeg else if (c =? K "g")%N then Some NZero else if (c =? K "h")%N then Some NInt else None.
Fixpoint num_scan (st : nst) (s : bytes) : option nst :=
  match s with
  | [] => Some st
  | b :: r => match nstep st b with NCont st' => num_scan st' r | _ => None end
  end.
Definition num_final (st : nst) : bool := match st with NZero | NInt | NFrac | NExp => true | _ => false end.
Definition num_end (raw : bytes) : option nst :=
  match raw with
  | [] => None
  | b :: r => match num_start b with Some st => num_scan st r | None => None end
  end.
(* a number text with a fraction or an exponent: all of it is one non-integer number for the parser *)
Definition dec_ok (raw : bytes) : bool :=
  match num_end raw with Some NFrac | Some NExp => true | _ => false end.

(* the text must not begin with the byte 0xEF, which the parser takes for (the start of) a byte order mark: only
   a top-level string that SEN writes without quotes can make it so *)
Definition no_bom (s : bytes) : bool := match s with b :: _ => negb (Byte.eqb b xef) | [] => true end.
Definition top_ok (f : fmt) (v : jv) : bool :=
  match f, v with
  | FSen, JStr ((b :: _) as s) => sen_quote s || negb (Byte.eqb b xef)
  | _, _ => true
  end.

Fixpoint keys_nodup (ks : list bytes) : bool :=
  match ks with
  | [] => true
  | k :: r => negb (existsb (bytes_eqb k) r) && keys_nodup r
  end.

(* pretty: the text is produced by pretty.Writer, which writes a json.Number as a quoted string *)
Fixpoint text_ok (pretty : bool) (f : fmt) (v : jv) {struct v} : bool :=
  match v with
  | JNull | JBool _ => true
  | JInt z => small z
  | JBig z => negb pretty && negb (small z)
  | JDec raw => dec_ok raw
  | JStr s => str_ok f false s
  | JArr l => forallb (text_ok pretty f) l
  | JObj kvs =>
    keys_nodup (map fst kvs) &&
    forallb (fun kv => str_ok f true (fst kv) && text_ok pretty f (snd kv)) kvs
  end.
