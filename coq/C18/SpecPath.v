(* C18 — specification side for paths and conversions: the laws the property names, as executable
   predicates on (before, operation, after), and the guards delimiting where the faithful model obeys them. *)
From Coq Require Import List ZArith NArith Bool Strings.Byte String.
From C18 Require Import Tables Model Spec ModelPath ModelBridge.
Import ListNotations.
Open Scope list_scope.

Definition concrete_frag (f : frag) : bool := match f with FKey _ | FIdx _ => true | _ => false end.
Definition concrete (p : path) : bool := forallb concrete_frag p.

(* every fragment of a concrete path meets the kind of node it addresses (a key at an object, an index at an
   array) as far as the path exists; otherwise ojg's set silently does nothing *)
Fixpoint fits (p : path) (v : jv) : bool :=
  match p with
  | [] => true
  | FKey k :: r =>
    match v with
    | JObj kvs => match lookup k kvs with Some c => fits r c | None => true end
    | _ => false
    end
  | FIdx i :: r =>
    match v with
    | JArr l => match norm_idx i (List.length l) with Some n => fits r (nth n l JNull) | None => true end
    | _ => false
    end
  | _ => false
  end.

(* two concrete paths part ways inside v: at some node both exist up to there and then take different
   members (different keys of the object, different elements of the array after resolving negative indices),
   or address it with fragments of different kinds *)
Fixpoint disjoint (p q : path) (v : jv) : bool :=
  match p, q with
  | FKey k :: p', FKey k' :: q' =>
    match v with
    | JObj kvs =>
      if bytes_eqb k k' then match lookup k kvs with Some c => disjoint p' q' c | None => false end else true
    | _ => true
    end
  | FIdx i :: p', FIdx j :: q' =>
    match v with
    | JArr l =>
      match norm_idx i (List.length l), norm_idx j (List.length l) with
      | Some n, Some m => if Nat.eqb n m then disjoint p' q' (nth n l JNull) else true
      | _, _ => true
      end
    | _ => true
    end
  | FKey _ :: _, FIdx _ :: _ => true
  | FIdx _ :: _, FKey _ :: _ => true
  | _, _ => false
  end.

(* the same for a removal at p: removing an element of an array moves the later elements down, so below the
   array p ends in only the earlier elements stay where they were *)
Fixpoint rm_disjoint (p q : path) (v : jv) : bool :=
  match p, q with
  | [FIdx i], FIdx j :: _ =>
    match v with
    | JArr l =>
      match norm_idx i (List.length l), norm_idx j (List.length l) with
      | Some n, Some m => Nat.ltb m n
      | _, _ => true
      end
    | _ => true
    end
  | FKey k :: p', FKey k' :: q' =>
    match v with
    | JObj kvs =>
      if bytes_eqb k k' then match lookup k kvs with Some c => rm_disjoint p' q' c | None => false end else true
    | _ => true
    end
  | FIdx i :: p', FIdx j :: q' =>
    match v with
    | JArr l =>
      match norm_idx i (List.length l), norm_idx j (List.length l) with
      | Some n, Some m => if Nat.eqb n m then rm_disjoint p' q' (nth n l JNull) else true
      | _, _ => true
      end
    | _ => true
    end
  | FKey _ :: _, FIdx _ :: _ => true
  | FIdx _ :: _, FKey _ :: _ => true
  | _, _ => false
  end.

(* all concrete paths (non-negative indices) to the nodes of v, with the node *)
Fixpoint all_paths (v : jv) : list (path * jv) :=
  ([], v) ::
  match v with
  | JArr l =>
    (fix go (n : nat) (l : list jv) : list (path * jv) :=
       match l with
       | [] => []
       | x :: r => map (fun qc => (FIdx (Z.of_nat n) :: fst qc, snd qc)) (all_paths x) ++ go (S n) r
       end) 0 l
  | JObj kvs =>
    (fix go (l : list (bytes * jv)) : list (path * jv) :=
       match l with
       | [] => []
       | (k, x) :: r => map (fun qc => (FKey k :: fst qc, snd qc)) (all_paths x) ++ go r
       end) kvs
  | _ => []
  end.

Fixpoint keys_unique (v : jv) : bool :=
  match v with
  | JArr l => (fix all (l : list jv) : bool := match l with [] => true | x :: r => keys_unique x && all r end) l
  | JObj kvs =>
    keys_nodup (map fst kvs) &&
    (fix all (l : list (bytes * jv)) : bool := match l with [] => true | (_, x) :: r => keys_unique x && all r end) kvs
  | _ => true
  end.

(* ---- conversions ------------------------------------------------------------------------------- *)
(* bag data that survives bag-native and make-bag of the result *)
Fixpoint native_ok (v : jv) : bool :=
  match v with
  | JNull | JBool true | JDec _ | JStr _ => true
  | JInt z => (-9223372036854775808 <=? z)%Z && (z <=? 9223372036854775807)%Z     (* an int64 *)
  | JBool false => false                (* comes back as null *)
  | JBig z => negb (fits64 z)           (* json.Number <-> bignum (repo_fixes C18-1, C18-3); one that fits an int64
                                           comes back as an int64 *)
  | JArr [] => false                    (* the empty list is nil *)
  | JArr l => (fix all (l : list jv) : bool := match l with [] => true | x :: r => native_ok x && all r end) l
  | JObj [] => false
  | JObj kvs =>
    keys_nodup (map fst kvs) &&
    (fix all (l : list (bytes * jv)) : bool := match l with [] => true | (_, x) :: r => native_ok x && all r end) kvs
  end.

(* plain Go data that survives SimpleObject and Simplify, and what it comes back as: integers as int64,
   []byte as string *)
Definition in_int64 (z : Z) : bool := (-9223372036854775808 <=? z)%Z && (z <=? 9223372036854775807)%Z.
Fixpoint plain (g : gov) : bool :=
  match g with
  | GNil | GBool true | GF64 _ | GStr _ | GBytes _ | GTime _ => true
  | GBool false => false
  | GInt _ z => in_int64 z
  | GNum raw => match int_of_bytes raw with Some z => in_int64 z | None => false end   (* repo_fixes C18-1 *)
  | GSlice l => (fix all (l : list gov) : bool := match l with [] => true | x :: r => plain x && all r end) l
  | GMap _ => false
  end.
Fixpoint norm_gov (g : gov) : gov :=
  match g with
  | GInt _ z => GInt KInt64 z
  | GNum raw => match int_of_bytes raw with Some z => GInt KInt64 z | None => g end
  | GBytes s => GStr s
  | GSlice l => GSlice (map norm_gov l)
  | _ => g
  end.
