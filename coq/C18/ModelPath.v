(* C18 — model of the JSONPath operations slip's bag functions perform through ojg/jp on plain bag data
   (map[string]any / []any trees): bag-get (Expr.First), bag-has (Expr.Has), bag-set (Expr.MustSet),
   bag-remove (Expr.MustRemove), bag-walk (Expr.Get).  Fragments: child key, index (negative = from the end),
   wildcard, recursive descent.  Not modelled: root/at, bracket, union, slice, filter fragments.

   The jp engine is ojg's (outside the repository); these definitions describe what it does on plain data,
   including its silent no-ops, the elements it creates on the way and what a failing set leaves behind;
   they are tied to the code by the correspondence run (get/has/walk results, the whole tree after every
   set/remove, error or not).  Objects are association lists (Go maps have no order): wherever ojg's result
   depends on map iteration order (first match of a wildcard over an object, which branches a failing
   multi-target set reached) the comparison is on sets / skipped, see Corr.v. *)
From Coq Require Import List ZArith NArith Bool Strings.Byte String.
From C18 Require Import Tables Model.
Import ListNotations.
Open Scope list_scope.

Inductive frag := FKey (k : bytes) | FIdx (i : Z) | FWild | FDesc.
Definition path := list frag.

Fixpoint lookup (k : bytes) (kvs : list (bytes * jv)) : option jv :=
  match kvs with
  | [] => None
  | (k', v) :: r => if bytes_eqb k k' then Some v else lookup k r
  end.
(* tv[k] = c on an association list: replace in place, otherwise add at the end *)
Fixpoint set_key (k : bytes) (c : jv) (kvs : list (bytes * jv)) : list (bytes * jv) :=
  match kvs with
  | [] => [(k, c)]
  | (k', v) :: r => if bytes_eqb k k' then (k', c) :: r else (k', v) :: set_key k c r
  end.
(* delete(tv, k) *)
Fixpoint del_key (k : bytes) (kvs : list (bytes * jv)) : list (bytes * jv) :=
  match kvs with
  | [] => []
  | (k', v) :: r => if bytes_eqb k k' then del_key k r else (k', v) :: del_key k r
  end.
(* i < 0 means len + i; None when out of bounds *)
Definition norm_idx (i : Z) (n : nat) : option nat :=
  let j := if (i <? 0)%Z then (Z.of_nat n + i)%Z else i in
  if (0 <=? j)%Z && (j <? Z.of_nat n)%Z then Some (Z.to_nat j) else None.
Fixpoint set_nth (n : nat) (c : jv) (l : list jv) : list jv :=
  match l, n with
  | [], _ => []
  | _ :: r, O => c :: r
  | x :: r, S n' => x :: set_nth n' c r
  end.
Fixpoint del_nth (n : nat) (l : list jv) : list jv :=
  match l, n with
  | [], _ => []
  | _ :: r, O => r
  | x :: r, S n' => x :: del_nth n' r
  end.

Definition children (v : jv) : list jv :=
  match v with JArr l => l | JObj kvs => map snd kvs | _ => [] end.
(* v and all its descendants, a node before its children *)
Fixpoint nodes (v : jv) : list jv :=
  v :: match v with
       | JArr l => (fix go (l : list jv) : list jv := match l with [] => [] | x :: r => nodes x ++ go r end) l
       | JObj kvs => (fix go (l : list (bytes * jv)) : list jv := match l with [] => [] | (_, x) :: r => nodes x ++ go r end) kvs
       | _ => []
       end.

(* ---- reading --------------------------------------------------------------------------------- *)
(* Expr.Get: every match *)
Fixpoint get_all (p : path) (v : jv) : list jv :=
  match p with
  | [] => [v]
  | FKey k :: r =>
    match v with
    | JObj kvs => match lookup k kvs with Some c => get_all r c | None => [] end
    | _ => []
    end
  | FIdx i :: r =>
    match v with
    | JArr l =>
      match norm_idx i (List.length l) with
      | Some n => match nth_error l n with Some c => get_all r c | None => [] end
      | None => []
      end
    | _ => []
    end
  | FWild :: r => flat_map (get_all r) (children v)
  | FDesc :: r =>
    (* only containers are followed: a scalar reached through earlier fragments yields nothing *)
    if is_container v then flat_map (get_all r) (nodes v) else []
  end.
(* the data the expression starts from is looked at whatever it is: ".." alone on a scalar gives that scalar *)
Definition get_all_top (p : path) (v : jv) : list jv :=
  match p with
  | [FDesc] => if is_container v then get_all p v else [v]
  | _ => get_all p v
  end.
Definition ends_desc (p : path) : bool := match List.rev p with FDesc :: _ => true | _ => false end.
(* Expr.Has: its own traversal, stops at the first match *)
Fixpoint mhas (p : path) (v : jv) : bool :=
  match p with
  | [] => true
  | FKey k :: r =>
    match v with
    | JObj kvs => match lookup k kvs with Some c => mhas r c | None => false end
    | _ => false
    end
  | FIdx i :: r =>
    match v with
    | JArr l =>
      match norm_idx i (List.length l) with
      | Some n => match nth_error l n with Some c => mhas r c | None => false end
      | None => false
      end
    | _ => false
    end
  | FWild :: r => existsb (mhas r) (children v)
  | FDesc :: r =>
    match r with
    | [] => match children v with [] => false | _ => true end     (* "if 0 < len(tv) return true", nothing else *)
    | _ => is_container v && existsb (mhas r) (nodes v)
    end
  end.

(* Expr.First: its own traversal too.  It is the first element of Get except for a path that ends in a descent,
   where (like Has) it only looks for a child of the node the descent starts from: nothing for an empty container
   or a scalar, never the node itself *)
Definition get (p : path) (v : jv) : option jv :=
  if ends_desc p && negb (mhas p v) then None else hd_error (get_all_top p v).

(* ---- bag-set ------------------------------------------------------------------------------------ *)
(* the tree afterwards; SErr = the call panics, and the tree is what the failed call left behind *)
Inductive sres := SOk (v : jv) | SErr (v : jv).
Definition wrap (g : jv -> jv) (r : sres) : sres :=
  match r with SOk c => SOk (g c) | SErr c => SErr (g c) end.
Definition sres_tree (r : sres) : jv := match r with SOk v => v | SErr v => v end.
Definition sres_ok (r : sres) : bool := match r with SOk _ => true | SErr _ => false end.

Definition set_last (f : frag) (x : jv) (v : jv) : sres :=
  match f with
  | FKey k => match v with JObj kvs => SOk (JObj (set_key k x kvs)) | _ => SOk v end   (* not a map: nothing happens *)
  | FIdx i =>
    match v with
    | JArr l => match norm_idx i (List.length l) with Some n => SOk (JArr (set_nth n x l)) | None => SErr v end
    | _ => SOk v
    end
  | FWild =>
    match v with
    | JArr l => SOk (JArr (map (fun _ => x) l))
    | JObj kvs => SOk (JObj (map (fun kv => (fst kv, x)) kvs))
    | _ => SOk v
    end
  | FDesc => SErr v
  end.

(* apply s to the container elements of a list one after the other, stopping at the first failure *)
Section Seq.
  Variable s : jv -> sres.
  Fixpoint seq_list (l : list jv) : list jv * bool :=
    match l with
    | [] => ([], true)
    | c :: t =>
      if is_container c then
        match s c with
        | SOk c' => let '(t', ok) := seq_list t in (c' :: t', ok)
        | SErr c' => (c' :: t, false)
        end
      else let '(t', ok) := seq_list t in (c :: t', ok)
    end.
  Fixpoint seq_kvs (l : list (bytes * jv)) : list (bytes * jv) * bool :=
    match l with
    | [] => ([], true)
    | (k, c) :: t =>
      if is_container c then
        match s c with
        | SOk c' => let '(t', ok) := seq_kvs t in ((k, c') :: t', ok)
        | SErr c' => ((k, c') :: t, false)
        end
      else let '(t', ok) := seq_kvs t in ((k, c) :: t', ok)
    end.
  Definition seq_children (v : jv) : sres :=
    match v with
    | JArr l => let '(l', ok) := seq_list l in if ok then SOk (JArr l') else SErr (JArr l')
    | JObj kvs => let '(l', ok) := seq_kvs kvs in if ok then SOk (JObj l') else SErr (JObj l')
    | _ => SOk v
    end.
End Seq.

Fixpoint mset (p : path) (x : jv) (v : jv) {struct p} : sres :=
  match p with
  | [] => SOk v
  | [f] => set_last f x v
  | f :: ((g :: _) as r) =>
    match f with
    | FKey k =>
      match v with
      | JObj kvs =>
        match lookup k kvs with
        | Some c =>
          if is_container c then wrap (fun c' => JObj (set_key k c' kvs)) (mset r x c)
          else SErr v                                  (* can not follow a scalar *)
        | None =>
          match g with
          | FKey _ => wrap (fun c' => JObj (set_key k c' kvs)) (mset r x (JObj []))
          | FIdx n =>
            if (n <? 0)%Z then SErr v                  (* can not deduce the length of the array to add *)
            else wrap (fun c' => JObj (set_key k c' kvs)) (mset r x (JArr (repeat JNull (S (Z.to_nat n)))))
          | _ => SErr v                                (* can not deduce what element to add *)
          end
        end
      | _ => SOk v
      end
    | FIdx i =>
      match v with
      | JArr l =>
        match norm_idx i (List.length l) with
        | Some n =>
          let c := nth n l JNull in
          if is_container c then wrap (fun c' => JArr (set_nth n c' l)) (mset r x c) else SErr v
        | None => SErr v                               (* out of bounds *)
        end
      | _ => SOk v
      end
    | FWild => seq_children (mset r x) v
    | FDesc =>
      (* the rest of the path is applied at v and at every container below it, children first *)
      (fix dset (v : jv) : sres :=
         match v with
         | JArr l =>
           let '(l', ok) :=
             (fix go (l : list jv) : list jv * bool :=
                match l with
                | [] => ([], true)
                | c :: t =>
                  if is_container c then
                    match dset c with
                    | SOk c' => let '(t', ok) := go t in (c' :: t', ok)
                    | SErr c' => (c' :: t, false)
                    end
                  else let '(t', ok) := go t in (c :: t', ok)
                end) l in
           if ok then mset r x (JArr l') else SErr (JArr l')
         | JObj kvs =>
           let '(l', ok) :=
             (fix go (l : list (bytes * jv)) : list (bytes * jv) * bool :=
                match l with
                | [] => ([], true)
                | (k, c) :: t =>
                  if is_container c then
                    match dset c with
                    | SOk c' => let '(t', ok) := go t in ((k, c') :: t', ok)
                    | SErr c' => ((k, c') :: t, false)
                    end
                  else let '(t', ok) := go t in ((k, c) :: t', ok)
                end) kvs in
           if ok then mset r x (JObj l') else SErr (JObj l')
         | _ => SOk v
         end) v
    end
  end.
(* Expr.set refuses a path that ends with a descent before touching anything *)
Definition bag_set (p : path) (x : jv) (v : jv) : sres :=
  match List.rev p with
  | [] => SErr v
  | FDesc :: _ => SErr v
  | _ => mset p x v
  end.

(* ---- bag-remove --------------------------------------------------------------------------------- *)
Definition remove_last (f : frag) (v : jv) : jv :=
  match f, v with
  | FKey k, JObj kvs => JObj (del_key k kvs)
  | FIdx i, JArr l => match norm_idx i (List.length l) with Some n => JArr (del_nth n l) | None => v end
  | FWild, JObj _ => JObj []
  | FWild, JArr _ => JArr []
  | _, _ => v
  end.
(* Expr.modify: apply g at every node the path matches *)
Fixpoint modify_at (p : path) (g : jv -> jv) (v : jv) {struct p} : jv :=
  match p with
  | [] => g v
  | FKey k :: r =>
    match v with
    | JObj kvs => match lookup k kvs with Some c => JObj (set_key k (modify_at r g c) kvs) | None => v end
    | _ => v
    end
  | FIdx i :: r =>
    match v with
    | JArr l =>
      match norm_idx i (List.length l) with
      | Some n => JArr (set_nth n (modify_at r g (nth n l JNull)) l)
      | None => v
      end
    | _ => v
    end
  | FWild :: r =>
    match v with
    | JArr l => JArr (map (modify_at r g) l)
    | JObj kvs => JObj (map (fun kv => (fst kv, modify_at r g (snd kv))) kvs)
    | _ => v
    end
  | FDesc :: r =>
    (fix dmod (v : jv) : jv :=
       modify_at r g
         match v with
         | JArr l => JArr ((fix go (l : list jv) : list jv := match l with [] => [] | c :: t => dmod c :: go t end) l)
         | JObj kvs => JObj ((fix go (l : list (bytes * jv)) : list (bytes * jv) :=
                               match l with [] => [] | (k, c) :: t => (k, dmod c) :: go t end) kvs)
         | _ => v
         end) v
  end.
(* None = the call panics (nothing has been touched then) *)
Definition bag_remove (p : path) (v : jv) : option jv :=
  match List.rev p with
  | [] => None
  | FDesc :: _ => None
  | _ :: FDesc :: _ => None
  | last :: sx => Some (modify_at (List.rev sx) (remove_last last) v)
  end.

(* bag-modify with a function that returns x whatever it is given: only existing members change *)
Definition bag_modify (p : path) (x : jv) (v : jv) : option jv :=
  match List.rev p with
  | FDesc :: _ => None
  | _ => Some (modify_at p (fun _ => x) v)
  end.
