(* C18 — proofs, part 6: modify, remove and set through PATTERNS (wildcards; descents where stated),
   for all values: what was only evaluated per run before. *)
From Coq Require Import List ZArith NArith Bool Strings.Byte String Lia Arith.
From C18 Require Import Tables Model Spec ModelPath ModelBridge SpecPath ProofsLex ProofsText ProofsPath ProofsBridge ProofsWalk.
Import ListNotations.
Open Scope list_scope.

(* ---------------------------------------------------------------------------------------------- *)
(* lists *)
Lemma flat_map_map_in : forall (A B C : Type) (f : B -> list C) (h : A -> B) (l : list A),
  flat_map f (map h l) = flat_map (fun x => f (h x)) l.
Proof. induction l as [|a l IH]; [reflexivity|]. cbn [map flat_map]. rewrite IH. reflexivity. Qed.
Lemma map_flat_map_out : forall (A B C : Type) (g : B -> C) (f : A -> list B) (l : list A),
  map g (flat_map f l) = flat_map (fun x => map g (f x)) l.
Proof. induction l as [|a l IH]; [reflexivity|]. cbn [flat_map]. rewrite map_app, IH. reflexivity. Qed.
Lemma flat_map_flat_map_in : forall (A B C : Type) (g : B -> list C) (f : A -> list B) (l : list A),
  flat_map g (flat_map f l) = flat_map (fun x => flat_map g (f x)) l.
Proof. induction l as [|a l IH]; [reflexivity|]. cbn [flat_map]. rewrite flat_map_app, IH. reflexivity. Qed.
Lemma flat_map_ext_in : forall (A B : Type) (f g : A -> list B) (l : list A),
  (forall x, In x l -> f x = g x) -> flat_map f l = flat_map g l.
Proof.
  induction l as [|a l IH]; intros H; [reflexivity|]. cbn [flat_map].
  rewrite (H a) by (left; reflexivity). rewrite IH by (intros; apply H; right; assumption). reflexivity.
Qed.
Lemma flat_map_nil_all : forall (A B : Type) (f : A -> list B) (l : list A), (forall x, In x l -> f x = []) -> flat_map f l = [].
Proof.
  induction l as [|a l IH]; intros H; [reflexivity|]. cbn [flat_map].
  rewrite (H a) by (left; reflexivity). rewrite IH by (intros; apply H; right; assumption). reflexivity.
Qed.

Lemma lookup_map_snd : forall (f : jv -> jv) k kvs,
  lookup k (map (fun kv : bytes * jv => (fst kv, f (snd kv))) kvs) = option_map f (lookup k kvs).
Proof.
  induction kvs as [|[k' x] r IH]; [reflexivity|]. cbn [map lookup fst snd]. destruct (bytes_eqb k k'); [reflexivity | exact IH].
Qed.
Lemma set_nth_same : forall n (l : list jv), n < List.length l -> set_nth n (nth n l JNull) l = l.
Proof. induction n; destruct l; cbn; intros; try lia; auto. f_equal. apply IHn. lia. Qed.
Lemma set_key_same : forall k c kvs, lookup k kvs = Some c -> set_key k c kvs = kvs.
Proof.
  induction kvs as [|[k' v'] t IH]; intros El; [discriminate|]. cbn [lookup set_key] in *.
  destruct (bytes_eqb k k') eqn:E; [inversion El; subst; reflexivity | f_equal; auto].
Qed.

(* ---------------------------------------------------------------------------------------------- *)
(* get-all distributes over concatenation of patterns *)
Lemma get_all_app : forall p r v, get_all (p ++ r) v = flat_map (get_all r) (get_all p v).
Proof.
  induction p as [|f p IH]; intros r v.
  - cbn [app get_all flat_map]. rewrite app_nil_r. reflexivity.
  - cbn [app]. destruct f; cbn [get_all].
    + destruct v; try reflexivity. destruct (lookup k kvs); [apply IH | reflexivity].
    + destruct v; try reflexivity. destruct (norm_idx i (List.length l)); [|reflexivity].
      destruct (nth_error l n); [apply IH | reflexivity].
    + rewrite flat_map_flat_map_in. apply flat_map_ext_in. intros; apply IH.
    + destruct (is_container v); [|reflexivity]. rewrite flat_map_flat_map_in. apply flat_map_ext_in. intros; apply IH.
Qed.

Lemma no_desc_cons : forall f r, no_desc (f :: r) = negb (is_desc f) && no_desc r.
Proof. intros f r. destruct f; reflexivity. Qed.
Lemma no_desc_app : forall p q, no_desc (p ++ q) = no_desc p && no_desc q.
Proof. intros. unfold no_desc. apply forallb_app. Qed.
Lemma ends_desc_app_last : forall p f, ends_desc (p ++ [f]) = is_desc f.
Proof. intros p f. unfold ends_desc. rewrite rev_app_distr. cbn [List.rev app]. destruct f; reflexivity. Qed.
(* a pattern that starts with a key, index or wildcard matches nothing in a scalar *)
Lemma get_all_scalar : forall f r v, is_desc f = false -> is_container v = false -> get_all (f :: r) v = [].
Proof. intros f r v Hf Hs. destruct f; try discriminate; destruct v; try discriminate; reflexivity. Qed.

(* ---------------------------------------------------------------------------------------------- *)
(* (1) modify through a pattern of keys, indices and wildcards: the matches afterwards are exactly the old
   matches, each replaced by what the function made of it *)
Theorem get_all_modify : forall p g v, no_desc p = true -> get_all p (modify_at p g v) = map g (get_all p v).
Proof.
  induction p as [|f r IH]; intros g v Hn; [reflexivity|].
  rewrite no_desc_cons in Hn. apply andb_true_iff in Hn. destruct Hn as [Hf Hr].
  destruct f; try discriminate; cbn [modify_at get_all].
  - destruct v; try reflexivity. destruct (lookup k kvs) as [c|] eqn:El.
    + cbn [get_all]. rewrite lookup_set_same. apply IH; assumption.
    + cbn [get_all]. rewrite El. reflexivity.
  - destruct v; try reflexivity. destruct (norm_idx i (List.length l)) as [n|] eqn:En.
    + pose proof (norm_idx_lt _ _ _ En) as Hlt. cbn [get_all]. rewrite set_nth_length, En.
      rewrite nth_error_set_same by assumption. rewrite (nth_nth_error n l JNull) by assumption. apply IH; assumption.
    + cbn [get_all]. rewrite En. reflexivity.
  - destruct v; try reflexivity; cbn [children].
    + rewrite flat_map_map_in, map_flat_map_out. apply flat_map_ext_in. intros; apply IH; assumption.
    + rewrite map_map. cbn [snd]. rewrite map_flat_map_out. rewrite !flat_map_map_in.
      apply flat_map_ext_in. intros; apply IH; assumption.
Qed.

(* the same, path by path: every instance of the pattern that reaches c before reaches (g c) afterwards *)
Theorem modify_inst : forall p g q v c, no_desc p = true -> inst q p -> cget q v = Some c ->
  cget q (modify_at p g v) = Some (g c).
Proof.
  induction p as [|f r IH]; intros g q v c Hn Hi Hq.
  - inversion Hi; subst. inversion Hq; subst. reflexivity.
  - rewrite no_desc_cons in Hn. apply andb_true_iff in Hn. destruct Hn as [Hf Hr].
    inversion Hi as [|fq ? q' ? Hfi Hi']; subst.
    inversion Hfi; subst; cbn [cget modify_at] in *.
    + destruct v; try discriminate. destruct (lookup k kvs) as [c0|] eqn:El; [|discriminate].
      cbn [cget]. rewrite lookup_set_same. apply IH; assumption.
    + destruct v; try discriminate. destruct (norm_idx i (List.length l)) as [n|] eqn:En; [|discriminate].
      pose proof (norm_idx_lt _ _ _ En) as Hlt. destruct (nth_error l n) as [c0|] eqn:Ee; [|discriminate].
      cbn [cget]. rewrite set_nth_length, En. rewrite nth_error_set_same by assumption.
      rewrite (nth_nth_error n l JNull) in Ee by assumption. inversion Ee; subst. apply IH; assumption.
    + destruct v; try discriminate. destruct (lookup k kvs) as [c0|] eqn:El; [|discriminate].
      cbn [cget]. rewrite lookup_map_snd, El. cbn [option_map]. apply IH; assumption.
    + destruct v; try discriminate. destruct (norm_idx i (List.length l)) as [n|] eqn:En; [|discriminate].
      destruct (nth_error l n) as [c0|] eqn:Ee; [|discriminate].
      cbn [cget]. rewrite map_length, En. rewrite (map_nth_error _ _ _ Ee). apply IH; assumption.
Qed.

(* ---------------------------------------------------------------------------------------------- *)
(* (2) remove through a pattern: bag-remove is modify of the parents *)
Lemma bag_remove_pattern : forall sx last v, no_desc (sx ++ [last]) = true ->
  bag_remove (sx ++ [last]) v = Some (modify_at sx (remove_last last) v).
Proof.
  intros sx last v Hn. rewrite no_desc_app in Hn. apply andb_true_iff in Hn. destruct Hn as [Hsx Hl].
  unfold bag_remove. rewrite rev_app_distr. change (List.rev [last] ++ List.rev sx) with (last :: List.rev sx).
  assert (Hhead : match List.rev sx with FDesc :: _ => False | _ => True end).
  { destruct (List.rev sx) as [|f t] eqn:E; [exact I|]. destruct f; try exact I.
    assert (Hin : In FDesc sx) by (apply in_rev; rewrite E; left; reflexivity).
    unfold no_desc in Hsx. rewrite forallb_forall in Hsx. specialize (Hsx _ Hin). discriminate. }
  destruct last; try discriminate; destruct (List.rev sx) as [|f t] eqn:E.
  all: try (assert (sx = []) by (destruct sx; [reflexivity | cbn in E; destruct (List.rev sx); discriminate]); subst; reflexivity).
  all: destruct f; try (rewrite <- E, rev_involutive; reflexivity).
  all: destruct Hhead.
Qed.

(* after removing the member k (or every member) of everything the pattern sx matches, has of that pattern is false *)
Theorem remove_pattern_has : forall sx last v v', no_desc sx = true -> (last = FWild \/ exists k, last = FKey k) ->
  bag_remove (sx ++ [last]) v = Some v' -> mhas (sx ++ [last]) v' = false /\ get_all (sx ++ [last]) v' = [].
Proof.
  intros sx last v v' Hn Hl H.
  assert (Hnl : no_desc (sx ++ [last]) = true).
  { rewrite no_desc_app, Hn. destruct Hl as [-> | [k ->]]; reflexivity. }
  rewrite bag_remove_pattern in H by assumption. inversion H; subst v'. clear H.
  assert (Hg : get_all (sx ++ [last]) (modify_at sx (remove_last last) v) = []).
  { rewrite get_all_app, get_all_modify by assumption. rewrite flat_map_map_in. apply flat_map_nil_all. intros c _.
    destruct Hl as [-> | [k ->]]; cbn [get_all].
    - destruct c; reflexivity.
    - destruct c; try reflexivity. cbn [remove_last]. rewrite lookup_del_same. reflexivity. }
  split; [|exact Hg]. rewrite has_get_agree.
  - rewrite Hg. reflexivity.
  - rewrite ends_desc_app_last. destruct Hl as [-> | [k ->]]; reflexivity.
Qed.

(* ---------------------------------------------------------------------------------------------- *)
(* (3) a modify whose function gives back what it was given changes nothing - for EVERY pattern that does not
   end in a descent (wildcards and descents anywhere) *)
Lemma modify_scalar : forall p g v, ends_desc p = false -> p <> [] -> is_container v = false -> modify_at p g v = v.
Proof.
  induction p as [|f r IH]; intros g v He Hne Hs; [congruence|].
  destruct f; cbn [modify_at].
  - destruct v; try discriminate; reflexivity.
  - destruct v; try discriminate; reflexivity.
  - destruct v; try discriminate; reflexivity.
  - destruct r as [|f2 r2]; [discriminate He|]. rewrite ends_desc_cons in He.
    destruct v; try discriminate; apply IH; auto; discriminate.
Qed.

Lemma modify_desc_unfold : forall r g v, modify_at (FDesc :: r) g v =
  modify_at r g match v with
                | JArr l => JArr (map (modify_at (FDesc :: r) g) l)
                | JObj kvs => JObj (map (fun kv => (fst kv, modify_at (FDesc :: r) g (snd kv))) kvs)
                | _ => v
                end.
Proof.
  intros r g v. destruct v; try reflexivity.
  assert (Hgo : forall (F : jv -> jv) (l : list (bytes * jv)),
            (fix go (l : list (bytes * jv)) : list (bytes * jv) :=
               match l with [] => [] | (k, c) :: t => (k, F c) :: go t end) l = map (fun kv => (fst kv, F (snd kv))) l).
  { intros F l. induction l as [|[k a] l IH]; [reflexivity|]. cbn [map fst snd]. f_equal. exact IH. }
  rewrite <- Hgo. reflexivity.
Qed.

Lemma map_id_in : forall (A : Type) (f : A -> A) (l : list A), (forall x, In x l -> f x = x) -> map f l = l.
Proof. induction l as [|a l IH]; intros H; [reflexivity|]. cbn [map]. rewrite (H a) by (left; reflexivity). f_equal. apply IH. intros; apply H; right; assumption. Qed.

Lemma in_nodes_arr : forall x l c, In x l -> In c (nodes x) -> In c (nodes (JArr l)).
Proof. intros x l c Hx Hc. rewrite nodes_arr. right. apply in_flat_map. exists x. split; assumption. Qed.
Lemma in_nodes_obj : forall kv kvs c, In kv kvs -> In c (nodes (snd kv)) -> In c (nodes (JObj kvs)).
Proof. intros kv kvs c Hx Hc. rewrite nodes_obj. right. apply in_flat_map. exists kv. split; assumption. Qed.
Lemma nodes_self : forall v, In v (nodes v).
Proof. intros v. destruct v; left; reflexivity. Qed.

Theorem modify_fixed : forall p g v, ends_desc p = false ->
  (forall c, In c (get_all p v) -> g c = c) -> modify_at p g v = v.
Proof.
  induction p as [|f r IH]; intros g v He Hfix.
  - cbn [modify_at]. apply Hfix. left; reflexivity.
  - assert (Her : r <> [] -> ends_desc r = false) by (intros; eapply ends_desc_tail; eauto).
    destruct f; cbn [get_all] in Hfix.
    + cbn [modify_at]. destruct v; try reflexivity. destruct (lookup k kvs) as [c|] eqn:El; [|reflexivity].
      rewrite IH; [rewrite set_key_same by assumption; reflexivity | eapply ends_desc_tail; eauto | exact Hfix].
    + cbn [modify_at]. destruct v; try reflexivity. destruct (norm_idx i (List.length l)) as [n|] eqn:En; [|reflexivity].
      pose proof (norm_idx_lt _ _ _ En) as Hlt. rewrite (nth_nth_error n l JNull) in Hfix by assumption.
      rewrite IH; [rewrite set_nth_same by assumption; reflexivity | eapply ends_desc_tail; eauto | exact Hfix].
    + cbn [modify_at]. destruct v; try reflexivity; cbn [children] in Hfix.
      * f_equal. apply map_id_in. intros x Hx. apply IH; [eapply ends_desc_tail; eauto|].
        intros c Hc. apply Hfix. apply in_flat_map. exists x. split; assumption.
      * f_equal. apply map_id_in. intros [k x] Hx. cbn [fst snd]. f_equal. apply IH; [eapply ends_desc_tail; eauto|].
        intros c Hc. apply Hfix. apply in_flat_map. exists x. split; [|exact Hc].
        apply in_map_iff. exists (k, x). split; [reflexivity | exact Hx].
    + (* descent *)
      assert (Hr : ends_desc r = false) by (eapply ends_desc_tail; eauto).
      assert (Hrne : r <> []) by (intros ->; discriminate He).
      destruct (is_container v) eqn:C.
      2:{ apply modify_scalar; [exact He | discriminate | exact C]. }
      assert (Hall : forall x, In x (nodes v) -> forall c, In c (get_all r x) -> g c = c).
      { intros x Hx c Hc. apply Hfix. apply in_flat_map. exists x. split; assumption. }
      clear Hfix C. revert Hall. induction v using jv_ind2; intros Hall;
        try (rewrite modify_desc_unfold; apply IH; [exact Hr | intros c Hc; apply (Hall _ (nodes_self _) c Hc)]).
      * rewrite modify_desc_unfold.
        assert (Hl : map (modify_at (FDesc :: r) g) l = l).
        { apply map_id_in. intros x Hx. rewrite Forall_forall in H. apply (H x Hx).
          intros y Hy c Hc. apply (Hall y); [eapply in_nodes_arr; eauto | exact Hc]. }
        rewrite Hl. apply IH; [exact Hr | intros c Hc; apply (Hall _ (nodes_self _) c Hc)].
      * rewrite modify_desc_unfold.
        assert (Hl : map (fun kv : bytes * jv => (fst kv, modify_at (FDesc :: r) g (snd kv))) kvs = kvs).
        { apply map_id_in. intros [k x] Hx. cbn [fst snd]. f_equal. rewrite Forall_forall in H. apply (H (k, x) Hx).
          intros y Hy c Hc. apply (Hall y); [eapply (in_nodes_obj (k, x)); eauto | exact Hc]. }
        rewrite Hl. apply IH; [exact Hr | intros c Hc; apply (Hall _ (nodes_self _) c Hc)].
Qed.

(* bag-modify with the identity function: the match goes to the function as native Lisp data and comes back
   through ObjectToBag; when every match survives that round trip the bag is unchanged *)
Theorem modify_identity : forall p v v', (forall c, In c (get_all p v) -> native_ok c = true) ->
  bag_modify_fn p MId v = Some v' -> v' = v.
Proof.
  intros p v v' Hok H. unfold bag_modify_fn in H.
  assert (He : ends_desc p = false).
  { unfold ends_desc. destruct (List.rev p) as [|f t]; [reflexivity|]. destruct f; try reflexivity. discriminate H. }
  assert (Hm : Some (modify_at p (mfn_apply MId) v) = Some v').
  { destruct (List.rev p) as [|f t]; [exact H|]. destruct f; try exact H. discriminate H. }
  inversion Hm; subst v'. apply modify_fixed; [exact He|].
  intros c Hc. unfold mfn_apply. rewrite (native_roundtrip c (Hok c Hc)). reflexivity.
Qed.

(* ---------------------------------------------------------------------------------------------- *)
(* (4) set through a pattern of keys, indices and wildcards *)
Definition stepped (s : jv -> sres) (c c' : jv) : Prop :=
  (is_container c = true /\ s c = SOk c') \/ (is_container c = false /\ c' = c).
Lemma seq_list_ok : forall s l l', seq_list s l = (l', true) -> Forall2 (stepped s) l l'.
Proof.
  intros s. induction l as [|c t IH]; intros l' H; cbn [seq_list] in H.
  - inversion H; subst. constructor.
  - destruct (is_container c) eqn:C.
    + destruct (s c) as [c'|c'] eqn:Es; [|inversion H].
      destruct (seq_list s t) as [t' ok] eqn:Et. inversion H; subst. constructor; [left; auto | apply IH; reflexivity].
    + destruct (seq_list s t) as [t' ok] eqn:Et. inversion H; subst. constructor; [right; auto | apply IH; reflexivity].
Qed.
Lemma seq_kvs_ok : forall s l l', seq_kvs s l = (l', true) ->
  Forall2 (fun kv kv' => fst kv' = fst kv /\ stepped s (snd kv) (snd kv')) l l'.
Proof.
  intros s. induction l as [|[k c] t IH]; intros l' H; cbn [seq_kvs] in H.
  - inversion H; subst. constructor.
  - destruct (is_container c) eqn:C.
    + destruct (s c) as [c'|c'] eqn:Es; [|inversion H].
      destruct (seq_kvs s t) as [t' ok] eqn:Et. inversion H; subst. constructor; [split; [reflexivity | left; auto] | apply IH; reflexivity].
    + destruct (seq_kvs s t) as [t' ok] eqn:Et. inversion H; subst. constructor; [split; [reflexivity | right; auto] | apply IH; reflexivity].
Qed.
Lemma seq_children_ok : forall s v v', seq_children s v = SOk v' ->
  match v with
  | JArr l => exists l', v' = JArr l' /\ Forall2 (stepped s) l l'
  | JObj kvs => exists l', v' = JObj l' /\ Forall2 (fun kv kv' => fst kv' = fst kv /\ stepped s (snd kv) (snd kv')) kvs l'
  | _ => v' = v
  end.
Proof.
  intros s v v' H. destruct v; cbn [seq_children] in H; try (inversion H; reflexivity).
  - destruct (seq_list s l) as [l' ok] eqn:E. destruct ok; [|discriminate]. inversion H; subst.
    exists l'. split; [reflexivity | apply seq_list_ok; assumption].
  - destruct (seq_kvs s kvs) as [l' ok] eqn:E. destruct ok; [|discriminate]. inversion H; subst.
    exists l'. split; [reflexivity | apply seq_kvs_ok; assumption].
Qed.
Lemma Forall2_in_r : forall (A B : Type) (R : A -> B -> Prop) l l' y, Forall2 R l l' -> In y l' -> exists x, In x l /\ R x y.
Proof.
  induction 1 as [|a b l l' Hab HF IH]; intros Hin; [destruct Hin|].
  destruct Hin as [<- | Hin]; [exists a; split; [left; reflexivity | assumption]|].
  destruct (IH Hin) as (x & Hx & HR). exists x. split; [right; assumption | assumption].
Qed.
Lemma Forall2_nth_error : forall (A B : Type) (R : A -> B -> Prop) l l' n x, Forall2 R l l' -> nth_error l n = Some x ->
  exists y, nth_error l' n = Some y /\ R x y.
Proof.
  induction l as [|a l IH]; intros l' n x HF Hn; [destruct n; discriminate|].
  inversion HF as [|? b ? t' Hab HF']; subst. destruct n; cbn [nth_error] in *.
  - inversion Hn; subst. exists b. split; [reflexivity | assumption].
  - eapply IH; eauto.
Qed.
Lemma Forall2_lookup : forall (R : jv -> jv -> Prop) k l l' x,
  Forall2 (fun kv kv' : bytes * jv => fst kv' = fst kv /\ R (snd kv) (snd kv')) l l' -> lookup k l = Some x ->
  exists y, lookup k l' = Some y /\ R x y.
Proof.
  intros R k. induction l as [|[k1 a] l IH]; intros l' x HF Hl; [discriminate|].
  inversion HF as [|? [k2 b] ? t' [Hk Hab] HF']; subst. cbn [fst snd] in *. subst k2. cbn [lookup] in *.
  destruct (bytes_eqb k k1).
  - inversion Hl; subst. exists b. split; [reflexivity | assumption].
  - eapply IH; eauto.
Qed.

Lemma Forall2_len : forall (A B : Type) (R : A -> B -> Prop) l l', Forall2 R l l' -> List.length l = List.length l'.
Proof. induction 1; cbn; auto. Qed.

(* after a successful set every match of the pattern in the new tree is the value that was set *)
Theorem set_pattern_all : forall p x v v', no_desc p = true -> p <> [] -> mset p x v = SOk v' ->
  forall c, In c (get_all p v') -> c = x.
Proof.
  induction p as [|f r IH]; intros x v v' Hn Hne Hset c Hin; [congruence|].
  rewrite no_desc_cons in Hn. apply andb_true_iff in Hn. destruct Hn as [Hf Hr].
  destruct r as [|g r'].
  - (* last fragment *)
    rewrite mset_last in Hset. destruct f; try discriminate; cbn [set_last] in Hset.
    + destruct v; inversion Hset; subst; cbn [get_all] in Hin; try destruct Hin.
      rewrite lookup_set_same in Hin. destruct Hin as [<- | []]. reflexivity.
    + destruct v; try (inversion Hset; subst; cbn [get_all] in Hin; destruct Hin; fail).
      destruct (norm_idx i (List.length l)) as [n|] eqn:En; [|discriminate]. inversion Hset; subst.
      cbn [get_all] in Hin. rewrite set_nth_length, En in Hin.
      rewrite nth_error_set_same in Hin by (eapply norm_idx_lt; eauto). destruct Hin as [<- | []]. reflexivity.
    + destruct v; inversion Hset; subst; cbn [get_all children] in Hin; try destruct Hin.
      * apply in_flat_map in Hin. destruct Hin as (y & Hy & Hc). apply in_map_iff in Hy. destruct Hy as (z & <- & _).
        destruct Hc as [<- | []]. reflexivity.
      * apply in_flat_map in Hin. destruct Hin as (y & Hy & Hc). rewrite map_map in Hy. cbn [snd] in Hy.
        apply in_map_iff in Hy. destruct Hy as (z & <- & _). destruct Hc as [<- | []]. reflexivity.
  - assert (Hne' : g :: r' <> []) by discriminate.
    assert (Hg : is_desc g = false).
    { rewrite no_desc_cons in Hr. apply andb_true_iff in Hr. destruct Hr as [Hg _]. apply negb_true_iff in Hg. exact Hg. }
    destruct f; try discriminate.
    + (* key *)
      rewrite mset_key in Hset. destruct v; try (inversion Hset; subst; cbn [get_all] in Hin; destruct Hin; fail).
      assert (Hstep : forall c0 c', mset (g :: r') x c0 = SOk c' -> v' = JObj (set_key k c' kvs) -> c = x).
      { intros c0 c' Hm ->. cbn [get_all] in Hin. rewrite lookup_set_same in Hin. eapply IH; eauto. }
      destruct (lookup k kvs) as [c0|] eqn:El.
      * destruct (is_container c0); [|discriminate].
        destruct (mset (g :: r') x c0) as [c'|c'] eqn:Em; cbn [wrap] in Hset; [|discriminate]. inversion Hset; subst.
        eapply Hstep; eauto.
      * destruct g; try discriminate.
        -- destruct (mset (FKey k0 :: r') x (JObj [])) as [c'|c'] eqn:Em; cbn [wrap] in Hset; [|discriminate]. inversion Hset; subst.
           eapply Hstep; eauto.
        -- destruct (i <? 0)%Z; [discriminate|].
           destruct (mset (FIdx i :: r') x (JArr (repeat JNull (S (Z.to_nat i))))) as [c'|c'] eqn:Em; cbn [wrap] in Hset; [|discriminate].
           inversion Hset; subst. eapply Hstep; eauto.
    + (* index *)
      rewrite mset_idx in Hset. destruct v; try (inversion Hset; subst; cbn [get_all] in Hin; destruct Hin; fail).
      destruct (norm_idx i (List.length l)) as [n|] eqn:En; [|discriminate]. cbv zeta in Hset.
      destruct (is_container (nth n l JNull)); [|discriminate].
      destruct (mset (g :: r') x (nth n l JNull)) as [c'|c'] eqn:Em; cbn [wrap] in Hset; [|discriminate]. inversion Hset; subst.
      cbn [get_all] in Hin. rewrite set_nth_length, En in Hin.
      rewrite nth_error_set_same in Hin by (eapply norm_idx_lt; eauto). eapply IH; eauto.
    + (* wildcard: every container child went through the rest of the path, scalars are left alone *)
      change (mset (FWild :: g :: r') x v) with (seq_children (mset (g :: r') x) v) in Hset.
      pose proof (seq_children_ok _ _ _ Hset) as Hok.
      assert (Hchild : forall c0 c1, stepped (mset (g :: r') x) c0 c1 -> In c (get_all (g :: r') c1) -> c = x).
      { intros c0 c1 [[_ Hs] | [Hs ->]] Hc; [eapply IH; eauto|].
        rewrite (get_all_scalar g r' c0 Hg Hs) in Hc. destruct Hc. }
      cbn [get_all] in Hin. apply in_flat_map in Hin. destruct Hin as (c1 & Hc1 & Hc).
      destruct v; try (subst v'; destruct Hc1; fail).
      * destruct Hok as (l' & -> & HF). cbn [children] in Hc1.
        destruct (Forall2_in_r _ _ _ _ _ _ HF Hc1) as (c0 & _ & Hst). eapply Hchild; eauto.
      * destruct Hok as (l' & -> & HF). cbn [children] in Hc1. apply in_map_iff in Hc1. destruct Hc1 as (kv' & <- & Hkv').
        destruct (Forall2_in_r _ _ _ _ _ _ HF Hkv') as (kv & _ & _ & Hst). eapply Hchild; eauto.
Qed.

(* ... and every instance of the pattern that existed before the set reads the value afterwards *)
Theorem set_pattern_inst : forall p x q v v' c0, no_desc p = true -> p <> [] -> mset p x v = SOk v' ->
  inst q p -> cget q v = Some c0 -> cget q v' = Some x.
Proof.
  induction p as [|f r IH]; intros x q v v' c0 Hn Hne Hset Hi Hq; [congruence|].
  rewrite no_desc_cons in Hn. apply andb_true_iff in Hn. destruct Hn as [Hf Hr].
  inversion Hi as [|fq ? q' ? Hfi Hi']; subst.
  destruct r as [|g r'].
  - (* last fragment *)
    inversion Hi'; subst. rewrite mset_last in Hset.
    inversion Hfi; subst; cbn [set_last] in Hset; cbn [cget] in Hq |- *.
    + destruct v; try discriminate. inversion Hset; subst. rewrite lookup_set_same. reflexivity.
    + destruct v; try discriminate. destruct (norm_idx i (List.length l)) as [n|] eqn:En; [|discriminate]. inversion Hset; subst.
      rewrite set_nth_length, En. rewrite nth_error_set_same by (eapply norm_idx_lt; eauto). reflexivity.
    + destruct v; try discriminate. inversion Hset; subst. destruct (lookup k kvs) as [y|] eqn:El; [|discriminate].
      rewrite (lookup_map_snd (fun _ => x)), El. reflexivity.
    + destruct v; try discriminate. inversion Hset; subst. rewrite map_length.
      destruct (norm_idx i (List.length l)) as [n|] eqn:En; [|discriminate].
      destruct (nth_error l n) as [y|] eqn:Ee; [|discriminate]. rewrite (map_nth_error _ _ _ Ee). reflexivity.
  - assert (Hne' : g :: r' <> []) by discriminate.
    (* the instance continues below the member: that member is a container *)
    assert (Hcont : forall y, cget q' y = Some c0 -> is_container y = true).
    { intros y Hy. destruct (is_container y) eqn:C; [reflexivity|]. exfalso.
      pose proof (cget_scalar q' y c0 C Hy) as ->. inversion Hi'. }
    inversion Hfi; subst.
    + (* key *)
      rewrite mset_key in Hset. cbn [cget] in Hq. destruct v; try discriminate.
      destruct (lookup k kvs) as [y|] eqn:El; [|discriminate].
      rewrite (Hcont y Hq) in Hset.
      destruct (mset (g :: r') x y) as [c'|c'] eqn:Em; cbn [wrap] in Hset; [|discriminate]. inversion Hset; subst.
      cbn [cget]. rewrite lookup_set_same. eapply IH; eauto.
    + (* index *)
      rewrite mset_idx in Hset. cbn [cget] in Hq. destruct v; try discriminate.
      destruct (norm_idx i (List.length l)) as [n|] eqn:En; [|discriminate]. cbv zeta in Hset.
      pose proof (norm_idx_lt _ _ _ En) as Hlt. rewrite (nth_nth_error n l JNull) in Hq by assumption.
      rewrite (Hcont _ Hq) in Hset.
      destruct (mset (g :: r') x (nth n l JNull)) as [c'|c'] eqn:Em; cbn [wrap] in Hset; [|discriminate]. inversion Hset; subst.
      cbn [cget]. rewrite set_nth_length, En. rewrite nth_error_set_same by assumption. eapply IH; eauto.
    + (* wildcard over an object *)
      change (mset (FWild :: g :: r') x v) with (seq_children (mset (g :: r') x) v) in Hset.
      pose proof (seq_children_ok _ _ _ Hset) as Hok. cbn [cget] in Hq. destruct v; try discriminate.
      destruct Hok as (l' & -> & HF). destruct (lookup k kvs) as [y|] eqn:El; [|discriminate].
      destruct (Forall2_lookup _ _ _ _ _ HF El) as (y' & El' & Hst). cbn [cget]. rewrite El'.
      destruct Hst as [[_ Hs] | [Hs _]]; [eapply IH; eauto | rewrite (Hcont y Hq) in Hs; discriminate].
    + (* wildcard over an array *)
      change (mset (FWild :: g :: r') x v) with (seq_children (mset (g :: r') x) v) in Hset.
      pose proof (seq_children_ok _ _ _ Hset) as Hok. cbn [cget] in Hq. destruct v; try discriminate.
      destruct Hok as (l' & -> & HF).
      destruct (norm_idx i (List.length l)) as [n|] eqn:En; [|discriminate].
      destruct (nth_error l n) as [y|] eqn:Ee; [|discriminate].
      destruct (Forall2_nth_error _ _ _ _ _ _ _ HF Ee) as (y' & Ee' & Hst).
      cbn [cget]. rewrite <- (Forall2_len _ _ _ _ _ HF), En, Ee'.
      destruct Hst as [[_ Hs] | [Hs _]]; [eapply IH; eauto | rewrite (Hcont y Hq) in Hs; discriminate].
Qed.

(* ---------------------------------------------------------------------------------------------- *)
(* (5) frame for patterns: a concrete path q that parts ways with the pattern p inside v - at some node both
   exist up to there and then p names a different key / index than q (a wildcard never parts ways: it goes
   wherever q goes), or q does not exist in v at all below a wildcard *)
Fixpoint pdisjoint (p q : path) (v : jv) : bool :=
  match p, q with
  | FKey k :: p', FKey k' :: q' =>
    match v with
    | JObj kvs =>
      if bytes_eqb k k' then match lookup k kvs with Some c => pdisjoint p' q' c | None => false end else true
    | _ => true
    end
  | FIdx i :: p', FIdx j :: q' =>
    match v with
    | JArr l =>
      match norm_idx i (List.length l), norm_idx j (List.length l) with
      | Some n, Some m => if Nat.eqb n m then pdisjoint p' q' (nth n l JNull) else true
      | _, _ => true
      end
    | _ => true
    end
  | FKey _ :: _, FIdx _ :: _ => true
  | FIdx _ :: _, FKey _ :: _ => true
  | FWild :: p', FKey k' :: q' =>
    match v with
    | JObj kvs => match lookup k' kvs with Some c => pdisjoint p' q' c | None => true end
    | _ => true
    end
  | FWild :: p', FIdx j :: q' =>
    match v with
    | JArr l => match norm_idx j (List.length l) with Some m => pdisjoint p' q' (nth m l JNull) | None => true end
    | _ => true
    end
  | _, _ => false
  end.
(* on concrete paths it is the disjointness of C18_set_frame *)
Lemma pdisjoint_concrete : forall p q v, concrete p = true -> pdisjoint p q v = disjoint p q v.
Proof.
  induction p as [|f p IH]; intros q v Hc; [reflexivity|].
  cbn [concrete forallb] in Hc. apply andb_true_iff in Hc. destruct Hc as [Hf Hc]. fold (concrete p) in Hc.
  destruct f; try discriminate; destruct q as [|fq q]; try reflexivity; destruct fq; try reflexivity; cbn [pdisjoint disjoint].
  - destruct v; try reflexivity. destruct (bytes_eqb k k0); [|reflexivity]. destruct (lookup k kvs); [apply IH; assumption | reflexivity].
  - destruct v; try reflexivity. destruct (norm_idx i (List.length l)); [|reflexivity].
    destruct (norm_idx i0 (List.length l)); [|reflexivity]. destruct (Nat.eqb n n0); [apply IH; assumption | reflexivity].
Qed.

Lemma concrete_cons : forall f q, concrete (f :: q) = concrete_frag f && concrete q.
Proof. reflexivity. Qed.

(* modify (and with it remove, which modifies the parents) leaves such a path as it was *)
Theorem modify_frame : forall p g q v, no_desc p = true -> concrete q = true -> pdisjoint p q v = true ->
  cget q (modify_at p g v) = cget q v.
Proof.
  induction p as [|f r IH]; intros g q v Hn Hq Hd; [destruct q; discriminate|].
  rewrite no_desc_cons in Hn. apply andb_true_iff in Hn. destruct Hn as [Hf Hr].
  destruct q as [|fq q']; [destruct f; discriminate|].
  rewrite concrete_cons in Hq. apply andb_true_iff in Hq. destruct Hq as [Hfq Hq'].
  destruct f; try discriminate; destruct fq; try discriminate; cbn [pdisjoint] in Hd; cbn [modify_at].
  - (* key / key *)
    destruct v; try reflexivity. destruct (lookup k kvs) as [c|] eqn:El; [|reflexivity].
    cbn [cget]. destruct (bytes_eqb k k0) eqn:E.
    + apply bytes_eqb_eq in E. subst k0. rewrite lookup_set_same, El. apply IH; assumption.
    + rewrite lookup_set_other by assumption. reflexivity.
  - destruct v; try reflexivity. destruct (lookup k kvs); reflexivity.
  - destruct v; try reflexivity. destruct (norm_idx i (List.length l)); reflexivity.
  - (* index / index *)
    destruct v; try reflexivity. destruct (norm_idx i (List.length l)) as [n|] eqn:En; [|reflexivity].
    pose proof (norm_idx_lt _ _ _ En) as Hlt. cbn [cget]. rewrite set_nth_length.
    destruct (norm_idx i0 (List.length l)) as [m|] eqn:Em; [|reflexivity].
    destruct (Nat.eqb n m) eqn:E.
    + apply Nat.eqb_eq in E. subst m. rewrite nth_error_set_same by assumption.
      rewrite (nth_nth_error n l JNull) by assumption. apply IH; assumption.
    + apply Nat.eqb_neq in E. rewrite nth_error_set_other by assumption. reflexivity.
  - (* wildcard / key *)
    destruct v; try reflexivity. cbn [cget]. rewrite lookup_map_snd.
    destruct (lookup k kvs) as [c|]; [|reflexivity]. cbn [option_map]. apply IH; assumption.
  - (* wildcard / index *)
    destruct v; try reflexivity. cbn [cget]. rewrite map_length.
    destruct (norm_idx i (List.length l)) as [m|] eqn:Em; [|reflexivity].
    pose proof (norm_idx_lt _ _ _ Em) as Hlt. rewrite (nth_nth_error m l JNull) by assumption.
    rewrite (map_nth_error _ _ _ (nth_nth_error m l JNull Hlt)). apply IH; assumption.
Qed.

(* whatever a set through a wildcard did to the children - also when it stopped half way *)
Definition touched (s : jv -> sres) (c c' : jv) : Prop := c' = c \/ c' = sres_tree (s c).
Lemma seq_list_touched : forall s l, Forall2 (touched s) l (fst (seq_list s l)).
Proof.
  intros s. induction l as [|c t IH]; cbn [seq_list]; [constructor|].
  assert (Hrefl : forall t : list jv, Forall2 (touched s) t t) by (induction t0; constructor; [left; reflexivity | assumption]).
  destruct (is_container c).
  - destruct (s c) as [c'|c'] eqn:Es.
    + destruct (seq_list s t) as [t' ok]. cbn [fst] in *. constructor; [right; rewrite Es; reflexivity | exact IH].
    + cbn [fst]. constructor; [right; rewrite Es; reflexivity | apply Hrefl].
  - destruct (seq_list s t) as [t' ok]. cbn [fst] in *. constructor; [left; reflexivity | exact IH].
Qed.
Lemma seq_kvs_touched : forall s l,
  Forall2 (fun kv kv' : bytes * jv => fst kv' = fst kv /\ touched s (snd kv) (snd kv')) l (fst (seq_kvs s l)).
Proof.
  intros s. induction l as [|[k c] t IH]; cbn [seq_kvs]; [constructor|].
  assert (Hrefl : forall t : list (bytes * jv), Forall2 (fun kv kv' : bytes * jv => fst kv' = fst kv /\ touched s (snd kv) (snd kv')) t t)
    by (induction t0; constructor; [split; [reflexivity | left; reflexivity] | assumption]).
  destruct (is_container c).
  - destruct (s c) as [c'|c'] eqn:Es.
    + destruct (seq_kvs s t) as [t' ok]. cbn [fst] in *. constructor; [split; [reflexivity | right; cbn [snd]; rewrite Es; reflexivity] | exact IH].
    + cbn [fst]. constructor; [split; [reflexivity | right; cbn [snd]; rewrite Es; reflexivity] | apply Hrefl].
  - destruct (seq_kvs s t) as [t' ok]. cbn [fst] in *. constructor; [split; [reflexivity | left; reflexivity] | exact IH].
Qed.
Lemma seq_children_tree : forall s v, sres_tree (seq_children s v) =
  match v with JArr l => JArr (fst (seq_list s l)) | JObj kvs => JObj (fst (seq_kvs s kvs)) | _ => v end.
Proof.
  intros s v. destruct v; try reflexivity; cbn [seq_children].
  - destruct (seq_list s l) as [l' ok]. destruct ok; reflexivity.
  - destruct (seq_kvs s kvs) as [l' ok]. destruct ok; reflexivity.
Qed.

(* a set through a pattern leaves such a path as it was - whether it succeeded or panicked half way *)
Theorem set_pattern_frame : forall p q x v, no_desc p = true -> concrete q = true -> p <> [] -> pdisjoint p q v = true ->
  cget q (sres_tree (mset p x v)) = cget q v.
Proof.
  induction p as [|f r IH]; intros q x v Hn Hq Hne Hd; [congruence|].
  rewrite no_desc_cons in Hn. apply andb_true_iff in Hn. destruct Hn as [Hf Hr].
  destruct q as [|fq q']; [destruct f; discriminate|].
  rewrite concrete_cons in Hq. apply andb_true_iff in Hq. destruct Hq as [Hfq Hq'].
  destruct f; try discriminate; destruct fq; try discriminate.
  - (* key / key *)
    destruct v; try (destruct r; reflexivity).
    cbn [pdisjoint] in Hd.
    assert (Hobj : forall c', cget (FKey k0 :: q') (JObj (set_key k c' kvs)) =
                   if bytes_eqb k k0 then cget q' c' else cget (FKey k0 :: q') (JObj kvs)).
    { intros c'. cbn [cget]. destruct (bytes_eqb k k0) eqn:E.
      - apply bytes_eqb_eq in E. subst. rewrite lookup_set_same. reflexivity.
      - rewrite lookup_set_other by assumption. reflexivity. }
    destruct r as [|g r'].
    + rewrite mset_last. cbn [set_last sres_tree]. rewrite Hobj. destruct (bytes_eqb k k0) eqn:E; auto.
      destruct (lookup k kvs); [|discriminate]. destruct q'; discriminate.
    + rewrite mset_key.
      destruct (lookup k kvs) as [c|] eqn:El.
      * destruct (is_container c); [|reflexivity].
        assert (Ht : sres_tree (wrap (fun c' => JObj (set_key k c' kvs)) (mset (g :: r') x c)) = JObj (set_key k (sres_tree (mset (g :: r') x c)) kvs))
          by (destruct (mset (g :: r') x c); reflexivity).
        rewrite Ht, Hobj. destruct (bytes_eqb k k0) eqn:E; auto.
        apply bytes_eqb_eq in E. subst k0. cbn [cget]. rewrite El. apply IH; auto. discriminate.
      * destruct (bytes_eqb k k0) eqn:E; [discriminate|].
        assert (Hany : forall s, (exists c', sres_tree s = JObj (set_key k c' kvs)) \/ sres_tree s = JObj kvs ->
                       cget (FKey k0 :: q') (sres_tree s) = cget (FKey k0 :: q') (JObj kvs)).
        { intros s [[c' Hs] | Hs]; rewrite Hs; auto; rewrite Hobj, E; reflexivity. }
        apply Hany. destruct g; try (right; reflexivity).
        -- left. destruct (mset (FKey k1 :: r') x (JObj [])); eexists; reflexivity.
        -- destruct (i <? 0)%Z; [right; reflexivity|]. left.
           destruct (mset (FIdx i :: r') x (JArr (repeat JNull (S (Z.to_nat i))))); eexists; reflexivity.
  - (* key / index *)
    destruct v; try (destruct r; reflexivity).
    cbn [cget]. destruct r as [|g r'].
    + reflexivity.
    + rewrite mset_key. destruct (lookup k kvs).
      * destruct (is_container j); [|reflexivity]. destruct (mset (g :: r') x j); reflexivity.
      * destruct g; try reflexivity.
        -- destruct (mset (FKey k0 :: r') x (JObj [])); reflexivity.
        -- destruct (i0 <? 0)%Z; [reflexivity|]. destruct (mset (FIdx i0 :: r') x (JArr (repeat JNull (S (Z.to_nat i0))))); reflexivity.
  - (* index / key *)
    destruct v; try (destruct r; reflexivity).
    cbn [cget]. destruct r as [|g r'].
    + rewrite mset_last. cbn [set_last]. destruct (norm_idx i (List.length l)); reflexivity.
    + rewrite mset_idx. destruct (norm_idx i (List.length l)); [|reflexivity]. cbv zeta.
      destruct (is_container (nth n l JNull)); [|reflexivity]. destruct (mset (g :: r') x (nth n l JNull)); reflexivity.
  - (* index / index *)
    destruct v; try (destruct r; reflexivity).
    cbn [pdisjoint] in Hd.
    assert (Harr : forall n c', norm_idx i (List.length l) = Some n ->
                   cget (FIdx i0 :: q') (JArr (set_nth n c' l)) =
                   match norm_idx i0 (List.length l) with
                   | Some m => if Nat.eqb n m then cget q' c' else cget (FIdx i0 :: q') (JArr l)
                   | None => None
                   end).
    { intros n c' En. cbn [cget]. rewrite set_nth_length. destruct (norm_idx i0 (List.length l)) as [m|] eqn:Em; auto.
      destruct (Nat.eqb n m) eqn:E.
      - apply Nat.eqb_eq in E. subst m. rewrite nth_error_set_same by (eapply norm_idx_lt; eauto). reflexivity.
      - apply Nat.eqb_neq in E. rewrite nth_error_set_other by assumption. reflexivity. }
    destruct r as [|g r'].
    + rewrite mset_last. cbn [set_last]. destruct (norm_idx i (List.length l)) as [n|] eqn:En; [|reflexivity].
      cbn [sres_tree]. rewrite (Harr n x eq_refl). destruct (norm_idx i0 (List.length l)) as [m|] eqn:Em; [|cbn [cget]; rewrite Em; reflexivity].
      destruct (Nat.eqb n m); auto. destruct q'; discriminate.
    + rewrite mset_idx. destruct (norm_idx i (List.length l)) as [n|] eqn:En; [|reflexivity]. cbv zeta.
      destruct (is_container (nth n l JNull)); [|reflexivity].
      assert (Ht : sres_tree (wrap (fun c' => JArr (set_nth n c' l)) (mset (g :: r') x (nth n l JNull))) =
                   JArr (set_nth n (sres_tree (mset (g :: r') x (nth n l JNull))) l))
        by (destruct (mset (g :: r') x (nth n l JNull)); reflexivity).
      rewrite Ht, (Harr n _ eq_refl). destruct (norm_idx i0 (List.length l)) as [m|] eqn:Em; [|cbn [cget]; rewrite Em; reflexivity].
      destruct (Nat.eqb n m) eqn:E; auto. apply Nat.eqb_eq in E. subst m.
      cbn [cget]. rewrite Em. rewrite (nth_nth_error n l JNull) by (eapply norm_idx_lt; eauto). apply IH; auto. discriminate.
  - (* wildcard / key *)
    cbn [pdisjoint] in Hd. destruct r as [|g r'].
    + (* every member is replaced: q must not exist *)
      rewrite mset_last. cbn [set_last]. destruct v; try reflexivity. cbn [sres_tree cget].
      rewrite (lookup_map_snd (fun _ => x)). destruct (lookup k kvs); [destruct q'; discriminate | reflexivity].
    + change (mset (FWild :: g :: r') x v) with (seq_children (mset (g :: r') x) v). rewrite seq_children_tree.
      destruct v; try reflexivity. cbn [cget].
      pose proof (seq_kvs_touched (mset (g :: r') x) kvs) as HF.
      destruct (lookup k kvs) as [c|] eqn:El.
      * destruct (Forall2_lookup _ _ _ _ _ HF El) as (c' & El' & Ht). rewrite El'.
        destruct Ht as [-> | ->]; [reflexivity | apply IH; auto; discriminate].
      * (* the keys are the same, so k is still missing *)
        assert (Hnone : forall l l', Forall2 (fun kv kv' : bytes * jv => fst kv' = fst kv /\ touched (mset (g :: r') x) (snd kv) (snd kv')) l l' ->
                        lookup k l = None -> lookup k l' = None).
        { clear. induction 1 as [|[k1 a] [k2 b] l l' [Hk _] HF IH]; intros Hl; [reflexivity|].
          cbn [fst] in Hk. subst k2. cbn [lookup] in *. destruct (bytes_eqb k k1); [discriminate | auto]. }
        rewrite (Hnone _ _ HF El). reflexivity.
  - (* wildcard / index *)
    cbn [pdisjoint] in Hd. destruct r as [|g r'].
    + rewrite mset_last. cbn [set_last]. destruct v; try reflexivity. cbn [sres_tree cget]. rewrite map_length.
      destruct (norm_idx i (List.length l)) as [m|] eqn:Em; [|reflexivity]. destruct q'; discriminate.
    + change (mset (FWild :: g :: r') x v) with (seq_children (mset (g :: r') x) v). rewrite seq_children_tree.
      destruct v; try reflexivity. cbn [cget].
      pose proof (seq_list_touched (mset (g :: r') x) l) as HF.
      rewrite <- (Forall2_len _ _ _ _ _ HF).
      destruct (norm_idx i (List.length l)) as [m|] eqn:Em; [|reflexivity].
      pose proof (norm_idx_lt _ _ _ Em) as Hlt. pose proof (nth_nth_error m l JNull Hlt) as Ee. rewrite Ee.
      destruct (Forall2_nth_error _ _ _ _ _ _ _ HF Ee) as (c' & Ee' & Ht). rewrite Ee'.
      destruct Ht as [-> | ->]; [reflexivity | apply IH; auto; discriminate].
Qed.

(* non-vacuity *)
Example pattern_examples :
  let v := JArr [JObj [(Bs "k", JInt 1); (Bs "j", JInt 2)]; JObj [(Bs "k", JInt 3)]; JInt 4] in
  mset [FWild; FKey (Bs "k")] (JInt 9) v = SOk (JArr [JObj [(Bs "k", JInt 9); (Bs "j", JInt 2)]; JObj [(Bs "k", JInt 9)]; JInt 4]) /\
  pdisjoint [FWild; FKey (Bs "k")] [FIdx 0; FKey (Bs "j")] v = true /\
  pdisjoint [FWild; FKey (Bs "k")] [FIdx 2] v = false /\
  bag_remove [FWild; FKey (Bs "k")] v = Some (JArr [JObj [(Bs "j", JInt 2)]; JObj []; JInt 4]).
Proof. repeat split; reflexivity. Qed.
