(* C18 — proofs, part 1: the lexer reads back what the string/number/token printers emit. *)
From Coq Require Import List ZArith NArith Bool Strings.Byte String Decimal DecimalZ DecimalN DecimalPos DecimalFacts Lia Arith.
From C18 Require Import Tables Model Spec.
Import ListNotations.
Open Scope list_scope.

(* ---------------------------------------------------------------------------------------------- *)
(* generalities *)
Lemma lex_run_app : forall a b st, lex_run st (a ++ b) = lex_run (lex_run st a) b.
Proof. intros. unfold lex_run. apply fold_left_app. Qed.
Lemma lex_run_cons : forall b s st, lex_run st (b :: s) = lex_run (lstep st b) s.
Proof. reflexivity. Qed.
Lemma lex_run_nil : forall st, lex_run st [] = st.
Proof. reflexivity. Qed.

Lemma bytes_eqb_refl : forall a, bytes_eqb a a = true.
Proof. induction a; simpl; auto. rewrite IHa. destruct a; reflexivity. Qed.
Lemma byte_eqb_eq : forall a b, Byte.eqb a b = true <-> a = b.
Proof. intros. apply Byte.byte_dec_bl || idtac. split. - apply Byte.byte_dec_bl. - intros ->. apply Byte.byte_dec_lb. reflexivity. Qed.
Lemma bytes_eqb_eq : forall a b, bytes_eqb a b = true <-> a = b.
Proof.
  induction a; destruct b; simpl; split; intros H; try discriminate; auto.
  - apply andb_true_iff in H. destruct H as [H1 H2]. apply byte_eqb_eq in H1. apply IHa in H2. subst. reflexivity.
  - inversion H; subst. rewrite bytes_eqb_refl. replace (Byte.eqb b b) with true; auto. symmetry. apply byte_eqb_eq. reflexivity.
Qed.

Lemma bN_inj : forall a b, bN a = bN b -> a = b.
Proof.
  unfold bN. intros a b H. pose proof (Byte.of_to_N a) as Ha. pose proof (Byte.of_to_N b) as Hb.
  rewrite H in Ha. rewrite Ha in Hb. inversion Hb. reflexivity.
Qed.
Lemma bN_lt_256 : forall b, (bN b < 256)%N.
Proof. intros b. unfold bN. pose proof (Byte.to_N_bounded b). lia. Qed.

(* ---------------------------------------------------------------------------------------------- *)
(* facts about the class tables, one byte at a time *)
Definition str_plain_ok (b : byte) : bool :=
  match sstep b with SPlain => true | SQuote => negb (Byte.eqb b x22) | _ => false end.

Lemma plain_class_str : forall f b, plain_class f (cls (str_tbl f) b) = true -> str_plain_ok b = true /\ (bN b <? 128)%N = true.
Proof. intros f b. destruct f; destruct b; vm_compute; intros H; try (split; reflexivity); discriminate H. Qed.
Lemma high_str_plain : forall b, (128 <=? bN b)%N = true -> str_plain_ok b = true.
Proof. intros b. destruct b; vm_compute; intros H; try reflexivity; discriminate H. Qed.
Lemma class8_high : forall f b, (cls (str_tbl f) b =? K "8")%N = true -> (128 <=? bN b)%N = true.
Proof. intros f b. destruct f; destruct b; vm_compute; intros H; try reflexivity; discriminate H. Qed.
Lemma classdot_low : forall f b, (cls (str_tbl f) b =? K ".")%N = true -> (bN b <? 128)%N = true.
Proof. intros f b. destruct f; destruct b; vm_compute; intros H; try reflexivity; discriminate H. Qed.
Lemma classesc_low : forall f b,
  plain_class f (cls (str_tbl f) b) = false -> (cls (str_tbl f) b =? K ".")%N = false -> (cls (str_tbl f) b =? K "8")%N = false ->
  (bN b <? 128)%N = true.
Proof. intros f b. destruct f; destruct b; vm_compute; intros H1 H2 H3; try reflexivity; discriminate. Qed.

Lemma lstep_str_plain : forall b acc out, str_plain_ok b = true -> lstep (LStr x22 acc, out) b = (LStr x22 (b :: acc), out).
Proof.
  intros b acc out H. unfold str_plain_ok in H. cbn [lstep]. destruct (sstep b); try discriminate; auto.
  apply negb_true_iff in H. rewrite H. reflexivity.
Qed.
Lemma lex_run_plain : forall l acc out, forallb str_plain_ok l = true ->
  lex_run (LStr x22 acc, out) l = (LStr x22 (List.rev l ++ acc), out).
Proof.
  induction l; intros acc out H; auto.
  cbn [forallb] in H. apply andb_true_iff in H. destruct H as [Ha Hl]. rewrite lex_run_cons, lstep_str_plain by assumption.
  rewrite IHl by assumption. cbn [List.rev]. rewrite <- app_assoc. reflexivity.
Qed.

Lemma lex_u00 : forall f b, (cls (str_tbl f) b =? K ".")%N = true ->
  forall acc out, lex_run (LStr x22 acc, out) (u00 b) = (LStr x22 (b :: acc), out).
Proof. intros f b. destruct f; destruct b; vm_compute; intros H; try discriminate H; intros; reflexivity. Qed.
Lemma lex_escpair : forall f b,
  plain_class f (cls (str_tbl f) b) = false -> (cls (str_tbl f) b =? K ".")%N = false -> (cls (str_tbl f) b =? K "8")%N = false ->
  forall acc out, lex_run (LStr x22 acc, out) [x5c; byte_of_code (cls (str_tbl f) b)] = (LStr x22 (b :: acc), out).
Proof. intros f b. destruct f; destruct b; vm_compute; intros H1 H2 H3; try discriminate; intros; reflexivity. Qed.
Lemma lex_u2028 : forall acc out, lex_run (LStr x22 acc, out) (Bs "\u2028") = (LStr x22 (xa8 :: x80 :: xe2 :: acc), out).
Proof. intros. vm_compute. reflexivity. Qed.
Lemma lex_u2029 : forall acc out, lex_run (LStr x22 acc, out) (Bs "\u2029") = (LStr x22 (xa9 :: x80 :: xe2 :: acc), out).
Proof. intros. vm_compute. reflexivity. Qed.
Lemma lex_ufffd : forall acc out, lex_run (LStr x22 acc, out) (Bs "\ufffd") = (LStr x22 (xbd :: xbf :: xef :: acc), out).
Proof. intros. vm_compute. reflexivity. Qed.

(* ---------------------------------------------------------------------------------------------- *)
(* what decode_rune can return for a byte >= 0x80 *)
Definition cont (c : byte) : Prop := (128 <= bN c <= 191)%N.
Lemma in_rng_spec : forall lo hi b, in_rng lo hi b = true <-> (lo <= bN b <= hi)%N.
Proof. intros. unfold in_rng. rewrite andb_true_iff, !N.leb_le. tauto. Qed.

Lemma decode_cases : forall b s' r cnt, (128 <= bN b)%N -> decode_rune (b :: s') = (r, cnt) ->
  (cnt = 1 /\ r = RuneError)
  \/ (exists c1 s'', s' = c1 :: s'' /\ cnt = 2 /\ cont c1 /\ (r < 2048)%N)
  \/ (exists c1 c2 s'', s' = c1 :: c2 :: s'' /\ cnt = 3 /\ cont c1 /\ cont c2 /\ (224 <= bN b < 240)%N /\
        r = ((bN b - 224) * 4096 + (bN c1 - 128) * 64 + (bN c2 - 128))%N)
  \/ (exists c1 c2 c3 s'', s' = c1 :: c2 :: c3 :: s'' /\ cnt = 4 /\ cont c1 /\ cont c2 /\ cont c3 /\ (65536 <= r)%N).
Proof.
  intros b s' r cnt Hb H. unfold decode_rune in H.
  destruct (bN b <? 128)%N eqn:E0. { apply N.ltb_lt in E0. lia. }
  destruct ((bN b <? 194)%N || (244 <? bN b)%N) eqn:E1. { inversion H; auto. }
  apply orb_false_iff in E1. destruct E1 as [E1 E1']. apply N.ltb_ge in E1. apply N.ltb_ge in E1'.
  destruct s' as [|c1 t1]. { inversion H; auto. }
  match type of H with (if negb (in_rng ?lo ?hi c1) then _ else _) = _ => destruct (in_rng lo hi c1) eqn:R1 end;
    cbn [negb] in H; [| inversion H; auto].
  apply in_rng_spec in R1.
  assert (C1 : cont c1).
  { unfold cont. destruct (bN b =? 224)%N, (bN b =? 240)%N, (bN b =? 237)%N, (bN b =? 244)%N; lia. }
  destruct (bN b <? 224)%N eqn:E2.
  { apply N.ltb_lt in E2. inversion H; subst. right; left. exists c1, t1. repeat split; auto; try apply C1.
    unfold cont in C1. lia. }
  apply N.ltb_ge in E2.
  destruct t1 as [|c2 t2]. { inversion H; auto. }
  destruct (in_rng 128 191 c2) eqn:R2; cbn [negb] in H; [| inversion H; auto].
  apply in_rng_spec in R2.
  destruct (bN b <? 240)%N eqn:E3.
  { apply N.ltb_lt in E3. inversion H; subst. right; right; left. exists c1, c2, t2. repeat split; auto; try apply C1; try apply R2. }
  apply N.ltb_ge in E3.
  destruct t2 as [|c3 t3]. { inversion H; auto. }
  destruct (in_rng 128 191 c3) eqn:R3; cbn [negb] in H; [| inversion H; auto].
  apply in_rng_spec in R3.
  inversion H; subst. right; right; right. exists c1, c2, c3, t3. repeat split; auto; try apply C1; try apply R2; try apply R3.
  unfold cont in C1.
  destruct (bN b =? 240)%N eqn:E4.
  - apply N.eqb_eq in E4. rewrite E4 in *. destruct (240 =? 224)%N eqn:E5; [discriminate|]. lia.
  - apply N.eqb_neq in E4. lia.
Qed.

(* the skip states unfold to firstn / skipn *)
Lemma esc_copy0 : forall f s, esc f (SCopy 0) s = esc f SNone s.
Proof. destruct s; reflexivity. Qed.
Lemma esc_drop0 : forall f s, esc f (SDrop 0) s = esc f SNone s.
Proof. destruct s; reflexivity. Qed.
Lemma esc_copy : forall f c s, esc f (SCopy (List.length c)) (c ++ s) = c ++ esc f SNone s.
Proof.
  induction c; intros; cbn [List.length List.app].
  - apply esc_copy0.
  - change (esc f (SCopy (S (List.length c))) (a :: (c ++ s))) with (a :: esc f (SCopy (List.length c)) (c ++ s)).
    f_equal. apply IHc.
Qed.
Lemma esc_drop : forall f c s, esc f (SDrop (List.length c)) (c ++ s) = esc f SNone s.
Proof.
  induction c; intros; cbn [List.length List.app].
  - apply esc_drop0.
  - change (esc f (SDrop (S (List.length c))) (a :: (c ++ s))) with (esc f (SDrop (List.length c)) (c ++ s)). apply IHc.
Qed.
Lemma utf8_copy0 : forall s, utf8_ok_from (SCopy 0) s = utf8_ok_from SNone s.
Proof. destruct s; reflexivity. Qed.
Lemma utf8_copy : forall c s, utf8_ok_from (SCopy (List.length c)) (c ++ s) = utf8_ok_from SNone s.
Proof.
  induction c; intros; cbn [List.length List.app].
  - apply utf8_copy0.
  - change (utf8_ok_from (SCopy (S (List.length c))) (a :: (c ++ s))) with (utf8_ok_from (SCopy (List.length c)) (c ++ s)). apply IHc.
Qed.

Lemma esc_copy1 : forall f a s, esc f (SCopy 1) (a :: s) = a :: esc f SNone s.
Proof. intros. exact (esc_copy f [a] s). Qed.
Lemma esc_copy2 : forall f a b s, esc f (SCopy 2) (a :: b :: s) = a :: b :: esc f SNone s.
Proof. intros. exact (esc_copy f [a; b] s). Qed.
Lemma esc_copy3 : forall f a b c s, esc f (SCopy 3) (a :: b :: c :: s) = a :: b :: c :: esc f SNone s.
Proof. intros. exact (esc_copy f [a; b; c] s). Qed.
Lemma esc_drop2 : forall f a b s, esc f (SDrop 2) (a :: b :: s) = esc f SNone s.
Proof. intros. exact (esc_drop f [a; b] s). Qed.
Lemma utf8_copy1 : forall a s, utf8_ok_from (SCopy 1) (a :: s) = utf8_ok_from SNone s.
Proof. intros. exact (utf8_copy [a] s). Qed.
Lemma utf8_copy2 : forall a b s, utf8_ok_from (SCopy 2) (a :: b :: s) = utf8_ok_from SNone s.
Proof. intros. exact (utf8_copy [a; b] s). Qed.
Lemma utf8_copy3 : forall a b c s, utf8_ok_from (SCopy 3) (a :: b :: c :: s) = utf8_ok_from SNone s.
Proof. intros. exact (utf8_copy [a; b; c] s). Qed.

(* ---------------------------------------------------------------------------------------------- *)
(* the content of a quoted string comes back byte for byte *)
Lemma lex_esc : forall f n s, List.length s <= n -> utf8_ok s = true ->
  forall acc out, lex_run (LStr x22 acc, out) (esc f SNone s) = (LStr x22 (List.rev s ++ acc), out).
Proof.
  intros f n. induction n as [|n IH]; intros s Hlen Hu acc out.
  { destruct s; [reflexivity | cbn in Hlen; lia]. }
  destruct s as [|b s']; [reflexivity|].
  cbn [List.length] in Hlen. cbn [esc].
  destruct (plain_class f (cls (str_tbl f) b)) eqn:Ep.
  { (* stays in the raw segment *)
    destruct (plain_class_str _ _ Ep) as [Hp Hlow].
    unfold utf8_ok in Hu. cbn [utf8_ok_from] in Hu. rewrite Hlow in Hu.
    rewrite lex_run_cons, lstep_str_plain by assumption.
    rewrite IH by (auto; lia). cbn [List.rev]. rewrite <- app_assoc. reflexivity. }
  destruct (cls (str_tbl f) b =? K ".")%N eqn:Ed.
  { pose proof (classdot_low _ _ Ed) as Hlow.
    unfold utf8_ok in Hu. cbn [utf8_ok_from] in Hu. rewrite Hlow in Hu.
    rewrite lex_run_app, (lex_u00 f b Ed). rewrite IH by (auto; lia). cbn [List.rev]. rewrite <- app_assoc. reflexivity. }
  destruct (cls (str_tbl f) b =? K "8")%N eqn:E8.
  { pose proof (class8_high _ _ E8) as Hhi. apply N.leb_le in Hhi.
    assert (Hlow : (bN b <? 128)%N = false) by (apply N.ltb_ge; lia).
    unfold utf8_ok in Hu. cbn [utf8_ok_from] in Hu. rewrite Hlow in Hu.
    destruct (decode_rune (b :: s')) as [r cnt] eqn:Ed8.
    destruct (decode_cases _ _ _ _ Hhi Ed8) as [[Hc Hr] | [(c1 & s'' & Hs & Hc & C1 & Hr) | [(c1 & c2 & s'' & Hs & Hc & C1 & C2 & Hb & Hr) | (c1 & c2 & c3 & s'' & Hs & Hc & C1 & C2 & C3 & Hr)]]].
    - subst cnt. cbn in Hu. discriminate.
    - (* two bytes: copied *)
      subst cnt s'. cbn [Nat.eqb Nat.sub] in Hu.
      assert (E1 : (r =? 8232)%N = false) by (apply N.eqb_neq; lia).
      assert (E2 : (r =? 8233)%N = false) by (apply N.eqb_neq; lia).
      assert (E3 : (r =? RuneError)%N = false) by (apply N.eqb_neq; unfold RuneError; lia).
      rewrite E1, E2, E3. cbn [Nat.sub].
      rewrite esc_copy1. rewrite utf8_copy1 in Hu.
      change (b :: c1 :: esc f SNone s'') with ([b; c1] ++ esc f SNone s'').
      rewrite lex_run_app, lex_run_plain.
      2:{ cbn [forallb]. rewrite !high_str_plain; auto; apply N.leb_le; unfold cont in C1; lia. }
      rewrite IH by (auto; cbn [List.length List.app] in Hlen; lia).
      cbn [List.rev List.app]. rewrite <- !app_assoc. reflexivity.
    - (* three bytes *)
      subst cnt s'. cbn [Nat.eqb Nat.sub] in Hu.
      rewrite utf8_copy2 in Hu.
      assert (Hlen' : List.length s'' <= n) by (cbn [List.length List.app] in Hlen; lia).
      unfold cont in C1, C2.
      destruct (r =? 8232)%N eqn:E1.
      { apply N.eqb_eq in E1.
        assert (bN b = 226 /\ bN c1 = 128 /\ bN c2 = 168)%N as (B0 & B1 & B2) by lia.
        assert (b = xe2) by (apply bN_inj; rewrite B0; reflexivity).
        assert (c1 = x80) by (apply bN_inj; rewrite B1; reflexivity).
        assert (c2 = xa8) by (apply bN_inj; rewrite B2; reflexivity). subst b c1 c2.
        cbn [Nat.sub]. rewrite esc_drop2. rewrite lex_run_app, lex_u2028, IH by auto.
        cbn [List.rev List.app]. rewrite <- !app_assoc. reflexivity. }
      destruct (r =? 8233)%N eqn:E2.
      { apply N.eqb_eq in E2.
        assert (bN b = 226 /\ bN c1 = 128 /\ bN c2 = 169)%N as (B0 & B1 & B2) by lia.
        assert (b = xe2) by (apply bN_inj; rewrite B0; reflexivity).
        assert (c1 = x80) by (apply bN_inj; rewrite B1; reflexivity).
        assert (c2 = xa9) by (apply bN_inj; rewrite B2; reflexivity). subst b c1 c2.
        cbn [Nat.sub]. rewrite esc_drop2. rewrite lex_run_app, lex_u2029, IH by auto.
        cbn [List.rev List.app]. rewrite <- !app_assoc. reflexivity. }
      destruct (r =? RuneError)%N eqn:E3.
      { apply N.eqb_eq in E3. unfold RuneError in E3.
        assert (bN b = 239 /\ bN c1 = 191 /\ bN c2 = 189)%N as (B0 & B1 & B2) by lia.
        assert (b = xef) by (apply bN_inj; rewrite B0; reflexivity).
        assert (c1 = xbf) by (apply bN_inj; rewrite B1; reflexivity).
        assert (c2 = xbd) by (apply bN_inj; rewrite B2; reflexivity). subst b c1 c2.
        cbn [Nat.sub]. rewrite esc_drop2. rewrite lex_run_app, lex_ufffd, IH by auto.
        cbn [List.rev List.app]. rewrite <- !app_assoc. reflexivity. }
      cbn [Nat.sub]. rewrite esc_copy2.
      change (b :: c1 :: c2 :: esc f SNone s'') with ([b; c1; c2] ++ esc f SNone s'').
      rewrite lex_run_app, lex_run_plain.
      2:{ cbn [forallb]. rewrite !high_str_plain; auto; apply N.leb_le; lia. }
      rewrite IH by auto. cbn [List.rev List.app]. rewrite <- !app_assoc. reflexivity.
    - (* four bytes *)
      subst cnt s'. cbn [Nat.eqb Nat.sub] in Hu.
      rewrite utf8_copy3 in Hu.
      assert (Hlen' : List.length s'' <= n) by (cbn [List.length List.app] in Hlen; lia).
      unfold cont in C1, C2, C3.
      assert (E1 : (r =? 8232)%N = false) by (apply N.eqb_neq; lia).
      assert (E2 : (r =? 8233)%N = false) by (apply N.eqb_neq; lia).
      assert (E3 : (r =? RuneError)%N = false) by (apply N.eqb_neq; unfold RuneError; lia).
      rewrite E1, E2, E3. cbn [Nat.sub]. rewrite esc_copy3.
      change (b :: c1 :: c2 :: c3 :: esc f SNone s'') with ([b; c1; c2; c3] ++ esc f SNone s'').
      rewrite lex_run_app, lex_run_plain.
      2:{ cbn [forallb]. rewrite !high_str_plain; auto; apply N.leb_le; lia. }
      rewrite IH by auto. cbn [List.rev List.app]. rewrite <- !app_assoc. reflexivity. }
  (* backslash and a letter *)
  pose proof (classesc_low _ _ Ep Ed E8) as Hlow.
  unfold utf8_ok in Hu. cbn [utf8_ok_from] in Hu. rewrite Hlow in Hu.
  change (x5c :: byte_of_code (cls (str_tbl f) b) :: esc f SNone s') with ([x5c; byte_of_code (cls (str_tbl f) b)] ++ esc f SNone s').
  rewrite lex_run_app, (lex_escpair f b Ep Ed E8). rewrite IH by (auto; lia).
  cbn [List.rev]. rewrite <- app_assoc. reflexivity.
Qed.

(* a whole quoted string *)
Lemma lex_quoted : forall f s out, utf8_ok s = true ->
  lex_run (LValue, out) (print_token f (TStr s)) = (LValue, TStr s :: out).
Proof.
  intros f s out Hu. cbn [print_token]. rewrite lex_run_cons.
  replace (lstep (LValue, out) x22) with (LStr x22 [], out) by reflexivity.
  rewrite lex_run_app, (lex_esc f (List.length s) s (le_n _) Hu). rewrite List.app_nil_r.
  cbn [lex_run fold_left]. cbn [lstep]. replace (sstep x22) with SQuote by reflexivity.
  cbn. rewrite List.rev_involutive. reflexivity.
Qed.

(* ---------------------------------------------------------------------------------------------- *)
(* bare tokens *)
Lemma value_step_bare : forall b out, (cls tbl_valueMap b =? K "j")%N = true -> value_step out b = (LBare [b], out).
Proof. intros b out. destruct b; vm_compute; intros H; try discriminate H; reflexivity. Qed.
Lemma lex_bare_more : forall s acc out, forallb (fun b => (cls tbl_tokenMap b =? K "u")%N) s = true ->
  lex_run (LBare acc, out) s = (LBare (List.rev s ++ acc), out).
Proof.
  induction s; intros acc out H; auto.
  cbn [forallb] in H. apply andb_true_iff in H. destruct H as [Ha Hs].
  rewrite lex_run_cons. cbn [lstep]. unfold bstep. rewrite Ha. rewrite IHs by assumption.
  cbn [List.rev]. rewrite <- app_assoc. reflexivity.
Qed.
Lemma lex_bare : forall s out, bare_safe s = true -> lex_run (LValue, out) s = (LBare (List.rev s), out).
Proof.
  intros s out H. destruct s as [|b t]; [discriminate|]. unfold bare_safe in H.
  apply andb_true_iff in H. destruct H as [Hj Hu]. cbn [forallb] in Hu. apply andb_true_iff in Hu. destruct Hu as [_ Hu].
  rewrite lex_run_cons. cbn [lstep]. rewrite value_step_bare by assumption. rewrite lex_bare_more by assumption.
  cbn [List.rev]. reflexivity.
Qed.

(* ---------------------------------------------------------------------------------------------- *)
(* numbers *)
Lemma value_step_num : forall b st out, num_start b = Some st -> value_step out b = (LNum st [b], out).
Proof. intros b st out. destruct b; vm_compute; intros H; inversion H; reflexivity. Qed.
Lemma lex_num_more : forall s st st' acc out, num_scan st s = Some st' ->
  lex_run (LNum st acc, out) s = (LNum st' (List.rev s ++ acc), out).
Proof.
  induction s; intros st st' acc out H; cbn [num_scan] in H.
  - inversion H. reflexivity.
  - rewrite lex_run_cons. cbn [lstep]. destruct (nstep st a); try discriminate.
    rewrite (IHs _ _ _ _ H). cbn [List.rev]. rewrite <- app_assoc. reflexivity.
Qed.
Lemma lex_num : forall raw st out, num_end raw = Some st -> lex_run (LValue, out) raw = (LNum st (List.rev raw), out).
Proof.
  intros raw st out H. destruct raw as [|b r]; [discriminate|]. cbn [num_end] in H.
  destruct (num_start b) as [st0|] eqn:E; [|discriminate].
  rewrite lex_run_cons. cbn [lstep]. rewrite (value_step_num _ _ _ E). rewrite (lex_num_more _ _ _ _ _ H).
  cbn [List.rev]. reflexivity.
Qed.

(* the decimal text of an integer *)
Definition nzhead_digit (u : uint) : bool := match u with Nil | D0 _ => false | _ => true end.
Lemma nzhead_shape : forall u, nzhead u = Nil \/ nzhead_digit (nzhead u) = true.
Proof. induction u; cbn; auto. Qed.
Lemma pos_uint_head : forall p, nzhead_digit (Pos.to_uint p) = true.
Proof.
  intros p.
  assert (Hn : unorm (Pos.to_uint p) = Pos.to_uint p).
  { rewrite <- (DecimalPos.Unsigned.to_of (Pos.to_uint p)), DecimalPos.Unsigned.of_to. reflexivity. }
  pose proof (DecimalPos.Unsigned.to_uint_nonzero p) as Hz.
  unfold unorm in Hn. destruct (nzhead_shape (Pos.to_uint p)) as [H | H].
  - rewrite H in Hn. congruence.
  - destruct (nzhead (Pos.to_uint p)) eqn:E; cbn in H; try discriminate; rewrite <- Hn; reflexivity.
Qed.
Lemma scan_digits : forall u, num_scan NInt (print_uint u) = Some NInt.
Proof. induction u; cbn [print_uint num_scan]; auto. Qed.
Lemma uint_bytes : forall u, uint_of_bytes (print_uint u) = Some u.
Proof. induction u; cbn [print_uint uint_of_bytes]; auto; rewrite IHu; reflexivity. Qed.

Lemma print_int_scan : forall z, exists st, num_end (print_int z) = Some st /\ num_isint st = true /\ num_final st = true.
Proof.
  intros z. unfold print_int, Z.to_int. destruct z as [|p|p].
  - exists NZero. repeat split; reflexivity.
  - pose proof (pos_uint_head p) as H. exists NInt.
    destruct (Pos.to_uint p) eqn:E; cbn in H; try discriminate; cbn [print_uint num_end];
      (split; [apply scan_digits | split; reflexivity]).
  - pose proof (pos_uint_head p) as H. exists NInt.
    destruct (Pos.to_uint p) eqn:E; cbn in H; try discriminate; cbn [print_uint num_end];
      (split; [apply scan_digits | split; reflexivity]).
Qed.
Lemma print_int_value : forall z, int_of_bytes (print_int z) = Some z.
Proof.
  intros z. rewrite <- (DecimalZ.of_to z) at 2. unfold print_int.
  destruct (Z.to_int z) as [u|u] eqn:E.
  - assert (H : nzhead_digit u = true \/ u = D0 Nil).
    { unfold Z.to_int in E. destruct z; inversion E; auto. left. apply pos_uint_head. }
    unfold int_of_bytes.
    assert (Hb : exists b r, print_uint u = b :: r /\ Byte.eqb b x2d = false).
    { destruct H as [H | ->]; [| exists x30, []; split; reflexivity].
      destruct u; cbn in H; try discriminate; cbn [print_uint]; eexists; eexists; split; reflexivity. }
    destruct Hb as (b & r & Hp & Hne). rewrite Hp, Hne, <- Hp, uint_bytes. reflexivity.
  - unfold int_of_bytes. replace (Byte.eqb x2d x2d) with true by reflexivity. rewrite uint_bytes. reflexivity.
Qed.

(* ---------------------------------------------------------------------------------------------- *)
(* white space (and commas), brackets and the colon in every state a piece of text can leave the lexer in *)
Definition is_ws (b : byte) : bool := match b with x20 | x09 | x0a | x0d | x2c => true | _ => false end.
Lemma ws_value : forall b out, is_ws b = true -> lstep (LValue, out) b = (LValue, out).
Proof. intros b out. destruct b; intros H; try discriminate H; reflexivity. Qed.
Lemma ws_bare : forall b acc out, is_ws b = true -> lstep (LBare acc, out) b = (LValue, TBare (List.rev acc) :: out).
Proof. intros b acc out. destruct b; intros H; try discriminate H; reflexivity. Qed.
Lemma ws_num : forall b st acc out, is_ws b = true -> num_final st = true ->
  lstep (LNum st acc, out) b = (LValue, TNum (num_isint st) (List.rev acc) :: out).
Proof. intros b st acc out. destruct b; intros H; try discriminate H; destruct st; intros F; try discriminate F; reflexivity. Qed.
Lemma lex_ws_value : forall w out, forallb is_ws w = true -> lex_run (LValue, out) w = (LValue, out).
Proof.
  induction w; intros out H; auto. cbn [forallb] in H. apply andb_true_iff in H. destruct H.
  rewrite lex_run_cons, ws_value by assumption. auto.
Qed.

Definition punct (t : token) : option byte :=
  match t with
  | TLBrace => Some x7b | TRBrace => Some x7d | TLBrack => Some x5b | TRBrack => Some x5d | TColon => Some x3a
  | _ => None
  end.
Lemma punct_print : forall f t b, punct t = Some b -> print_token f t = [b].
Proof. intros f t b. destruct t; cbn; intros H; inversion H; reflexivity. Qed.
Lemma punct_value : forall t b out, punct t = Some b -> lstep (LValue, out) b = (LValue, t :: out).
Proof. intros t b out. destruct t; cbn; intros H; inversion H; reflexivity. Qed.
Lemma punct_bare : forall t b acc out, punct t = Some b -> lstep (LBare acc, out) b = (LValue, t :: TBare (List.rev acc) :: out).
Proof. intros t b acc out. destruct t; cbn; intros H; inversion H; reflexivity. Qed.
Lemma bracket_num : forall t b st acc out, punct t = Some b -> t <> TColon -> num_final st = true ->
  lstep (LNum st acc, out) b = (LValue, t :: TNum (num_isint st) (List.rev acc) :: out).
Proof.
  intros t b st acc out. destruct t; cbn; intros H; inversion H; intros Hc F; try congruence;
    destruct st; try discriminate F; reflexivity.
Qed.
