(* C18 — model of the conversions between plain Go data, Lisp objects and bag data:
   slip.SimpleObject (object.go), the Simplify methods (list.go, tail.go, fixnum.go, octet.go, string.go,
   symbol.go, doublefloat.go, time.go, true.go), bag.ObjectToBag (pkg/bag/set.go), bag-native / :native
   (pkg/bag/native.go, flavor.go) and what bag-get returns (pkg/bag/get.go).
   Floats and times are opaque tokens here (their conversions are compared on the implementation only). *)
From Coq Require Import List ZArith NArith Bool Strings.Byte String.
From C18 Require Import Tables Model ModelPath.
Import ListNotations.
Open Scope list_scope.

(* plain Go data *)
Inductive ikind := KInt | KInt8 | KInt16 | KInt32 | KInt64 | KUint | KUint8 | KUint16 | KUint32 | KUint64.
Inductive gov :=
  | GNil
  | GBool (b : bool)
  | GInt (k : ikind) (z : Z)
  | GF64 (raw : bytes)        (* float64, by its shortest text *)
  | GStr (s : bytes)
  | GBytes (s : bytes)        (* []byte *)
  | GTime (t : Z)             (* time.Time, Unix nanoseconds *)
  | GNum (raw : bytes)        (* json.Number *)
  | GSlice (l : list gov)
  | GMap (kvs : list (bytes * gov)).

(* Lisp objects (the fragment the conversions produce or accept) *)
Inductive lobj :=
  | LNil
  | LT
  | LFix (z : Z)
  | LBig (z : Z)              (* *slip.Bignum *)
  | LOctet (z : Z)
  | LDouble (raw : bytes)
  | LLong (raw : bytes)       (* *slip.LongFloat made from the text raw: opaque *)
  | LStr (s : bytes)
  | LSym (s : bytes)
  | LTime (t : Z)
  | LList (l : list lobj)
  | LTail (x : lobj).         (* slip.Tail: the cdr of a dotted pair, List{car, Tail{cdr}} *)

(* conversion to Fixnum (int64) of the Go integer kinds that always fit (totalised for the model's unbounded Z) *)
Definition wrap64 (z : Z) : Z :=
  let m := (z mod 18446744073709551616)%Z in if (m <? 9223372036854775808)%Z then m else (m - 18446744073709551616)%Z.

(* an integer as a Lisp object: a fixnum when it is an int64, a bignum otherwise *)
Definition fits64 (z : Z) : bool := (-9223372036854775808 <=? z)%Z && (z <=? 9223372036854775807)%Z.
Definition int_obj (z : Z) : lobj := if fits64 z then LFix z else LBig z.

(* slip.SimpleObject (with repo_fixes C18-1: json.Number, C18-2: uint/uint64 above MaxInt64) *)
Fixpoint simple_object (g : gov) : lobj :=
  match g with
  | GNil => LNil
  | GBool true => LT
  | GBool false => LNil                 (* `if tv { obj = True }` *)
  | GInt KUint8 z => LOctet z
  | GInt KUint z | GInt KUint64 z => int_obj z
  | GInt _ z => LFix (wrap64 z)
  | GF64 raw => LDouble raw
  | GStr s => LStr s
  | GBytes s => LStr s
  | GTime t => LTime t
  | GNum raw => match int_of_bytes raw with Some z => int_obj z | None => LLong raw end
  | GSlice l => LList (map simple_object l)
  | GMap kvs => LList (map (fun kv => LList [LStr (fst kv); LTail (simple_object (snd kv))]) kvs)
  end.

(* slip.Simplify *)
Fixpoint simplify (o : lobj) : gov :=
  match o with
  | LNil => GNil
  | LT => GBool true
  | LFix z => GInt KInt64 z
  | LBig z => if fits64 z then GInt KInt64 z else GStr (print_int z)    (* Bignum.Simplify: int64 or the digits *)
  | LLong raw => GStr raw                                                (* LongFloat.Simplify: its text *)
  | LOctet z => GInt KInt64 z
  | LDouble raw => GF64 raw
  | LStr s => GStr s
  | LSym s => GStr s
  | LTime t => GTime t
  | LList l => GSlice (map simplify l)
  | LTail x => simplify x
  end.

(* bag data as Go data *)
Fixpoint jv_gov (v : jv) : gov :=
  match v with
  | JNull => GNil
  | JBool b => GBool b
  | JInt z => GInt KInt64 z
  | JBig z => GNum (print_int z)
  | JDec raw => GF64 raw
  | JStr s => GStr s
  | JArr l => GSlice (map jv_gov l)
  | JObj kvs => GMap (map (fun kv => (fst kv, jv_gov (snd kv))) kvs)
  end.
(* bag-native, :native *)
Definition to_native (v : jv) : lobj := simple_object (jv_gov v).
(* bag-get: nil when nothing is found or the value found is nil *)
Definition lget (p : path) (v : jv) : lobj :=
  match get p v with Some c => to_native c | None => LNil end.

(* strings.EqualFold(":false", s) for ASCII *)
Definition lower (b : byte) : byte :=
  if (65 <=? bN b)%N && (bN b <=? 90)%N then byte_of_code (bN b + 32) else b.
Definition is_false_sym (s : bytes) : bool := bytes_eqb (map lower s) (Bs ":false").

(* back from Go data to bag data where it is JSON data *)
Fixpoint gov_jv (g : gov) : option jv :=
  match g with
  | GNil => Some JNull
  | GBool b => Some (JBool b)
  | GInt KInt64 z => Some (JInt z)
  | GF64 raw => Some (JDec raw)
  | GStr s => Some (JStr s)
  | _ => None
  end.

(* bag.ObjectToBag; None = TypePanic or a value outside JSON data (time).  With repo_fixes C18-3 a bignum
   beyond int64 is stored as a json.Number, the way the parsers hold such an integer. *)
Fixpoint object_to_bag (o : lobj) : option jv :=
  match o with
  | LNil => Some JNull
  | LSym s => Some (if is_false_sym s then JBool false else JStr s)
  | LList [] => Some JNull
  | LList ((first :: _) as l) =>
    let as_list :=
      (fix go (l : list lobj) : option (list jv) :=
         match l with
         | [] => Some []
         | e :: r =>
           match object_to_bag e, go r with
           | Some x, Some xs => Some (x :: xs)
           | _, _ => None
           end
         end) l in
    match first with
    | LList [_; LTail _] =>
      (* an assoc list: every element must be a two-element list with a symbol or string first *)
      (fix go (l : list lobj) (acc : list (bytes * jv)) : option jv :=
         match l with
         | [] => Some (JObj acc)
         | LList [k; cdr] :: r =>
           match (match k with LSym s => Some s | LStr s => Some s | _ => None end),
                 (match cdr with LTail x => object_to_bag x | other => object_to_bag other end) with
           | Some key, Some x => go r (set_key key x acc)
           | _, _ => None
           end
         | _ :: _ => None
         end) l []
    | _ => option_map JArr as_list
    end
  | LBig z => Some (if fits64 z then JInt z else JBig z)
  | LTail x => gov_jv (simplify (LTail x))
  | other => gov_jv (simplify other)
  end.

(* bag-modify with (lambda (x) x) or with a function that returns a constant: the function is given bag-native
   of the match and what it returns goes through ObjectToBag like a value given to bag-set (repo_fixes C18-4;
   before, it went through slip.Simplify: an assoc list became a list of two-element lists) *)
Inductive mfn := MId | MConst (x : lobj).
Definition mfn_apply (f : mfn) (c : jv) : jv :=
  match object_to_bag (match f with MId => to_native c | MConst x => x end) with Some c' => c' | None => c end.
Definition bag_modify_fn (p : path) (f : mfn) (v : jv) : option jv :=
  match List.rev p with
  | FDesc :: _ => None
  | _ => Some (modify_at p (mfn_apply f) v)
  end.
