(* C18 — model of the conversions between plain Go data, Lisp objects and bag data:
   slip.SimpleObject (object.go), the Simplify methods (list.go, tail.go, fixnum.go, octet.go, string.go,
   symbol.go, doublefloat.go, time.go, true.go), bag.ObjectToBag (pkg/bag/set.go), bag-native / :native
   (pkg/bag/native.go, flavor.go) and what bag-get returns (pkg/bag/get.go).
   Floats and times are opaque tokens here (their conversions are compared on the implementation only). *)
From Coq Require Import List ZArith NArith Bool Strings.Byte String.
From C18 Require Import Tables Model ModelPath.
Import ListNotations.
Open Scope list_scope.

(* plain Go data *)
Inductive ikind := KInt | KInt8 | KInt16 | KInt32 | KInt64 | KUint | KUint8 | KUint16 | KUint32 | KUint64.
Inductive gov :=
  | GNil
  | GBool (b : bool)
  | GInt (k : ikind) (z : Z)
  | GF64 (raw : bytes)        (* float64, by its shortest text *)
  | GStr (s : bytes)
  | GBytes (s : bytes)        (* []byte *)
  | GTime (t : Z)             (* time.Time, Unix nanoseconds *)
  | GNum (raw : bytes)        (* json.Number *)
  | GSlice (l : list gov)
  | GMap (kvs : list (bytes * gov)).

(* Lisp objects (the fragment the conversions produce or accept) *)
Inductive lobj :=
  | LNil
  | LT
  | LFix (z : Z)
  | LOctet (z : Z)
  | LDouble (raw : bytes)
  | LStr (s : bytes)
  | LSym (s : bytes)
  | LTime (t : Z)
  | LList (l : list lobj)
  | LTail (x : lobj).         (* slip.Tail: the cdr of a dotted pair, List{car, Tail{cdr}} *)

(* conversion to Fixnum (int64) of the Go integer kinds: only uint and uint64 can wrap *)
Definition wrap64 (z : Z) : Z :=
  let m := (z mod 18446744073709551616)%Z in if (m <? 9223372036854775808)%Z then m else (m - 18446744073709551616)%Z.

(* slip.SimpleObject *)
Fixpoint simple_object (g : gov) : lobj :=
  match g with
  | GNil => LNil
  | GBool true => LT
  | GBool false => LNil                 (* `if tv { obj = True }` *)
  | GInt KUint8 z => LOctet z
  | GInt _ z => LFix (wrap64 z)
  | GF64 raw => LDouble raw
  | GStr s => LStr s
  | GBytes s => LStr s
  | GTime t => LTime t
  | GNum _ => LNil                      (* no case for json.Number: obj stays nil *)
  | GSlice l => LList (map simple_object l)
  | GMap kvs => LList (map (fun kv => LList [LStr (fst kv); LTail (simple_object (snd kv))]) kvs)
  end.

(* slip.Simplify *)
Fixpoint simplify (o : lobj) : gov :=
  match o with
  | LNil => GNil
  | LT => GBool true
  | LFix z => GInt KInt64 z
  | LOctet z => GInt KInt64 z
  | LDouble raw => GF64 raw
  | LStr s => GStr s
  | LSym s => GStr s
  | LTime t => GTime t
  | LList l => GSlice (map simplify l)
  | LTail x => simplify x
  end.

(* bag data as Go data *)
Fixpoint jv_gov (v : jv) : gov :=
  match v with
  | JNull => GNil
  | JBool b => GBool b
  | JInt z => GInt KInt64 z
  | JBig z => GNum (print_int z)
  | JDec raw => GF64 raw
  | JStr s => GStr s
  | JArr l => GSlice (map jv_gov l)
  | JObj kvs => GMap (map (fun kv => (fst kv, jv_gov (snd kv))) kvs)
  end.
(* bag-native, :native *)
Definition to_native (v : jv) : lobj := simple_object (jv_gov v).
(* bag-get: nil when nothing is found or the value found is nil *)
Definition lget (p : path) (v : jv) : lobj :=
  match get p v with Some c => to_native c | None => LNil end.

(* strings.EqualFold(":false", s) for ASCII *)
Definition lower (b : byte) : byte :=
  if (65 <=? bN b)%N && (bN b <=? 90)%N then byte_of_code (bN b + 32) else b.
Definition is_false_sym (s : bytes) : bool := bytes_eqb (map lower s) (Bs ":false").

(* back from Go data to bag data where it is JSON data *)
Fixpoint gov_jv (g : gov) : option jv :=
  match g with
  | GNil => Some JNull
  | GBool b => Some (JBool b)
  | GInt KInt64 z => Some (JInt z)
  | GF64 raw => Some (JDec raw)
  | GStr s => Some (JStr s)
  | _ => None
  end.

(* bag.ObjectToBag; None = TypePanic or a value outside JSON data (time) *)
Fixpoint object_to_bag (o : lobj) : option jv :=
  match o with
  | LNil => Some JNull
  | LSym s => Some (if is_false_sym s then JBool false else JStr s)
  | LList [] => Some JNull
  | LList ((first :: _) as l) =>
    let as_list :=
      (fix go (l : list lobj) : option (list jv) :=
         match l with
         | [] => Some []
         | e :: r =>
           match object_to_bag e, go r with
           | Some x, Some xs => Some (x :: xs)
           | _, _ => None
           end
         end) l in
    match first with
    | LList [_; LTail _] =>
      (* an assoc list: every element must be a two-element list with a symbol or string first *)
      (fix go (l : list lobj) (acc : list (bytes * jv)) : option jv :=
         match l with
         | [] => Some (JObj acc)
         | LList [k; cdr] :: r =>
           match (match k with LSym s => Some s | LStr s => Some s | _ => None end),
                 (match cdr with LTail x => object_to_bag x | other => object_to_bag other end) with
           | Some key, Some x => go r (set_key key x acc)
           | _, _ => None
           end
         | _ :: _ => None
         end) l []
    | _ => option_map JArr as_list
    end
  | LTail x => gov_jv (simplify (LTail x))
  | other => gov_jv (simplify other)
  end.
