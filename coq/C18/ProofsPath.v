(* C18 — proofs, part 3: the path laws. *)
From Coq Require Import List ZArith NArith Bool Strings.Byte String Lia Arith.
From C18 Require Import Tables Model Spec ModelPath ModelBridge SpecPath ProofsLex ProofsText.
Import ListNotations.
Open Scope list_scope.

(* ---------------------------------------------------------------------------------------------- *)
(* concrete paths reach at most one node: cget is get for them *)
Fixpoint cget (p : path) (v : jv) : option jv :=
  match p with
  | [] => Some v
  | FKey k :: r => match v with JObj kvs => match lookup k kvs with Some c => cget r c | None => None end | _ => None end
  | FIdx i :: r =>
    match v with
    | JArr l => match norm_idx i (List.length l) with
                | Some n => match nth_error l n with Some c => cget r c | None => None end
                | None => None end
    | _ => None
    end
  | _ => None
  end.
Lemma get_all_concrete : forall p v, concrete p = true ->
  get_all p v = match cget p v with Some c => [c] | None => [] end.
Proof.
  induction p as [|f r IH]; intros v H; [reflexivity|].
  cbn [concrete forallb] in H. apply andb_true_iff in H. destruct H as [Hf Hr]. fold (concrete r) in Hr.
  destruct f; try discriminate; cbn [get_all cget].
  - destruct v; auto. destruct (lookup k kvs); auto.
  - destruct v; auto. destruct (norm_idx i (List.length l)); auto. destruct (nth_error l n); auto.
Qed.
Lemma concrete_top : forall p v, concrete p = true -> get_all_top p v = get_all p v.
Proof. intros p v H. destruct p as [|[] [|]]; try reflexivity; discriminate. Qed.
Lemma concrete_ends_desc : forall p, concrete p = true -> ends_desc p = false.
Proof.
  intros p H. unfold ends_desc. destruct (List.rev p) as [|f t] eqn:E; auto. destruct f; auto. exfalso.
  assert (Hin : In FDesc p) by (apply in_rev; rewrite E; left; reflexivity).
  unfold concrete in H. rewrite forallb_forall in H. specialize (H _ Hin). discriminate.
Qed.
Lemma get_cget : forall p v, concrete p = true -> get p v = cget p v.
Proof.
  intros p v H. unfold get. rewrite (concrete_ends_desc p H). cbn [andb].
  rewrite concrete_top, get_all_concrete by assumption. destruct (cget p v); reflexivity.
Qed.
Lemma cget_app : forall p q v, cget (p ++ q) v = match cget p v with Some c => cget q c | None => None end.
Proof.
  induction p as [|f r IH]; intros q v; [reflexivity|]. cbn [app cget].
  destruct f; auto.
  - destruct v; auto. destruct (lookup k kvs); auto.
  - destruct v; auto. destruct (norm_idx i (List.length l)); auto. destruct (nth_error l n); auto.
Qed.
Lemma concrete_app : forall p q, concrete (p ++ q) = concrete p && concrete q.
Proof. intros. unfold concrete. apply forallb_app. Qed.

(* association lists and lists *)
Lemma lookup_set_same : forall k c kvs, lookup k (set_key k c kvs) = Some c.
Proof.
  induction kvs as [|[k' v'] r IH]; cbn [set_key lookup].
  - rewrite bytes_eqb_refl. reflexivity.
  - destruct (bytes_eqb k k') eqn:E; cbn [lookup]; rewrite E; auto.
Qed.
Lemma lookup_set_other : forall k k' c kvs, bytes_eqb k k' = false -> lookup k' (set_key k c kvs) = lookup k' kvs.
Proof.
  intros k k' c. induction kvs as [|[k2 v2] r IH]; intros E; cbn [set_key lookup].
  - rewrite bytes_eqb_sym, E. reflexivity.
  - destruct (bytes_eqb k k2) eqn:E2; cbn [lookup].
    + apply bytes_eqb_eq in E2. subst k2. rewrite bytes_eqb_sym, E. reflexivity.
    + destruct (bytes_eqb k' k2); auto.
Qed.
Lemma lookup_del_same : forall k kvs, lookup k (del_key k kvs) = None.
Proof. induction kvs as [|[k' v'] r IH]; cbn [del_key lookup]; auto. destruct (bytes_eqb k k') eqn:E; cbn [lookup]; rewrite ?E; auto. Qed.
Lemma lookup_del_other : forall k k' kvs, bytes_eqb k k' = false -> lookup k' (del_key k kvs) = lookup k' kvs.
Proof.
  intros k k'. induction kvs as [|[k2 v2] r IH]; intros E; cbn [del_key lookup]; auto.
  destruct (bytes_eqb k k2) eqn:E2; cbn [lookup].
  - apply bytes_eqb_eq in E2. subst k2. rewrite (bytes_eqb_sym k' k), E. auto.
  - destruct (bytes_eqb k' k2); auto.
Qed.
Lemma set_nth_length : forall n c l, List.length (set_nth n c l) = List.length l.
Proof. induction n; destruct l; cbn; auto. Qed.
Lemma nth_error_set_same : forall n c l, n < List.length l -> nth_error (set_nth n c l) n = Some c.
Proof. induction n; destruct l; cbn; intros; try lia; auto. apply IHn. lia. Qed.
Lemma nth_error_set_other : forall n m c l, n <> m -> nth_error (set_nth n c l) m = nth_error l m.
Proof. induction n; destruct l, m; cbn; intros; auto; try lia. Qed.
Lemma nth_error_del_before : forall n m l, m < n -> nth_error (del_nth n l) m = nth_error l m.
Proof. induction n; destruct l, m; cbn; intros; auto; try lia. apply IHn. lia. Qed.
Lemma norm_idx_lt : forall i n m, norm_idx i n = Some m -> m < n.
Proof.
  unfold norm_idx. intros i n m H.
  destruct ((0 <=? (if (i <? 0)%Z then (Z.of_nat n + i)%Z else i))%Z && ((if (i <? 0)%Z then (Z.of_nat n + i)%Z else i) <? Z.of_nat n)%Z) eqn:E; [|discriminate].
  inversion H; subst. apply andb_true_iff in E. destruct E as [E1 E2]. apply Z.leb_le in E1. apply Z.ltb_lt in E2. lia.
Qed.
Lemma nth_nth_error : forall n (l : list jv) d, n < List.length l -> nth_error l n = Some (nth n l d).
Proof. induction n; destruct l; cbn; intros; try lia; auto. apply IHn. lia. Qed.

(* one step of mset, without unfolding the recursive calls *)
Lemma mset_last : forall f x v, mset [f] x v = set_last f x v.
Proof. reflexivity. Qed.
Lemma mset_key : forall k g r x v, mset (FKey k :: g :: r) x v =
  match v with
  | JObj kvs =>
    match lookup k kvs with
    | Some c => if is_container c then wrap (fun c' => JObj (set_key k c' kvs)) (mset (g :: r) x c) else SErr v
    | None =>
      match g with
      | FKey _ => wrap (fun c' => JObj (set_key k c' kvs)) (mset (g :: r) x (JObj []))
      | FIdx n => if (n <? 0)%Z then SErr v
                  else wrap (fun c' => JObj (set_key k c' kvs)) (mset (g :: r) x (JArr (repeat JNull (S (Z.to_nat n)))))
      | _ => SErr v
      end
    end
  | _ => SOk v
  end.
Proof. reflexivity. Qed.
Lemma mset_idx : forall i g r x v, mset (FIdx i :: g :: r) x v =
  match v with
  | JArr l =>
    match norm_idx i (List.length l) with
    | Some n => let c := nth n l JNull in
                if is_container c then wrap (fun c' => JArr (set_nth n c' l)) (mset (g :: r) x c) else SErr v
    | None => SErr v
    end
  | _ => SOk v
  end.
Proof. reflexivity. Qed.

(* ---------------------------------------------------------------------------------------------- *)
(* (1) setting a value at a concrete path that fits the tree makes a get of that path return it *)
Lemma set_get : forall p x v v', concrete p = true -> p <> [] -> fits p v = true -> mset p x v = SOk v' -> cget p v' = Some x.
Proof.
  induction p as [|f r IH]; intros x v v' Hc Hne Hfit Hset; [congruence|].
  cbn [concrete forallb] in Hc. apply andb_true_iff in Hc. destruct Hc as [Hf Hr]. fold (concrete r) in Hr.
  destruct r as [|g r'].
  - (* last fragment *)
    rewrite mset_last in Hset. destruct f; try discriminate; cbn [set_last] in Hset; cbn [fits] in Hfit.
    + destruct v; try discriminate. inversion Hset; subst. cbn [cget]. rewrite lookup_set_same. reflexivity.
    + destruct v; try discriminate. destruct (norm_idx i (List.length l)) eqn:En; [|discriminate]. inversion Hset; subst.
      cbn [cget]. rewrite set_nth_length, En. rewrite nth_error_set_same by (eapply norm_idx_lt; eauto). reflexivity.
  - assert (Hne' : g :: r' <> []) by discriminate.
    destruct f; try discriminate; cbn [fits] in Hfit.
    + (* key *)
      rewrite mset_key in Hset. destruct v; try discriminate.
      destruct (lookup k kvs) as [c|] eqn:El.
      * destruct (is_container c); [|discriminate].
        destruct (mset (g :: r') x c) as [c'|c'] eqn:Em; cbn [wrap] in Hset; [|discriminate]. inversion Hset; subst.
        cbn [cget]. rewrite lookup_set_same. eapply IH; eauto.
      * destruct g; try discriminate.
        -- destruct (mset (FKey k0 :: r') x (JObj [])) as [c'|c'] eqn:Em; cbn [wrap] in Hset; [|discriminate]. inversion Hset; subst.
           cbn [cget]. rewrite lookup_set_same. eapply IH; eauto. reflexivity.
        -- destruct (i <? 0)%Z eqn:Ei; [discriminate|].
           destruct (mset (FIdx i :: r') x (JArr (repeat JNull (S (Z.to_nat i))))) as [c'|c'] eqn:Em; cbn [wrap] in Hset; [|discriminate].
           inversion Hset; subst. cbn [cget]. rewrite lookup_set_same. eapply IH; eauto.
           (* the created array fits: its only use is the last fragment, otherwise the set fails *)
           cbn [fits]. destruct (norm_idx i (List.length (repeat JNull (S (Z.to_nat i))))) eqn:En; auto.
           destruct r' as [|g2 r2]; [reflexivity|]. exfalso.
           rewrite mset_idx in Em. rewrite En in Em. cbv zeta in Em.
           assert (Hnull : nth n (repeat JNull (S (Z.to_nat i))) JNull = JNull).
           { clear. generalize (S (Z.to_nat i)). intros m. revert n. induction m; destruct n; cbn; auto. }
           rewrite Hnull in Em. cbn [is_container] in Em. discriminate.
    + (* index *)
      rewrite mset_idx in Hset. destruct v; try discriminate.
      destruct (norm_idx i (List.length l)) eqn:En; [|discriminate]. cbv zeta in Hset.
      destruct (is_container (nth n l JNull)); [|discriminate].
      destruct (mset (g :: r') x (nth n l JNull)) as [c'|c'] eqn:Em; cbn [wrap] in Hset; [|discriminate]. inversion Hset; subst.
      cbn [cget]. rewrite set_nth_length, En. rewrite nth_error_set_same by (eapply norm_idx_lt; eauto). eapply IH; eauto.
Qed.

(* (2) ... and leaves every disjoint path as it was, whether the set succeeds or fails *)
Lemma set_frame : forall p q x v, concrete p = true -> concrete q = true -> p <> [] -> disjoint p q v = true ->
  cget q (sres_tree (mset p x v)) = cget q v.
Proof.
  induction p as [|f r IH]; intros q x v Hc Hq Hne Hd; [congruence|].
  cbn [concrete forallb] in Hc. apply andb_true_iff in Hc. destruct Hc as [Hf Hr]. fold (concrete r) in Hr.
  destruct q as [|fq q']; [destruct f; discriminate|].
  cbn [concrete forallb] in Hq. apply andb_true_iff in Hq. destruct Hq as [Hfq Hq']. fold (concrete q') in Hq'.
  destruct f; try discriminate; destruct fq; try discriminate.
  - (* key / key *)
    destruct v; try (destruct r; reflexivity).
    cbn [disjoint] in Hd.
    assert (Hobj : forall c', cget (FKey k0 :: q') (JObj (set_key k c' kvs)) =
                   if bytes_eqb k k0 then cget q' c' else cget (FKey k0 :: q') (JObj kvs)).
    { intros c'. cbn [cget]. destruct (bytes_eqb k k0) eqn:E.
      - apply bytes_eqb_eq in E. subst. rewrite lookup_set_same. reflexivity.
      - rewrite lookup_set_other by assumption. reflexivity. }
    destruct r as [|g r'].
    + rewrite mset_last. cbn [set_last sres_tree]. rewrite Hobj. destruct (bytes_eqb k k0) eqn:E; auto.
      destruct (lookup k kvs); [|discriminate]. destruct q'; discriminate.
    + rewrite mset_key.
      destruct (lookup k kvs) as [c|] eqn:El.
      * destruct (is_container c); [|reflexivity].
        assert (Ht : sres_tree (wrap (fun c' => JObj (set_key k c' kvs)) (mset (g :: r') x c)) = JObj (set_key k (sres_tree (mset (g :: r') x c)) kvs))
          by (destruct (mset (g :: r') x c); reflexivity).
        rewrite Ht, Hobj. destruct (bytes_eqb k k0) eqn:E; auto.
        apply bytes_eqb_eq in E. subst k0. cbn [cget]. rewrite El. apply IH; auto. discriminate.
      * destruct (bytes_eqb k k0) eqn:E; [discriminate|].
        assert (Hany : forall s, (exists c', sres_tree s = JObj (set_key k c' kvs)) \/ sres_tree s = JObj kvs ->
                       cget (FKey k0 :: q') (sres_tree s) = cget (FKey k0 :: q') (JObj kvs)).
        { intros s [[c' Hs] | Hs]; rewrite Hs; auto; rewrite Hobj, E; reflexivity. }
        apply Hany. destruct g; try (right; reflexivity).
        -- left. destruct (mset (FKey k1 :: r') x (JObj [])); eexists; reflexivity.
        -- destruct (i <? 0)%Z; [right; reflexivity|]. left.
           destruct (mset (FIdx i :: r') x (JArr (repeat JNull (S (Z.to_nat i))))); eexists; reflexivity.
  - (* key / index: an object has no elements, an array no members *)
    destruct v; try (destruct r; reflexivity).
    assert (Hk : forall s kvs', sres_tree s = JObj kvs' -> cget (FIdx i :: q') (sres_tree s) = None) by (intros s kvs' ->; reflexivity).
    cbn [cget]. destruct r as [|g r'].
    + reflexivity.
    + rewrite mset_key. destruct (lookup k kvs).
      * destruct (is_container j); [|reflexivity]. destruct (mset (g :: r') x j); reflexivity.
      * destruct g; try reflexivity.
        -- destruct (mset (FKey k0 :: r') x (JObj [])); reflexivity.
        -- destruct (i0 <? 0)%Z; [reflexivity|]. destruct (mset (FIdx i0 :: r') x (JArr (repeat JNull (S (Z.to_nat i0))))); reflexivity.
  - (* index / key *)
    destruct v; try (destruct r; reflexivity).
    cbn [cget]. destruct r as [|g r'].
    + rewrite mset_last. cbn [set_last]. destruct (norm_idx i (List.length l)); reflexivity.
    + rewrite mset_idx. destruct (norm_idx i (List.length l)); [|reflexivity]. cbv zeta.
      destruct (is_container (nth n l JNull)); [|reflexivity]. destruct (mset (g :: r') x (nth n l JNull)); reflexivity.
  - (* index / index *)
    destruct v; try (destruct r; reflexivity).
    cbn [disjoint] in Hd.
    assert (Harr : forall n c', norm_idx i (List.length l) = Some n ->
                   cget (FIdx i0 :: q') (JArr (set_nth n c' l)) =
                   match norm_idx i0 (List.length l) with
                   | Some m => if Nat.eqb n m then cget q' c' else cget (FIdx i0 :: q') (JArr l)
                   | None => None
                   end).
    { intros n c' En. cbn [cget]. rewrite set_nth_length. destruct (norm_idx i0 (List.length l)) as [m|] eqn:Em; auto.
      destruct (Nat.eqb n m) eqn:E.
      - apply Nat.eqb_eq in E. subst m. rewrite nth_error_set_same by (eapply norm_idx_lt; eauto). reflexivity.
      - apply Nat.eqb_neq in E. rewrite nth_error_set_other by assumption. reflexivity. }
    destruct r as [|g r'].
    + rewrite mset_last. cbn [set_last]. destruct (norm_idx i (List.length l)) as [n|] eqn:En; [|reflexivity].
      cbn [sres_tree]. rewrite (Harr n x eq_refl). destruct (norm_idx i0 (List.length l)) as [m|] eqn:Em; [|cbn [cget]; rewrite Em; reflexivity].
      destruct (Nat.eqb n m); auto. destruct q'; discriminate.
    + rewrite mset_idx. destruct (norm_idx i (List.length l)) as [n|] eqn:En; [|reflexivity]. cbv zeta.
      destruct (is_container (nth n l JNull)); [|reflexivity].
      assert (Ht : sres_tree (wrap (fun c' => JArr (set_nth n c' l)) (mset (g :: r') x (nth n l JNull))) =
                   JArr (set_nth n (sres_tree (mset (g :: r') x (nth n l JNull))) l))
        by (destruct (mset (g :: r') x (nth n l JNull)); reflexivity).
      rewrite Ht, (Harr n _ eq_refl). destruct (norm_idx i0 (List.length l)) as [m|] eqn:Em; [|cbn [cget]; rewrite Em; reflexivity].
      destruct (Nat.eqb n m) eqn:E; auto. apply Nat.eqb_eq in E. subst m.
      cbn [cget]. rewrite Em. rewrite (nth_nth_error n l JNull) by (eapply norm_idx_lt; eauto). apply IH; auto. discriminate.
Qed.

(* ---------------------------------------------------------------------------------------------- *)
(* (3) has says whether get finds something, for every path that does not end in a descent *)
Lemma existsb_flat_map : forall (A : Type) (f : A -> bool) (g : A -> list jv) l,
  (forall x, In x l -> f x = negb (is_nil (g x))) -> existsb f l = negb (is_nil (flat_map g l)).
Proof.
  induction l as [|a l IH]; intros H; [reflexivity|]. cbn [existsb flat_map].
  rewrite (H a) by (left; reflexivity). rewrite IH by (intros; apply H; right; assumption).
  destruct (g a); reflexivity.
Qed.
Lemma ends_desc_cons : forall f g r, ends_desc (f :: g :: r) = ends_desc (g :: r).
Proof.
  intros. unfold ends_desc. cbn [List.rev]. destruct (List.rev r ++ [g]) eqn:E.
  - destruct (List.rev r); discriminate.
  - reflexivity.
Qed.
Lemma has_get_agree : forall p v, ends_desc p = false -> mhas p v = negb (is_nil (get_all p v)).
Proof.
  induction p as [|f r IH]; intros v H; [reflexivity|].
  assert (Hr : r <> [] -> ends_desc r = false).
  { intros Hne. destruct r as [|g r']; [congruence|]. rewrite ends_desc_cons in H. exact H. }
  assert (IH' : forall c, mhas r c = negb (is_nil (get_all r c))).
  { intros c. destruct r as [|g r']; [reflexivity|]. apply IH. apply Hr. discriminate. }
  destruct f; cbn [mhas get_all].
  - destruct v; auto. destruct (lookup k kvs); auto.
  - destruct v; auto. destruct (norm_idx i (List.length l)); auto. destruct (nth_error l n); auto.
  - apply existsb_flat_map. intros; apply IH'.
  - destruct r as [|g r']; [discriminate H|].
    destruct (is_container v); [|reflexivity]. cbn [andb]. apply existsb_flat_map. intros; apply IH'.
Qed.
Theorem has_get_top : forall p v, ends_desc p = false -> mhas p v = negb (is_nil (get_all_top p v)).
Proof.
  intros p v H. rewrite has_get_agree by assumption. destruct p as [|[] [|]]; try reflexivity. discriminate H.
Qed.
(* ... and not for one that does: ojg's Has("..") on an empty object is false although Get("..") returns it *)
Theorem has_descent_refuted : mhas [FDesc] (JObj []) = false /\ get_all_top [FDesc] (JObj []) = [JObj []].
Proof. split; reflexivity. Qed.

(* nor does First (bag-get): for a trailing descent it looks for a child only *)
Theorem first_descent_refuted :
  get [FDesc] (JObj []) = None /\ get_all_top [FDesc] (JObj []) = [JObj []] /\
  get [FDesc] (JInt 7) = None /\ get_all_top [FDesc] (JInt 7) = [JInt 7].
Proof. repeat split; reflexivity. Qed.

(* has on concrete paths *)
Lemma mhas_cget : forall p v, concrete p = true -> mhas p v = match cget p v with Some _ => true | None => false end.
Proof.
  intros p v H. assert (He : ends_desc p = false).
  { unfold ends_desc. destruct (List.rev p) as [|f t] eqn:E; auto. destruct f; auto. exfalso.
    assert (Hin : In FDesc p) by (apply in_rev; rewrite E; left; reflexivity).
    unfold concrete in H. rewrite forallb_forall in H. specialize (H _ Hin). discriminate. }
  rewrite has_get_agree, get_all_concrete by assumption. destruct (cget p v); reflexivity.
Qed.

(* ---------------------------------------------------------------------------------------------- *)
(* (4) remove *)
Lemma modify_get : forall p g v c, concrete p = true -> cget p v = Some c -> cget p (modify_at p g v) = Some (g c).
Proof.
  induction p as [|f r IH]; intros g v c Hc H.
  - inversion H; subst. reflexivity.
  - cbn [concrete forallb] in Hc. apply andb_true_iff in Hc. destruct Hc as [Hf Hr]. fold (concrete r) in Hr.
    destruct f; try discriminate; cbn [cget modify_at] in *.
    + destruct v; try discriminate. destruct (lookup k kvs) as [c0|] eqn:El; [|discriminate].
      cbn [cget]. rewrite lookup_set_same. apply IH; auto.
    + destruct v; try discriminate. destruct (norm_idx i (List.length l)) as [n|] eqn:En; [|discriminate].
      destruct (nth_error l n) as [c0|] eqn:Ee; [|discriminate].
      cbn [cget]. rewrite set_nth_length, En. rewrite nth_error_set_same by (eapply norm_idx_lt; eauto).
      rewrite (nth_nth_error n l JNull) in Ee by (eapply norm_idx_lt; eauto). inversion Ee; subst. apply IH; auto.
Qed.
Lemma modify_none : forall p g v, concrete p = true -> cget p v = None -> modify_at p g v = v.
Proof.
  induction p as [|f r IH]; intros g v Hc H; [discriminate|].
  cbn [concrete forallb] in Hc. apply andb_true_iff in Hc. destruct Hc as [Hf Hr]. fold (concrete r) in Hr.
  destruct f; try discriminate; cbn [cget modify_at] in *.
  - destruct v; auto. destruct (lookup k kvs) as [c0|] eqn:El; auto. rewrite IH by auto.
    f_equal. clear - El. induction kvs as [|[k' v'] t IHt]; [discriminate|]. cbn [lookup set_key] in *.
    destruct (bytes_eqb k k') eqn:E; [inversion El; subst; reflexivity | f_equal; auto].
  - destruct v; auto. destruct (norm_idx i (List.length l)) as [n|] eqn:En; auto.
    pose proof (norm_idx_lt _ _ _ En) as Hlt. rewrite (nth_nth_error n l JNull) in H by assumption. rewrite IH by auto.
    f_equal. clear - Hlt. revert n Hlt. induction l; intros n Hlt; cbn in *; [lia|]. destruct n; cbn; auto. f_equal. apply IHl. lia.
Qed.

Lemma concrete_no_desc : forall p, concrete p = true -> ~ In FDesc p.
Proof. intros p H Hin. unfold concrete in H. rewrite forallb_forall in H. specialize (H _ Hin). discriminate. Qed.
Lemma bag_remove_app : forall sx last v, concrete (sx ++ [last]) = true ->
  bag_remove (sx ++ [last]) v = Some (modify_at sx (remove_last last) v).
Proof.
  intros sx last v Hc. rewrite concrete_app in Hc. apply andb_true_iff in Hc. destruct Hc as [Hsx Hl].
  unfold bag_remove. rewrite rev_app_distr. change (List.rev [last] ++ List.rev sx) with (last :: List.rev sx).
  destruct last; try discriminate; destruct (List.rev sx) as [|f t] eqn:E.
  all: try (assert (sx = []) by (destruct sx; [reflexivity | cbn in E; destruct (List.rev sx); discriminate]); subst; reflexivity).
  all: destruct f; try (rewrite <- E, rev_involutive; reflexivity).
  all: exfalso; apply (concrete_no_desc sx Hsx); apply in_rev; rewrite E; left; reflexivity.
Qed.

(* removing a member of an object: has is false afterwards *)
Theorem remove_key_has : forall sx k v v', concrete sx = true ->
  bag_remove (sx ++ [FKey k]) v = Some v' -> mhas (sx ++ [FKey k]) v' = false.
Proof.
  intros sx k v v' Hc H.
  assert (Hcc : concrete (sx ++ [FKey k]) = true) by (rewrite concrete_app, Hc; reflexivity).
  rewrite bag_remove_app in H by assumption. inversion H; subst v'. clear H.
  rewrite mhas_cget by assumption. rewrite cget_app.
  destruct (cget sx v) as [c|] eqn:Eg.
  - rewrite (modify_get sx _ v c Hc Eg). cbn [cget]. destruct c; cbn [remove_last]; auto. rewrite lookup_del_same. reflexivity.
  - rewrite (modify_none sx _ v Hc Eg), Eg. reflexivity.
Qed.
(* removing an element of an array: exactly that element is dropped *)
Theorem remove_index : forall sx i v v' l n, concrete sx = true -> cget sx v = Some (JArr l) -> norm_idx i (List.length l) = Some n ->
  bag_remove (sx ++ [FIdx i]) v = Some v' -> cget sx v' = Some (JArr (del_nth n l)).
Proof.
  intros sx i v v' l n Hc Hg Hn H.
  assert (Hcc : concrete (sx ++ [FIdx i]) = true) by (rewrite concrete_app, Hc; reflexivity).
  rewrite bag_remove_app in H by assumption. inversion H; subst v'. clear H.
  rewrite (modify_get sx _ v _ Hc Hg). cbn [remove_last]. rewrite Hn. reflexivity.
Qed.

(* removing leaves alone every path that parts ways with it before the removed member or, in the array the
   removed element was in, goes through an earlier element (indices written from the front) *)
Definition nonneg_frag (f : frag) : bool := match f with FIdx i => (0 <=? i)%Z | _ => true end.
Definition nonneg (p : path) : bool := forallb nonneg_frag p.
Lemma norm_idx_nonneg : forall i n, (0 <= i)%Z -> norm_idx i n = if (i <? Z.of_nat n)%Z then Some (Z.to_nat i) else None.
Proof.
  intros i n H. unfold norm_idx. assert (E : (i <? 0)%Z = false) by (apply Z.ltb_ge; lia). rewrite E.
  assert (E2 : (0 <=? i)%Z = true) by (apply Z.leb_le; lia). rewrite E2. reflexivity.
Qed.
Lemma del_nth_length : forall n (l : list jv), n < List.length l -> List.length (del_nth n l) = List.length l - 1.
Proof. induction n; destruct l; cbn; intros; try lia. rewrite IHn by lia. lia. Qed.

Lemma remove_frame : forall sx last q v, concrete (sx ++ [last]) = true -> concrete q = true -> nonneg q = true ->
  rm_disjoint (sx ++ [last]) q v = true -> cget q (modify_at sx (remove_last last) v) = cget q v.
Proof.
  induction sx as [|f sx IH]; intros last q v Hc Hq Hnn Hd.
  - (* the removal itself *)
    cbn [app] in *. cbn [modify_at].
    destruct q as [|fq q']; [destruct last; discriminate|].
    cbn [concrete forallb] in Hc, Hq. apply andb_true_iff in Hq. destruct Hq as [Hfq Hq'].
    cbn [nonneg forallb] in Hnn. apply andb_true_iff in Hnn. destruct Hnn as [Hnf Hnq].
    destruct last; try discriminate; destruct fq; try discriminate; cbn [rm_disjoint] in Hd.
    + destruct v; auto. cbn [remove_last cget].
      destruct (bytes_eqb k k0) eqn:E.
      * destruct (lookup k kvs); [|discriminate]. destruct q'; discriminate.
      * rewrite lookup_del_other by assumption. reflexivity.
    + destruct v; auto.
    + destruct v; auto. cbn [remove_last]. destruct (norm_idx i (List.length l)); reflexivity.
    + destruct v; auto. cbn [remove_last].
      destruct (norm_idx i (List.length l)) as [n|] eqn:En; [|reflexivity].
      pose proof (norm_idx_lt _ _ _ En) as Hn.
      cbn [nonneg_frag] in Hnf. apply Z.leb_le in Hnf.
      cbn [cget]. rewrite del_nth_length by assumption. rewrite !norm_idx_nonneg by assumption.
      rewrite norm_idx_nonneg in Hd by assumption.
      destruct (i0 <? Z.of_nat (List.length l))%Z eqn:E1.
      * apply Nat.ltb_lt in Hd. apply Z.ltb_lt in E1.
        assert (E2 : (i0 <? Z.of_nat (List.length l - 1))%Z = true) by (apply Z.ltb_lt; lia). rewrite E2.
        rewrite nth_error_del_before by assumption. reflexivity.
      * apply Z.ltb_ge in E1. assert (E2 : (i0 <? Z.of_nat (List.length l - 1))%Z = false) by (apply Z.ltb_ge; lia). rewrite E2. reflexivity.
  - (* on the way there *)
    change ((f :: sx) ++ [last]) with (f :: (sx ++ [last])) in *.
    cbn [concrete forallb] in Hc. apply andb_true_iff in Hc. destruct Hc as [Hf Hc]. fold (concrete (sx ++ [last])) in Hc.
    destruct q as [|fq q']; [destruct f; try discriminate; destruct (sx ++ [last]) eqn:E; try discriminate; destruct sx; discriminate|].
    cbn [concrete forallb] in Hq. apply andb_true_iff in Hq. destruct Hq as [Hfq Hq']. fold (concrete q') in Hq'.
    cbn [nonneg forallb] in Hnn. apply andb_true_iff in Hnn. destruct Hnn as [Hnf Hnq]. fold (nonneg q') in Hnq.
    assert (Hne : sx ++ [last] <> []) by (destruct sx; discriminate).
    destruct f; try discriminate; destruct fq; try discriminate.
    + destruct v; auto. cbn [modify_at].
      assert (Hd' : (if bytes_eqb k k0 then match lookup k kvs with Some c => rm_disjoint (sx ++ [last]) q' c | None => false end else true) = true).
      { destruct (sx ++ [last]) eqn:E; [congruence|]. exact Hd. }
      destruct (lookup k kvs) as [c|] eqn:El; [|reflexivity].
      cbn [cget]. destruct (bytes_eqb k k0) eqn:E.
      * apply bytes_eqb_eq in E. subst k0. rewrite lookup_set_same, El. apply IH; auto.
      * rewrite lookup_set_other by assumption. reflexivity.
    + destruct v; auto. cbn [modify_at]. destruct (lookup k kvs); reflexivity.
    + destruct v; auto. cbn [modify_at]. destruct (norm_idx i (List.length l)); reflexivity.
    + destruct v; auto. cbn [modify_at].
      assert (Hd' : match norm_idx i (List.length l), norm_idx i0 (List.length l) with
                    | Some n, Some m => if Nat.eqb n m then rm_disjoint (sx ++ [last]) q' (nth n l JNull) else true
                    | _, _ => true end = true).
      { destruct (sx ++ [last]) eqn:E; [congruence|]. destruct l0; exact Hd. }
      destruct (norm_idx i (List.length l)) as [n|] eqn:En; [|reflexivity].
      pose proof (norm_idx_lt _ _ _ En) as Hn.
      cbn [cget]. rewrite set_nth_length. destruct (norm_idx i0 (List.length l)) as [m|] eqn:Em; [|reflexivity].
      destruct (Nat.eqb n m) eqn:E.
      * apply Nat.eqb_eq in E. subst m. rewrite nth_error_set_same by assumption.
        rewrite (nth_nth_error n l JNull) by assumption. apply IH; auto.
      * apply Nat.eqb_neq in E. rewrite nth_error_set_other by assumption. reflexivity.
Qed.

(* ---------------------------------------------------------------------------------------------- *)
(* (5) walk: what a pattern matches is exactly what get reaches through the concrete paths it stands for *)
Lemma nodes_arr : forall l, nodes (JArr l) = JArr l :: flat_map nodes l.
Proof. intros l. cbn [nodes]. f_equal; try (induction l; cbn [flat_map]; auto; try (rewrite IHl; reflexivity)). Qed.
Lemma nodes_obj : forall kvs, nodes (JObj kvs) = JObj kvs :: flat_map (fun kv => nodes (snd kv)) kvs.
Proof. intros l. cbn [nodes]. f_equal; try (induction l as [|[k x] l IH]; cbn [flat_map snd]; auto; try (rewrite IH; reflexivity)). Qed.
Lemma keys_unique_arr : forall l, keys_unique (JArr l) = forallb keys_unique l.
Proof. intros l. cbn [keys_unique]. try (induction l; cbn [forallb]; auto; try (rewrite IHl; reflexivity)). Qed.
Lemma keys_unique_obj : forall kvs, keys_unique (JObj kvs) = keys_nodup (map fst kvs) && forallb (fun kv => keys_unique (snd kv)) kvs.
Proof. intros l. cbn [keys_unique]. f_equal; try (induction l as [|[k x] l IH]; cbn [forallb snd]; auto; try (rewrite IH; reflexivity)). Qed.
Lemma lookup_in : forall k kvs x, lookup k kvs = Some x -> In (k, x) kvs.
Proof.
  induction kvs as [|[k' v'] r IH]; intros x H; [discriminate|]. cbn [lookup] in H.
  destruct (bytes_eqb k k') eqn:E.
  - apply bytes_eqb_eq in E. inversion H; subst. left; reflexivity.
  - right. auto.
Qed.
Lemma lookup_nodup : forall kvs k x, keys_nodup (map fst kvs) = true -> In (k, x) kvs -> lookup k kvs = Some x.
Proof.
  induction kvs as [|[k' v'] r IH]; intros k x Hn Hin; [destruct Hin|].
  cbn [map fst keys_nodup] in Hn. apply andb_true_iff in Hn. destruct Hn as [Hk Hn]. apply negb_true_iff in Hk.
  cbn [lookup]. destruct Hin as [Heq | Hin].
  - inversion Heq; subst. rewrite bytes_eqb_refl. reflexivity.
  - destruct (bytes_eqb k k') eqn:E; [|auto].
    apply bytes_eqb_eq in E. subst k'. exfalso.
    assert (Hin' : In k (map fst r)) by (apply in_map_iff; exists (k, x); split; [reflexivity | assumption]).
    pose proof (existsb_false_in _ _ Hk k Hin') as Hf. rewrite bytes_eqb_refl in Hf. discriminate.
Qed.

Lemma reach_nodes : forall q v c, cget q v = Some c -> In c (nodes v).
Proof.
  induction q as [|f r IH]; intros v c H.
  - inversion H; subst. destruct c; left; reflexivity.
  - destruct f; try discriminate; cbn [cget] in H.
    + destruct v; try discriminate. destruct (lookup k kvs) as [x|] eqn:El; [|discriminate].
      rewrite nodes_obj. right. apply in_flat_map. exists (k, x). split; [apply lookup_in; assumption | apply IH; assumption].
    + destruct v; try discriminate. destruct (norm_idx i (List.length l)); [|discriminate].
      destruct (nth_error l n) as [x|] eqn:En; [|discriminate].
      rewrite nodes_arr. right. apply in_flat_map. exists x. split; [eapply nth_error_In; eauto | apply IH; assumption].
Qed.
Lemma nodes_reach : forall v c, keys_unique v = true -> In c (nodes v) -> exists q, concrete q = true /\ nonneg q = true /\ cget q v = Some c.
Proof.
  induction v using jv_ind2; intros c Hu Hin.
  1-6: destruct Hin as [<- | []]; exists []; repeat split; reflexivity.
  - rewrite nodes_arr in Hin. destruct Hin as [<- | Hin]; [exists []; repeat split; reflexivity|].
    rewrite keys_unique_arr in Hu. apply in_flat_map in Hin. destruct Hin as (x & Hx & Hc).
    apply In_nth_error in Hx. destruct Hx as [n Hn].
    rewrite Forall_forall in H. rewrite forallb_forall in Hu.
    assert (Hxin : In x l) by (eapply nth_error_In; eauto).
    destruct (H x Hxin c (Hu x Hxin) Hc) as (q & Hq1 & Hq2 & Hq3).
    exists (FIdx (Z.of_nat n) :: q). repeat split; [cbn; exact Hq1 | cbn [nonneg forallb nonneg_frag]; fold (nonneg q); rewrite Hq2; assert (E : (0 <=? Z.of_nat n)%Z = true) by (apply Z.leb_le; lia); rewrite E; reflexivity |].
    cbn [cget]. assert (Hlt : n < List.length l) by (apply nth_error_Some; congruence).
    rewrite norm_idx_nonneg by lia. assert (E : (Z.of_nat n <? Z.of_nat (List.length l))%Z = true) by (apply Z.ltb_lt; lia).
    rewrite E, Nat2Z.id, Hn. exact Hq3.
  - rewrite nodes_obj in Hin. destruct Hin as [<- | Hin]; [exists []; repeat split; reflexivity|].
    rewrite keys_unique_obj in Hu. apply andb_true_iff in Hu. destruct Hu as [Hnd Hu].
    apply in_flat_map in Hin. destruct Hin as ([k x] & Hx & Hc). cbn [snd] in Hc.
    rewrite Forall_forall in H. rewrite forallb_forall in Hu.
    destruct (H (k, x) Hx c (Hu (k, x) Hx) Hc) as (q & Hq1 & Hq2 & Hq3).
    exists (FKey k :: q). repeat split; [cbn; exact Hq1 | cbn [nonneg forallb nonneg_frag]; fold (nonneg q); rewrite Hq2; reflexivity |].
    cbn [cget]. rewrite (lookup_nodup kvs k x Hnd Hx). exact Hq3.
Qed.

(* the default walk (path "..") visits exactly the nodes some concrete path reaches *)
Lemma flat_map_single : forall (l : list jv), flat_map (fun x => [x]) l = l.
Proof. induction l; cbn; auto. rewrite IHl. reflexivity. Qed.
Theorem walk_all_nodes : forall v c, keys_unique v = true ->
  (In c (get_all_top [FDesc] v) <-> exists q, concrete q = true /\ cget q v = Some c).
Proof.
  intros v c Hu.
  assert (Hg : get_all_top [FDesc] v = nodes v).
  { unfold get_all_top. destruct (is_container v) eqn:C.
    - cbn [get_all]. rewrite C. apply flat_map_single.
    - destruct v; try discriminate; reflexivity. }
  rewrite Hg. split.
  - intros Hin. destruct (nodes_reach v c Hu Hin) as (q & H1 & _ & H3). eauto.
  - intros (q & _ & Hq). eapply reach_nodes; eauto.
Qed.

(* patterns of keys, indices and wildcards *)
Inductive inst_frag : frag -> frag -> Prop :=
  | IKey : forall k, inst_frag (FKey k) (FKey k)
  | IIdx : forall i, inst_frag (FIdx i) (FIdx i)
  | IWildKey : forall k, inst_frag (FKey k) FWild
  | IWildIdx : forall i, (0 <= i)%Z -> inst_frag (FIdx i) FWild.
Definition inst (q p : path) : Prop := Forall2 inst_frag q p.
Definition no_desc (p : path) : bool := forallb (fun f => match f with FDesc => false | _ => true end) p.

Theorem walk_pattern : forall p v c, no_desc p = true -> keys_unique v = true ->
  (In c (get_all p v) <-> exists q, inst q p /\ cget q v = Some c).
Proof.
  induction p as [|f r IH]; intros v c Hnd Hu.
  - cbn [get_all]. split.
    + intros [<- | []]. exists []. split; [constructor | reflexivity].
    + intros (q & Hi & Hq). inversion Hi; subst. inversion Hq. left; reflexivity.
  - cbn [no_desc forallb] in Hnd. apply andb_true_iff in Hnd. destruct Hnd as [Hf Hr]. fold (no_desc r) in Hr.
    destruct f; try discriminate; cbn [get_all].
    + (* key *)
      split.
      * intros Hin. destruct v; try destruct Hin. destruct (lookup k kvs) as [x|] eqn:El; [|destruct Hin].
        rewrite keys_unique_obj in Hu. apply andb_true_iff in Hu. destruct Hu as [_ Hu]. rewrite forallb_forall in Hu.
        apply (IH x c Hr (Hu (k, x) (lookup_in _ _ _ El))) in Hin. destruct Hin as (q & Hi & Hq).
        exists (FKey k :: q). split; [constructor; [constructor | exact Hi] | cbn [cget]; rewrite El; exact Hq].
      * intros (q & Hi & Hq). inversion Hi as [|fq ? q' ? Hfi Hi']; subst. inversion Hfi; subst. cbn [cget] in Hq.
        destruct v; try discriminate. destruct (lookup k kvs) as [x|] eqn:El; [|discriminate].
        rewrite keys_unique_obj in Hu. apply andb_true_iff in Hu. destruct Hu as [_ Hu]. rewrite forallb_forall in Hu.
        apply (IH x c Hr (Hu (k, x) (lookup_in _ _ _ El))). eauto.
    + (* index *)
      split.
      * intros Hin. destruct v; try destruct Hin. destruct (norm_idx i (List.length l)) as [n|] eqn:En; [|destruct Hin].
        destruct (nth_error l n) as [x|] eqn:Ee; [|destruct Hin].
        rewrite keys_unique_arr in Hu. rewrite forallb_forall in Hu.
        apply (IH x c Hr (Hu x (nth_error_In _ _ Ee))) in Hin. destruct Hin as (q & Hi & Hq).
        exists (FIdx i :: q). split; [constructor; [constructor | exact Hi] | cbn [cget]; rewrite En, Ee; exact Hq].
      * intros (q & Hi & Hq). inversion Hi as [|fq ? q' ? Hfi Hi']; subst. inversion Hfi; subst. cbn [cget] in Hq.
        destruct v; try discriminate. destruct (norm_idx i (List.length l)) as [n|] eqn:En; [|discriminate].
        destruct (nth_error l n) as [x|] eqn:Ee; [|discriminate].
        rewrite keys_unique_arr in Hu. rewrite forallb_forall in Hu.
        apply (IH x c Hr (Hu x (nth_error_In _ _ Ee))). eauto.
    + (* wildcard *)
      split.
      * intros Hin. apply in_flat_map in Hin. destruct Hin as (x & Hx & Hc).
        destruct v; try destruct Hx.
        -- rewrite keys_unique_arr in Hu. rewrite forallb_forall in Hu.
           cbn [children] in Hx. apply (IH x c Hr (Hu x Hx)) in Hc. destruct Hc as (q & Hi & Hq).
           apply In_nth_error in Hx. destruct Hx as [n Hn].
           assert (Hlt : n < List.length l) by (apply nth_error_Some; congruence).
           exists (FIdx (Z.of_nat n) :: q). split; [constructor; [constructor; lia | exact Hi]|].
           cbn [cget]. rewrite norm_idx_nonneg by lia.
           assert (E : (Z.of_nat n <? Z.of_nat (List.length l))%Z = true) by (apply Z.ltb_lt; lia).
           rewrite E, Nat2Z.id, Hn. exact Hq.
        -- rewrite keys_unique_obj in Hu. apply andb_true_iff in Hu. destruct Hu as [Hnd Hu]. rewrite forallb_forall in Hu.
           cbn [children] in Hx. apply in_map_iff in Hx. destruct Hx as ([k x'] & Hxe & Hx). cbn [snd] in Hxe. subst x'.
           apply (IH x c Hr (Hu (k, x) Hx)) in Hc. destruct Hc as (q & Hi & Hq).
           exists (FKey k :: q). split; [constructor; [constructor | exact Hi]|].
           cbn [cget]. rewrite (lookup_nodup kvs k x Hnd Hx). exact Hq.
      * intros (q & Hi & Hq). inversion Hi as [|fq ? q' ? Hfi Hi']; subst. apply in_flat_map.
        inversion Hfi; subst; cbn [cget] in Hq.
        -- destruct v; try discriminate. destruct (lookup k kvs) as [x|] eqn:El; [|discriminate].
           rewrite keys_unique_obj in Hu. apply andb_true_iff in Hu. destruct Hu as [_ Hu]. rewrite forallb_forall in Hu.
           exists x. split; [cbn [children]; apply in_map_iff; exists (k, x); split; [reflexivity | apply lookup_in; assumption]|].
           apply (IH x c Hr (Hu (k, x) (lookup_in _ _ _ El))). eauto.
        -- destruct v; try discriminate. destruct (norm_idx i (List.length l)) as [n|] eqn:En; [|discriminate].
           destruct (nth_error l n) as [x|] eqn:Ee; [|discriminate].
           rewrite keys_unique_arr in Hu. rewrite forallb_forall in Hu.
           exists x. split; [cbn [children]; eapply nth_error_In; eauto|].
           apply (IH x c Hr (Hu x (nth_error_In _ _ Ee))). eauto.
Qed.
