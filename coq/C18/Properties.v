(* C18 — property theorems only.  Model: Model.v (text), ModelPath.v (JSONPath operations), ModelBridge.v
   (Go data / Lisp objects / bag data); guards: Spec.v, SpecPath.v; proofs: ProofsLex, ProofsText, ProofsPath,
   ProofsBridge, ProofsWalk, ProofsPattern. *)
From Coq Require Import List ZArith NArith Bool Strings.Byte String.
From C18 Require Import Tables Model Spec ModelPath ModelBridge SpecPath ProofsLex ProofsText ProofsPath ProofsBridge ProofsWalk ProofsPattern ModelStore SpecStore ProofsStore.
Import ListNotations.

(* ---- (1) text ------------------------------------------------------------------------------------
   Writing a bag with any of the four exact writers bag-write reaches without the pretty printer (SEN or JSON,
   tight or indented) and parsing the text gives back the same data: every value v inside the guard text_ok
   (valid UTF-8 strings; strings SEN leaves unquoted must be safe bare tokens; int64 below the parser's int64
   limit, json.Number integers above it; float texts are number literals; unique keys) and top_ok (the text does
   not begin with the byte 0xEF, which the parser takes for a byte order mark). *)
Theorem C18_write_parse_roundtrip : forall f sty v,
  text_ok false f v = true -> top_ok f v = true -> parse (write f sty v) = Some v.
Proof. exact write_parse_roundtrip. Qed.
Print Assumptions C18_write_parse_roundtrip.

(* The same for ANY layout: whatever white space, line breaks or commas separate the tokens of v (as long as two
   bare tokens / numbers do not touch), the text parses to v.  This is what covers pretty.Writer, whose
   width-driven layout is not modelled: per run its output is only checked to parse (in the model) to v. *)
Theorem C18_parse_any_layout : forall f ps v,
  wf_pieces f PNone ps = true -> toks ps = tokens_of f v -> value_ok f v = true -> no_bom (print f ps) = true ->
  parse (print f ps) = Some v.
Proof. exact parse_any_layout. Qed.
Print Assumptions C18_parse_any_layout.

(* String escaping: for every byte string that is valid UTF-8 (control characters, quotes, backslashes, DEL,
   U+2028/U+2029, U+FFFD, 2/3/4-byte runes ...), in JSON and in SEN quoting, the lexer reads back exactly the
   bytes that were written. *)
Theorem C18_string_roundtrip : forall f s, utf8_ok s = true -> lex (print_token f (TStr s)) = Some [TStr s].
Proof. exact string_roundtrip. Qed.
Print Assumptions C18_string_roundtrip.

(* Integers of any size: the decimal text of z parses to z, as an int64 below the parser's limit and as a
   json.Number beyond it. *)
Theorem C18_integer_roundtrip : forall z, parse (print_int z) = Some (if small z then JInt z else JBig z).
Proof. exact integer_roundtrip. Qed.
Print Assumptions C18_integer_roundtrip.

(* The guard is satisfiable by a document with every kind of value; and outside it the faithful model breaks
   the round trip (each is a known finding): *)
Theorem C18_text_guard_nonvacuous :
  text_ok false FJson sample_doc = true /\ text_ok false FSen sample_doc = true /\ top_ok FSen (JStr (B [239; 189; 177; 98]%N)) = false.
Proof. exact sample_in_guard. Qed.
Print Assumptions C18_text_guard_nonvacuous.
Theorem C18_sen_keyword_string_refuted : parse (write FSen Tight (JStr (Bs "true"))) = Some (JBool true).
Proof. exact sen_keyword_string_refuted. Qed.
Print Assumptions C18_sen_keyword_string_refuted.
Theorem C18_sen_minus_string_refuted : parse (write FSen Tight (JArr [JStr (Bs "-1")])) = Some (JArr [JInt (-1)]).
Proof. exact sen_minus_string_refuted. Qed.
Print Assumptions C18_sen_minus_string_refuted.
Theorem C18_sen_backquote_string_refuted : parse (write FSen Indent2 (JObj [(Bs "a`b", JInt 1)])) = None.
Proof. exact sen_backquote_string_refuted. Qed.
Print Assumptions C18_sen_backquote_string_refuted.
Theorem C18_sen_plus_string_refuted : parse (write FSen Tight (JStr (Bs "+1"))) = None.
Proof. exact sen_plus_string_refuted. Qed.
Print Assumptions C18_sen_plus_string_refuted.
Theorem C18_invalid_utf8_refuted :
  parse (write FJson Tight (JStr (B [255]%N))) = Some (JStr (B [239; 191; 189]%N)) /\
  parse (write FSen Tight (JStr (B [97; 195]%N))) = Some (JStr (B [97; 239; 191; 189]%N)).
Proof. exact invalid_utf8_refuted. Qed.
Print Assumptions C18_invalid_utf8_refuted.
Theorem C18_sen_bom_string_refuted :
  parse (write FSen Tight (JStr (B [239; 187; 191; 98; 111; 109]%N))) = Some (JStr (Bs "bom")) /\
  parse (write FSen Indent2 (JStr (B [239; 189; 177; 98; 99; 100]%N))) = None.
Proof. exact sen_bom_string_refuted. Qed.
Print Assumptions C18_sen_bom_string_refuted.
Theorem C18_int64_edge_refuted :
  parse (write FJson Tight (JInt 9223372036854775807)) = Some (JBig 9223372036854775807) /\
  parse (write FSen Tight (JInt (-9223372036854775808))) = Some (JBig (-9223372036854775808)).
Proof. exact int64_edge_refuted. Qed.
Print Assumptions C18_int64_edge_refuted.

(* ---- (2) paths -----------------------------------------------------------------------------------
   get = Expr.First (the head of Expr.Get, except after a trailing descent); for concrete paths (keys and indices)
   it is the partial function cget. *)
Theorem C18_get_concrete : forall p v, concrete p = true -> get p v = cget p v.
Proof. exact get_cget. Qed.
Print Assumptions C18_get_concrete.

(* Setting x at a concrete path p that fits the tree (a key where there is an object, an index where there is
   an array, missing members are created) makes a get of p return x. *)
Theorem C18_set_then_get : forall p x v v',
  concrete p = true -> p <> [] -> fits p v = true -> mset p x v = SOk v' -> cget p v' = Some x.
Proof. exact set_get. Qed.
Print Assumptions C18_set_then_get.

(* ... and every concrete path q that parts ways with p inside v reads the same before and after - whether
   the set succeeded or panicked half way (sres_tree is the tree it left behind). *)
Theorem C18_set_frame : forall p q x v,
  concrete p = true -> concrete q = true -> p <> [] -> disjoint p q v = true -> cget q (sres_tree (mset p x v)) = cget q v.
Proof. exact set_frame. Qed.
Print Assumptions C18_set_frame.

(* has agrees with get - for every path (wildcards and descents included) that does not END in a descent; *)
Theorem C18_has_agrees_with_get : forall p v, ends_desc p = false -> mhas p v = negb (is_nil (get_all_top p v)).
Proof. exact has_get_top. Qed.
Print Assumptions C18_has_agrees_with_get.
(* for one that does, ojg's Has answers "is there a child" although Get also returns the node itself. *)
Theorem C18_has_descent_refuted : mhas [FDesc] (JObj []) = false /\ get_all_top [FDesc] (JObj []) = [JObj []].
Proof. exact has_descent_refuted. Qed.
Print Assumptions C18_has_descent_refuted.
(* bag-get (Expr.First) does the same: nothing for ".." on an empty container or a scalar, although get-all and
   walk (Expr.Get) return the node. *)
Theorem C18_first_descent_refuted :
  get [FDesc] (JObj []) = None /\ get_all_top [FDesc] (JObj []) = [JObj []] /\
  get [FDesc] (JInt 7) = None /\ get_all_top [FDesc] (JInt 7) = [JInt 7].
Proof. exact first_descent_refuted. Qed.
Print Assumptions C18_first_descent_refuted.

(* remove: after removing the member k of the object at sx, has of that path is false; *)
Theorem C18_remove_then_has : forall sx k v v', concrete sx = true ->
  bag_remove (sx ++ [FKey k]) v = Some v' -> mhas (sx ++ [FKey k]) v' = false.
Proof. exact remove_key_has. Qed.
Print Assumptions C18_remove_then_has.
(* removing the element i of the array l at sx leaves exactly l without that element there; *)
Theorem C18_remove_index : forall sx i v v' l n, concrete sx = true -> cget sx v = Some (JArr l) ->
  norm_idx i (List.length l) = Some n -> bag_remove (sx ++ [FIdx i]) v = Some v' -> cget sx v' = Some (JArr (del_nth n l)).
Proof. exact remove_index. Qed.
Print Assumptions C18_remove_index.
(* and every path that parts ways with the removed one (in the same array: goes through an earlier element)
   reads the same before and after. *)
Theorem C18_remove_frame : forall sx last q v, concrete (sx ++ [last]) = true -> concrete q = true -> nonneg q = true ->
  rm_disjoint (sx ++ [last]) q v = true -> cget q (modify_at sx (remove_last last) v) = cget q v.
Proof. exact remove_frame. Qed.
Print Assumptions C18_remove_frame.

(* walk: with the default path ".." the function is called on exactly the nodes some concrete path reaches; *)
Theorem C18_walk_default : forall v c, keys_unique v = true ->
  (In c (get_all_top [FDesc] v) <-> exists q, concrete q = true /\ cget q v = Some c).
Proof. exact walk_all_nodes. Qed.
Print Assumptions C18_walk_default.
(* with a pattern of keys, indices and wildcards, on exactly what get returns for the concrete paths that are
   instances of the pattern.  (Partial: patterns with a descent in the middle are only evaluated per run.) *)
Theorem C18_walk_pattern_partial : forall p v c, no_desc p = true -> keys_unique v = true ->
  (In c (get_all p v) <-> exists q, inst q p /\ cget q v = Some c).
Proof. exact walk_pattern. Qed.
Print Assumptions C18_walk_pattern_partial.
(* The same for EVERY pattern that does not end in a descent - descents in the middle, several of them, after
   wildcards: walk / get-all visit exactly what get returns for the concrete paths q that are instances of the
   pattern, where a key or index stands for itself, a wildcard for any key or any index, and a descent for any
   concrete path, the empty one included (dinst).  Without descents dinst is inst (C18_dinst_no_desc), so this
   contains C18_walk_pattern_partial.  (For a descent AFTER a wildcard get_all is the reference JSONPath semantics,
   which ojg does not follow - known finding C18-wildcard-descent-get; such paths are not generated, so there the
   theorem says what walk should visit, not what ojg visits.) *)
Theorem C18_walk_pattern : forall p v c, ends_desc p = false -> keys_unique v = true ->
  (In c (get_all_top p v) <-> exists q, dinst q p /\ cget q v = Some c).
Proof. exact walk_pattern_desc_top. Qed.
Print Assumptions C18_walk_pattern.
Theorem C18_dinst_no_desc : forall q p, no_desc p = true -> (dinst q p <-> inst q p).
Proof. exact dinst_no_desc. Qed.
Print Assumptions C18_dinst_no_desc.
(* For a pattern that ends in a descent the statement without the guard is false of ojg: a descent is not started
   at a scalar, so its zero-length match is missed there - "a.." on {a:1} visits nothing although get of "a"
   returns 1 (and ".." on a bag holding just 1 does visit the 1).  Known finding C18-walk-descent-at-scalar. *)
Theorem C18_walk_trailing_descent_refuted :
  let p := [FKey (Bs "a"); FDesc] in
  let v := JObj [(Bs "a", JInt 1)] in
  get_all_top p v = [] /\ dinst [FKey (Bs "a")] p /\ cget [FKey (Bs "a")] v = Some (JInt 1).
Proof. exact walk_trailing_descent_refuted. Qed.
Print Assumptions C18_walk_trailing_descent_refuted.
(* What holds for ALL patterns, trailing descents included: walk / get-all visit exactly what get returns for
   the instances of the pattern in which every descent starts at a container (vinst follows the instance inside
   the value: VDesc demands is_container). *)
Theorem C18_walk_any_pattern : forall p v c, keys_unique v = true ->
  (In c (get_all p v) <-> exists q, vinst v q p /\ cget q v = Some c).
Proof. exact walk_any_pattern. Qed.
Print Assumptions C18_walk_any_pattern.

(* ---- (2b) set, modify and remove through patterns (wildcards) -------------------------------------
   Setting x through a pattern p of keys, indices and wildcards (bag-set with "*" fragments): when the call
   succeeds, every concrete instance q of p that existed before reads x afterwards ... *)
Theorem C18_set_pattern_then_get : forall p x q v v' c0, no_desc p = true -> p <> [] -> mset p x v = SOk v' ->
  inst q p -> cget q v = Some c0 -> cget q v' = Some x.
Proof. exact set_pattern_inst. Qed.
Print Assumptions C18_set_pattern_then_get.
(* ... and everything the pattern matches in the new tree (created members included) is x. *)
Theorem C18_set_pattern_all : forall p x v v', no_desc p = true -> p <> [] -> mset p x v = SOk v' ->
  forall c, In c (get_all p v') -> c = x.
Proof. exact set_pattern_all. Qed.
Print Assumptions C18_set_pattern_all.
(* Frame: every concrete path q that parts ways with the pattern inside v (pdisjoint: p names another key or
   index than q at a node both reach; a wildcard never parts ways; or q does not exist below a wildcard) reads the
   same before and after - whether the set succeeded or panicked half way.  On concrete p, pdisjoint is the
   disjoint of C18_set_frame. *)
Theorem C18_set_pattern_frame : forall p q x v, no_desc p = true -> concrete q = true -> p <> [] -> pdisjoint p q v = true ->
  cget q (sres_tree (mset p x v)) = cget q v.
Proof. exact set_pattern_frame. Qed.
Print Assumptions C18_set_pattern_frame.
Theorem C18_pdisjoint_concrete : forall p q v, concrete p = true -> pdisjoint p q v = disjoint p q v.
Proof. exact pdisjoint_concrete. Qed.
Print Assumptions C18_pdisjoint_concrete.

(* bag-modify through a pattern of keys, indices and wildcards (modify_at p g is what Expr.Modify does with the
   function g on bag data): the matches of p afterwards are exactly the old matches, each replaced by g of it; *)
Theorem C18_modify_matches : forall p g v, no_desc p = true -> get_all p (modify_at p g v) = map g (get_all p v).
Proof. exact get_all_modify. Qed.
Print Assumptions C18_modify_matches.
(* path by path: an instance q of p that reached c reaches g c; *)
Theorem C18_modify_instance : forall p g q v c, no_desc p = true -> inst q p -> cget q v = Some c ->
  cget q (modify_at p g v) = Some (g c).
Proof. exact modify_inst. Qed.
Print Assumptions C18_modify_instance.
(* and every concrete path that parts ways with the pattern is unchanged (also the frame of a remove through a
   wildcard, which modifies the parents: bag_remove (sx ++ [last]) = modify_at sx (remove_last last)). *)
Theorem C18_modify_frame : forall p g q v, no_desc p = true -> concrete q = true -> pdisjoint p q v = true ->
  cget q (modify_at p g v) = cget q v.
Proof. exact modify_frame. Qed.
Print Assumptions C18_modify_frame.
(* For EVERY pattern that does not end in a descent (descents in the middle included): a function that gives
   back what it was given leaves the bag as it was; *)
Theorem C18_modify_fixed : forall p g v, ends_desc p = false -> (forall c, In c (get_all p v) -> g c = c) -> modify_at p g v = v.
Proof. exact modify_fixed. Qed.
Print Assumptions C18_modify_fixed.
(* in particular (bag-modify b (lambda (x) x) path): each match goes to the function as native Lisp data and comes
   back through ObjectToBag (repo_fixes C18-4); when every match survives that round trip (native_ok) nothing
   changes.  Before the fix an object came back as a list of pairs. *)
Theorem C18_modify_identity : forall p v v', (forall c, In c (get_all p v) -> native_ok c = true) ->
  bag_modify_fn p MId v = Some v' -> v' = v.
Proof. exact modify_identity. Qed.
Print Assumptions C18_modify_identity.
(* remove through a pattern: after removing the member k, or every member ("*"), of everything sx matches, has of
   that path is false and get-all finds nothing. *)
Theorem C18_remove_pattern_then_has : forall sx last v v', no_desc sx = true -> (last = FWild \/ exists k, last = FKey k) ->
  bag_remove (sx ++ [last]) v = Some v' -> mhas (sx ++ [last]) v' = false /\ get_all (sx ++ [last]) v' = [].
Proof. exact remove_pattern_has. Qed.
Print Assumptions C18_remove_pattern_then_has.

(* ---- (2c) histories over several bags ---------------------------------------------------------------
   A history of bag-parse / bag-set calls (function or method, with or without a path) on several bags that are
   all still held: ModelStore.v (state = the contents of every bag).  One call leaves every bag it is not
   addressed to as it was; *)
Theorem C18_store_others : forall o st j, j <> starget o -> nth_error (fst (sstep o st)) j = nth_error st j.
Proof. exact store_others. Qed.
Print Assumptions C18_store_others.
(* over a history of ANY length, what bag j holds at the end is what the calls addressed to j - and only they,
   in their order - make of what it held at the start: bags are values, nothing parsed or set later into another
   bag (or elsewhere) reaches back into it; *)
Theorem C18_store_independent : forall ops st j, nth_error (srun ops st) j = option_map (brun j ops) (nth_error st j).
Proof. exact store_independent. Qed.
Print Assumptions C18_store_independent.
(* so a bag filled from the written text of v (inside the text guard) still holds v after any further calls on
   other bags: it keeps writing the text it was filled from; *)
Theorem C18_store_text_survives : forall f sty v i ops st,
  text_ok false f v = true -> top_ok f v = true -> i < List.length st -> (forall o, In o ops -> starget o <> i) ->
  nth_error (srun (SParse i (write f sty v) None :: ops) st) i = Some v.
Proof. exact store_text_survives. Qed.
Print Assumptions C18_store_text_survives.
(* inside the bag a call is addressed to, parsing or setting at a concrete path p leaves every concrete path that
   parts ways with p as it was (text parsed or not, set succeeded or not), *)
Theorem C18_store_path_frame : forall o st b p q, nth_error st (starget o) = Some b -> spath o = Some p ->
  concrete p = true -> concrete q = true -> p <> [] -> disjoint p q b = true ->
  exists b', nth_error (fst (sstep o st)) (starget o) = Some b' /\ cget q b' = cget q b.
Proof. exact store_path_frame. Qed.
Print Assumptions C18_store_path_frame.
(* and a get of p returns what the text parsed to (bag-parse) / the value converted to (bag-set). *)
Theorem C18_store_path_get : forall o st b p x, nth_error st (starget o) = Some b -> spath o = Some p -> svalue o = Some x ->
  concrete p = true -> p <> [] -> fits p b = true -> snd (sstep o st) = false ->
  exists b', nth_error (fst (sstep o st)) (starget o) = Some b' /\ cget p b' = Some x.
Proof. exact store_path_get. Qed.
Print Assumptions C18_store_path_get.

(* ---- (3) conversions -----------------------------------------------------------------------------
   A bag converted to native Lisp data (bag-native) and back (make-bag / bag-set) is the same bag, inside the
   guard native_ok: no false, no empty array or object, no json.Number that would fit an int64 (an integer beyond
   int64 is a json.Number in the bag and a bignum in Lisp: repo_fixes C18-1 and C18-3). *)
Theorem C18_native_roundtrip : forall v, native_ok v = true -> object_to_bag (to_native v) = Some v.
Proof. exact native_roundtrip. Qed.
Print Assumptions C18_native_roundtrip.
Theorem C18_native_false_refuted : object_to_bag (to_native (JObj [(Bs "a", JBool false)])) = Some (JObj [(Bs "a", JNull)]).
Proof. exact native_false_refuted. Qed.
Print Assumptions C18_native_false_refuted.
Theorem C18_native_empty_refuted :
  object_to_bag (to_native (JArr [JArr []; JObj []])) = Some (JArr [JNull; JNull]) /\ object_to_bag (to_native (JObj [])) = Some JNull.
Proof. exact native_empty_refuted. Qed.
Print Assumptions C18_native_empty_refuted.
(* a json.Number that fits an int64 - what ojg's parser makes of the digits 9223372036854775800..807 - comes back
   as an int64: the same number, but a different bag for bag-compare *)
Theorem C18_native_edge_number_refuted :
  object_to_bag (to_native (JArr [JBig 9223372036854775807])) = Some (JArr [JInt 9223372036854775807]).
Proof. exact native_edge_number_refuted. Qed.
Print Assumptions C18_native_edge_number_refuted.

(* Plain Go data (nil, true, integers of every width within int64, json.Number with an integer text within int64,
   float64, string, []byte, time, slices) converted with SimpleObject and simplified again is the same data,
   integers as int64 and []byte as string. *)
Theorem C18_bridge_roundtrip : forall g, plain g = true -> simplify (simple_object g) = norm_gov g.
Proof. exact bridge_roundtrip. Qed.
Print Assumptions C18_bridge_roundtrip.
Theorem C18_bridge_false_refuted : simplify (simple_object (GBool false)) = GNil.
Proof. exact bridge_false_refuted. Qed.
Print Assumptions C18_bridge_false_refuted.
Theorem C18_bridge_map_refuted :
  simplify (simple_object (GMap [(Bs "a", GInt KInt64 1)])) = GSlice [GSlice [GStr (Bs "a"); GInt KInt64 1]].
Proof. exact bridge_map_refuted. Qed.
Print Assumptions C18_bridge_map_refuted.
(* an integer beyond int64 (uint64, json.Number) becomes a bignum (repo_fixes C18-1, C18-2: no longer nil or a
   negative fixnum), and Simplify of a bignum is its decimal text: a string comes back *)
Theorem C18_bridge_bignum_refuted :
  simple_object (GInt KUint64 9223372036854775808) = LBig 9223372036854775808 /\
  simplify (simple_object (GInt KUint64 9223372036854775808)) = GStr (Bs "9223372036854775808") /\
  simplify (simple_object (GNum (Bs "12345678901234567890"))) = GStr (Bs "12345678901234567890").
Proof. exact bridge_bignum_refuted. Qed.
Print Assumptions C18_bridge_bignum_refuted.
