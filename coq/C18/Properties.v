(* C18 — property theorems only. *)
From C18 Require Import Model Spec.
Theorem C18_placeholder : parse (write FJson Tight JNull) = Some JNull.
Proof. vm_compute. reflexivity. Qed.
Print Assumptions C18_placeholder.
