(* C18 — specification side for histories over several bags: a bag is a value.  What bag j holds after a
   history is what the operations addressed to j make of it, one after the other (brun); every other bag, and
   inside the addressed bag every concrete path that parts ways with the path of the operation, reads as before
   (frame_kept: the executable form used on what the implementation was observed to do). *)
From Coq Require Import List ZArith NArith Bool Strings.Byte String.
From C18 Require Import Tables Model Spec ModelPath ModelBridge SpecPath ModelStore.
Import ListNotations.
Open Scope list_scope.

Definition brun (j : nat) (ops : list sop) (b : jv) : jv :=
  fold_left (fun b o => if Nat.eqb (starget o) j then fst (bstep o b) else b) ops b.

Section Frame.
  Variable eqv : jv -> jv -> bool.            (* equality of bag contents up to the order of object keys *)
  Fixpoint others_kept (i : nat) (pre post : list jv) : bool :=
    match pre, post with
    | [], [] => true
    | b :: pre', b' :: post' =>
      match i with
      | O => (fix all (l m : list jv) : bool :=
                match l, m with [], [] => true | x :: l', y :: m' => eqv x y && all l' m' | _, _ => false end) pre' post'
      | S i' => eqv b b' && others_kept i' pre' post'
      end
    | _, _ => false
    end.
  (* every node of b that a concrete path disjoint from p reaches is still there in b' *)
  Definition paths_kept (p : path) (b b' : jv) : bool :=
    forallb (fun qc => negb (disjoint p (fst qc) b) ||
                       match get (fst qc) b' with Some c => eqv c (snd qc) | None => false end) (all_paths b).
  Definition frame_kept (o : sop) (pre post : list jv) : bool :=
    others_kept (starget o) pre post &&
    match spath o, nth_error pre (starget o), nth_error post (starget o) with
    | Some p, Some b, Some b' => if concrete p then paths_kept p b b' else true
    | _, _, _ => true
    end.
  (* where the model obeys "get returns what was stored" as well: the guard of C18_set_then_get, and a set that
     fails must leave the bag as it was *)
  Definition store_guard (o : sop) (pre : list jv) : bool :=
    forallb keys_unique pre &&
    match spath o, svalue o, nth_error pre (starget o) with
    | Some p, Some x, Some b =>
      if concrete p then fits p b && match bag_set p x b with SErr v' => eqv v' b | SOk _ => true end
      else negb (is_container x)
    | _, _, _ => true
    end.
End Frame.
