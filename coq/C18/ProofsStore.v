(* C18 — proofs, part 7: histories of bag-parse / bag-set over several bags. *)
From Coq Require Import List ZArith NArith Bool Strings.Byte String Lia Arith.
From C18 Require Import Tables Model Spec ModelPath ModelBridge SpecPath ModelStore SpecStore ProofsLex ProofsText ProofsPath.
Import ListNotations.
Open Scope list_scope.

Lemma upd_length : forall i x st, List.length (upd i x st) = List.length st.
Proof. induction i; destruct st; cbn; auto. Qed.
Lemma upd_same : forall i x st, i < List.length st -> nth_error (upd i x st) i = Some x.
Proof. induction i; destruct st; cbn; intros; try lia; auto. apply IHi. lia. Qed.
Lemma upd_other : forall i j x st, i <> j -> nth_error (upd i x st) j = nth_error st j.
Proof. induction i; destruct st, j; cbn; intros; auto; try lia. Qed.

(* one call: the number of bags stays, every bag the call is not addressed to holds what it held *)
Lemma sstep_length : forall o st, List.length (fst (sstep o st)) = List.length st.
Proof. intros o st. unfold sstep. destruct (nth_error st (starget o)); cbn [fst]; [apply upd_length | reflexivity]. Qed.
Theorem store_others : forall o st j, j <> starget o -> nth_error (fst (sstep o st)) j = nth_error st j.
Proof.
  intros o st j H. unfold sstep. destruct (nth_error st (starget o)); cbn [fst]; [|reflexivity].
  apply upd_other. congruence.
Qed.
Lemma sstep_target : forall o st b, nth_error st (starget o) = Some b ->
  nth_error (fst (sstep o st)) (starget o) = Some (fst (bstep o b)).
Proof.
  intros o st b H. unfold sstep. rewrite H. cbn [fst]. apply upd_same. apply nth_error_Some. congruence.
Qed.

(* a whole history, of any length: what bag j holds at the end is what the calls addressed to j, and only
   they, make of what it held at the start *)
Theorem store_independent : forall ops st j, nth_error (srun ops st) j = option_map (brun j ops) (nth_error st j).
Proof.
  induction ops as [|o ops IH]; intros st j.
  - cbn. destruct (nth_error st j); reflexivity.
  - unfold srun, brun. cbn [fold_left]. fold (srun ops (fst (sstep o st))). rewrite IH.
    destruct (Nat.eqb (starget o) j) eqn:E.
    + apply Nat.eqb_eq in E. subst j. destruct (nth_error st (starget o)) as [b|] eqn:Hb.
      * rewrite (sstep_target o st b Hb). reflexivity.
      * unfold sstep. rewrite Hb. cbn [fst]. rewrite Hb. reflexivity.
    + apply Nat.eqb_neq in E. rewrite store_others by congruence.
      destruct (nth_error st j); reflexivity.
Qed.

(* a bag filled from the text of v keeps holding v whatever is parsed or set into OTHER bags afterwards *)
Lemma brun_untouched : forall j ops b, (forall o, In o ops -> starget o <> j) -> brun j ops b = b.
Proof.
  intros j. induction ops as [|o ops IH]; intros b H; [reflexivity|].
  unfold brun. cbn [fold_left]. assert (E : Nat.eqb (starget o) j = false) by (apply Nat.eqb_neq; apply H; left; reflexivity).
  rewrite E. apply IH. intros; apply H; right; assumption.
Qed.
Theorem store_text_survives : forall f sty v i ops st,
  text_ok false f v = true -> top_ok f v = true -> i < List.length st -> (forall o, In o ops -> starget o <> i) ->
  nth_error (srun (SParse i (write f sty v) None :: ops) st) i = Some v.
Proof.
  intros f sty v i ops st Hok Htop Hi Hops. rewrite store_independent.
  destruct (nth_error st i) as [b|] eqn:Hb; [|apply nth_error_None in Hb; lia].
  cbn [option_map]. f_equal. unfold brun. cbn [fold_left starget]. rewrite Nat.eqb_refl.
  unfold bstep. cbn [svalue spath]. rewrite (write_parse_roundtrip f sty v Hok Htop). cbn [store_value fst].
  apply brun_untouched. exact Hops.
Qed.

(* inside the bag a call is addressed to: a concrete path is Expr.MustSet of the value *)
Lemma bag_set_concrete : forall p x v, concrete p = true -> p <> [] -> bag_set p x v = mset p x v.
Proof.
  intros p x v Hc Hne. unfold bag_set. pose proof (concrete_ends_desc p Hc) as He. unfold ends_desc in He.
  destruct (List.rev p) as [|f t] eqn:E.
  - destruct p; [congruence|]. cbn in E. destruct (List.rev p); discriminate.
  - destruct f; try reflexivity. discriminate He.
Qed.
(* ... so every concrete path that parts ways with it reads as before - whether the text parsed or not, whether
   the set succeeded or failed *)
Theorem store_path_frame : forall o st b p q, nth_error st (starget o) = Some b -> spath o = Some p ->
  concrete p = true -> concrete q = true -> p <> [] -> disjoint p q b = true ->
  exists b', nth_error (fst (sstep o st)) (starget o) = Some b' /\ cget q b' = cget q b.
Proof.
  intros o st b p q Hb Hp Hc Hq Hne Hd. exists (fst (bstep o b)). split; [apply sstep_target; assumption|].
  unfold bstep. destruct (svalue o) as [x|]; [|reflexivity]. rewrite Hp. cbn [store_value fst].
  rewrite bag_set_concrete by assumption. apply set_frame; assumption.
Qed.
(* and a get of the path returns what the text parsed to / the value converted to *)
Theorem store_path_get : forall o st b p x, nth_error st (starget o) = Some b -> spath o = Some p -> svalue o = Some x ->
  concrete p = true -> p <> [] -> fits p b = true -> snd (sstep o st) = false ->
  exists b', nth_error (fst (sstep o st)) (starget o) = Some b' /\ cget p b' = Some x.
Proof.
  intros o st b p x Hb Hp Hx Hc Hne Hfit Hok. exists (fst (bstep o b)). split; [apply sstep_target; assumption|].
  unfold sstep in Hok. rewrite Hb in Hok. cbn [snd] in Hok.
  unfold bstep in *. rewrite Hx, Hp in *. cbn [store_value fst snd] in *.
  rewrite bag_set_concrete in * by assumption.
  destruct (mset p x b) as [v'|v'] eqn:Em; [|discriminate Hok]. cbn [sres_tree]. eapply set_get; eauto.
Qed.

(* the executable frame check holds of the model (so a disagreement inside it is the implementation's) *)
Example store_example :
  let st := [JObj []; JNull] in
  let ops := [SParse 0 (Bs "{x:1}") (Some [FKey (Bs "a")]); SParse 0 (Bs "{y:[2 {z:3}]}") (Some [FKey (Bs "c")]);
              SParse 1 (Bs "{m:2}") None] in
  srun ops st = [JObj [(Bs "a", JObj [(Bs "x", JInt 1)]);
                       (Bs "c", JObj [(Bs "y", JArr [JInt 2; JObj [(Bs "z", JInt 3)]])])];
                 JObj [(Bs "m", JInt 2)]].
Proof. reflexivity. Qed.
