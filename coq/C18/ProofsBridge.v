(* C18 — proofs, part 4: plain Go data <-> Lisp objects, bag data <-> native Lisp data. *)
From Coq Require Import List ZArith NArith Bool Strings.Byte String Lia Arith.
From C18 Require Import Tables Model Spec ModelPath ModelBridge SpecPath ProofsLex ProofsText ProofsPath.
Import ListNotations.
Open Scope list_scope.

Section gov_ind2.
  Variable P : gov -> Prop.
  Hypothesis HNil : P GNil.
  Hypothesis HBool : forall b, P (GBool b).
  Hypothesis HInt : forall k z, P (GInt k z).
  Hypothesis HF : forall r, P (GF64 r).
  Hypothesis HStr : forall s, P (GStr s).
  Hypothesis HBytes : forall s, P (GBytes s).
  Hypothesis HTime : forall t, P (GTime t).
  Hypothesis HNum : forall r, P (GNum r).
  Hypothesis HSlice : forall l, Forall P l -> P (GSlice l).
  Hypothesis HMap : forall kvs, Forall (fun kv => P (snd kv)) kvs -> P (GMap kvs).
  Fixpoint gov_ind2 (g : gov) : P g :=
    match g with
    | GNil => HNil | GBool b => HBool b | GInt k z => HInt k z | GF64 r => HF r | GStr s => HStr s | GBytes s => HBytes s
    | GTime t => HTime t | GNum r => HNum r
    | GSlice l => HSlice l ((fix go (l : list gov) : Forall P l :=
                               match l with [] => Forall_nil _ | x :: r => Forall_cons x (gov_ind2 x) (go r) end) l)
    | GMap kvs => HMap kvs ((fix go (l : list (bytes * gov)) : Forall (fun kv => P (snd kv)) l :=
                               match l with [] => Forall_nil _ | kv :: r => Forall_cons kv (gov_ind2 (snd kv)) (go r) end) kvs)
    end.
End gov_ind2.

Lemma wrap64_id : forall z, in_int64 z = true -> wrap64 z = z.
Proof.
  intros z H. unfold in_int64 in H. apply andb_true_iff in H. destruct H as [H1 H2]. apply Z.leb_le in H1. apply Z.leb_le in H2.
  unfold wrap64. destruct (Z_lt_ge_dec z 0) as [Hneg | Hpos].
  - assert (Hm : (z mod 18446744073709551616 = z + 18446744073709551616)%Z).
    { rewrite <- (Z_mod_plus_full z 1 18446744073709551616). rewrite Z.mod_small; lia. }
    rewrite Hm. destruct (z + 18446744073709551616 <? 9223372036854775808)%Z eqn:E; [apply Z.ltb_lt in E; lia | lia].
  - rewrite Z.mod_small by lia. destruct (z <? 9223372036854775808)%Z eqn:E; [reflexivity | apply Z.ltb_ge in E; lia].
Qed.

Lemma plain_slice : forall l, plain (GSlice l) = forallb plain l.
Proof. intros l. cbn [plain]. induction l; cbn [forallb]; auto; try (rewrite IHl; reflexivity). Qed.
Lemma native_ok_arr : forall x l, native_ok (JArr (x :: l)) = forallb native_ok (x :: l).
Proof.
  intros x l. cbn [native_ok forallb]. f_equal; try (induction l; cbn [forallb]; auto; try (rewrite IHl; reflexivity)).
Qed.
Lemma native_ok_obj : forall kv l, native_ok (JObj (kv :: l)) = keys_nodup (map fst (kv :: l)) && forallb (fun kv => native_ok (snd kv)) (kv :: l).
Proof.
  intros [k x] l. cbn [native_ok forallb snd]. f_equal; try (f_equal;
  induction l as [|[k1 x1] l IH]; cbn [forallb snd]; auto; try (rewrite IH; reflexivity)).
Qed.

(* plain Go data comes back as the same data (integers as int64, []byte as string) *)
Theorem bridge_roundtrip : forall g, plain g = true -> simplify (simple_object g) = norm_gov g.
Proof.
  induction g using gov_ind2; intros Hp; try (cbn [plain] in Hp; discriminate); try reflexivity.
  - destruct b; [reflexivity | discriminate].
  - cbn [plain] in Hp. cbn [simple_object norm_gov]. unfold int_obj. change (fits64 z) with (in_int64 z). rewrite Hp.
    destruct k; cbn [simplify]; rewrite ?wrap64_id by assumption; reflexivity.
  - cbn [plain] in Hp. cbn [simple_object norm_gov]. destruct (int_of_bytes r) as [z|]; [|discriminate].
    unfold int_obj. change (fits64 z) with (in_int64 z). rewrite Hp. reflexivity.
  - rewrite plain_slice in Hp. rename Hp into Hall. cbn [simple_object simplify norm_gov]. f_equal. rewrite map_map.
    induction l as [|x l IH]; [reflexivity|]. inversion H; subst. cbn [forallb] in Hall. apply andb_true_iff in Hall. destruct Hall.
    cbn [map]. f_equal; auto.
Qed.
Example bridge_nonvacuous :
  plain (GSlice [GNil; GBool true; GInt KInt (-5); GInt KUint8 200; GInt KUint64 9223372036854775807; GF64 (Bs "0.5");
                 GStr (Bs "s"); GBytes (B [0; 255]%N); GTime 1700000000000000000; GSlice []; GSlice [GSlice [GInt KInt32 7]]]) = true.
Proof. reflexivity. Qed.
(* outside the guard the faithful model loses information *)
Theorem bridge_false_refuted : simplify (simple_object (GBool false)) = GNil.
Proof. reflexivity. Qed.
Theorem bridge_map_refuted :
  simplify (simple_object (GMap [(Bs "a", GInt KInt64 1)])) = GSlice [GSlice [GStr (Bs "a"); GInt KInt64 1]].
Proof. reflexivity. Qed.
(* an integer beyond int64 (a uint64, a json.Number) is a bignum, and Simplify of a bignum is its decimal text *)
Theorem bridge_bignum_refuted :
  simple_object (GInt KUint64 9223372036854775808) = LBig 9223372036854775808 /\
  simplify (simple_object (GInt KUint64 9223372036854775808)) = GStr (Bs "9223372036854775808") /\
  simplify (simple_object (GNum (Bs "12345678901234567890"))) = GStr (Bs "12345678901234567890").
Proof. repeat split; reflexivity. Qed.
Example bridge_number_example :
  plain (GNum (Bs "-9223372036854775808")) = true /\
  simplify (simple_object (GNum (Bs "-9223372036854775808"))) = GInt KInt64 (-9223372036854775808).
Proof. split; reflexivity. Qed.

(* ---------------------------------------------------------------------------------------------- *)
(* bag -> native -> bag *)
Definition otb_list : list lobj -> option (list jv) :=
  fix go (l : list lobj) : option (list jv) :=
    match l with
    | [] => Some []
    | e :: r => match object_to_bag e, go r with Some x, Some xs => Some (x :: xs) | _, _ => None end
    end.
Definition otb_assoc : list lobj -> list (bytes * jv) -> option jv :=
  fix go (l : list lobj) (acc : list (bytes * jv)) : option jv :=
    match l with
    | [] => Some (JObj acc)
    | LList [k; cdr] :: r =>
      match (match k with LSym s => Some s | LStr s => Some s | _ => None end),
            (match cdr with LTail x => object_to_bag x | other => object_to_bag other end) with
      | Some key, Some x => go r (set_key key x acc)
      | _, _ => None
      end
    | _ :: _ => None
    end.
Lemma otb_cons : forall first rest, object_to_bag (LList (first :: rest)) =
  match first with
  | LList [_; LTail _] => otb_assoc (first :: rest) []
  | _ => option_map JArr (otb_list (first :: rest))
  end.
Proof. intros. reflexivity. Qed.

Definition pair_shape (o : lobj) : bool := match o with LList [_; LTail _] => true | _ => false end.
Lemma so_not_tail : forall g, match simple_object g with LTail _ => False | _ => True end.
Proof.
  destruct g; cbn [simple_object]; auto; try (destruct b; exact I).
  - destruct k; unfold int_obj; try destruct (fits64 z); exact I.
  - destruct (int_of_bytes raw); [unfold int_obj; destruct (fits64 z)|]; exact I.
Qed.
Lemma so_not_pair : forall g, pair_shape (simple_object g) = false.
Proof.
  destruct g; try reflexivity.
  - destruct b; reflexivity.
  - destruct k; cbn [simple_object]; unfold int_obj; try destruct (fits64 z); reflexivity.
  - cbn [simple_object]. destruct (int_of_bytes raw); [unfold int_obj; destruct (fits64 z)|]; reflexivity.
  - cbn [simple_object]. destruct l as [|a [|b [|c l]]]; cbn [map pair_shape]; try reflexivity.
    + pose proof (so_not_tail b) as H. destruct (simple_object b); auto. destruct H.
    + destruct (simple_object b); reflexivity.
  - cbn [simple_object]. destruct kvs as [|a [|b [|c l]]]; cbn [map pair_shape]; reflexivity.
Qed.
Lemma set_key_fresh : forall k x acc, (forall k', In k' (map fst acc) -> bytes_eqb k k' = false) -> set_key k x acc = acc ++ [(k, x)].
Proof.
  induction acc as [|[k' v'] acc IH]; intros H; [reflexivity|]. cbn [set_key app].
  rewrite (H k') by (left; reflexivity). f_equal. apply IH. intros k2 Hin. apply H. right. exact Hin.
Qed.

Theorem native_roundtrip : forall v, native_ok v = true -> object_to_bag (to_native v) = Some v.
Proof.
  unfold to_native. induction v using jv_ind2; intros Hok; try (cbn [native_ok] in Hok; discriminate); try reflexivity.
  - destruct b; [reflexivity | discriminate].
  - cbn [native_ok] in Hok. cbn [jv_gov simple_object]. rewrite wrap64_id by exact Hok. reflexivity.
  - (* json.Number beyond int64 <-> bignum *)
    cbn [native_ok] in Hok. apply negb_true_iff in Hok. cbn [jv_gov simple_object]. rewrite print_int_value.
    unfold int_obj. rewrite Hok. cbn [object_to_bag]. rewrite Hok. reflexivity.
  - (* array *)
    destruct l as [|x l']; [discriminate|].
    rewrite native_ok_arr in Hok. rename Hok into Hall. cbn [jv_gov simple_object]. rewrite map_map. cbn [map]. rewrite otb_cons.
    pose proof (so_not_pair (jv_gov x)) as Hnp.
    assert (Hlist : otb_list (simple_object (jv_gov x) :: map (fun v => simple_object (jv_gov v)) l') = Some (x :: l')).
    { clear Hnp. change (simple_object (jv_gov x) :: map (fun v => simple_object (jv_gov v)) l')
        with (map (fun v => simple_object (jv_gov v)) (x :: l')).
      revert H Hall. generalize (x :: l'). induction l as [|y l IHl]; intros HF Hall; [reflexivity|].
      inversion HF; subst. cbn [forallb] in Hall. apply andb_true_iff in Hall. destruct Hall as [Hy Hl].
      cbn [map otb_list]. rewrite (H1 Hy). fold otb_list. rewrite (IHl H2 Hl). reflexivity. }
    destruct (simple_object (jv_gov x)) as [| | | | | | | | | |[|a [|b [|c t]]]|] eqn:E; try (rewrite Hlist; reflexivity).
    all: destruct b; try (rewrite Hlist; reflexivity).
    all: cbn in Hnp; discriminate Hnp.
  - (* object *)
    destruct kvs as [|[k x] kvs']; [discriminate|].
    rewrite native_ok_obj in Hok. apply andb_true_iff in Hok. destruct Hok as [Hnd Hall].
    cbn [jv_gov simple_object]. rewrite map_map. cbn [map fst snd]. rewrite otb_cons.
    change (LList [LStr k; LTail (simple_object (jv_gov x))] ::
            map (fun kv => LList [LStr (fst kv); LTail (simple_object (jv_gov (snd kv)))]) kvs')
      with (map (fun kv : bytes * jv => LList [LStr (fst kv); LTail (simple_object (jv_gov (snd kv)))]) ((k, x) :: kvs')).
    assert (Hgo : forall l acc, Forall (fun kv => native_ok (snd kv) = true -> object_to_bag (simple_object (jv_gov (snd kv))) = Some (snd kv)) l ->
                  forallb (fun kv => native_ok (snd kv)) l = true -> keys_nodup (map fst l) = true ->
                  (forall k1, In k1 (map fst l) -> forall k', In k' (map fst acc) -> bytes_eqb k1 k' = false) ->
                  otb_assoc (map (fun kv : bytes * jv => LList [LStr (fst kv); LTail (simple_object (jv_gov (snd kv)))]) l) acc = Some (JObj (acc ++ l))).
    { clear. induction l as [|[k1 x1] l IHl]; intros acc HF Hall Hnd Hfresh.
      - cbn. rewrite app_nil_r. reflexivity.
      - inversion HF; subst. cbn [forallb snd] in Hall. apply andb_true_iff in Hall. destruct Hall as [Hx Hl].
        cbn [map fst keys_nodup] in Hnd. apply andb_true_iff in Hnd. destruct Hnd as [Hk Hnd]. apply negb_true_iff in Hk.
        cbn [map fst snd otb_assoc]. cbn [snd] in H1. rewrite (H1 Hx). fold otb_assoc.
        rewrite set_key_fresh by (intros k' Hin; apply Hfresh; [left; reflexivity | exact Hin]).
        rewrite IHl; auto.
        + rewrite <- app_assoc. reflexivity.
        + intros k2 Hin2 k' Hin'. rewrite map_app in Hin'. apply in_app_or in Hin'. destruct Hin' as [Hin' | [<- | []]].
          * apply Hfresh; [right; exact Hin2 | exact Hin'].
          * rewrite bytes_eqb_sym. eapply existsb_false_in; eauto. }
    rewrite (Hgo ((k, x) :: kvs') [] H Hall Hnd) by (intros k1 _ k' []). reflexivity.
Qed.
Example native_nonvacuous :
  native_ok (JObj [(Bs "a", JArr [JNull; JBool true; JInt (-3); JDec (Bs "2.5"); JStr []; JArr [JInt 1]; JObj [(Bs "b", JNull)]]);
                   (Bs "c", JStr (Bs "x"))]) = true.
Proof. reflexivity. Qed.
Theorem native_false_refuted : object_to_bag (to_native (JObj [(Bs "a", JBool false)])) = Some (JObj [(Bs "a", JNull)]).
Proof. reflexivity. Qed.
Theorem native_empty_refuted :
  object_to_bag (to_native (JArr [JArr []; JObj []])) = Some (JArr [JNull; JNull]) /\ object_to_bag (to_native (JObj [])) = Some JNull.
Proof. split; reflexivity. Qed.
(* a json.Number that fits an int64 (what the parser makes of 9223372036854775800..807) comes back as an int64:
   the same number, but bag-compare (ojg's alt.Compare) tells them apart *)
Theorem native_edge_number_refuted :
  object_to_bag (to_native (JArr [JBig 9223372036854775807])) = Some (JArr [JInt 9223372036854775807]).
Proof. reflexivity. Qed.
Example native_big_example : native_ok (JArr [JBig 12345678901234567890; JBig (-9223372036854775809)]) = true.
Proof. reflexivity. Qed.
