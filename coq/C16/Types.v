(* C16 — types: model of typep / type-of / subtypep over tables that are REGENERATED from the running
   implementation on every run (GenC16.Tables), the boolean table checks, and the lemmas that lift a
   successful table check to statements about all type names.  The instantiation is C16/TableProofs.v. *)
From Coq Require Import List Bool String Ascii Arith.
Import ListNotations.
Open Scope string_scope.
Open Scope list_scope.

(* class table: (name, names b of the registered classes with a.Inherits(b)); names are lower case, as
   Package.RegisterClass stores them.  kind table: (kind of object, its Hierarchy() list). *)
Definition ctable := list (string * list string).

Definition lower_ascii (c : ascii) : ascii :=
  let n := nat_of_ascii c in if (Nat.leb 65 n && Nat.leb n 90)%bool then ascii_of_nat (n + 32) else c.
Fixpoint lower (s : string) : string :=
  match s with EmptyString => EmptyString | String c s' => String (lower_ascii c) (lower s') end.
Definition mem (s : string) (l : list string) : bool := existsb (String.eqb s) l.
Fixpoint assoc (s : string) (t : ctable) : option (list string) :=
  match t with [] => None | (k, v) :: t' => if String.eqb s k then Some v else assoc s t' end.

(* type names that are Go aliases of another type (typeAliases / typeName in typep.go, repair C16-6): typep and
   subtypep replace them by the name the objects carry in their hierarchy *)
Definition alias (s : string) : string :=
  if String.eqb s "short-float" then "single-float" else if String.eqb s "byte" then "octet" else s.
Definition tname (s : string) : string := alias (lower s).

(* FindClass (after typeName): exact name, then lower case; the registry keys are lower case *)
Definition find_class (t : ctable) (s : string) : option (string * list string) :=
  match assoc (tname s) t with Some v => Some (tname s, v) | None => None end.

(* subtypep on two symbols (subtypep.go with et1 = et2 = nil): both classes found, and the same class or
   pt1.Inherits(pt2) *)
Definition subtypep_t (t : ctable) (a b : string) : bool :=
  match find_class t a, find_class t b with
  | Some (na, sa), Some (nb, _) => String.eqb na nb || mem nb sa
  | _, _ => false
  end.

(* type designators of subtypep: a symbol or a two-element list (vector fixnum) *)
Inductive tdes := DSym (s : string) | DList (s e : string).
Inductive sres := SBool (b : bool).
Definition des_pt (t : ctable) (d : tdes) := match d with DSym s | DList s _ => find_class t s end.
Definition des_et (t : ctable) (d : tdes) := match d with DSym _ => None | DList _ e => find_class t e end.
Definition cls_sub (a b : string * list string) : bool := String.eqb (fst a) (fst b) || mem (fst b) (snd a).
(* (pt1 == pt2 || pt1.Inherits(pt2)) && (et2 == nil || et1 == et2 || (et1 != nil && et1.Inherits(et2)))
   (with the repair C16-3: before it, a nil et1 was dereferenced) *)
Definition subtypep_d (t : ctable) (d1 d2 : tdes) : sres :=
  match des_pt t d1, des_pt t d2 with
  | Some p1, Some p2 =>
      if cls_sub p1 p2 then
        match des_et t d2 with
        | None => SBool true
        | Some e2 => match des_et t d1 with
                     | Some e1 => SBool (cls_sub e1 e2)
                     | None => SBool false
                     end
        end
      else SBool false
  | _, _ => SBool false
  end.

(* typep of an object of kind k (typep.go, with the repair C16-8): nil is treated as the empty list; the empty
   list is of type null and of every type of its hierarchy; otherwise membership in Hierarchy() up to case.
   (Before C16-8 nil was of type null only.) *)
Definition hier (kt : ctable) (k : string) : list string := match assoc k kt with Some h => h | None => [] end.
Definition as_list_kind (k : string) : string := if String.eqb k "nil" then "empty-list" else k.
Definition typep_t (kt : ctable) (k : string) (ty : string) : bool :=
  let k' := as_list_kind k in
  (String.eqb k' "empty-list" && String.eqb (tname ty) "null") || mem (tname ty) (map lower (hier kt k')).
(* type-of (type-of.go) *)
Definition type_of_t (kt : ctable) (k : string) : string :=
  if String.eqb k "nil" || String.eqb k "empty-list" then "null" else hd "" (hier kt k).

(* ---- boolean checks over the tables ------------------------------------------------------------ *)
Definition names (t : ctable) : list string := map fst t.
Definition table_lower (t : ctable) : bool :=
  forallb (fun r => String.eqb (lower (fst r)) (fst r) && forallb (fun s => String.eqb (lower s) s) (snd r)) t.
Definition table_refl (t : ctable) : bool := forallb (fun a => subtypep_t t a a) (names t).
(* every class b that a inherits from is registered, and what b inherits from, a inherits from too *)
Definition table_trans (t : ctable) : bool :=
  forallb (fun r => forallb (fun b => match assoc b t with
                                      | Some sb => forallb (fun c => String.eqb c (fst r) || mem c (snd r)) sb
                                      | None => true
                                      end) (snd r)) t.
(* kinds: typep x (type-of x) *)
Definition kinds_type_of (kt : ctable) : bool := forallb (fun r => typep_t kt (fst r) (type_of_t kt (fst r))) kt.
(* kinds: for every type h of the hierarchy that names a class, everything that class inherits from is in
   the hierarchy too (typep is closed under subtypep) *)
Definition kinds_upward (t kt : ctable) : bool :=
  forallb (fun r =>
    forallb (fun h => match find_class t h with
                      | Some (_, sh) => forallb (fun u => typep_t kt (fst r) u) sh
                      | None => true
                      end)
            (if String.eqb (as_list_kind (fst r)) "empty-list" then "null" :: hier kt "empty-list" else snd r)) kt.
(* kinds on which typep and subtypep agree: typep x ty = subtypep (type-of x) ty for every class name and
   every hierarchy symbol ty *)
Definition probe_types (t kt : ctable) : list string := names t ++ flat_map snd kt ++ ["null"; "atom"; "no-such-type"].
Definition kind_agrees (t kt : ctable) (k : string) : bool :=
  forallb (fun ty => Bool.eqb (typep_t kt k ty) (subtypep_t t (type_of_t kt k) ty)) (probe_types t kt).

(* kinds whose own type names a registered class, and agreement of typep with subtypep on every probed type
   other than t (t is not a registered class: known finding) *)
Definition is_class (t : ctable) (s : string) : bool := match find_class t s with Some _ => true | None => false end.
Definition kind_agrees_but_t (t kt : ctable) (k : string) : bool :=
  forallb (fun ty => String.eqb (lower ty) "t" || Bool.eqb (typep_t kt k ty) (subtypep_t t (type_of_t kt k) ty)) (probe_types t kt).
Definition kinds_agree (t kt : ctable) : bool :=
  forallb (fun r => implb (is_class t (type_of_t kt (fst r))) (kind_agrees_but_t t kt (fst r))) kt.

(* ---- lifting the table checks to statements about all type names ------------------------------------------ *)
Lemma mem_In : forall s l, mem s l = true <-> In s l.
Proof.
  intros s l. unfold mem. rewrite existsb_exists. split.
  - intros (x & I & E). apply String.eqb_eq in E. subst. assumption.
  - intro I. exists s. split; auto. apply String.eqb_refl.
Qed.
Lemma assoc_In : forall s t v, assoc s t = Some v -> In (s, v) t.
Proof.
  intros s t. induction t as [|[k w] t IH]; intros v H; simpl in H; try discriminate.
  destruct (String.eqb s k) eqn:E.
  - apply String.eqb_eq in E. inversion H; subst. left. reflexivity.
  - right. apply IH. assumption.
Qed.

(* reflexive on every name that designates a class, for any table *)
Theorem subtypep_refl : forall t a, is_class t a = true -> subtypep_t t a a = true.
Proof.
  intros t a H. unfold is_class, subtypep_t in *. destruct (find_class t a) as [[na sa]|]; try discriminate.
  rewrite String.eqb_refl. reflexivity.
Qed.
(* transitive on ALL names as soon as the table passes the check *)
Theorem subtypep_trans : forall t, table_trans t = true ->
  forall a b c, subtypep_t t a b = true -> subtypep_t t b c = true -> subtypep_t t a c = true.
Proof.
  intros t T a b c H1 H2. unfold subtypep_t, find_class in *.
  destruct (assoc (tname a) t) as [sa|] eqn:Ea; try discriminate.
  destruct (assoc (tname b) t) as [sb|] eqn:Eb; try discriminate.
  destruct (assoc (tname c) t) as [sc|] eqn:Ec; try discriminate.
  apply orb_true_iff in H1. apply orb_true_iff in H2. apply orb_true_iff.
  destruct H1 as [H1|H1].
  - apply String.eqb_eq in H1. rewrite H1 in Ea. rewrite Ea in Eb. inversion Eb; subst. rewrite H1. assumption.
  - destruct H2 as [H2|H2].
    + apply String.eqb_eq in H2. rewrite <- H2. right. assumption.
    + unfold table_trans in T. rewrite forallb_forall in T. specialize (T _ (assoc_In _ _ _ Ea)). simpl in T.
      rewrite forallb_forall in T. apply mem_In in H1. specialize (T _ H1). rewrite Eb in T.
      rewrite forallb_forall in T. apply mem_In in H2. specialize (T _ H2).
      apply orb_true_iff in T. destruct T as [T|T]; [left; rewrite String.eqb_sym; assumption | right; assumption].
Qed.
