(* C16 — proofs, part 2: symmetry (on well-formed objects) and transitivity (on well-formed objects without floats). *)
From Coq Require Import ZArith NArith List Bool Lia Znumtheory.
From C16 Require Import Model Spec Proofs Rounding.
Import ListNotations.
Open Scope Z_scope.
Open Scope list_scope.

(* ---- numbers: symmetry (every pair of representations; exact pairs by cross-multiplication) ----------- *)
Lemma same_m_sym : forall x y, same_m x y = same_m y x.
Proof.
  intros x y. destruct x, y; unfold same_m; try reflexivity;
    try apply Z.eqb_sym; try apply dy_eqb_sym.
Qed.

(* ---- Object.Equal is symmetric (no guard) ------------------------------------------------------------ *)
Lemma oeq_sym : forall x y, oeq x y = oeq y x.
Proof.
  induction x using obj_ind'; intros y; destruct y; cbn [oeq flt_equal_num]; try reflexivity;
    try apply Z.eqb_sym; try apply dy_eqb_sym; try apply N.eqb_sym; try apply lN_eqb_sym; try apply equal_fold_sym;
    try (apply all2_sym_F; assumption); auto.
Qed.

(* ---- guards as propositions ----------------------------------------------------------------------- *)
Lemma guard_Lst : forall xs, sym_guard (Lst xs) = true -> Forall (fun x => sym_guard x = true) xs.
Proof. intros xs H. unfold sym_guard in *. simpl in H. apply forallb_Forall. exact H. Qed.
Lemma guard_Vec : forall xs, sym_guard (Vec xs) = true -> Forall (fun x => sym_guard x = true) xs.
Proof. exact guard_Lst. Qed.
Lemma guard_Tl : forall v, sym_guard (Tl v) = true -> sym_guard v = true.
Proof. intros v H. exact H. Qed.

Lemma eqs_sym : forall x y, eqs x y = eqs y x.
Proof. intros [] []; simpl; try reflexivity. apply lN_eqb_sym. Qed.

Lemma all2_sym_G : forall (f : obj -> obj -> bool) (G : obj -> Prop) l,
  Forall (fun a => G a -> forall b, G b -> f a b = f b a) l ->
  Forall G l -> forall l', Forall G l' -> all2 f l l' = all2 f l' l.
Proof.
  intros f G l H. induction H; intros HG [|b l'] HG'; simpl; auto.
  rewrite (H (Forall_inv HG) b (Forall_inv HG')), (IHForall (Forall_inv_tail HG) l' (Forall_inv_tail HG')). reflexivity.
Qed.

Lemma num_sym : forall x y, sym_guard x = true -> sym_guard y = true ->
  is_number x = true -> is_number y = true -> same_m x y = same_m y x.
Proof. intros x y _ _ _ _. apply same_m_sym. Qed.

Lemma equal_s_sym : forall x, sym_guard x = true -> forall y, sym_guard y = true -> equal_s x y = equal_s y x.
Proof.
  induction x using obj_ind'; intros Gx y Gy; destruct y;
    cbn [equal_s eqs is_number andb orb]; try reflexivity;
    try (apply num_sym; auto; fail);
    try apply N.eqb_sym; try apply equal_fold_sym.
  - (* Sym *) rewrite !orb_false_r. apply lN_eqb_sym.
  - (* Lst *) apply (all2_sym_G equal_s (fun x => sym_guard x = true)); auto using guard_Lst.
  - (* Tl *) apply IHx; auto.
  - (* Vec *) apply all2_sym_F. apply Forall_forall. intros a _ b. apply oeq_sym.
Qed.

Lemma equalp_s_sym : forall x, sym_guard x = true -> forall y, sym_guard y = true -> equalp_s x y = equalp_s y x.
Proof.
  induction x using obj_ind'; intros Gx y Gy; destruct y;
    cbn [equalp_s eqs is_number andb orb]; try reflexivity;
    try (apply num_sym; auto; fail);
    try apply equal_fold_sym.
  - (* Chr *) rewrite (N.eqb_sym c c0), (N.eqb_sym (to_lower c) (to_lower c0)). reflexivity.
  - (* Sym *) rewrite lN_eqb_sym, equal_fold_sym. reflexivity.
  - (* Lst *) apply (all2_sym_G equalp_s (fun x => sym_guard x = true)); auto using guard_Lst.
  - (* Tl *) apply equal_s_sym; auto.
  - (* Vec *) apply all2_sym_F. apply Forall_forall. intros a _ b. apply oeq_sym.
Qed.

Lemma eql_s_sym : forall x y, sym_guard x = true -> sym_guard y = true -> eql_s x y = eql_s y x.
Proof.
  intros x y Gx Gy. destruct x, y; cbn [eql_s is_number andb]; try reflexivity;
    try (apply num_sym; auto; fail); try apply N.eqb_sym; try apply lN_eqb_sym.
Qed.

Theorem eql_m_sym : forall a b, sym_guard (r_obj a) = true -> sym_guard (r_obj b) = true -> eql_m a b = eql_m b a.
Proof. intros a b Ga Gb. unfold eql_m. rewrite eq_m_sym, (eql_s_sym _ _ Ga Gb). reflexivity. Qed.
Theorem equal_m_sym : forall a b, sym_guard (r_obj a) = true -> sym_guard (r_obj b) = true -> equal_m a b = equal_m b a.
Proof. intros a b Ga Gb. unfold equal_m. rewrite eq_m_sym, (equal_s_sym _ Ga _ Gb). reflexivity. Qed.
Theorem equalp_m_sym : forall a b, sym_guard (r_obj a) = true -> sym_guard (r_obj b) = true -> equalp_m a b = equalp_m b a.
Proof. intros a b Ga Gb. unfold equalp_m. rewrite eq_m_sym, (equalp_s_sym _ Ga _ Gb). reflexivity. Qed.

(* ---- exact numbers: same and Object.Equal are equality of the rational value --------------------------- *)
Definition qnum (x : obj) : option (Z * Z) :=
  match x with Fix z | Big z => Some (z, 1) | Rat n d => Some (n, d) | _ => None end.
Definition qeq (p q : Z * Z) : bool := fst p * snd q =? fst q * snd p.
Definition num_exact (x : obj) : Prop :=
  match x with
  | Fix z => int64_ok z = true
  | Rat n d => 0 < d /\ Z.gcd n d = 1
  | Flt _ _ _ => False
  | _ => True
  end.
Lemma guard_num_exact : forall x, trans_guard x = true -> num_exact x.
Proof.
  intros x G. unfold trans_guard in G. apply andb_true_iff in G as [W F].
  destruct x; simpl in *; auto; try discriminate.
  apply andb_true_iff in W as [W1 W2]. apply Z.ltb_lt in W1. apply Z.eqb_eq in W2. auto.
Qed.
Lemma qeq_trans : forall p q r, 0 < snd p -> 0 < snd q -> 0 < snd r -> qeq p q = true -> qeq q r = true -> qeq p r = true.
Proof.
  intros [a b] [c d] [e f]. unfold qeq. simpl. intros Hb Hd Hf H1 H2.
  apply Z.eqb_eq in H1, H2. apply Z.eqb_eq.
  apply (Z.mul_cancel_r _ _ d); [lia|].
  transitivity (c * b * f); [nia|]. nia.
Qed.
Lemma qnum_den_pos : forall x p, qnum x = Some p -> num_exact x -> 0 < snd p.
Proof. intros [] p H E; simpl in *; inversion H; subst; simpl; try lia; tauto. Qed.

Lemma same_exact : forall x y p q, qnum x = Some p -> qnum y = Some q -> num_exact x -> num_exact y ->
  same_m x y = qeq p q.
Proof.
  intros x y p q Hx Hy Ex Ey.
  destruct x; simpl in Hx; inversion Hx; subst; clear Hx;
  destruct y; simpl in Hy; inversion Hy; subst; clear Hy; unfold same_m, qeq; simpl fst; simpl snd;
    rewrite ?Z.mul_1_r; reflexivity.
Qed.

Lemma gcd_one_divides : forall n d a, 0 < d -> Z.gcd n d = 1 -> a * d = n -> d = 1.
Proof.
  intros n d a Hd Hg Hn.
  assert (D : (d | n)) by (exists a; lia).
  apply Z.divide_gcd_iff in D; [|lia]. rewrite Z.gcd_comm in D. lia.
Qed.

Lemma oeq_exact : forall x y p q, qnum x = Some p -> qnum y = Some q -> num_exact x -> num_exact y ->
  oeq x y = qeq p q.
Proof.
  intros x y p q Hx Hy Ex Ey.
  destruct x; simpl in Hx; inversion Hx; subst; clear Hx;
  destruct y; simpl in Hy; inversion Hy; subst; clear Hy; cbn [oeq]; unfold qeq; simpl fst; simpl snd;
    rewrite ?Z.mul_1_r; try reflexivity; simpl in Ex, Ey.
  - (* Fix, Big *) destruct (Z.eqb_spec z0 z) as [->|N].
    + rewrite Ex, Z.eqb_refl. reflexivity.
    + rewrite andb_false_r. symmetry. apply Z.eqb_neq. congruence.
  - (* Fix, Rat *) destruct Ey as (Hd & Hg).
    destruct (Z.eqb_spec (z * d) n) as [E|N].
    + pose proof (gcd_one_divides n d z Hd Hg E) as D1. subst d. rewrite Z.mul_1_r in E. subst n.
      rewrite Ex, !Z.eqb_refl. reflexivity.
    + destruct (d =? 1) eqn:E1; [|reflexivity]. apply Z.eqb_eq in E1. subst d.
      destruct (n =? z) eqn:E2; [|rewrite andb_false_r; reflexivity]. apply Z.eqb_eq in E2. lia.
  - (* Big, Fix *) destruct (Z.eqb_spec z z0) as [->|N].
    + rewrite Ey. reflexivity.
    + rewrite andb_false_r. reflexivity.
  - (* Big, Rat *) destruct Ey as (Hd & Hg).
    destruct (Z.eqb_spec (z * d) n) as [E|N].
    + pose proof (gcd_one_divides n d z Hd Hg E) as D1. subst d. rewrite Z.mul_1_r in E. subst n.
      rewrite !Z.eqb_refl. reflexivity.
    + destruct (d =? 1) eqn:E1; [|reflexivity]. apply Z.eqb_eq in E1. subst d.
      destruct (z =? n) eqn:E2; [|reflexivity]. apply Z.eqb_eq in E2. lia.
  - (* Rat, Fix *) destruct Ex as (Hd & Hg).
    destruct (Z.eqb_spec n (z * d)) as [E|N].
    + symmetry in E. pose proof (gcd_one_divides n d z Hd Hg E) as D1. subst d. rewrite Z.mul_1_r in E. subst n.
      rewrite Ey, !Z.eqb_refl. reflexivity.
    + destruct (d =? 1) eqn:E1; [|reflexivity]. apply Z.eqb_eq in E1. subst d.
      destruct (n =? z) eqn:E2; [|rewrite andb_false_r; reflexivity]. apply Z.eqb_eq in E2. lia.
  - (* Rat, Big *) destruct Ex as (Hd & Hg).
    destruct (Z.eqb_spec n (z * d)) as [E|N].
    + symmetry in E. pose proof (gcd_one_divides n d z Hd Hg E) as D1. subst d. rewrite Z.mul_1_r in E. subst n.
      rewrite !Z.eqb_refl. reflexivity.
    + destruct (d =? 1) eqn:E1; [|reflexivity]. apply Z.eqb_eq in E1. subst d.
      destruct (z =? n) eqn:E2; [|reflexivity]. apply Z.eqb_eq in E2. lia.
Qed.

Lemma exact_number_qnum : forall x, is_number x = true -> num_exact x -> exists p, qnum x = Some p.
Proof. intros [] H E; simpl in *; try discriminate; try contradiction; eauto. Qed.

Lemma num_trans : forall (f : obj -> obj -> bool),
  (forall x y p q, qnum x = Some p -> qnum y = Some q -> num_exact x -> num_exact y -> f x y = qeq p q) ->
  forall x y z, trans_guard x = true -> trans_guard y = true -> trans_guard z = true ->
  is_number x = true -> is_number y = true -> is_number z = true ->
  f x y = true -> f y z = true -> f x z = true.
Proof.
  intros f Hf x y z Gx Gy Gz Nx Ny Nz H1 H2.
  apply guard_num_exact in Gx, Gy, Gz.
  destruct (exact_number_qnum x Nx Gx) as [p Hp]. destruct (exact_number_qnum y Ny Gy) as [q Hq].
  destruct (exact_number_qnum z Nz Gz) as [r Hr].
  rewrite (Hf x y p q) in H1 by assumption. rewrite (Hf y z q r) in H2 by assumption. rewrite (Hf x z p r) by assumption.
  apply (qeq_trans p q r); auto; [apply (qnum_den_pos x) | apply (qnum_den_pos y) | apply (qnum_den_pos z)]; assumption.
Qed.

(* ---- transitivity on objects without floats ---------------------------------------------------------- *)
Lemma tguard_list : forall xs, (trans_guard (Lst xs) = true \/ trans_guard (Vec xs) = true) ->
  Forall (fun x => trans_guard x = true) xs.
Proof.
  intros xs H. assert (H' : forallb wf xs && forallb nofloat xs = true) by (destruct H as [H|H]; exact H).
  apply andb_true_iff in H' as [W F].
  rewrite forallb_Forall in W, F. rewrite Forall_forall in *. intros x Hx.
  unfold trans_guard. rewrite (W x Hx), (F x Hx). reflexivity.
Qed.
Lemma tguard_Tl : forall v, trans_guard (Tl v) = true -> trans_guard v = true.
Proof. intros v H. exact H. Qed.

Lemma oeq_number : forall x y, is_number x = true -> oeq x y = true -> is_number y = true.
Proof. intros [] []; simpl; intros; try discriminate; reflexivity. Qed.

Lemma oeq_trans : forall x, trans_guard x = true -> forall y z, trans_guard y = true -> trans_guard z = true ->
  oeq x y = true -> oeq y z = true -> oeq x z = true.
Proof.
  induction x using obj_ind'; intros Gx yy zz Gy Gz H1 H2.
  3-6: (match type of H1 with oeq ?x ?y = true =>
          assert (Ny := oeq_number x y eq_refl H1); assert (Nz := oeq_number _ _ Ny H2);
          exact (num_trans oeq oeq_exact x yy zz Gx Gy Gz eq_refl Ny Nz H1 H2) end).
  all: destruct yy; cbn [oeq] in H1; try discriminate; destruct zz; cbn [oeq] in H2 |- *; try discriminate; auto.
  - apply N.eqb_eq in H1, H2. subst. apply N.eqb_refl.
  - apply lN_eqb_eq in H1, H2. subst. apply lN_eqb_refl.
  - eapply equal_fold_trans; eauto.
  - exact (all2_trans_F _ oeq (fun x => trans_guard x = true) xs H (tguard_list xs (or_introl Gx)) xs0 xs1
             (tguard_list _ (or_introl Gy)) (tguard_list _ (or_introl Gz)) H1 H2).
  - exact (IHx Gx yy zz Gy Gz H1 H2).
  - exact (all2_trans_F _ oeq (fun x => trans_guard x = true) xs H (tguard_list xs (or_intror Gx)) xs0 xs1
             (tguard_list _ (or_intror Gy)) (tguard_list _ (or_intror Gz)) H1 H2).
Qed.

Lemma same_num_exact : forall x y p q, qnum x = Some p -> qnum y = Some q -> num_exact x -> num_exact y ->
  (is_number y && same_m x y) = qeq p q.
Proof.
  intros x y p q Hx Hy Ex Ey. rewrite <- (same_exact x y p q Hx Hy Ex Ey).
  destruct y; simpl in Hy; try discriminate; reflexivity.
Qed.
Lemma equal_s_num : forall x y, is_number x = true -> equal_s x y = is_number y && same_m x y.
Proof. intros [] y H; simpl in H; try discriminate; destruct y; reflexivity. Qed.
Lemma equalp_s_num : forall x y, is_number x = true -> equalp_s x y = is_number y && same_m x y.
Proof. intros [] y H; simpl in H; try discriminate; destruct y; reflexivity. Qed.
Lemma eql_s_num : forall x y, is_number x = true -> eql_s x y = is_number y && same_m x y.
Proof. intros [] y H; simpl in H; try discriminate; destruct y; reflexivity. Qed.

Definition numrel (x y : obj) : bool := is_number y && same_m x y.
Lemma numrel_trans : forall x y z, trans_guard x = true -> trans_guard y = true -> trans_guard z = true ->
  is_number x = true -> numrel x y = true -> numrel y z = true -> numrel x z = true.
Proof.
  intros x y z Gx Gy Gz Nx H1 H2.
  assert (Ny : is_number y = true) by (unfold numrel in H1; apply andb_true_iff in H1; tauto).
  assert (Nz : is_number z = true) by (unfold numrel in H2; apply andb_true_iff in H2; tauto).
  exact (num_trans numrel same_num_exact x y z Gx Gy Gz Nx Ny Nz H1 H2).
Qed.

Lemma eqs_trans : forall x y z, eqs x y = true -> eqs y z = true -> eqs x z = true.
Proof.
  intros [] [] []; simpl; try discriminate; auto. intros H1 H2.
  apply lN_eqb_eq in H1, H2. subst. apply lN_eqb_refl.
Qed.

Lemma equal_s_trans : forall x, trans_guard x = true -> forall y z, trans_guard y = true -> trans_guard z = true ->
  equal_s x y = true -> equal_s y z = true -> equal_s x z = true.
Proof.
  induction x using obj_ind'; intros Gx yy zz Gy Gz H1 H2.
  3-6: (match type of H1 with equal_s ?x ?y = true =>
          rewrite (equal_s_num x yy eq_refl) in H1; rewrite (equal_s_num x zz eq_refl);
          assert (Ny : is_number yy = true) by (apply andb_true_iff in H1; tauto);
          rewrite (equal_s_num yy zz Ny) in H2;
          exact (numrel_trans x yy zz Gx Gy Gz eq_refl H1 H2) end).
  all: destruct yy; cbn [equal_s eqs orb] in H1; try discriminate; destruct zz; cbn [equal_s eqs orb] in H2 |- *; try discriminate; auto.
  - apply N.eqb_eq in H1, H2. subst. apply N.eqb_refl.
  - eapply equal_fold_trans; eauto.
  - rewrite orb_false_r in *. apply lN_eqb_eq in H1, H2. subst. apply lN_eqb_refl.
  - exact (all2_trans_F _ equal_s (fun x => trans_guard x = true) xs H (tguard_list xs (or_introl Gx)) xs0 xs1
             (tguard_list _ (or_introl Gy)) (tguard_list _ (or_introl Gz)) H1 H2).
  - exact (IHx Gx yy zz Gy Gz H1 H2).
  - refine (all2_trans_F _ oeq (fun x => trans_guard x = true) xs _ (tguard_list xs (or_intror Gx)) xs0 xs1
             (tguard_list _ (or_intror Gy)) (tguard_list _ (or_intror Gz)) H1 H2).
    apply Forall_forall. intros a _ Ga b c Gb Gc. apply oeq_trans; auto.
Qed.

Lemma chr_p : forall c d, ((c =? d) || (to_lower c =? to_lower d))%N = (to_lower c =? to_lower d)%N.
Proof. intros c d. destruct (N.eqb_spec c d) as [->|]; simpl; auto. symmetry. apply N.eqb_refl. Qed.
Lemma sym_p : forall s t, lN_eqb s t || equal_fold s t = equal_fold s t.
Proof. intros s t. destruct (lN_eqb s t) eqn:E; simpl; auto. symmetry. apply lN_eqb_equal_fold. assumption. Qed.

Lemma equalp_s_trans : forall x, trans_guard x = true -> forall y z, trans_guard y = true -> trans_guard z = true ->
  equalp_s x y = true -> equalp_s y z = true -> equalp_s x z = true.
Proof.
  induction x using obj_ind'; intros Gx yy zz Gy Gz H1 H2.
  3-6: (match type of H1 with equalp_s ?x ?y = true =>
          rewrite (equalp_s_num x yy eq_refl) in H1; rewrite (equalp_s_num x zz eq_refl);
          assert (Ny : is_number yy = true) by (apply andb_true_iff in H1; tauto);
          rewrite (equalp_s_num yy zz Ny) in H2;
          exact (numrel_trans x yy zz Gx Gy Gz eq_refl H1 H2) end).
  all: destruct yy; cbn [equalp_s eqs orb] in H1; try discriminate; destruct zz; cbn [equalp_s eqs orb] in H2 |- *; try discriminate; auto.
  - rewrite chr_p in *. apply N.eqb_eq in H1, H2. apply N.eqb_eq. congruence.
  - eapply equal_fold_trans; eauto.
  - rewrite sym_p in *. eapply equal_fold_trans; eauto.
  - exact (all2_trans_F _ equalp_s (fun x => trans_guard x = true) xs H (tguard_list xs (or_introl Gx)) xs0 xs1
             (tguard_list _ (or_introl Gy)) (tguard_list _ (or_introl Gz)) H1 H2).
  - exact (equal_s_trans x Gx yy zz Gy Gz H1 H2).
  - refine (all2_trans_F _ oeq (fun x => trans_guard x = true) xs _ (tguard_list xs (or_intror Gx)) xs0 xs1
             (tguard_list _ (or_intror Gy)) (tguard_list _ (or_intror Gz)) H1 H2).
    apply Forall_forall. intros a _ Ga b c Gb Gc. apply oeq_trans; auto.
Qed.

Lemma eql_s_trans : forall x y z, trans_guard x = true -> trans_guard y = true -> trans_guard z = true ->
  eql_s x y = true -> eql_s y z = true -> eql_s x z = true.
Proof.
  intros x yy zz Gx Gy Gz H1 H2. destruct x.
  3-6: (match type of H1 with eql_s ?x ?y = true =>
          rewrite (eql_s_num x yy eq_refl) in H1; rewrite (eql_s_num x zz eq_refl);
          assert (Ny : is_number yy = true) by (apply andb_true_iff in H1; tauto);
          rewrite (eql_s_num yy zz Ny) in H2;
          exact (numrel_trans x yy zz Gx Gy Gz eq_refl H1 H2) end).
  all: destruct yy; cbn [eql_s] in H1; try discriminate; destruct zz; cbn [eql_s] in H2 |- *; try discriminate; auto.
  - apply N.eqb_eq in H1, H2. subst. apply N.eqb_refl.
  - apply lN_eqb_eq in H1, H2. subst. apply lN_eqb_refl.
Qed.

(* ---- references: the eq shortcut needs "one cell, one value" ------------------------------------------ *)
Lemma eq_m_same_obj : forall a b, consistent2 a b -> eq_m a b = true -> r_obj a = r_obj b.
Proof.
  intros [x w] [y v] C H. unfold consistent2, eq_m in *. simpl in *.
  destruct x, y; simpl in H; try discriminate;
    try (apply N.eqb_eq in H; apply C; auto; fail).
  - apply andb_true_iff in H as [K W]. apply N.eqb_eq in W. apply C; auto.
  - apply lN_eqb_eq in H. subst. reflexivity.
Qed.

Section RefTrans.
  Variable rel_m : ref -> ref -> bool.
  Variable rel_s : obj -> obj -> bool.
  Hypothesis rel_def : forall a b, rel_m a b = eq_m a b || rel_s (r_obj a) (r_obj b).
  Hypothesis rel_s_trans : forall x y z, trans_guard x = true -> trans_guard y = true -> trans_guard z = true ->
    rel_s x y = true -> rel_s y z = true -> rel_s x z = true.
  Lemma ref_trans : forall a b c, consistent2 a b -> consistent2 b c ->
    trans_guard (r_obj a) = true -> trans_guard (r_obj b) = true -> trans_guard (r_obj c) = true ->
    rel_m a b = true -> rel_m b c = true -> rel_m a c = true.
  Proof.
    intros a b c Cab Cbc Ga Gb Gc H1 H2. rewrite rel_def in *.
    apply orb_true_iff in H1 as [E1|S1]; apply orb_true_iff in H2 as [E2|S2].
    - rewrite (eq_m_trans a b c E1 E2). reflexivity.
    - rewrite (eq_m_same_obj a b Cab E1), S2. apply orb_true_r.
    - rewrite <- (eq_m_same_obj b c Cbc E2), S1. apply orb_true_r.
    - rewrite (rel_s_trans _ _ _ Ga Gb Gc S1 S2). apply orb_true_r.
  Qed.
End RefTrans.

Theorem eql_m_trans : forall a b c, consistent2 a b -> consistent2 b c ->
  trans_guard (r_obj a) = true -> trans_guard (r_obj b) = true -> trans_guard (r_obj c) = true ->
  eql_m a b = true -> eql_m b c = true -> eql_m a c = true.
Proof. apply (ref_trans eql_m eql_s); [reflexivity | exact eql_s_trans]. Qed.
Theorem equal_m_trans : forall a b c, consistent2 a b -> consistent2 b c ->
  trans_guard (r_obj a) = true -> trans_guard (r_obj b) = true -> trans_guard (r_obj c) = true ->
  equal_m a b = true -> equal_m b c = true -> equal_m a c = true.
Proof. apply (ref_trans equal_m equal_s); [reflexivity | intros x y z Gx Gy Gz; apply equal_s_trans; auto]. Qed.
Theorem equalp_m_trans : forall a b c, consistent2 a b -> consistent2 b c ->
  trans_guard (r_obj a) = true -> trans_guard (r_obj b) = true -> trans_guard (r_obj c) = true ->
  equalp_m a b = true -> equalp_m b c = true -> equalp_m a c = true.
Proof. apply (ref_trans equalp_m equalp_s); [reflexivity | intros x y z Gx Gy Gz; apply equalp_s_trans; auto]. Qed.

(* ---- structural reflexivity: two separately built copies of one object are related ------------------- *)
Lemma oeq_refl : forall x, oeq x x = true.
Proof.
  induction x using obj_ind'; cbn [oeq flt_equal_num]; auto;
    try apply Z.eqb_refl; try apply dy_eqb_refl; try apply N.eqb_refl; try apply lN_eqb_refl; try apply equal_fold_refl;
    try (apply all2_refl_F; assumption).
Qed.
Lemma equal_s_refl : forall x, equal_s x x = true.
Proof.
  induction x using obj_ind'; cbn [equal_s eqs is_number andb orb]; auto;
    try (unfold same_m; first [apply Z.eqb_refl | apply dy_eqb_refl]);
    try apply N.eqb_refl; try apply equal_fold_refl;
    try (apply all2_refl_F; assumption).
  - rewrite lN_eqb_refl. reflexivity.
  - apply all2_refl_F. apply Forall_forall. intros. apply oeq_refl.
Qed.
Lemma equalp_s_refl : forall x, equalp_s x x = true.
Proof. intro x. apply equal_s_equalp_s. apply equal_s_refl. Qed.
