(* C16 — proofs, part 4: the Go-map model of the hash table refines the finite map under the table's test,
   for every history of operations, whenever the test coincides with Go's == on the keys used. *)
From Coq Require Import ZArith NArith List Bool Lia Permutation Arith.
From C16 Require Import Model Spec.
Import ListNotations.
Open Scope nat_scope.
Open Scope list_scope.

Lemma find_seq_spec : forall (f : nat -> bool) len s,
  match find f (seq s len) with
  | Some c => s <= c < s + len /\ f c = true /\ forall j, s <= j < c -> f j = false
  | None => forall j, s <= j < s + len -> f j = false
  end.
Proof.
  intros f len. induction len as [|len IH]; intro s; simpl.
  - intros j H. lia.
  - destruct (f s) eqn:E.
    + repeat split; try lia; auto.
    + specialize (IH (S s)). destruct (find f (seq (S s) len)) as [c|].
      * destruct IH as (B & F & L). repeat split; try lia; auto.
        intros j H. destruct (Nat.eq_dec j s) as [->|]; auto. apply L. lia.
      * intros j H. destruct (Nat.eq_dec j s) as [->|]; auto. apply IH. lia.
Qed.

(* hashability of pool keys *)
Lemma key_ok_range : forall pool i, i < List.length pool -> exists b, key_ok pool i = Some b.
Proof.
  intros pool i H. unfold key_ok, key_at. destruct (nth_error pool i) eqn:E; simpl; eauto.
  apply nth_error_None in E. lia.
Qed.
Lemma gokey_eqb_hashable : forall a b, gokey_eqb a b = true -> hashable a = true /\ hashable b = true.
Proof. intros [] []; simpl; intro H; try discriminate; auto. Qed.
Lemma same_key_hashable : forall pool i j, same_key pool i j = true -> key_hashable pool i = true /\ key_hashable pool j = true.
Proof.
  intros pool i j H. unfold same_key in H. unfold key_hashable, key_ok.
  destruct (key_at pool i) as [a|]; try discriminate. destruct (key_at pool j) as [b|]; try discriminate.
  simpl. destruct (gokey_eqb_hashable a b H) as [-> ->]. auto.
Qed.

Section Refine.
  Variable pool : list tkey.
  Variable tst : nat -> nat -> bool.
  Let n := List.length pool.
  Let sk := same_key pool.
  Let hk := key_hashable pool.
  (* a good index: in range and hashable *)
  Definition good (i : nat) : Prop := i < n /\ hk i = true.
  Hypothesis Hcoh : forall i j, good i -> good j -> sk i j = tst i j.
  Hypothesis Hsep : forall i j, i < n -> j < n -> hk i = false -> hk j = true -> tst i j = false /\ tst j i = false.
  Hypothesis Hrefl : forall i, good i -> tst i i = true.
  Hypothesis Hsym : forall i j, good i -> good j -> tst i j = tst j i.
  Hypothesis Htrans : forall i j k, good i -> good j -> good k -> tst i j = true -> tst j k = true -> tst i k = true.

  Lemma good_lt : forall i, good i -> i < n.
  Proof. intros i [H _]. exact H. Qed.
  Lemma good_key_ok : forall i, good i -> key_ok pool i = Some true.
  Proof.
    intros i [H K]. unfold hk, key_hashable in K. destruct (key_ok pool i) as [[|]|]; try discriminate; reflexivity.
  Qed.
  Lemma bad_key_ok : forall i, i < n -> hk i = false -> key_ok pool i = Some false.
  Proof.
    intros i H K. destruct (key_ok_range pool i H) as [b E]. unfold hk, key_hashable in K. rewrite E in *.
    destruct b; try discriminate; reflexivity.
  Qed.
  Lemma sk_good_l : forall i j, i < n -> sk i j = true -> good i.
  Proof. intros i j H E. split; auto. apply (same_key_hashable pool i j E). Qed.

  Lemma sk_refl : forall i, good i -> sk i i = true.
  Proof. intros. rewrite Hcoh; auto. Qed.
  Lemma sk_sym : forall i j, good i -> good j -> sk i j = sk j i.
  Proof. intros. rewrite !Hcoh; auto. Qed.
  Lemma sk_trans : forall i j k, good i -> good j -> good k -> sk i j = true -> sk j k = true -> sk i k = true.
  Proof. intros i j k Hi Hj Hk. rewrite !Hcoh; auto. apply Htrans; auto. Qed.
  (* if j ~ i then k ~ i iff k ~ j *)
  Lemma sk_cong : forall i j k, good i -> good j -> good k -> sk i j = true -> sk k i = sk k j.
  Proof.
    intros i j k Hi Hj Hk E. destruct (sk k i) eqn:A, (sk k j) eqn:B; auto.
    - rewrite (sk_trans k i j) in B; auto.
    - rewrite (sk_trans k j i) in A; auto. rewrite sk_sym; auto.
  Qed.

  Definition valid (st : tstate) : Prop := Forall (fun e => good (fst e)) st.
  Fixpoint nodupk (st : tstate) : Prop :=
    match st with
    | [] => True
    | e :: st' => (forall e', In e' st' -> sk (fst e) (fst e') = false) /\ nodupk st'
    end.

  Lemma t_find_put : forall st i v k, valid st -> good i -> good k ->
    t_find pool (t_put pool st i v) k = if sk k i then Some v else t_find pool st k.
  Proof.
    induction st as [|[j w] st IH]; intros i v k V Hi Hk; simpl.
    - reflexivity.
    - inversion V as [|? ? Hj V']; subst. simpl in Hj. fold sk.
      destruct (sk i j) eqn:Eij; simpl; fold sk.
      + rewrite (sk_cong i j k Hi Hj Hk Eij). destruct (sk k j); reflexivity.
      + rewrite IH by assumption. destruct (sk k j) eqn:Ekj; auto.
        destruct (sk k i) eqn:Eki; auto.
        rewrite (sk_trans i k j) in Eij; auto; try discriminate. rewrite sk_sym; auto.
  Qed.
  Lemma t_find_del : forall st i k, valid st -> good i -> good k ->
    t_find pool (t_del pool st i) k = if sk k i then None else t_find pool st k.
  Proof.
    induction st as [|[j w] st IH]; intros i k V Hi Hk; simpl.
    - destruct (sk k i); reflexivity.
    - inversion V as [|? ? Hj V']; subst. simpl in Hj. fold sk.
      destruct (sk i j) eqn:Eij; simpl; fold sk.
      + rewrite IH by assumption. destruct (sk k i) eqn:Eki; auto.
        rewrite (sk_cong i j k Hi Hj Hk Eij) in Eki. rewrite Eki. reflexivity.
      + rewrite IH by assumption. destruct (sk k j) eqn:Ekj; auto.
        destruct (sk k i) eqn:Eki; auto.
        rewrite (sk_trans i k j) in Eij; auto; try discriminate. rewrite sk_sym; auto.
  Qed.

  Lemma in_put_keys : forall st i v e, In e (t_put pool st i v) -> fst e = i \/ exists e', In e' st /\ fst e' = fst e.
  Proof.
    induction st as [|[j w] st IH]; intros i v e H; simpl in H.
    - destruct H as [<-|[]]. left. reflexivity.
    - fold sk in H. destruct (sk i j); simpl in H.
      + destruct H as [<-|H]; right; [exists (j, w) | exists e]; simpl; auto.
      + destruct H as [<-|H]; [right; exists (j, w); simpl; auto|].
        destruct (IH _ _ _ H) as [E|(e' & I & E)]; auto. right. exists e'. simpl. auto.
  Qed.
  Lemma valid_in : forall st e, valid st -> In e st -> good (fst e).
  Proof. intros st e V I. unfold valid in V. rewrite Forall_forall in V. auto. Qed.
  Lemma valid_put : forall st i v, valid st -> good i -> valid (t_put pool st i v).
  Proof.
    intros st i v V Hi. apply Forall_forall. intros e H. destruct (in_put_keys _ _ _ _ H) as [->|(e' & I & <-)]; auto.
    apply (valid_in st); auto.
  Qed.
  Lemma in_del : forall st i e, In e (t_del pool st i) -> In e st.
  Proof.
    induction st as [|[j w] st IH]; intros i e H; simpl in *; auto.
    destruct (same_key pool i j); simpl in H; [right; eauto | destruct H; [left; auto | right; eauto]].
  Qed.
  Lemma valid_del : forall st i, valid st -> valid (t_del pool st i).
  Proof.
    intros st i V. apply Forall_forall. intros e H. apply in_del in H. apply (valid_in st); auto.
  Qed.
  Lemma nodupk_put : forall st i v, valid st -> good i -> nodupk st -> nodupk (t_put pool st i v).
  Proof.
    induction st as [|[j w] st IH]; intros i v V Hi ND; simpl.
    - split; auto. intros e' [].
    - inversion V as [|? ? Hj V']; subst. simpl in Hj. destruct ND as [N1 N2]. fold sk.
      destruct (sk i j) eqn:Eij; simpl.
      + split; auto.
      + split; [|apply IH; auto].
        intros e' H. destruct (in_put_keys _ _ _ _ H) as [->|(e'' & I & <-)].
        * rewrite sk_sym; auto.
        * apply N1. assumption.
  Qed.
  Lemma nodupk_del : forall st i, nodupk st -> nodupk (t_del pool st i).
  Proof.
    induction st as [|[j w] st IH]; intros i ND; simpl; auto.
    destruct ND as [N1 N2]. destruct (same_key pool i j); simpl; auto.
    split; auto. intros e' H. apply N1. eapply in_del; eauto.
  Qed.

  (* the accepted history names good keys only *)
  Definition hist_good (hist : list hop) : Prop :=
    Forall (fun o => match op_key o with Some j => good j | None => True end) hist.
  Lemma s_lookup_bad : forall hist k, hist_good hist -> k < n -> hk k = false -> s_lookup tst hist k = None.
  Proof.
    induction hist as [|o hist IH]; intros k G Hk B; simpl; auto.
    inversion G as [|? ? Go G']; subst.
    destruct o as [j v|j|j| | |]; simpl in Go; auto.
    - destruct Go as [Hj Kj]. destruct (Hsep k j Hk Hj B Kj) as [-> _]. auto.
    - destruct Go as [Hj Kj]. destruct (Hsep k j Hk Hj B Kj) as [-> _]. auto.
  Qed.

  (* the invariant tying the association list to the history *)
  Definition Inv (st : tstate) (hist : list hop) : Prop :=
    valid st /\ nodupk st /\ hist_good hist /\ forall k, good k -> t_find pool st k = s_lookup tst hist k.

  Lemma Inv_init : Inv [] [].
  Proof. repeat split; simpl; auto; constructor. Qed.

  Lemma refused_iff : forall o, op_in_range n o = true ->
    op_refused pool o = true <-> exists i, op_key o = Some i /\ i < n /\ hk i = false.
  Proof.
    intros o R. unfold op_refused. destruct o as [i v|i|i| | |]; simpl in *; try apply Nat.ltb_lt in R;
      try (split; [discriminate | intros (i' & E & _); discriminate]).
    all: fold (hk i); split; [intro H; exists i; repeat split; auto; apply negb_true_iff; exact H
                             | intros (i' & E & _ & H); inversion E; subst; rewrite H; reflexivity].
  Qed.
  Lemma accepted_good : forall o i, op_in_range n o = true -> op_refused pool o = false -> op_key o = Some i -> good i.
  Proof.
    intros o i R A K. unfold op_refused in A. rewrite K in A. apply negb_false_iff in A.
    split; auto. destruct o; simpl in *; inversion K; subst; apply Nat.ltb_lt; assumption.
  Qed.

  Lemma Inv_step : forall st hist o, Inv st hist -> op_in_range n o = true ->
    Inv (fst (t_step pool st o)) (s_next pool hist o).
  Proof.
    intros st hist o (V & ND & HG & L) R. unfold s_next. destruct (op_refused pool o) eqn:Ref.
    - (* refused: nothing changes *)
      apply refused_iff in Ref; auto. destruct Ref as (i & K & Hi & B).
      pose proof (bad_key_ok i Hi B) as KO.
      destruct o; simpl in K; inversion K; subst; simpl; rewrite KO; simpl; repeat split; auto.
    - assert (HG' : hist_good (o :: hist)).
      { constructor; auto. destruct (op_key o) as [i|] eqn:K; auto. apply (accepted_good o i R Ref K). }
      destruct o as [i v|i|i| | |]; simpl.
      + pose proof (accepted_good _ i R Ref eq_refl) as Gi. rewrite (good_key_ok i Gi). simpl. repeat split; auto.
        * apply valid_put; auto.
        * apply nodupk_put; auto.
        * intros k Hk. rewrite t_find_put by auto. rewrite Hcoh by auto. rewrite L by auto. reflexivity.
      + pose proof (accepted_good _ i R Ref eq_refl) as Gi. rewrite (good_key_ok i Gi). simpl. repeat split; auto.
      + pose proof (accepted_good _ i R Ref eq_refl) as Gi. rewrite (good_key_ok i Gi). simpl. repeat split; auto.
        * apply valid_del; auto.
        * apply nodupk_del; auto.
        * intros k Hk. rewrite t_find_del by auto. rewrite Hcoh by auto. rewrite L by auto. reflexivity.
      + repeat split; simpl; auto. constructor.
      + repeat split; auto.
      + repeat split; auto.
  Qed.

  (* ---- the entries: as a set, those of the finite map ------------------------------------------------ *)
  Lemma canon_spec : forall j, good j ->
    good (canon pool j) /\ sk (canon pool j) j = true /\ forall j', j' < canon pool j -> sk j' j = false.
  Proof.
    intros j Gj. pose proof (good_lt j Gj) as Hj. unfold canon. fold n.
    pose proof (find_seq_spec (fun j' => same_key pool j' j) n 0) as F.
    destruct (find (fun j' => same_key pool j' j) (seq 0 n)) as [c|].
    - destruct F as (B & T & L). repeat split; try lia; auto.
      + apply (same_key_hashable pool c j T).
      + intros j' H. apply L. lia.
    - exfalso. specialize (F j ltac:(lia)). fold sk in F. rewrite sk_refl in F; auto. discriminate.
  Qed.
  Lemma canon_least : forall i j, good i -> good j -> sk i j = true -> (forall j', j' < i -> sk j' j = false) -> canon pool j = i.
  Proof.
    intros i j Hi Hj E L. destruct (canon_spec j Hj) as (B & T & M).
    destruct (Nat.lt_trichotomy (canon pool j) i) as [H|[H|H]]; auto.
    - rewrite (L _ H) in T. discriminate.
    - rewrite (M _ H) in E. discriminate.
  Qed.

  Lemma t_find_some : forall st i v, t_find pool st i = Some v -> exists j, In (j, v) st /\ sk i j = true.
  Proof.
    induction st as [|[j w] st IH]; intros i v H; simpl in H; try discriminate.
    fold sk in H. destruct (sk i j) eqn:E.
    - inversion H; subst. exists j. simpl. auto.
    - destruct (IH _ _ H) as (j' & I & E'). exists j'. simpl. auto.
  Qed.
  Lemma t_find_in : forall st i j v, valid st -> nodupk st -> good i -> In (j, v) st -> sk i j = true -> t_find pool st i = Some v.
  Proof.
    induction st as [|[j0 w] st IH]; intros i j v V ND Hi I E; simpl in *; [contradiction|].
    inversion V as [|? ? Hj0 V']; subst. simpl in Hj0. destruct ND as [N1 N2]. fold sk.
    destruct I as [I|I].
    - inversion I; subst. rewrite E. reflexivity.
    - assert (Hj : good j) by (apply (valid_in st (j, v)); auto).
      destruct (sk i j0) eqn:E0.
      + exfalso. specialize (N1 (j, v) I). simpl in N1.
        rewrite (sk_trans j0 i j) in N1; auto; try discriminate. rewrite sk_sym; auto.
      + eapply IH; eauto.
  Qed.

  Lemma is_rep_spec : forall i, is_rep tst i = true <-> forall j', j' < i -> tst j' i = false.
  Proof.
    intro i. unfold is_rep. rewrite forallb_forall. split; intros H j' Hj.
    - specialize (H j' ltac:(apply in_seq; lia)). apply negb_true_iff in H. assumption.
    - apply in_seq in Hj. apply negb_true_iff. apply H. lia.
  Qed.
  (* the test on a good key, from any smaller index: Go's == when that index is good, false otherwise *)
  Lemma tst_below : forall j' i, good i -> j' < i -> tst j' i = sk j' i.
  Proof.
    intros j' i Gi Hlt. pose proof (good_lt i Gi) as Hi. destruct (hk j') eqn:K.
    - symmetry. apply Hcoh; auto. split; auto. lia.
    - destruct (Hsep j' i ltac:(lia) Hi K (proj2 Gi)) as [-> _].
      destruct (sk j' i) eqn:E; auto. destruct (same_key_hashable pool j' i E) as [K' _]. fold hk in K'. congruence.
  Qed.

  Lemma in_s_entries : forall hist i v, In (i, v) (s_entries pool tst hist) <->
    i < n /\ is_rep tst i = true /\ s_lookup tst hist i = Some v.
  Proof.
    intros hist i v. unfold s_entries. fold n. rewrite in_flat_map. split.
    - intros (x & Hx & H). apply in_seq in Hx. destruct (is_rep tst x) eqn:R; [|contradiction].
      destruct (s_lookup tst hist x) eqn:Lk; [|contradiction]. destruct H as [H|[]]. inversion H; subst. repeat split; auto; lia.
    - intros (Hi & R & Lk). exists i. split; [apply in_seq; lia|]. rewrite R, Lk. left. reflexivity.
  Qed.

  Lemma in_canon_entries : forall st i v, In (i, v) (canon_entries pool st) <-> exists j, In (j, v) st /\ canon pool j = i.
  Proof.
    intros st i v. unfold canon_entries. rewrite in_map_iff. split.
    - intros ([j w] & E & I). simpl in E. inversion E; subst. eauto.
    - intros (j & I & E). exists (j, v). simpl. subst. auto.
  Qed.

  Lemma entries_same : forall st hist, Inv st hist -> forall i v,
    In (i, v) (canon_entries pool st) <-> In (i, v) (s_entries pool tst hist).
  Proof.
    intros st hist (V & ND & HG & L) i v. rewrite in_canon_entries, in_s_entries. split.
    - intros (j & I & C).
      assert (Hj : good j) by (apply (valid_in st (j, v)); auto).
      destruct (canon_spec j Hj) as (B & T & M). rewrite C in *. repeat split; auto.
      + apply good_lt; auto.
      + apply is_rep_spec. intros j' H'. rewrite (tst_below j' i B H').
        destruct (sk j' i) eqn:E; auto. rewrite <- (M j' H'). symmetry.
        apply (sk_trans j' i j); auto. apply (sk_good_l j' i); auto. pose proof (good_lt i B). lia.
      + rewrite <- L by auto. eapply t_find_in; eauto.
    - intros (Hi & R & Lk).
      assert (Gi : good i).
      { split; auto. destruct (hk i) eqn:K; auto. rewrite (s_lookup_bad hist i HG Hi K) in Lk. discriminate. }
      rewrite <- L in Lk by auto.
      destruct (t_find_some _ _ _ Lk) as (j & I & E). exists j. split; auto.
      assert (Hj : good j) by (apply (valid_in st (j, v)); auto).
      apply canon_least; auto. intros j' H'. rewrite is_rep_spec in R.
      destruct (sk j' j) eqn:E'; auto. rewrite <- (R j' H'). rewrite (tst_below j' i Gi H'). symmetry.
      assert (Gj' : good j') by (apply (sk_good_l j' j); auto; lia).
      apply (sk_trans j' j i); auto. rewrite sk_sym; auto.
  Qed.

  Lemma NoDup_canon : forall st, valid st -> nodupk st -> NoDup (canon_entries pool st).
  Proof.
    intros st V ND. apply (NoDup_map_inv fst). unfold canon_entries. rewrite map_map. simpl.
    induction st as [|[j w] st IH]; simpl; constructor.
    - inversion V as [|? ? Hj V']; subst. simpl in Hj. destruct ND as [N1 N2].
      intro H. apply in_map_iff in H as ([j' w'] & E & I). simpl in E.
      assert (Hj' : good j') by (apply (valid_in st (j', w')); auto).
      specialize (N1 (j', w') I). simpl in N1.
      destruct (canon_spec j Hj) as (B & T & _). destruct (canon_spec j' Hj') as (B' & T' & _). rewrite E in T'.
      rewrite (sk_trans j (canon pool j) j') in N1; auto; try discriminate. rewrite sk_sym; auto.
    - inversion V; subst. destruct ND. apply IH; auto.
  Qed.
  Lemma NoDup_s_entries : forall hist, NoDup (s_entries pool tst hist).
  Proof.
    intro hist. apply (NoDup_map_inv fst). unfold s_entries. fold n.
    assert (G : forall l, NoDup l -> NoDup (map fst (flat_map (fun i => if is_rep tst i then match s_lookup tst hist i with Some v => [(i, v)] | None => [] end else []) l))).
    { induction l as [|x l IH]; intro H; simpl; [constructor|].
      inversion H; subst. rewrite map_app. 
      assert (S : forall y, In y (map fst (flat_map (fun i => if is_rep tst i then match s_lookup tst hist i with Some v => [(i, v)] | None => [] end else []) l)) -> In y l).
      { intros y Hy. apply in_map_iff in Hy as ([a b] & E & I). simpl in E. subst. apply in_flat_map in I as (z & Hz & I).
        destruct (is_rep tst z); [|contradiction]. destruct (s_lookup tst hist z); [|contradiction].
        destruct I as [I|[]]. inversion I; subst. assumption. }
      destruct (is_rep tst x); simpl; auto. destruct (s_lookup tst hist x); simpl; auto.
      constructor; auto. }
    apply G. apply seq_NoDup.
  Qed.

  Lemma entries_perm : forall st hist, Inv st hist -> Permutation (canon_entries pool st) (s_entries pool tst hist).
  Proof.
    intros st hist I. apply NoDup_Permutation.
    - destruct I as (V & ND & _). apply NoDup_canon; auto.
    - apply NoDup_s_entries.
    - intros [i v]. apply entries_same. assumption.
  Qed.

  Lemma s_count_entries : forall hist, s_count pool tst hist = List.length (s_entries pool tst hist).
  Proof.
    intro hist. unfold s_count, s_entries, has_value. fold n. induction (seq 0 n) as [|x l IH]; simpl; auto.
    rewrite app_length, <- IH. destruct (is_rep tst x); simpl; auto. destruct (s_lookup tst hist x); simpl; auto.
  Qed.
  Lemma count_ok : forall st hist, Inv st hist -> List.length st = s_count pool tst hist.
  Proof.
    intros st hist I. rewrite s_count_entries, <- (Permutation_length (entries_perm st hist I)).
    unfold canon_entries. rewrite map_length. reflexivity.
  Qed.

  (* ---- observations ------------------------------------------------------------------------------------ *)
  Lemma obs_step : forall st hist o, Inv st hist -> op_in_range n o = true ->
    obs_equiv (snd (t_step pool st o)) (s_obs pool tst hist o).
  Proof.
    intros st hist o I R. pose proof I as (V & ND & HG & L). unfold s_obs.
    destruct (op_refused pool o) eqn:Ref.
    - apply refused_iff in Ref; auto. destruct Ref as (i & K & Hi & B).
      pose proof (bad_key_ok i Hi B) as KO.
      destruct o; simpl in K; inversion K; subst; simpl; rewrite KO; reflexivity.
    - destruct o as [i v|i|i| | |]; simpl.
      + rewrite (good_key_ok i (accepted_good _ i R Ref eq_refl)). reflexivity.
      + pose proof (accepted_good _ i R Ref eq_refl) as Gi. rewrite (good_key_ok i Gi). simpl. rewrite L by auto. reflexivity.
      + pose proof (accepted_good _ i R Ref eq_refl) as Gi. rewrite (good_key_ok i Gi). simpl. unfold has_value. rewrite L by auto. reflexivity.
      + reflexivity.
      + rewrite (count_ok st hist I). reflexivity.
      + apply entries_perm. assumption.
  Qed.

  Theorem refine_run : forall ops st hist, Inv st hist -> forallb (op_in_range n) ops = true ->
    Forall2 obs_equiv (t_run pool st ops) (s_run pool tst hist ops).
  Proof.
    induction ops as [|o ops IH]; intros st hist I R; simpl; [constructor|].
    simpl in R. apply andb_true_iff in R as [R1 R2].
    pose proof (obs_step st hist o I R1) as O. pose proof (Inv_step st hist o I R1) as I'.
    destruct (t_step pool st o) as [st' ob]. simpl in *. constructor; auto.
  Qed.
End Refine.

(* ---- from the boolean guard ------------------------------------------------------------------------------ *)
Lemma forallb_seq : forall (f : nat -> bool) len, forallb f (seq 0 len) = true -> forall i, i < len -> f i = true.
Proof. intros f len H i Hi. rewrite forallb_forall in H. apply H. apply in_seq. lia. Qed.

Theorem table_refines_map : forall pool tst ops,
  pool_ok pool tst = true -> forallb (op_in_range (List.length pool)) ops = true ->
  Forall2 obs_equiv (t_run pool [] ops) (s_run pool tst [] ops).
Proof.
  intros pool tst ops G R. unfold pool_ok in G.
  apply andb_true_iff in G as [C E].
  unfold pool_equiv in E. apply andb_true_iff in E as [E T]. apply andb_true_iff in E as [Rf S].
  assert (CC : forall i j, i < List.length pool -> j < List.length pool ->
            (if key_hashable pool i && key_hashable pool j then Bool.eqb (same_key pool i j) (tst i j)
             else negb (key_hashable pool i || key_hashable pool j) || negb (tst i j)) = true).
  { intros i j Hi Hj. exact (forallb_seq _ _ (forallb_seq _ _ C i Hi) j Hj). }
  apply refine_run; auto.
  - intros i j [Hi Ki] [Hj Kj]. pose proof (CC i j Hi Hj) as K. rewrite Ki, Kj in K. simpl in K. apply eqb_prop in K. assumption.
  - intros i j Hi Hj Ki Kj. pose proof (CC i j Hi Hj) as K1. pose proof (CC j i Hj Hi) as K2.
    rewrite Ki, Kj in K1, K2. simpl in K1, K2. apply negb_true_iff in K1, K2. auto.
  - intros i [Hi _]. exact (forallb_seq _ _ Rf i Hi).
  - intros i j [Hi _] [Hj _]. pose proof (forallb_seq _ _ (forallb_seq _ _ S i Hi) j Hj) as K. apply eqb_prop in K. assumption.
  - intros i j k [Hi _] [Hj _] [Hk _] A B. pose proof (forallb_seq _ _ (forallb_seq _ _ (forallb_seq _ _ T i Hi) j Hj) k Hk) as K.
    rewrite A, B in K. simpl in K. assumption.
  - apply Inv_init.
Qed.
