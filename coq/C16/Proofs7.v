(* C16 — proofs, part 7: the table stores the value OBJECT it is given.

   Values are named by codes that identify the object (Model.v, section 7: representation and number), and
   slip.ObjectEqual (val_equal_m) accepts many pairs of different objects: 5 and 5.0, a list and a separately
   made list with the same elements.  The unchanged (setf gethash) is an unconditional assignment (t_put).
   A store that is skipped "when there is nothing to change" (t_put_unless veq) is the same table exactly when
   veq accepts a pair of values only if they are the same object; with ObjectEqual it is not. *)
From Coq Require Import ZArith NArith List Bool Lia Arith.
From C16 Require Import Model Spec.
Import ListNotations.
Open Scope nat_scope.
Open Scope list_scope.

(* after a store, the lookup of that key returns exactly the value stored - whatever was there before, in
   particular when the old value is ObjectEqual to the new one.  No assumption on the state. *)
Lemma store_then_lookup : forall pool st i v,
  same_key pool i i = true -> t_find pool (t_put pool st i v) i = Some v.
Proof.
  intros pool st i v R. induction st as [|[j w] st IH]; simpl.
  - rewrite R. reflexivity.
  - destruct (same_key pool i j) eqn:E; simpl; rewrite E; auto.
Qed.

(* a guarded store whose comparison is identity is the unguarded store *)
Lemma put_unless_identity : forall pool veq,
  (forall a b : Z, veq a b = true -> a = b) ->
  forall st i v, t_put_unless pool veq st i v = t_put pool st i v.
Proof.
  intros pool veq H st i v. induction st as [|[j w] st IH]; simpl; auto.
  destruct (same_key pool i j).
  - destruct (veq w v) eqn:E; auto. apply H in E. subst. reflexivity.
  - rewrite IH. reflexivity.
Qed.

(* and only then: a comparison that accepts two different values a, b loses the second store *)
Definition one_key_pool : list tkey := [TRef (mkref (Fix 7) 0)].
Lemma put_unless_loses_store : forall veq (a b : Z),
  veq a b = true -> a <> b ->
  t_find one_key_pool (t_put_unless one_key_pool veq (t_put one_key_pool [] 0 a) 0 b) 0 = Some a /\
  t_find one_key_pool (t_put one_key_pool (t_put one_key_pool [] 0 a) 0 b) 0 = Some b /\
  s_lookup (fun i j => Nat.eqb i j) [HPut 0 b; HPut 0 a] 0 = Some b.
Proof.
  intros veq a b E N.
  assert (K : same_key one_key_pool 0 0 = true) by (vm_compute; reflexivity).
  split; [|split].
  - change (t_put one_key_pool [] 0 a) with [(0, a)].
    cbn [t_put_unless]. rewrite K, E. cbn [t_find]. rewrite K. reflexivity.
  - change (t_put one_key_pool [] 0 a) with [(0, a)].
    cbn [t_put]. rewrite K. cbn [t_find]. rewrite K. reflexivity.
  - reflexivity.
Qed.
Theorem guarded_store_iff_identity : forall veq : Z -> Z -> bool,
  (forall pool st i v, t_put_unless pool veq st i v = t_put pool st i v) <->
  (forall a b, veq a b = true -> a = b).
Proof.
  intro veq. split.
  - intros H a b E. destruct (Z.eq_dec a b) as [|N]; auto. exfalso.
    destruct (put_unless_loses_store veq a b E N) as [A [B _]].
    rewrite H in A. rewrite A in B. injection B. auto.
  - intros H pool st i v. apply put_unless_identity. exact H.
Qed.

(* ObjectEqual on values: reflexive, symmetric, and far wider than identity *)
Lemma val_equal_refl : forall a, val_equal_m a a = true.
Proof. intro a. unfold val_equal_m. rewrite Z.eqb_refl. reflexivity. Qed.
Lemma val_equal_sym : forall a b, val_equal_m a b = val_equal_m b a.
Proof.
  intros a b. unfold val_equal_m. rewrite (Z.eqb_sym a b), (Z.eqb_sym (val_num a) (val_num b)).
  rewrite (andb_comm (val_is_number a)), (andb_comm (val_is_list a)). reflexivity.
Qed.
(* pairs of different value objects that ObjectEqual accepts: fixnum / double / single of one number, two boxes
   of one list; and pairs it keeps apart *)
Definition equal_value_pairs : list (Z * Z) :=
  [(5, 105); (105, 5); (5, 205); (105, 205); (205, 105); (305, 405); (405, 305); (90, 290); (1, 101)]%Z.
Definition unequal_value_pairs : list (Z * Z) :=
  [(5, 6); (5, 106); (5, 305); (105, 405); (0, 5); (5, 0); (0, 305); (305, 306)]%Z.
Lemma val_equal_not_identity :
  forallb (fun p => val_equal_m (fst p) (snd p) && negb (Z.eqb (fst p) (snd p)) && val_wf (fst p) && val_wf (snd p))
          equal_value_pairs = true /\
  forallb (fun p => negb (val_equal_m (fst p) (snd p)) && val_wf (fst p) && val_wf (snd p)) unequal_value_pairs = true.
Proof. split; vm_compute; reflexivity. Qed.

(* the store guarded by ObjectEqual, refuted: 5.0 stored over 5 under one key leaves the fixnum in the table,
   the unchanged model and the specification answer the double-float; the count is right in both *)
Lemma equal_value_store_refuted :
  let st := t_put one_key_pool [] 0 5%Z in
  t_find one_key_pool (t_put_unless one_key_pool val_equal_m st 0 105%Z) 0 = Some 5%Z /\
  t_find one_key_pool (t_put one_key_pool st 0 105%Z) 0 = Some 105%Z /\
  t_run one_key_pool [] [HPut 0 5%Z; HPut 0 105%Z; HGet 0; HCount] = [OVal 5; OVal 105; OGet (Some 105%Z); ONum 1] /\
  s_run one_key_pool (fun i j => Nat.eqb i j) [] [HPut 0 5%Z; HPut 0 105%Z; HGet 0; HCount] =
    [OVal 5; OVal 105; OGet (Some 105%Z); ONum 1] /\
  List.length (t_put_unless one_key_pool val_equal_m st 0 105%Z) = 1.
Proof. vm_compute. repeat split; reflexivity. Qed.
