(* C16 — theorems over the class table (registry + Inherits) and the kind table (Hierarchy() per kind of
   object) REGENERATED from the running implementation on this run (GenC16.Tables).  Bound: the finitely
   many registered classes (names classes) and the 14 kinds of the modelled universe. *)
From Coq Require Import List Bool String.
From C16 Require Import Types.
From GenC16 Require Import Tables.
Import ListNotations.
Open Scope string_scope.

(* the table is well-formed: lower-case names, as the registry stores them *)
Theorem class_table_lower_case : table_lower classes = true.
Proof. vm_compute. reflexivity. Qed.
Print Assumptions class_table_lower_case.

(* subtypep is reflexive on every registered class name (any spelling of it) *)
Theorem subtypep_reflexive_now : forall a, is_class classes a = true -> subtypep_t classes a a = true.
Proof. exact (subtypep_refl classes). Qed.
Print Assumptions subtypep_reflexive_now.
Theorem every_registered_name_is_a_class : forallb (is_class classes) (names classes) = true.
Proof. vm_compute. reflexivity. Qed.
Print Assumptions every_registered_name_is_a_class.

(* subtypep is transitive, for ALL type names, with the class precedence lists as they are now *)
Theorem class_table_transitive : table_trans classes = true.
Proof. vm_compute. reflexivity. Qed.
Print Assumptions class_table_transitive.
Theorem subtypep_transitive_now : forall a b c,
  subtypep_t classes a b = true -> subtypep_t classes b c = true -> subtypep_t classes a c = true.
Proof. exact (subtypep_trans classes class_table_transitive). Qed.
Print Assumptions subtypep_transitive_now.

(* every kind of object is typep of its own type-of *)
Theorem typep_of_type_of_now : forall k h, In (k, h) kinds -> typep_t kinds k (type_of_t kinds k) = true.
Proof.
  intros k h I. assert (T : kinds_type_of kinds = true) by (vm_compute; reflexivity).
  unfold kinds_type_of in T. rewrite forallb_forall in T. exact (T (k, h) I).
Qed.
Print Assumptions typep_of_type_of_now.

(* typep is closed under subtypep: every class that a type of the object's hierarchy inherits from is a
   type of the object *)
Theorem typep_upward_closed_now : kinds_upward classes kinds = true.
Proof. vm_compute. reflexivity. Qed.
Print Assumptions typep_upward_closed_now.

(* typep x ty = subtypep (type-of x) ty for every kind whose type-of names a registered class and every
   probed type name other than t *)
Theorem typep_agrees_with_subtypep_now : kinds_agree classes kinds = true.
Proof. vm_compute. reflexivity. Qed.
Print Assumptions typep_agrees_with_subtypep_now.
Theorem agreeing_kinds_now :
  filter (fun k => is_class classes (type_of_t kinds k)) (names kinds) =
  ["nil"; "fixnum"; "bignum"; "ratio"; "single-float"; "double-float"; "character"; "string"; "symbol"; "empty-list"; "list"; "cons";
   "vector"; "octet"; "signed-byte"; "unsigned-byte"; "bit"; "long-float"; "complex"].
Proof. vm_compute. reflexivity. Qed.
Print Assumptions agreeing_kinds_now.

(* short-float and byte are the types they are Go aliases of, for typep and for subtypep alike (findings
   C16-short-float-is-single-float and C16-byte-is-octet, repaired by C16-6) *)
Theorem alias_types_now :
  typep_t kinds "single-float" "short-float" = true /\ typep_t kinds "single-float" "SHORT-FLOAT" = true /\
  typep_t kinds "double-float" "short-float" = false /\ typep_t kinds "fixnum" "byte" = false /\
  subtypep_t classes "single-float" "short-float" = true /\ subtypep_t classes "short-float" "single-float" = true /\
  subtypep_t classes "short-float" "float" = true /\ subtypep_t classes "byte" "octet" = true /\
  subtypep_t classes "octet" "byte" = true /\ subtypep_t classes "fixnum" "byte" = false.
Proof. vm_compute. repeat split; reflexivity. Qed.
Print Assumptions alias_types_now.

(* the other numeric kinds (octet, signed-byte, unsigned-byte, bit, long-float, complex) are among the kinds above:
   Hierarchy() and the class precedence lists are two sources of truth, and they agree on them now, e.g. an octet
   is neither typep nor subtypep of unsigned-byte, a bit and an unsigned-byte are both *)
Theorem numeric_kinds_now :
  typep_t kinds "octet" "unsigned-byte" = false /\ subtypep_t classes "octet" "unsigned-byte" = false /\
  typep_t kinds "octet" "byte" = true /\ subtypep_t classes "octet" "integer" = true /\
  typep_t kinds "bit" "unsigned-byte" = true /\ subtypep_t classes "bit" "unsigned-byte" = true /\
  typep_t kinds "unsigned-byte" "signed-byte" = true /\ subtypep_t classes "unsigned-byte" "signed-byte" = true /\
  typep_t kinds "signed-byte" "unsigned-byte" = false /\ subtypep_t classes "signed-byte" "unsigned-byte" = false /\
  kind_agrees_but_t classes kinds "octet" = true /\ kind_agrees_but_t classes kinds "long-float" = true.
Proof. vm_compute. repeat split; reflexivity. Qed.
Print Assumptions numeric_kinds_now.

(* outside that guard: t is a type of every object but not a class (known finding C16-t-is-not-a-class) *)
Theorem typep_subtypep_t_refuted :
  typep_t kinds "fixnum" "t" = true /\ subtypep_t classes (type_of_t kinds "fixnum") "t" = false.
Proof. vm_compute. split; reflexivity. Qed.
Print Assumptions typep_subtypep_t_refuted.

(* list, cons and null are classes (finding C16-list-cons-null-are-not-classes, repaired by C16-7) and nil has the
   types of the empty list (finding C16-nil-is-only-null, repaired by C16-8): subtypep is reflexive on them and
   agrees with typep *)
Theorem list_cons_null_classes_now :
  type_of_t kinds "list" = "list" /\ typep_t kinds "list" "sequence" = true /\
  subtypep_t classes "list" "sequence" = true /\ subtypep_t classes "list" "list" = true /\
  subtypep_t classes "cons" "cons" = true /\ subtypep_t classes "null" "null" = true /\
  subtypep_t classes "cons" "list" = true /\ subtypep_t classes "null" "list" = true /\
  subtypep_t classes "list" "cons" = false /\ subtypep_t classes "null" "symbol" = false /\
  type_of_t kinds "nil" = "null" /\ typep_t kinds "nil" "null" = true /\ typep_t kinds "nil" "list" = true /\
  typep_t kinds "nil" "sequence" = true /\ typep_t kinds "nil" "t" = true /\ typep_t kinds "nil" "symbol" = false /\
  typep_t kinds "nil" "cons" = false /\ kind_agrees_but_t classes kinds "nil" = true /\ kind_agrees_but_t classes kinds "cons" = true.
Proof. vm_compute. repeat split; reflexivity. Qed.
Print Assumptions list_cons_null_classes_now.
