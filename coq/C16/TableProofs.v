(* C16 — theorems over the class and kind tables regenerated from the running implementation on THIS run. *)
From Coq Require Import List Bool String.
From C16 Require Import Types.
From GenC16 Require Import Tables.

Theorem subtypep_reflexive_on_table : table_refl classes = true.
Proof. vm_compute. reflexivity. Qed.
Print Assumptions subtypep_reflexive_on_table.
