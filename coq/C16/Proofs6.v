(* C16 — proofs, part 6: the guard of the table theorem is met by every pool of keys of the simple kinds
   (nil, t, fixnums, characters, strings, symbols, vectors, and lists, which the table refuses) whose references
   are consistent: on the hashable ones slip's eql is exactly Go's == on the key representation, and a list is
   eql to nothing but itself. *)
From Coq Require Import ZArith NArith List Bool Lia Arith.
From C16 Require Import Model Spec Proofs Proofs2 Proofs4.
Import ListNotations.
Open Scope nat_scope.
Open Scope list_scope.

Definition nofloat_key (k : gokey) : bool :=
  match k with KFlt _ _ _ | KUnhashable => false | KRat _ d => (0 <? d)%Z | _ => true end.
Lemma gokey_refl : forall k, nofloat_key k = true -> gokey_eqb k k = true.
Proof.
  intros [] H; simpl in *; try discriminate; auto; try apply Z.eqb_refl; try apply N.eqb_refl; try apply lN_eqb_refl.
  - rewrite eqb_reflx, Z.eqb_refl. reflexivity.
  - rewrite !N.eqb_refl. reflexivity.
Qed.
Lemma gokey_sym : forall a b, nofloat_key a = true -> nofloat_key b = true -> gokey_eqb a b = gokey_eqb b a.
Proof.
  intros [| |x|k m e|x|x|x|x|n1 d1|u1 v1|k1 w1|] [| |y|k' m' e'|y|y|y|y|n2 d2|u2 v2|k2 w2|] _ _; simpl; auto;
    try apply Z.eqb_sym; try apply N.eqb_sym; try apply lN_eqb_sym.
  - rewrite fkind_eqb_sym. f_equal. apply (dy_eqb_sym (m, e) (m', e')).
  - rewrite (Z.eqb_sym v1 v2). destruct u1, u2; reflexivity.
  - rewrite (N.eqb_sym k1 k2), (N.eqb_sym w1 w2). reflexivity.
Qed.
Lemma gokey_trans : forall a b c, nofloat_key a = true -> nofloat_key b = true -> nofloat_key c = true ->
  gokey_eqb a b = true -> gokey_eqb b c = true -> gokey_eqb a c = true.
Proof.
  intros a b c Ha Hb Hc H1 H2.
  destruct a, b; simpl in *; try discriminate; destruct c; simpl in *; try discriminate; auto.
  - apply Z.eqb_eq in H1, H2. subst. apply Z.eqb_refl.
  - apply N.eqb_eq in H1, H2. subst. apply N.eqb_refl.
  - apply lN_eqb_eq in H1, H2. subst. apply lN_eqb_refl.
  - apply lN_eqb_eq in H1, H2. subst. apply lN_eqb_refl.
  - apply Z.eqb_eq in H1, H2. subst. apply Z.eqb_refl.
  - apply Z.eqb_eq in H1, H2. apply Z.eqb_eq. apply Z.ltb_lt in Ha, Hb, Hc.
    apply (Z.mul_cancel_r _ _ d0); [lia|]. transitivity (n0 * d * d1)%Z; [nia|]. nia.
  - apply andb_true_iff in H1 as [A1 B1]. apply andb_true_iff in H2 as [A2 B2].
    apply eqb_prop in A1, A2. apply Z.eqb_eq in B1, B2. subst. rewrite eqb_reflx, Z.eqb_refl. reflexivity.
  - apply andb_true_iff in H1 as [A1 B1]. apply andb_true_iff in H2 as [A2 B2].
    apply N.eqb_eq in A1, A2, B1, B2. subst. rewrite !N.eqb_refl. reflexivity.
Qed.

(* eql = Go's == (after HashTable.Key) on simple keys other than lists *)
Definition is_lst (x : obj) : bool := match x with Lst _ => true | _ => false end.
Lemma int64_sep : forall a b, int64_ok a = true -> negb (int64_ok b) = true -> (a =? b)%Z = false /\ (b =? a)%Z = false.
Proof.
  intros a b Ha Hb. apply negb_true_iff in Hb.
  split; apply Z.eqb_neq; intro E; subst; congruence.
Qed.
Definition rat_key_ok (n d : Z) : bool := ((0 <? d) && (Z.gcd n d =? 1) && negb (d =? 1))%Z.
Lemma rat_key_facts : forall n d, rat_key_ok n d = true -> (0 < d /\ Z.gcd n d = 1 /\ d <> 1)%Z.
Proof.
  intros n d H. unfold rat_key_ok in H. apply andb_true_iff in H as [H H3].
  apply andb_true_iff in H as [H1 H2]. apply Z.ltb_lt in H1. apply Z.eqb_eq in H2. apply negb_true_iff in H3.
  apply Z.eqb_neq in H3. auto.
Qed.
Lemma rat_not_int : forall n d a, rat_key_ok n d = true -> ((a * d =? n) = false /\ (n =? a * d) = false)%Z.
Proof.
  intros n d a H. destruct (rat_key_facts n d H) as (Hd & Hg & H1).
  split; apply Z.eqb_neq; intro E; apply H1; apply (gcd_one_divides n d a Hd Hg); lia.
Qed.

Lemma eql_is_gokey : forall a b, simple_key (r_obj a) = true -> simple_key (r_obj b) = true ->
  is_lst (r_obj a) = false -> is_lst (r_obj b) = false ->
  consistent2 a b -> const_words a b -> eql_m a b = gokey_eqb (gokey_of a) (gokey_of b).
Proof.
  intros [x w] [y v] Sa Sb La Lb C K. unfold consistent2, const_words, eql_m, eq_m, gokey_of in *.
  cbn [r_obj r_word] in *.
  destruct x; cbn [simple_key is_lst] in Sa, La; try discriminate;
    destruct y; cbn [simple_key is_lst] in Sb, Lb; try discriminate;
    cbn [same_gotype eql_s is_number gokey_eqb andb orb];
    try reflexivity; try (rewrite orb_false_r; reflexivity).
  - (* Nil *) rewrite orb_false_r. apply N.eqb_eq. apply K; auto.
  - (* Tru *) rewrite orb_false_r. apply N.eqb_eq. apply K; auto.
  - (* Fix, Fix *) unfold same_m. destruct (Z.eqb_spec z z0) as [->|N]; [apply orb_true_r|]. rewrite orb_false_r.
    apply N.eqb_neq. intro E. specialize (C eq_refl E). inversion C. contradiction.
  - (* Fix, Big *) unfold same_m. apply (int64_sep z z0 Sa Sb).
  - (* Fix, Rat *) unfold same_m. apply (rat_not_int n d z Sb).
  - (* Big, Fix *) unfold same_m. apply (int64_sep z0 z Sb Sa).
  - (* Big, Big *) unfold same_m. destruct (Z.eqb_spec z z0) as [->|N]; [apply orb_true_r|]. rewrite orb_false_r.
    apply N.eqb_neq. intro E. specialize (C eq_refl E). inversion C. contradiction.
  - (* Big, Rat *) unfold same_m. apply (rat_not_int n d z Sb).
  - (* Rat, Fix *) unfold same_m. apply (rat_not_int n d z Sa).
  - (* Rat, Big *) unfold same_m. apply (rat_not_int n d z Sa).
  - (* Rat, Rat *) unfold same_m. destruct (Z.eqb_spec (n * d0) (n0 * d)) as [E0|N]; [apply orb_true_r|]. rewrite orb_false_r.
    apply N.eqb_neq. intro E. specialize (C eq_refl E). inversion C. subst. contradiction.
  - (* Chr *) destruct (N.eqb_spec c c0) as [->|N]; [apply orb_true_r|]. rewrite orb_false_r.
    apply N.eqb_neq. intro E. specialize (C eq_refl E). inversion C. contradiction.
  - (* Str *) destruct (lN_eqb s s0) eqn:E0; [apply orb_true_r|]. rewrite orb_false_r.
    apply N.eqb_neq. intro E. specialize (C eq_refl E). inversion C. subst. rewrite lN_eqb_refl in E0. discriminate.
Qed.

(* a list is eql to nothing but itself (the same slice): eql is eq as soon as one side is a list *)
Lemma eql_lst_l : forall a b, is_lst (r_obj a) = true -> eql_m a b = eq_m a b.
Proof.
  intros a b L. unfold eql_m. assert (E : eql_s (r_obj a) (r_obj b) = false) by (destruct (r_obj a); try discriminate; reflexivity).
  rewrite E. apply orb_false_r.
Qed.
Lemma eql_lst_r : forall a b, simple_key (r_obj a) = true -> is_lst (r_obj b) = true -> eql_m a b = eq_m a b.
Proof.
  intros a b S L. unfold eql_m.
  assert (E : eql_s (r_obj a) (r_obj b) = false).
  { destruct (r_obj b); try discriminate. destruct (r_obj a); simpl in S; try discriminate; reflexivity. }
  rewrite E. apply orb_false_r.
Qed.
Lemma eq_lst_other : forall a b, is_lst (r_obj a) = true -> is_lst (r_obj b) = false -> eq_m a b = false /\ eq_m b a = false.
Proof.
  intros [x w] [y v] La Lb. unfold eq_m. simpl in *. destruct x; try discriminate. destruct y; try discriminate; simpl; auto.
Qed.
Lemma simple_hashable : forall a, simple_key (r_obj a) = true -> hashable (gokey_of a) = negb (is_lst (r_obj a)).
Proof. intros [x w] S. destruct x; cbn [r_obj simple_key gokey_of hashable is_lst negb] in *; try discriminate; reflexivity. Qed.

Lemma forallb_seq_intro : forall (f : nat -> bool) len, (forall i, i < len -> f i = true) -> forallb f (seq 0 len) = true.
Proof. intros f len H. apply forallb_forall. intros i Hi. apply in_seq in Hi. apply H. lia. Qed.

(* the test on references: eql of two simple keys of a consistent pool *)
Section SimpleRefs.
  Variables a b c : ref.
  Hypothesis Sa : simple_key (r_obj a) = true.
  Hypothesis Sb : simple_key (r_obj b) = true.
  Hypothesis Sc : simple_key (r_obj c) = true.
  Hypothesis Cab : consistent2 a b /\ const_words a b.
  Hypothesis Cba : consistent2 b a /\ const_words b a.
  Hypothesis Cbc : consistent2 b c /\ const_words b c.
  Hypothesis Cac : consistent2 a c /\ const_words a c.
  Let nl (r : ref) := is_lst (r_obj r) = false.
  Lemma key_nofloat : forall r, simple_key (r_obj r) = true -> is_lst (r_obj r) = false -> nofloat_key (gokey_of r) = true.
  Proof.
    intros [x w] S L. destruct x; cbn [r_obj simple_key is_lst gokey_of nofloat_key] in *; try discriminate; try reflexivity.
    apply andb_true_iff in S as [S _]. apply andb_true_iff in S as [S _]. exact S.
  Qed.
  Lemma simple_sep : is_lst (r_obj a) = negb (is_lst (r_obj b)) -> eql_m a b = false.
  Proof.
    intro D. destruct (is_lst (r_obj a)) eqn:La; simpl in D.
    - rewrite (eql_lst_l a b La). apply (eq_lst_other a b La). destruct (is_lst (r_obj b)); auto; discriminate.
    - symmetry in D. apply negb_false_iff in D. rewrite (eql_lst_r a b Sa D). apply (eq_lst_other b a D La).
  Qed.
  Lemma simple_sym : eql_m a b = eql_m b a.
  Proof.
    destruct (is_lst (r_obj a)) eqn:La.
    - rewrite (eql_lst_l a b La), (eql_lst_r b a Sb La). apply eq_m_sym.
    - destruct (is_lst (r_obj b)) eqn:Lb.
      + rewrite (eql_lst_r a b Sa Lb), (eql_lst_l b a Lb). apply eq_m_sym.
      + rewrite (eql_is_gokey a b Sa Sb La Lb (proj1 Cab) (proj2 Cab)), (eql_is_gokey b a Sb Sa Lb La (proj1 Cba) (proj2 Cba)).
        apply gokey_sym; apply key_nofloat; auto.
  Qed.
  Lemma simple_trans : eql_m a b = true -> eql_m b c = true -> eql_m a c = true.
  Proof.
    intros H1 H2.
    destruct (is_lst (r_obj a)) eqn:La; destruct (is_lst (r_obj b)) eqn:Lb;
      try (rewrite simple_sep in H1 by (rewrite La, Lb; reflexivity); discriminate).
    - (* lists: eq all the way *)
      destruct (is_lst (r_obj c)) eqn:Lc.
      + rewrite (eql_lst_l a b La) in H1. rewrite (eql_lst_l b c Lb) in H2. rewrite (eql_lst_l a c La).
        apply (eq_m_trans a b c H1 H2).
      + rewrite (eql_lst_l b c Lb) in H2. rewrite (proj1 (eq_lst_other b c Lb Lc)) in H2. discriminate.
    - destruct (is_lst (r_obj c)) eqn:Lc.
      + rewrite (eql_lst_r b c Sb Lc) in H2. rewrite (proj2 (eq_lst_other c b Lc Lb)) in H2. discriminate.
      + rewrite (eql_is_gokey a b Sa Sb La Lb (proj1 Cab) (proj2 Cab)) in H1.
        rewrite (eql_is_gokey b c Sb Sc Lb Lc (proj1 Cbc) (proj2 Cbc)) in H2.
        rewrite (eql_is_gokey a c Sa Sc La Lc (proj1 Cac) (proj2 Cac)).
        apply (gokey_trans _ _ _ (key_nofloat a Sa La) (key_nofloat b Sb Lb) (key_nofloat c Sc Lc) H1 H2).
  Qed.
End SimpleRefs.

Theorem simple_pool_ok : forall rs,
  simple_pool rs = true ->
  (forall a b, In a rs -> In b rs -> consistent2 a b /\ const_words a b) ->
  pool_ok (map TRef rs) (pool_test 1 (map TRef rs)) = true.
Proof.
  intros rs S C. set (pool := map TRef rs).
  assert (Len : List.length pool = List.length rs) by apply map_length.
  assert (NP : forall i a, nth_error rs i = Some a -> nth_error pool i = Some (TRef a)).
  { intros i a H. apply map_nth_error. exact H. }
  assert (Sk : forall i a, nth_error rs i = Some a -> In a rs /\ simple_key (r_obj a) = true).
  { intros i a H. apply nth_error_In in H. split; auto. unfold simple_pool in S. rewrite forallb_forall in S. auto. }
  assert (Nth : forall i, i < List.length pool -> exists a, nth_error rs i = Some a).
  { intros i Hi. destruct (nth_error rs i) eqn:E; eauto. apply nth_error_None in E. lia. }
  assert (HK : forall i a, nth_error rs i = Some a -> key_hashable pool i = negb (is_lst (r_obj a))).
  { intros i a Ea. unfold key_hashable, key_ok, key_at. rewrite (NP i a Ea). simpl. rewrite (simple_hashable a (proj2 (Sk i a Ea))).
    destruct (is_lst (r_obj a)); reflexivity. }
  unfold pool_ok. apply andb_true_iff. split.
  - (* coherent *) unfold pool_coherent. apply forallb_seq_intro. intros i Hi. apply forallb_seq_intro. intros j Hj.
    destruct (Nth i Hi) as [a Ea]. destruct (Nth j Hj) as [b Eb].
    destruct (Sk i a Ea) as [Ia Sa]. destruct (Sk j b Eb) as [Ib Sb]. destruct (C a b Ia Ib) as [C1 C2].
    rewrite (HK i a Ea), (HK j b Eb). unfold pool_test, same_key, key_at. rewrite (NP i a Ea), (NP j b Eb). simpl.
    destruct (is_lst (r_obj a)) eqn:La; destruct (is_lst (r_obj b)) eqn:Lb; simpl; auto.
    + rewrite (simple_sep a b Sa) by (rewrite La, Lb; reflexivity). reflexivity.
    + rewrite (simple_sep a b Sa) by (rewrite La, Lb; reflexivity). reflexivity.
    + rewrite (eql_is_gokey a b Sa Sb La Lb C1 C2). apply eqb_reflx.
  - (* the test is an equivalence on the pool *)
    unfold pool_equiv. apply andb_true_iff. split; [apply andb_true_iff; split|].
    + apply forallb_seq_intro. intros i Hi. destruct (Nth i Hi) as [a Ea]. unfold pool_test. rewrite (NP i a Ea). simpl.
      unfold eql_m. rewrite eq_m_refl. reflexivity.
    + apply forallb_seq_intro. intros i Hi. apply forallb_seq_intro. intros j Hj.
      destruct (Nth i Hi) as [a Ea]. destruct (Nth j Hj) as [b Eb]. unfold pool_test. rewrite (NP i a Ea), (NP j b Eb). simpl.
      destruct (Sk i a Ea) as [Ia Sa]. destruct (Sk j b Eb) as [Ib Sb].
      rewrite (simple_sym a b Sa Sb (C a b Ia Ib) (C b a Ib Ia)). apply eqb_reflx.
    + apply forallb_seq_intro. intros i Hi. apply forallb_seq_intro. intros j Hj. apply forallb_seq_intro. intros k Hk.
      destruct (Nth i Hi) as [a Ea]. destruct (Nth j Hj) as [b Eb]. destruct (Nth k Hk) as [c Ec].
      unfold pool_test. rewrite (NP i a Ea), (NP j b Eb), (NP k c Ec). simpl.
      destruct (Sk i a Ea) as [Ia Sa]. destruct (Sk j b Eb) as [Ib Sb]. destruct (Sk k c Ec) as [Ic Sc].
      destruct (eql_m a b) eqn:E1; simpl; auto. destruct (eql_m b c) eqn:E2; simpl; auto.
      apply (simple_trans a b c Sa Sb Sc (C a b Ia Ib) (C b c Ib Ic) (C a c Ia Ic) E1 E2).
Qed.

Theorem table_is_map_on_simple_keys : forall rs ops,
  simple_pool rs = true ->
  (forall a b, In a rs -> In b rs -> consistent2 a b /\ const_words a b) ->
  forallb (op_in_range (List.length rs)) ops = true ->
  Forall2 obs_equiv (t_run (map TRef rs) [] ops) (s_run (map TRef rs) (pool_test 1 (map TRef rs)) [] ops).
Proof.
  intros rs ops S C R. apply table_refines_map; auto. apply simple_pool_ok; auto. rewrite map_length. exact R.
Qed.

Lemma refs_reflexive : forall a, eql_m a a = true /\ equal_m a a = true /\ equalp_m a a = true.
Proof. intro a. unfold eql_m, equal_m, equalp_m. rewrite eq_m_refl. auto. Qed.
Lemma copies_reflexive : forall x w w',
  equal_m (mkref x w) (mkref x w') = true /\ equalp_m (mkref x w) (mkref x w') = true.
Proof.
  intros x w w'. unfold equal_m, equalp_m. simpl. rewrite equal_s_refl, equalp_s_refl, !orb_true_r. auto.
Qed.
