(* C16 — proofs, part 6: the guard of the table theorem is met by every pool of keys of the simple kinds
   (nil, t, fixnums, characters, strings, symbols, vectors) whose references are consistent: on such keys
   slip's eql is exactly Go's == on the key representation. *)
From Coq Require Import ZArith NArith List Bool Lia Arith.
From C16 Require Import Model Spec Proofs Proofs2 Proofs4.
Import ListNotations.
Open Scope nat_scope.
Open Scope list_scope.

Definition nofloat_key (k : gokey) : bool := match k with KFlt _ _ _ | KUnhashable => false | _ => true end.
Lemma gokey_refl : forall k, nofloat_key k = true -> gokey_eqb k k = true.
Proof.
  intros [] H; simpl in *; try discriminate; auto; try apply Z.eqb_refl; try apply N.eqb_refl; try apply lN_eqb_refl.
  rewrite !N.eqb_refl. reflexivity.
Qed.
Lemma gokey_sym : forall a b, nofloat_key a = true -> nofloat_key b = true -> gokey_eqb a b = gokey_eqb b a.
Proof.
  intros [| |x|k m e|x|x|x|k1 w1|] [| |y|k' m' e'|y|y|y|k2 w2|] _ _; simpl; auto; try apply Z.eqb_sym; try apply N.eqb_sym; try apply lN_eqb_sym.
  - rewrite fkind_eqb_sym. f_equal. apply (dy_eqb_sym (m, e) (m', e')).
  - rewrite (N.eqb_sym k1 k2), (N.eqb_sym w1 w2). reflexivity.
Qed.
Lemma gokey_trans : forall a b c, nofloat_key a = true -> nofloat_key b = true -> nofloat_key c = true ->
  gokey_eqb a b = true -> gokey_eqb b c = true -> gokey_eqb a c = true.
Proof.
  intros a b c Ha Hb Hc H1 H2.
  destruct a, b; simpl in *; try discriminate; destruct c; simpl in *; try discriminate; auto.
  - apply Z.eqb_eq in H1, H2. subst. apply Z.eqb_refl.
  - apply N.eqb_eq in H1, H2. subst. apply N.eqb_refl.
  - apply lN_eqb_eq in H1, H2. subst. apply lN_eqb_refl.
  - apply lN_eqb_eq in H1, H2. subst. apply lN_eqb_refl.
  - apply andb_true_iff in H1 as [A1 B1]. apply andb_true_iff in H2 as [A2 B2].
    apply N.eqb_eq in A1, A2, B1, B2. subst. rewrite !N.eqb_refl. reflexivity.
Qed.

Lemma simple_key_nofloat : forall r, simple_key (r_obj r) = true -> nofloat_key (gokey_of r) = true.
Proof. intros [x w] H. destruct x; simpl in *; try discriminate; reflexivity. Qed.

(* eql = Go's == on simple keys *)
Lemma eql_is_gokey : forall a b, simple_key (r_obj a) = true -> simple_key (r_obj b) = true ->
  consistent2 a b -> const_words a b -> eql_m a b = gokey_eqb (gokey_of a) (gokey_of b).
Proof.
  intros [x w] [y v] Sa Sb C K. unfold consistent2, const_words, eql_m, eq_m, gokey_of in *. simpl in *.
  destruct x; simpl in Sa; try discriminate; destruct y; simpl in Sb; try discriminate; simpl; auto;
    try (rewrite orb_false_r; reflexivity).
  - (* Nil *) rewrite orb_false_r. apply N.eqb_eq. apply K; auto.
  - (* Tru *) rewrite orb_false_r. apply N.eqb_eq. apply K; auto.
  - (* Fix *) destruct (Z.eqb_spec z z0) as [->|N]; [apply orb_true_r|]. rewrite orb_false_r.
    apply N.eqb_neq. intro E. specialize (C eq_refl E). inversion C. contradiction.
  - (* Chr *) destruct (N.eqb_spec c c0) as [->|N]; [apply orb_true_r|]. rewrite orb_false_r.
    apply N.eqb_neq. intro E. specialize (C eq_refl E). inversion C. contradiction.
  - (* Str *) destruct (lN_eqb s s0) eqn:E0; [apply orb_true_r|]. rewrite orb_false_r.
    apply N.eqb_neq. intro E. specialize (C eq_refl E). inversion C. subst. rewrite lN_eqb_refl in E0. discriminate.
Qed.

Lemma forallb_seq_intro : forall (f : nat -> bool) len, (forall i, i < len -> f i = true) -> forallb f (seq 0 len) = true.
Proof. intros f len H. apply forallb_forall. intros i Hi. apply in_seq in Hi. apply H. lia. Qed.

Theorem simple_pool_ok : forall pool,
  simple_pool pool = true ->
  (forall a b, In a pool -> In b pool -> consistent2 a b /\ const_words a b) ->
  pool_ok pool (pool_test 1 pool) = true.
Proof.
  intros pool S C.
  assert (Sk : forall i a, nth_error pool i = Some a -> In a pool /\ simple_key (r_obj a) = true).
  { intros i a H. apply nth_error_In in H. split; auto. unfold simple_pool in S. rewrite forallb_forall in S. auto. }
  assert (Nth : forall i, i < List.length pool -> exists a, nth_error pool i = Some a).
  { intros i Hi. destruct (nth_error pool i) eqn:E; eauto. apply nth_error_None in E. lia. }
  assert (Coh : forall i j, i < List.length pool -> j < List.length pool -> same_key pool i j = pool_test 1 pool i j).
  { intros i j Hi Hj. destruct (Nth i Hi) as [a Ea]. destruct (Nth j Hj) as [b Eb].
    unfold same_key, key_at, pool_test. rewrite Ea, Eb. simpl.
    destruct (Sk i a Ea) as [Ia Sa]. destruct (Sk j b Eb) as [Ib Sb]. destruct (C a b Ia Ib) as [C1 C2].
    symmetry. apply eql_is_gokey; auto. }
  assert (KF : forall i, i < List.length pool -> exists a, nth_error pool i = Some a /\ nofloat_key (gokey_of a) = true).
  { intros i Hi. destruct (Nth i Hi) as [a Ea]. exists a. split; auto. apply simple_key_nofloat. apply (Sk i a Ea). }
  unfold pool_ok. apply andb_true_iff. split; [apply andb_true_iff; split|].
  - (* hashable *) unfold pool_hashable. apply forallb_seq_intro. intros i Hi. destruct (KF i Hi) as (a & Ea & Ka).
    unfold key_ok, key_at. rewrite Ea. simpl. destruct (gokey_of a); simpl in *; try discriminate; reflexivity.
  - (* coherent *) unfold pool_coherent. apply forallb_seq_intro. intros i Hi. apply forallb_seq_intro. intros j Hj.
    rewrite Coh by assumption. apply eqb_reflx.
  - (* the test is an equivalence on the pool: through Go's == *)
    unfold pool_equiv. apply andb_true_iff. split; [apply andb_true_iff; split|].
    + apply forallb_seq_intro. intros i Hi. rewrite <- Coh by assumption. destruct (KF i Hi) as (a & Ea & Ka).
      unfold same_key, key_at. rewrite Ea. simpl. apply gokey_refl. assumption.
    + apply forallb_seq_intro. intros i Hi. apply forallb_seq_intro. intros j Hj.
      rewrite <- !Coh by assumption. destruct (KF i Hi) as (a & Ea & Ka). destruct (KF j Hj) as (b & Eb & Kb).
      unfold same_key, key_at. rewrite Ea, Eb. simpl. rewrite (gokey_sym _ _ Ka Kb). apply eqb_reflx.
    + apply forallb_seq_intro. intros i Hi. apply forallb_seq_intro. intros j Hj. apply forallb_seq_intro. intros k Hk.
      rewrite <- !Coh by assumption. destruct (KF i Hi) as (a & Ea & Ka). destruct (KF j Hj) as (b & Eb & Kb).
      destruct (KF k Hk) as (c & Ec & Kc).
      unfold same_key, key_at. rewrite Ea, Eb, Ec. simpl.
      destruct (gokey_eqb (gokey_of a) (gokey_of b)) eqn:E1; simpl; auto.
      destruct (gokey_eqb (gokey_of b) (gokey_of c)) eqn:E2; simpl; auto.
      apply (gokey_trans _ _ _ Ka Kb Kc E1 E2).
Qed.

Theorem table_is_map_on_simple_keys : forall pool ops,
  simple_pool pool = true ->
  (forall a b, In a pool -> In b pool -> consistent2 a b /\ const_words a b) ->
  forallb (op_in_range (List.length pool)) ops = true ->
  Forall2 obs_equiv (t_run pool [] ops) (s_run pool (pool_test 1 pool) [] ops).
Proof. intros pool ops S C R. apply table_refines_map; auto. apply simple_pool_ok; auto. Qed.

Lemma refs_reflexive : forall a, eql_m a a = true /\ equal_m a a = true /\ equalp_m a a = true.
Proof. intro a. unfold eql_m, equal_m, equalp_m. rewrite eq_m_refl. auto. Qed.
Lemma copies_reflexive : forall x w w',
  equal_m (mkref x w) (mkref x w') = true /\ equalp_m (mkref x w) (mkref x w') = true.
Proof.
  intros x w w'. unfold equal_m, equalp_m. simpl. rewrite equal_s_refl, equalp_s_refl, !orb_true_r. auto.
Qed.
