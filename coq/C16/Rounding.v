(* C16 — the one fact about rounding that the symmetry / transitivity proofs need: rounding to nearest
   never crosses a power of two (|n/d| <= 2^k implies |rne p n d| <= 2^k), whatever the precision. *)
From Coq Require Import ZArith Bool Lia.
From C16 Require Import Model.
Open Scope Z_scope.

Lemma pow2_pos : forall e, 0 < 2 ^ e \/ e < 0.
Proof. intro e. destruct (Z_lt_le_dec e 0); [right; lia | left; apply Z.pow_pos_nonneg; lia]. Qed.

Lemma round_up_cond : forall dd r q : Z, (dd <? 2 * r) || ((2 * r =? dd) && Z.odd q) = true ->
  dd < 2 * r \/ (2 * r = dd /\ Z.odd q = true).
Proof.
  intros dd r q H. apply orb_true_iff in H as [H|H].
  - left. apply Z.ltb_lt in H. lia.
  - right. apply andb_true_iff in H as [H1 H2]. apply Z.eqb_eq in H1. auto.
Qed.

Lemma rne_bound : forall p n d k, 0 < d -> 0 <= k -> Z.abs n <= 2 ^ k * d ->
  let '(m, e) := rne p n d in
  if 0 <=? e then Z.abs m * 2 ^ e <= 2 ^ k else Z.abs m <= 2 ^ k * 2 ^ (- e).
Proof.
  intros p n d k Hd Hk Hn. unfold rne.
  assert (P2k : 0 < 2 ^ k) by (apply Z.pow_pos_nonneg; lia).
  destruct (n =? 0) eqn:En.
  - simpl. lia.
  - apply Z.eqb_neq in En.
    set (a := Z.abs n) in *. assert (Ha : 0 < a) by (unfold a; lia).
    set (e0 := Z.log2 a - Z.log2 d - p).
    set (e := if a * 2 ^ Z.max 0 (- e0) / (d * 2 ^ Z.max 0 e0) <? 2 ^ p then e0 else e0 + 1). clearbody e. clear e0.
    assert (Habs : forall q', 0 <= q' -> Z.abs (Z.sgn n * q') = q').
    { intros q' Hq. destruct n; simpl Z.sgn; try lia. }
    destruct (Z.leb_spec 0 e) as [He|He].
    + (* 0 <= e *)
      replace (Z.max 0 (- e)) with 0 by lia. replace (Z.max 0 e) with e by lia.
      rewrite Z.pow_0_r, Z.mul_1_r.
      set (s := 2 ^ e). assert (Hs : 0 < s) by (apply Z.pow_pos_nonneg; lia).
      assert (Hdd : 0 < d * s) by nia.
      pose proof (Z.div_mod a (d * s) ltac:(lia)) as DM.
      pose proof (Z.mod_pos_bound a (d * s) Hdd) as RB.
      assert (Hq : 0 <= a / (d * s)) by (apply Z.div_pos; lia).
      set (q := a / (d * s)) in *. set (r := a mod (d * s)) in *. clearbody q r.
      destruct ((d * s <? 2 * r) || ((2 * r =? d * s) && Z.odd q)) eqn:Ec.
      * rewrite Habs by lia.
        apply round_up_cond in Ec.
        assert (Hek : e <= k).
        { destruct (Z_le_gt_dec e k) as [|Hgt]; auto. exfalso.
          assert (H : 2 ^ (Z.succ k) <= 2 ^ e) by (apply Z.pow_le_mono_r; lia).
          rewrite Z.pow_succ_r in H by lia. fold s in H.
          destruct Ec as [Ec|[Ec Eo]].
          - nia.
          - assert (1 <= q). { destruct (Z.eq_dec q 0) as [->|]; [simpl in Eo; discriminate | lia]. }
            nia. }
        assert (ES : 2 ^ k = s * 2 ^ (k - e)).
        { unfold s. rewrite <- Z.pow_add_r by lia. f_equal. lia. }
        set (T := 2 ^ (k - e)) in *. assert (HT : 0 < T) by (apply Z.pow_pos_nonneg; lia).
        assert (Hr : 0 < r) by (destruct Ec as [Ec|[Ec _]]; lia).
        rewrite ES in *.
        assert (q < T) by nia. nia.
      * rewrite Habs by lia. nia.
    + (* e < 0 *)
      replace (Z.max 0 (- e)) with (- e) by lia. replace (Z.max 0 e) with 0 by lia.
      rewrite Z.pow_0_r, Z.mul_1_r.
      set (t := 2 ^ (- e)). assert (Ht : 0 < t) by (apply Z.pow_pos_nonneg; lia).
      pose proof (Z.div_mod (a * t) d ltac:(lia)) as DM.
      pose proof (Z.mod_pos_bound (a * t) d Hd) as RB.
      assert (Hq : 0 <= a * t / d) by (apply Z.div_pos; nia).
      assert (Hat : a * t <= 2 ^ k * t * d) by nia.
      set (q := a * t / d) in *. set (r := (a * t) mod d) in *. clearbody q r.
      destruct ((d <? 2 * r) || ((2 * r =? d) && Z.odd q)) eqn:Ec.
      * rewrite Habs by lia. apply round_up_cond in Ec.
        assert (Hr : 0 < r) by (destruct Ec as [Ec|[Ec _]]; lia).
        assert (q < 2 ^ k * t) by nia. lia.
      * rewrite Habs by lia. nia.
Qed.
