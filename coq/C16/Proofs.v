(* C16 — proofs. *)
From Coq Require Import ZArith NArith List Bool Lia.
From C16 Require Import Model Spec.
Import ListNotations.
Open Scope Z_scope.

Lemma eq_implies_eql : forall a b, eq_m a b = true -> eql_m a b = true.
Proof. intros a b H. unfold eql_m. rewrite H. reflexivity. Qed.
