(* C16 — proofs, part 1: the implication chain, reflexivity, symmetry, transitivity of the four predicates
   and of Object.Equal, for all objects of the model (nested to any depth). *)
From Coq Require Import ZArith NArith List Bool Lia Znumtheory.
From C16 Require Import Model Spec.
Import ListNotations.
Open Scope Z_scope.
Open Scope list_scope.

(* ---- induction over objects (lists of objects inside objects) ---------------------------------- *)
Section ObjInd.
  Variable P : obj -> Prop.
  Hypothesis HNil : P Nil.
  Hypothesis HTru : P Tru.
  Hypothesis HFix : forall z, P (Fix z).
  Hypothesis HBig : forall z, P (Big z).
  Hypothesis HRat : forall n d, P (Rat n d).
  Hypothesis HFlt : forall k m e, P (Flt k m e).
  Hypothesis HChr : forall c, P (Chr c).
  Hypothesis HStr : forall s, P (Str s).
  Hypothesis HSym : forall s, P (Sym s).
  Hypothesis HLst : forall xs, Forall P xs -> P (Lst xs).
  Hypothesis HTl : forall v, P v -> P (Tl v).
  Hypothesis HVec : forall xs, Forall P xs -> P (Vec xs).
  Fixpoint obj_ind' (x : obj) : P x :=
    match x with
    | Nil => HNil | Tru => HTru | Fix z => HFix z | Big z => HBig z | Rat n d => HRat n d
    | Flt k m e => HFlt k m e | Chr c => HChr c | Str s => HStr s | Sym s => HSym s
    | Lst xs => HLst xs ((fix go (l : list obj) : Forall P l :=
                            match l with [] => Forall_nil P | e :: l' => Forall_cons e (obj_ind' e) (go l') end) xs)
    | Tl v => HTl v (obj_ind' v)
    | Vec xs => HVec xs ((fix go (l : list obj) : Forall P l :=
                            match l with [] => Forall_nil P | e :: l' => Forall_cons e (obj_ind' e) (go l') end) xs)
    end.
End ObjInd.

(* ---- all2 ---------------------------------------------------------------------------------------- *)
Lemma all2_refl_F : forall (A : Type) (f : A -> A -> bool) l, Forall (fun a => f a a = true) l -> all2 f l l = true.
Proof. intros A f l H. induction H; simpl; auto. rewrite H, IHForall. reflexivity. Qed.
Lemma all2_impl_F : forall (A : Type) (f g : A -> A -> bool) l,
  Forall (fun a => forall b, f a b = true -> g a b = true) l -> forall l', all2 f l l' = true -> all2 g l l' = true.
Proof.
  intros A f g l H. induction H; intros [|b l'] H2; simpl in *; try discriminate; auto.
  apply andb_true_iff in H2 as [H2 H3]. rewrite (H _ H2), (IHForall _ H3). reflexivity.
Qed.
Lemma all2_sym_F : forall (A : Type) (f : A -> A -> bool) l,
  Forall (fun a => forall b, f a b = f b a) l -> forall l', all2 f l l' = all2 f l' l.
Proof.
  intros A f l H. induction H; intros [|b l']; simpl; auto. rewrite H, IHForall. reflexivity.
Qed.
Lemma all2_trans_F : forall (A : Type) (f : A -> A -> bool) (G : A -> Prop) l,
  Forall (fun a => G a -> forall b c, G b -> G c -> f a b = true -> f b c = true -> f a c = true) l ->
  Forall G l -> forall l2 l3, Forall G l2 -> Forall G l3 -> all2 f l l2 = true -> all2 f l2 l3 = true -> all2 f l l3 = true.
Proof.
  intros A f G l H. induction H; intros HG [|b l2] [|c l3] G2 G3 H2 H3; simpl in *; try discriminate; auto.
  apply andb_true_iff in H2 as [H2 H2']. apply andb_true_iff in H3 as [H3 H3'].
  inversion HG; inversion G2; inversion G3; subst.
  rewrite (H H5 b c H9 H13 H2 H3), (IHForall H6 l2 l3 H10 H14 H2' H3'). reflexivity.
Qed.
Lemma forallb_Forall : forall (A : Type) (f : A -> bool) l, forallb f l = true <-> Forall (fun a => f a = true) l.
Proof.
  intros A f l. induction l; simpl; split; intro H; auto.
  - apply andb_true_iff in H as [H1 H2]. constructor; auto. apply IHl; auto.
  - inversion H; subst. rewrite H2. apply IHl in H3. rewrite H3. reflexivity.
Qed.

(* ---- code point lists, folding ------------------------------------------------------------------- *)
Lemma lN_eqb_eq : forall a b, lN_eqb a b = true <-> a = b.
Proof.
  induction a as [|x a IH]; intros [|y b]; simpl; split; intro H; try discriminate; auto.
  - apply andb_true_iff in H as [H1 H2]. apply N.eqb_eq in H1. apply IH in H2. subst. reflexivity.
  - inversion H; subst. rewrite N.eqb_refl. apply IH. reflexivity.
Qed.
Lemma lN_eqb_refl : forall a, lN_eqb a a = true.
Proof. intro a. apply lN_eqb_eq. reflexivity. Qed.
Lemma lN_eqb_sym : forall a b, lN_eqb a b = lN_eqb b a.
Proof.
  intros a b. destruct (lN_eqb a b) eqn:E.
  - apply lN_eqb_eq in E. subst. symmetry. apply lN_eqb_refl.
  - destruct (lN_eqb b a) eqn:E2; auto. apply lN_eqb_eq in E2. subst. rewrite lN_eqb_refl in E. discriminate.
Qed.
Lemma equal_fold_map : forall a b, equal_fold a b = true <-> map fold a = map fold b.
Proof.
  induction a as [|x a IH]; intros [|y b]; simpl; split; intro H; try discriminate; auto.
  - apply andb_true_iff in H as [H1 H2]. apply N.eqb_eq in H1. apply IH in H2. rewrite H1, H2. reflexivity.
  - inversion H. unfold fold_eqb. rewrite H1, N.eqb_refl. apply IH. assumption.
Qed.
Lemma equal_fold_refl : forall a, equal_fold a a = true.
Proof. intro a. apply equal_fold_map. reflexivity. Qed.
Lemma equal_fold_sym : forall a b, equal_fold a b = equal_fold b a.
Proof.
  intros a b. destruct (equal_fold a b) eqn:E.
  - apply equal_fold_map in E. symmetry. apply equal_fold_map. auto.
  - destruct (equal_fold b a) eqn:E2; auto. apply equal_fold_map in E2. symmetry in E2. apply equal_fold_map in E2. congruence.
Qed.
Lemma equal_fold_trans : forall a b c, equal_fold a b = true -> equal_fold b c = true -> equal_fold a c = true.
Proof. intros a b c H1 H2. apply equal_fold_map in H1. apply equal_fold_map in H2. apply equal_fold_map. congruence. Qed.
Lemma lN_eqb_equal_fold : forall a b, lN_eqb a b = true -> equal_fold a b = true.
Proof. intros a b H. apply lN_eqb_eq in H. subst. apply equal_fold_refl. Qed.

(* ---- dyadics --------------------------------------------------------------------------------------- *)
Lemma dy_eqb_refl : forall x, dy_eqb x x = true.
Proof. intros [m e]. unfold dy_eqb. apply Z.eqb_refl. Qed.
Lemma dy_eqb_sym : forall x y, dy_eqb x y = dy_eqb y x.
Proof. intros [m e] [m' e']. unfold dy_eqb. rewrite (Z.min_comm e' e). apply Z.eqb_sym. Qed.

(* ---- numbers ------------------------------------------------------------------------------------- *)
Lemma same_m_refl : forall x, is_number x = true -> same_m x x = true.
Proof.
  intros [] H; simpl in *; try discriminate; try apply Z.eqb_refl; try apply dy_eqb_refl.
Qed.

(* ---- eq ------------------------------------------------------------------------------------------ *)
Lemma same_gotype_refl : forall x, same_gotype x x = true.
Proof. intros []; simpl; auto. destruct k; reflexivity. Qed.
Lemma fkind_eqb_sym : forall a b, fkind_eqb a b = fkind_eqb b a.
Proof. intros [] []; reflexivity. Qed.
Lemma same_gotype_sym : forall x y, same_gotype x y = same_gotype y x.
Proof. intros [] []; simpl; auto. apply fkind_eqb_sym. Qed.
Lemma same_gotype_trans : forall x y z, same_gotype x y = true -> same_gotype y z = true -> same_gotype x z = true.
Proof. intros [] [] []; simpl; try discriminate; auto. destruct k, k0, k1; simpl; auto. Qed.

Lemma eq_m_refl : forall a, eq_m a a = true.
Proof.
  intros [x w]. unfold eq_m. simpl. destruct x; simpl; try (rewrite N.eqb_refl; reflexivity).
  - rewrite N.eqb_refl. destruct k; reflexivity.
  - apply lN_eqb_refl.
Qed.
Lemma eq_m_sym : forall a b, eq_m a b = eq_m b a.
Proof.
  intros [x w] [y v]. unfold eq_m. simpl.
  destruct x, y; simpl; try reflexivity; try (rewrite (N.eqb_sym w v); reflexivity).
  - rewrite (N.eqb_sym w v), fkind_eqb_sym. reflexivity.
  - apply lN_eqb_sym.
Qed.
Lemma eq_m_trans : forall a b c, eq_m a b = true -> eq_m b c = true -> eq_m a c = true.
Proof.
  intros [x w] [y v] [z u]. unfold eq_m. simpl. intros H1 H2.
  destruct x, y; simpl in H1; try discriminate; destruct z; simpl in H2 |- *; try discriminate;
    try (apply N.eqb_eq in H1; apply N.eqb_eq in H2; subst; apply N.eqb_refl).
  - apply andb_true_iff in H1 as [K1 W1]. apply andb_true_iff in H2 as [K2 W2].
    apply N.eqb_eq in W1. apply N.eqb_eq in W2. subst. rewrite N.eqb_refl.
    destruct k, k0, k1; simpl in *; auto.
  - apply lN_eqb_eq in H1. apply lN_eqb_eq in H2. subst. apply lN_eqb_refl.
Qed.

(* ---- the chain ------------------------------------------------------------------------------------- *)
Lemma eqs_refl_sym : forall s, eqs (Sym s) (Sym s) = true.
Proof. intro s. simpl. apply lN_eqb_refl. Qed.

Lemma eql_s_equal_s : forall x y, eql_s x y = true -> equal_s x y = true.
Proof.
  intros x y H. destruct x; simpl in H; try discriminate; destruct y; simpl in *; try discriminate; auto.
  apply lN_eqb_equal_fold. assumption.
Qed.

Lemma equal_s_equalp_s : forall x y, equal_s x y = true -> equalp_s x y = true.
Proof.
  induction x using obj_ind'; intros y E; destruct y; simpl in *; try discriminate; auto.
  all: try (eapply all2_impl_F; eauto; fail).
  - rewrite E. reflexivity.
  - rewrite orb_false_r in E. rewrite E. reflexivity.
Qed.

Lemma eq_implies_eql : forall a b, eq_m a b = true -> eql_m a b = true.
Proof. intros a b H. unfold eql_m. rewrite H. reflexivity. Qed.
Lemma eql_implies_equal : forall a b, eql_m a b = true -> equal_m a b = true.
Proof.
  intros a b H. unfold eql_m, equal_m in *. apply orb_true_iff in H as [H|H].
  - rewrite H. reflexivity.
  - rewrite (eql_s_equal_s _ _ H). apply orb_true_r.
Qed.
Lemma equal_implies_equalp : forall a b, equal_m a b = true -> equalp_m a b = true.
Proof.
  intros a b H. unfold equal_m, equalp_m in *. apply orb_true_iff in H as [H|H].
  - rewrite H. reflexivity.
  - rewrite (equal_s_equalp_s _ _ H). apply orb_true_r.
Qed.
