(* C16 — proofs, part 5: refutations outside the guards (the known findings) and non-vacuity examples. *)
From Coq Require Import ZArith NArith List Bool Lia.
From C16 Require Import Model Spec Proofs Proofs2 Proofs3 Proofs4.
Import ListNotations.
Open Scope Z_scope.
Open Scope list_scope.

(* ---- witnesses ---------------------------------------------------------------------------------------- *)
Definition w_a := mkref (Fix (2 ^ 53 + 1)) 0.
Definition w_b := mkref (Flt FDouble 1 53) 1.
Definition w_c := mkref (Fix (2 ^ 53)) 2.
Definition w_third := mkref (Rat 1 3) 0.
Definition w_third_s := mkref (Flt FSingle 11184811 (-25)) 1.
Definition w_third_d := mkref (Flt FDouble 6004799503160661 (-54)) 2.
Definition w_big := mkref (Big (2 ^ 79)) 0.
Definition w_rat := mkref (Rat (2 ^ 80 + 3) 2) 1.
Definition w_k := mkref (Str [107%N]) 0.
Definition w_kelvin := mkref (Str [8490%N]) 1.

Definition all_consistent (rs : list ref) : Prop := forall a b, In a rs -> In b rs -> consistent2 a b.
Lemma distinct_words_consistent : forall rs, NoDup (map r_word rs) -> all_consistent rs.
Proof.
  intros rs ND a b Ia Ib _ W.
  assert (G : forall l, NoDup (map r_word l) -> In a l -> In b l -> r_word a = r_word b -> a = b).
  { induction l as [|x l IH]; simpl; intros N I1 I2 E; [contradiction|]. inversion N; subst.
    destruct I1 as [<-|I1], I2 as [<-|I2]; auto.
    - exfalso. apply H1. rewrite E. apply in_map. assumption.
    - exfalso. apply H1. rewrite <- E. apply in_map. assumption. }
  rewrite (G rs ND Ia Ib W). reflexivity.
Qed.

(* transitivity fails as soon as a float is involved: 2^53+1 ~ 2^53 as a double ~ 2^53, and 1/3 ~ its single
   rounding, 1/3 ~ its double rounding, for eql, equal and equalp alike; the three objects are well-formed,
   only nofloat fails *)
Lemma transitivity_with_floats_refuted :
  (forallb (fun r => wf (r_obj r)) [w_a; w_b; w_c; w_third; w_third_s; w_third_d] = true) /\
  all_consistent [w_a; w_b; w_c] /\ all_consistent [w_third; w_third_s; w_third_d] /\
  (eql_m w_a w_b = true /\ eql_m w_b w_c = true /\ eql_m w_a w_c = false) /\
  (equal_m w_a w_b = true /\ equal_m w_b w_c = true /\ equal_m w_a w_c = false) /\
  (equalp_m w_a w_b = true /\ equalp_m w_b w_c = true /\ equalp_m w_a w_c = false) /\
  (equal_m w_third_s w_third = true /\ equal_m w_third w_third_d = true /\ equal_m w_third_s w_third_d = false) /\
  trans_guard (r_obj w_b) = false.
Proof.
  split; [vm_compute; reflexivity|].
  split; [apply distinct_words_consistent; vm_compute; repeat constructor; simpl; intuition discriminate|].
  split; [apply distinct_words_consistent; vm_compute; repeat constructor; simpl; intuition discriminate|].
  vm_compute. repeat split; reflexivity.
Qed.

(* a bignum outside int64 and a ratio are compared exactly, in both orders (finding
   C16-eql-bignum-ratio-not-symmetric, repaired by C16-11: 2^79 was eql to (2^80+3)/2 in one order only) *)
Lemma bignum_ratio_exact :
  wf (r_obj w_big) = true /\ wf (r_obj w_rat) = true /\
  eql_m w_big w_rat = false /\ eql_m w_rat w_big = false /\
  equalp_m w_big w_rat = false /\ equalp_m w_rat w_big = false /\
  eql_m w_big (mkref (Rat (2 ^ 80) 2) 3) = true /\ eql_m (mkref (Rat (2 ^ 80) 2) 3) w_big = true.
Proof. vm_compute. repeat split; reflexivity. Qed.

(* equal objects now have equal sxhash codes where they used to differ: k and KELVIN SIGN (finding
   C16-sxhash-ignores-only-ascii-case, repaired by C16-9), 1000000 as a fixnum, a double and a single, 1/2 and 0.5
   (finding C16-sxhash-differs-across-number-representations, repaired by C16-10) *)
Definition w_mil := mkref (Fix 1000000) 0.
Definition w_mil_d := mkref (Flt FDouble 15625 6) 1.
Definition w_mil_s := mkref (Flt FSingle 15625 6) 2.
Lemma sxhash_repaired :
  equal_m w_k w_kelvin = true /\ sxhash_m (r_obj w_k) = sxhash_m (r_obj w_kelvin) /\
  sxhash_m (r_obj w_kelvin) = Some (mk_hcode 75 []) /\
  equal_m w_mil w_mil_d = true /\ equal_m w_mil w_mil_s = true /\
  sxhash_m (r_obj w_mil) = sxhash_m (r_obj w_mil_d) /\ sxhash_m (r_obj w_mil) = sxhash_m (r_obj w_mil_s) /\
  hash_dom true (r_obj w_mil) = true /\ hash_dom true (r_obj w_mil_d) = true /\
  equal_m (mkref (Rat 1 2) 0) (mkref (Flt FDouble 1 (-1)) 1) = true /\
  sxhash_m (Rat 1 2) = sxhash_m (Flt FDouble 1 (-1)) /\ hash_dom true (Rat 1 2) = true /\
  sxhash_m (Fix 123456) = Some (mk_hcode 117 []).
Proof. vm_compute. repeat split; reflexivity. Qed.

(* outside the guard of the sxhash theorem: a fixnum beyond 2^53 is equal to the single-float it converts to
   directly and to the double-float it converts to, which differ; sxhash (which sees the fixnum through
   float64 and then float32) agrees with the double and not with the single.  No code could agree with both
   unless it also identified the two floats: a consequence of the float findings. *)
Definition w_f60 := mkref (Fix (2 ^ 60 + 2 ^ 36 + 1)) 0.
Definition w_s60 := mkref (Flt FSingle (2 ^ 23 + 1) 37) 1.
Definition w_d60 := mkref (Flt FDouble (2 ^ 24 + 1) 36) 2.
Lemma sxhash_rounding_refuted :
  wf (r_obj w_f60) = true /\ equal_m w_f60 w_s60 = true /\ equal_m w_f60 w_d60 = true /\ equal_m w_s60 w_d60 = false /\
  sxhash_m (r_obj w_f60) = sxhash_m (r_obj w_d60) /\ sxhash_m (r_obj w_f60) <> sxhash_m (r_obj w_s60) /\
  hash_dom true (r_obj w_f60) = false /\ hash_dom false (r_obj w_s60) = false.
Proof.
  split; [vm_compute; reflexivity|]. split; [vm_compute; reflexivity|]. split; [vm_compute; reflexivity|].
  split; [vm_compute; reflexivity|]. split; [vm_compute; reflexivity|]. split; [vm_compute; discriminate|].
  split; vm_compute; reflexivity.
Qed.

(* ---- hash tables outside the guard --------------------------------------------------------------------- *)
(* bignum and ratio keys (findings C16-hash-bignum-key-by-pointer / C16-hash-ratio-key-by-pointer, repaired by
   C16-5): separately allocated copies of one value are one key *)
Definition e20 : Z := 100000000000000000000.
Definition pool_big : list tkey := map TRef [mkref (Big e20) 0; mkref (Big e20) 1; mkref (Rat 1 2) 2; mkref (Rat 1 2) 3; mkref (Big (e20 + 1)) 4].
Definition ops_big : list hop := [HPut 0 1; HGet 1; HPut 1 2; HCount; HPut 2 7; HGet 3; HGet 4; HMap; HRem 3; HCount; HGet 2].
Lemma table_bignum_key_by_value :
  t_run pool_big [] ops_big =
    [OVal 1; OGet (Some 1); OVal 2; ONum 1; OVal 7; OGet (Some 7); OGet None; OEntries [(0%nat, 2); (2%nat, 7)]; OBool true; ONum 1; OGet None] /\
  s_run pool_big (pool_test 1 pool_big) [] ops_big = t_run pool_big [] ops_big /\
 pool_ok pool_big (pool_test 1 pool_big) = true.
Proof. vm_compute. repeat split; reflexivity. Qed.

(* signed-byte / unsigned-byte keys: the other numbers held by a pointer.  Separately allocated copies of one
   value and type are one key; a signed and an unsigned byte of the same value, or a byte and the fixnum of its
   value, are eql but different keys (the same defect as 5 and 5.0: finding
   C16-hash-eql-numbers-are-different-keys), which puts such a pool outside the guard *)
Definition pool_byt : list tkey :=
  [TByt false 5 0; TByt false 5 1; TByt true 7 2; TByt true 7 3; TByt false (-256) 4; TByt false 0 5; TRef (mkref (Fix 9) 6)].
Definition ops_byt : list hop := [HPut 0 1; HPut 1 2; HCount; HGet 0; HPut 2 3; HGet 3; HPut 4 8; HGet 5; HRem 1; HGet 0; HCount; HMap].
Lemma table_byte_keys :
  t_run pool_byt [] ops_byt =
    [OVal 1; OVal 2; ONum 1; OGet (Some 2); OVal 3; OGet (Some 3); OVal 8; OGet None; OBool true; OGet None; ONum 2;
     OEntries [(2%nat, 3); (4%nat, 8)]] /\
  s_run pool_byt (pool_test 1 pool_byt) [] ops_byt = t_run pool_byt [] ops_byt /\
  pool_ok pool_byt (pool_test 1 pool_byt) = true.
Proof. vm_compute. repeat split; reflexivity. Qed.
Definition pool_byt_mixed : list tkey := [TByt false 5 0; TByt true 5 1; TRef (mkref (Fix 5) 2)].
Lemma table_byte_key_refuted :
  t_run pool_byt_mixed [] [HPut 0 1; HGet 1; HGet 2; HPut 1 2; HCount] = [OVal 1; OGet None; OGet None; OVal 2; ONum 2] /\
  s_run pool_byt_mixed (pool_test 1 pool_byt_mixed) [] [HPut 0 1; HGet 1; HGet 2; HPut 1 2; HCount] =
    [OVal 1; OGet (Some 1); OGet (Some 1); OVal 2; ONum 1] /\
  pool_coherent pool_byt_mixed (pool_test 1 pool_byt_mixed) = false /\ pool_equiv pool_byt_mixed (pool_test 1 pool_byt_mixed) = true.
Proof. vm_compute. repeat split; reflexivity. Qed.

Definition pool_flt : list tkey := map TRef [mkref (Fix 5) 0; mkref (Flt FDouble 5 0) 1].
Lemma table_float_key_refuted :
  t_run pool_flt [] [HPut 0 1; HGet 1] = [OVal 1; OGet None] /\
  s_run pool_flt (pool_test 1 pool_flt) [] [HPut 0 1; HGet 1] = [OVal 1; OGet (Some 1)] /\
  pool_coherent pool_flt (pool_test 1 pool_flt) = false /\ pool_equiv pool_flt (pool_test 1 pool_flt) = true.
Proof. vm_compute. repeat split; reflexivity. Qed.

(* a list key (formerly a host fault, finding C16-hash-list-key-faults, repaired by C16-4): every operation on
   it signals a type-error and leaves the table alone; the pool is inside the guard and the model's
   observations are the specification's *)
Definition pool_lst : list tkey := map TRef [mkref (Lst [Fix 1; Fix 2]) 0; mkref (Fix 7) 1; mkref (Lst [Fix 1; Fix 2]) 0].
Definition ops_lst : list hop := [HPut 0 1; HGet 0; HPut 1 5; HRem 2; HCount; HGet 1; HMap].
Lemma table_list_key_refused :
  t_run pool_lst [] ops_lst = [OTypeErr; OTypeErr; OVal 5; OTypeErr; ONum 1; OGet (Some 5); OEntries [(1%nat, 5)]] /\
  s_run pool_lst (pool_test 1 pool_lst) [] ops_lst = t_run pool_lst [] ops_lst /\
  pool_ok pool_lst (pool_test 1 pool_lst) = true.
Proof. vm_compute. repeat split; reflexivity. Qed.

(* ---- non-vacuity ------------------------------------------------------------------------------------------ *)
(* the guards of symmetry and transitivity admit nested objects related non-trivially: a list holding a
   string, a bignum-sized fixnum, a vector and a dotted pair, against a copy in other case / representation *)
Definition ex_x := mkref (Lst [Str [97; 98]%N; Fix 7; Vec [Sym [120]%N; Rat 1 2]; Lst [Chr 99; Tl (Fix 1)]]) 0.
Definition ex_y := mkref (Lst [Str [65; 98]%N; Big 7; Vec [Sym [88]%N; Rat 1 2]; Lst [Chr 99; Tl (Big 1)]]) 1.
Definition ex_z := mkref (Lst [Str [65; 66]%N; Fix 7; Vec [Sym [120]%N; Rat 1 2]; Lst [Chr 99; Tl (Fix 1)]]) 2.
Lemma guards_nonvacuous :
  forallb (fun r => trans_guard (r_obj r)) [ex_x; ex_y; ex_z] = true /\
  hash_dom false (Lst [Str [97; 98]%N; Fix 7]) = true /\ hash_dom true (Lst [Str [65; 66]%N; Big 7]) = true /\
  all_consistent [ex_x; ex_y; ex_z] /\
  eq_m ex_x ex_y = false /\ eql_m ex_x ex_y = false /\ equal_m ex_x ex_y = true /\ equal_m ex_y ex_z = true /\
  equal_m ex_x ex_z = true /\ equalp_m ex_x ex_z = true /\
  equal_m (mkref (Chr 99) 0) (mkref (Chr 67) 1) = false /\ equalp_m (mkref (Chr 99) 0) (mkref (Chr 67) 1) = true /\
  sxhash_m (Lst [Str [97; 98]%N; Fix 7]) = sxhash_m (Lst [Str [65; 66]%N; Big 7]) /\
  sxhash_m (Lst [Str [97; 98]%N; Fix 7]) = Some (mk_hcode 338 []).
Proof.
  split; [vm_compute; reflexivity|]. split; [vm_compute; reflexivity|]. split; [vm_compute; reflexivity|].
  split; [apply distinct_words_consistent; vm_compute; repeat constructor; simpl; intuition discriminate|].
  vm_compute. repeat split; reflexivity.
Qed.

(* a pool inside the table guard (two boxes of the same string, the same fixnum twice in one box, a symbol
   and a string of the same spelling, a character, nil) and a history with an overwrite through the other
   box, a removal, a clear; the model's observations, which by table_refines_map are the finite map's *)
Definition ex_pool : list tkey := map TRef
  [mkref (Str [97]%N) 0; mkref (Str [97]%N) 1; mkref (Fix 1000) 2; mkref (Fix 1000) 2; mkref (Sym [97]%N) 3;
   mkref (Chr 97) 4; mkref Nil 5; mkref (Str [65]%N) 6].
Definition ex_ops : list hop :=
  [HPut 0 1; HPut 1 2; HCount; HGet 0; HPut 2 3; HPut 4 4; HPut 7 5; HGet 3; HMap; HRem 1; HGet 0; HCount; HPut 6 9; HClr; HCount; HGet 6].
Lemma table_guard_nonvacuous :
  pool_ok ex_pool (pool_test 1 ex_pool) = true /\ forallb (op_in_range (List.length ex_pool)) ex_ops = true /\
  t_run ex_pool [] ex_ops =
    [OVal 1; OVal 2; ONum 1; OGet (Some 2); OVal 3; OVal 4; OVal 5; OGet (Some 3);
     OEntries [(0%nat, 2); (2%nat, 3); (4%nat, 4); (7%nat, 5)]; OBool true; OGet None; ONum 3; OVal 9; OBool true; ONum 0; OGet None].
Proof. vm_compute. repeat split; reflexivity. Qed.
