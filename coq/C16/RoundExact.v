(* C16 — rounding is exact on representable values: if n/d = m0 * 2^s with |m0| < 2^p then rounding n/d to p bits
   returns that value.  Together with "dy_eqb is equality of values" this is what the sxhash theorem needs about
   numbers: inside its guard every comparison of two numbers compares their exact values. *)
From Coq Require Import ZArith Bool Lia QArith Qreduction.
From C16 Require Import Model.
Close Scope Q_scope.
Open Scope Z_scope.

Lemma p2pos : forall e, 0 <= e -> 0 < 2 ^ e.
Proof. intros e H. apply Z.pow_pos_nonneg; lia. Qed.
Lemma p2add : forall a b, 0 <= a -> 0 <= b -> 2 ^ (a + b) = 2 ^ a * 2 ^ b.
Proof. intros a b Ha Hb. apply Z.pow_add_r; assumption. Qed.

(* ---- values of dyadics as rationals -------------------------------------------------------------------- *)
Lemma Zpos_to_pos : forall x, 0 < x -> Zpos (Z.to_pos x) = x.
Proof. intros x H. apply Z2Pos.id. assumption. Qed.

Lemma dy_eqb_Qeq : forall x y, dy_eqb x y = true -> Qeq (dyQ x) (dyQ y).
Proof.
  intros [m1 e1] [m2 e2] H. unfold dy_eqb in H. apply Z.eqb_eq in H. unfold dyQ, Qeq.
  destruct (Z.leb_spec 0 e1) as [H1|H1]; destruct (Z.leb_spec 0 e2) as [H2|H2]; cbn [Qnum Qden inject_Z].
  - rewrite !Z.mul_1_r.
    destruct (Z.le_ge_cases e1 e2) as [L|L].
    + rewrite Z.min_l in H by lia. rewrite Z.sub_diag, Z.pow_0_r, Z.mul_1_r in H.
      replace e2 with ((e2 - e1) + e1) at 1 by lia. rewrite p2add by lia. rewrite H. ring.
    + rewrite Z.min_r in H by lia. rewrite Z.sub_diag, Z.pow_0_r, Z.mul_1_r in H.
      replace e1 with ((e1 - e2) + e2) at 1 by lia. rewrite p2add by lia. rewrite <- H. ring.
  - rewrite Z.min_r in H by lia. rewrite Z.sub_diag, Z.pow_0_r, Z.mul_1_r in H.
    rewrite Zpos_to_pos by (apply p2pos; lia). rewrite Z.mul_1_r. rewrite <- H.
    replace (e1 - e2) with (e1 + - e2) by lia. rewrite p2add by lia. ring.
  - rewrite Z.min_l in H by lia. rewrite Z.sub_diag, Z.pow_0_r, Z.mul_1_r in H.
    rewrite Zpos_to_pos by (apply p2pos; lia). rewrite Z.mul_1_r. rewrite H.
    replace (e2 - e1) with (e2 + - e1) by lia. rewrite p2add by lia. ring.
  - rewrite !Zpos_to_pos by (apply p2pos; lia).
    destruct (Z.le_ge_cases e1 e2) as [L|L].
    + rewrite Z.min_l in H by lia. rewrite Z.sub_diag, Z.pow_0_r, Z.mul_1_r in H. rewrite H.
      replace (- e1) with ((e2 - e1) + - e2) by lia. rewrite p2add by lia. ring.
    + rewrite Z.min_r in H by lia. rewrite Z.sub_diag, Z.pow_0_r, Z.mul_1_r in H. rewrite <- H.
      replace (- e2) with ((e1 - e2) + - e1) by lia. rewrite p2add by lia. ring.
Qed.

Lemma dy_is_rat_Qeq : forall x n d, 0 < d -> dy_is_rat x n d = true -> Qeq (dyQ x) (Qmake n (Z.to_pos d)).
Proof.
  intros [m e] n d Hd H. unfold dy_is_rat in H. unfold dyQ, Qeq.
  destruct (Z.leb_spec 0 e) as [He|He]; apply Z.eqb_eq in H; cbn [Qnum Qden inject_Z].
  - rewrite Zpos_to_pos by assumption. lia.
  - rewrite !Zpos_to_pos by (try apply p2pos; lia). lia.
Qed.

(* ---- rounding a representable value ---------------------------------------------------------------------- *)
Section Exact.
  Variables p n d m0 s : Z.
  Hypothesis Hp : 0 < p.
  Hypothesis Hd : 0 < d.
  Hypothesis Hrep : dy_is_rat (m0, s) n d = true.
  Hypothesis Hm : Z.abs m0 < 2 ^ p.
  Let a := Z.abs n.
  Let M := Z.abs m0.

  (* |n| = |m0| * 2^s * d, in integers *)
  Lemma rep_abs : if 0 <=? s then a = M * 2 ^ s * d else a * 2 ^ (- s) = M * d.
  Proof.
    unfold dy_is_rat in Hrep. unfold a, M. destruct (Z.leb_spec 0 s) as [Hs|Hs]; apply Z.eqb_eq in Hrep.
    - rewrite <- Hrep. rewrite !Z.abs_mul. rewrite (Z.abs_eq (2 ^ s)) by (apply Z.lt_le_incl, p2pos; lia).
      rewrite (Z.abs_eq d) by lia. reflexivity.
    - assert (E : Z.abs (m0 * d) = Z.abs (n * 2 ^ (- s))) by (rewrite Hrep; reflexivity).
      rewrite !Z.abs_mul in E. rewrite (Z.abs_eq (2 ^ (- s))) in E by (apply Z.lt_le_incl, p2pos; lia).
      rewrite (Z.abs_eq d) in E by lia. lia.
  Qed.
  Lemma rep_sgn : n <> 0 -> Z.sgn n = Z.sgn m0.
  Proof.
    intro Hn. unfold dy_is_rat in Hrep. destruct (Z.leb_spec 0 s) as [Hs|Hs]; apply Z.eqb_eq in Hrep.
    - assert (P : 0 < 2 ^ s) by (apply p2pos; lia). rewrite <- Hrep. rewrite !Z.sgn_mul.
      rewrite (Z.sgn_pos (2 ^ s)), (Z.sgn_pos d) by lia. lia.
    - assert (P : 0 < 2 ^ (- s)) by (apply p2pos; lia).
      assert (E : Z.sgn (m0 * d) = Z.sgn (n * 2 ^ (- s))) by (rewrite Hrep; reflexivity).
      rewrite !Z.sgn_mul in E. rewrite (Z.sgn_pos (2 ^ (- s))), (Z.sgn_pos d) in E by lia. lia.
  Qed.

  (* the scaled numerator is an exact multiple of the scaled denominator for every exponent e <= s *)
  Lemma scaled_exact : forall e, e <= s ->
    a * 2 ^ Z.max 0 (- e) = (M * 2 ^ (s - e)) * (d * 2 ^ Z.max 0 e) /\ 0 < d * 2 ^ Z.max 0 e.
  Proof.
    intros e He. pose proof rep_abs as R.
    assert (Pse : 0 < 2 ^ (s - e)) by (apply p2pos; lia).
    destruct (Z.leb_spec 0 s) as [Hs|Hs].
    - destruct (Z.le_gt_cases e 0) as [E0|E0].
      + replace (Z.max 0 (- e)) with (- e) by lia. replace (Z.max 0 e) with 0 by lia.
        rewrite Z.pow_0_r, Z.mul_1_r. split; [|lia].
        replace (s - e) with (s + - e) by lia. rewrite p2add by lia. rewrite R. ring.
      + replace (Z.max 0 (- e)) with 0 by lia. replace (Z.max 0 e) with e by lia.
        rewrite Z.pow_0_r, Z.mul_1_r. assert (0 < 2 ^ e) by (apply p2pos; lia). split; [|nia].
        rewrite R. replace s with ((s - e) + e) at 1 by lia. rewrite p2add by lia. ring.
    - replace (Z.max 0 (- e)) with (- e) by lia. replace (Z.max 0 e) with 0 by lia.
      rewrite Z.pow_0_r, Z.mul_1_r. split; [|lia].
      replace (- e) with (- s + (s - e)) by lia. rewrite p2add by lia.
      rewrite Z.mul_assoc, R. ring.
  Qed.

  (* the first candidate exponent is not above s *)
  Lemma e0_le_s : n <> 0 -> Z.log2 a - Z.log2 d - p <= s.
  Proof.
    intro Hn. assert (Ha : 0 < a) by (unfold a; lia).
    pose proof (Z.log2_spec a Ha) as [La1 La2]. pose proof (Z.log2_spec d Hd) as [Ld1 Ld2].
    pose proof (Z.log2_nonneg a) as Na. pose proof (Z.log2_nonneg d) as Nd.
    set (la := Z.log2 a) in *. set (ld := Z.log2 d) in *.
    destruct (Z.le_gt_cases (la - ld - p) s) as [|C]; auto. exfalso.
    pose proof rep_abs as R. fold M in Hm.
    destruct (Z.leb_spec 0 s) as [Hs|Hs].
    - (* a = M 2^s d < 2^p 2^s 2^(ld+1) = 2^(p+s+ld+1) <= 2^la <= a *)
      assert (B : 2 ^ (p + s + (ld + 1)) <= 2 ^ la) by (apply Z.pow_le_mono_r; lia).
      assert (B2 : 2 ^ (p + s + (ld + 1)) = 2 ^ p * 2 ^ s * 2 ^ (ld + 1)).
      { rewrite (p2add (p + s)) by lia. rewrite (p2add p s) by lia. reflexivity. }
      assert (P1 : 0 < 2 ^ s) by (apply p2pos; lia). assert (P2 : 0 < 2 ^ p) by (apply p2pos; lia).
      replace (Z.succ ld) with (ld + 1) in Ld2 by lia.
      assert (Lt : M * 2 ^ s * d < 2 ^ p * 2 ^ s * 2 ^ (ld + 1)).
      { apply Z.le_lt_trans with (2 ^ p * 2 ^ s * d).
        - apply Z.mul_le_mono_nonneg_r; [lia|]. apply Z.mul_le_mono_nonneg_r; lia.
        - apply Z.mul_lt_mono_pos_l; [nia|lia]. }
      rewrite <- B2 in Lt. rewrite <- R in Lt. lia.
    - (* a 2^-s = M d < 2^p 2^(ld+1) <= 2^(la - s) <= a 2^-s *)
      assert (B : 2 ^ (p + (ld + 1)) <= 2 ^ (la + - s)) by (apply Z.pow_le_mono_r; lia).
      rewrite (p2add p (ld + 1)) in B by lia. rewrite (p2add la (- s)) in B by lia.
      assert (P1 : 0 < 2 ^ (- s)) by (apply p2pos; lia). assert (P2 : 0 < 2 ^ p) by (apply p2pos; lia).
      replace (Z.succ ld) with (ld + 1) in Ld2 by lia.
      assert (Lt : M * d < 2 ^ p * 2 ^ (ld + 1)).
      { apply Z.le_lt_trans with (2 ^ p * d).
        - apply Z.mul_le_mono_nonneg_r; lia.
        - apply Z.mul_lt_mono_pos_l; lia. }
      assert (Le : 2 ^ la * 2 ^ (- s) <= a * 2 ^ (- s)) by (apply Z.mul_le_mono_nonneg_r; lia).
      rewrite <- R in Lt. lia.
  Qed.

  Theorem rne_exact : dy_eqb (rne p n d) (m0, s) = true.
  Proof.
    unfold rne. destruct (Z.eqb_spec n 0) as [Hn|Hn].
    - (* zero *)
      assert (m0 = 0).
      { unfold dy_is_rat in Hrep. subst n. destruct (0 <=? s) eqn:Es; apply Z.eqb_eq in Hrep.
        - apply Z.leb_le in Es. assert (0 < 2 ^ s) by (apply p2pos; lia). nia.
        - nia. }
      subst m0. unfold dy_eqb. rewrite !Z.mul_0_l. reflexivity.
    - fold a. pose proof (e0_le_s Hn) as E0. set (e0 := Z.log2 a - Z.log2 d - p) in *.
      (* the exponent chosen is at most s *)
      set (e := if a * 2 ^ Z.max 0 (- e0) / (d * 2 ^ Z.max 0 e0) <? 2 ^ p then e0 else e0 + 1).
      assert (He : e <= s).
      { unfold e. destruct (Z.eq_dec e0 s) as [Eq|Ne].
        - destruct (scaled_exact e0 E0) as [S1 S2]. rewrite S1, Z.div_mul by lia.
          rewrite Eq, Z.sub_diag, Z.pow_0_r, Z.mul_1_r. fold M in Hm.
          destruct (Z.ltb_spec M (2 ^ p)); lia.
        - destruct (_ <? _); lia. }
      clearbody e. destruct (scaled_exact e He) as [S1 S2].
      rewrite S1, Z.div_mul, Z.mod_mul by lia.
      assert (C : (d * 2 ^ Z.max 0 e <? 2 * 0) || ((2 * 0 =? d * 2 ^ Z.max 0 e) && Z.odd (M * 2 ^ (s - e))) = false).
      { apply orb_false_iff. split; [apply Z.ltb_ge; lia|]. apply andb_false_iff. left. apply Z.eqb_neq. lia. }
      rewrite C. unfold dy_eqb. rewrite Z.min_l by lia. rewrite Z.sub_diag, Z.pow_0_r, Z.mul_1_r.
      apply Z.eqb_eq. rewrite (rep_sgn Hn). unfold M. rewrite Z.mul_assoc.
      rewrite (Z.mul_comm (Z.sgn m0)), Z.abs_sgn. reflexivity.
  Qed.
End Exact.

(* a dyadic given in any representation *)
Lemma dy_eqb_is_rat_args : forall m' e' m0 s, dy_eqb (m', e') (m0, s) = true ->
  if 0 <=? e' then dy_is_rat (m0, s) (m' * 2 ^ e') 1 = true else dy_is_rat (m0, s) m' (2 ^ (- e')) = true.
Proof.
  intros m' e' m0 s H. unfold dy_eqb in H. apply Z.eqb_eq in H. unfold dy_is_rat.
  destruct (Z.leb_spec 0 e') as [H1|H1]; destruct (Z.leb_spec 0 s) as [H2|H2]; apply Z.eqb_eq.
  - rewrite Z.mul_1_r. destruct (Z.le_ge_cases e' s) as [L|L].
    + rewrite Z.min_l in H by lia. rewrite Z.sub_diag, Z.pow_0_r, Z.mul_1_r in H.
      replace s with ((s - e') + e') at 1 by lia. rewrite p2add by lia. rewrite H. ring.
    + rewrite Z.min_r in H by lia. rewrite Z.sub_diag, Z.pow_0_r, Z.mul_1_r in H.
      replace e' with ((e' - s) + s) at 1 by lia. rewrite p2add by lia. rewrite <- H. ring.
  - rewrite Z.min_r in H by lia. rewrite Z.sub_diag, Z.pow_0_r, Z.mul_1_r in H. rewrite Z.mul_1_r, <- H.
    replace (e' - s) with (e' + - s) by lia. rewrite p2add by lia. ring.
  - rewrite Z.min_l in H by lia. rewrite Z.sub_diag, Z.pow_0_r, Z.mul_1_r in H. rewrite H.
    replace (s - e') with (s + - e') by lia. rewrite p2add by lia. ring.
  - destruct (Z.le_ge_cases e' s) as [L|L].
    + rewrite Z.min_l in H by lia. rewrite Z.sub_diag, Z.pow_0_r, Z.mul_1_r in H. rewrite H.
      replace (- e') with ((s - e') + - s) by lia. rewrite p2add by lia. ring.
    + rewrite Z.min_r in H by lia. rewrite Z.sub_diag, Z.pow_0_r, Z.mul_1_r in H. rewrite <- H.
      replace (- s) with ((e' - s) + - e') by lia. rewrite p2add by lia. ring.
Qed.

Theorem rne_dy_exact : forall p x m0 s, 0 < p -> dy_eqb x (m0, s) = true -> Z.abs m0 < 2 ^ p ->
  dy_eqb (rne_dy p x) (m0, s) = true.
Proof.
  intros p [m' e'] m0 s Hp H Hm. pose proof (dy_eqb_is_rat_args m' e' m0 s H) as A. unfold rne_dy.
  destruct (Z.leb_spec 0 e') as [He|He].
  - apply rne_exact; auto. lia.
  - apply rne_exact; auto. apply p2pos. lia.
Qed.

(* what NormalizeNumber makes of a bignum or ratio facing a float *)
Theorem via_double_exact : forall k n d m0 s, 0 < d -> dy_is_rat (m0, s) n d = true -> Z.abs m0 < 2 ^ 24 ->
  dy_eqb (via_double k n d) (m0, s) = true.
Proof.
  intros k n d m0 s Hd R Hm.
  assert (H53 : dy_eqb (rne 53 n d) (m0, s) = true).
  { apply rne_exact; auto; lia. }
  destruct k; unfold via_double; auto.
  apply rne_dy_exact; auto. lia.
Qed.
