(* C16 — proofs, part 3: equal objects have equal sxhash codes (on the domain of hash_dom).  sxhash hashes a
   canonical form (hashData): text through the case folding that equal uses, numbers through their value as a
   single-float; so the proof is: inside the guard, equal numbers have equal VALUES, equal strings equal
   foldings, and the code is a function of those. *)
From Coq Require Import ZArith NArith List Bool Lia QArith Qreduction.
From C16 Require Import Model Spec Proofs Proofs2 RoundExact.
Import ListNotations.
Close Scope Q_scope.
Open Scope Z_scope.
Open Scope list_scope.

(* ---- text: the code of a string is a function of its case folding ----------------------------------- *)
Definition up (f : N) : N := if ((97 <=? f) && (f <=? 122))%N then (f - 32)%N else f.
Lemma map_cfold : forall s, map cfold s = map up (map fold s).
Proof. intro s. rewrite map_map. apply map_ext. intro c. reflexivity. Qed.
Lemma fold_cfold : forall s t, equal_fold s t = true -> map cfold s = map cfold t.
Proof. intros s t H. rewrite !map_cfold. apply equal_fold_map in H. rewrite H. reflexivity. Qed.

(* ---- numbers: the code is a function of the value ------------------------------------------------------ *)
Lemma roundQ_compat : forall p q r, Qeq q r -> roundQ p q = roundQ p r.
Proof. intros p q r H. unfold roundQ. rewrite (Qred_complete q r H). reflexivity. Qed.
Lemma hcanon_compat : forall x y, Qeq (num_val x) (num_val y) -> hcanon x = hcanon y.
Proof. intros x y H. unfold hcanon. rewrite (roundQ_compat 53 _ _ H). reflexivity. Qed.

(* what the guard says about one number *)
Definition nfacts (fl : bool) (x : obj) : Prop :=
  match x with
  | Fix z | Big z => fl = true -> Z.abs z < 2 ^ 24
  | Rat n d => 0 < d /\ (fl = true -> pow2b d = true /\ Z.abs n < 2 ^ 24)
  | Flt _ m e => fl = true /\ Z.abs m < 2 ^ 24
  | _ => True
  end.
Lemma dom_facts : forall fl x, hash_dom fl x = true -> nfacts fl x.
Proof.
  intros fl x H. destruct x; cbn [hash_dom nfacts] in *; auto.
  - intro F. subst fl. simpl in H. apply Z.ltb_lt. exact H.
  - intro F. subst fl. simpl in H. apply Z.ltb_lt. exact H.
  - apply andb_true_iff in H as [H1 H2]. apply Z.ltb_lt in H1. split; auto.
    intro F. subst fl. simpl in H2. apply andb_true_iff in H2 as [H2 H3]. apply Z.ltb_lt in H3. auto.
  - apply andb_true_iff in H as [H1 H2]. apply Z.ltb_lt in H2. auto.
Qed.

(* values *)
Lemma dyQ_int : forall X a, dy_eqb X (a, 0) = true -> Qeq (dyQ X) (inject_Z a).
Proof.
  intros X a H. apply dy_eqb_Qeq in H. eapply Qeq_trans; [exact H|].
  unfold dyQ, Qeq. simpl. lia.
Qed.
Lemma int_rep : forall a, dy_is_rat (a, 0) a 1 = true.
Proof. intro a. unfold dy_is_rat. simpl (0 <=? 0). cbv iota. apply Z.eqb_eq. rewrite Z.pow_0_r. lia. Qed.
Lemma rat_rep : forall n d, 0 < d -> pow2b d = true -> dy_is_rat (n, - Z.log2 d) n d = true.
Proof.
  intros n d Hd H. unfold pow2b in H. apply Z.eqb_eq in H. pose proof (Z.log2_nonneg d) as K.
  set (k := Z.log2 d) in *. unfold dy_is_rat. destruct (Z.leb_spec 0 (- k)) as [L|L]; apply Z.eqb_eq.
  - assert (k = 0) by lia. replace (- k) with 0 by lia. rewrite H. replace k with 0 by lia. rewrite Z.pow_0_r. lia.
  - rewrite Z.opp_involutive. rewrite <- H. reflexivity.
Qed.
Lemma flt_rep : forall m e, dy_eqb (m, e) (m, e) = true.
Proof. intros. apply dy_eqb_refl. Qed.
Lemma Qeq_int_rat : forall a n d, 0 < d -> a * d = n -> Qeq (inject_Z a) (Qmake n (Z.to_pos d)).
Proof. intros a n d Hd H. unfold Qeq. simpl. rewrite Zpos_to_pos by assumption. lia. Qed.
Lemma Qeq_rat_rat : forall n d n' d', 0 < d -> 0 < d' -> n * d' = n' * d -> Qeq (Qmake n (Z.to_pos d)) (Qmake n' (Z.to_pos d')).
Proof. intros. unfold Qeq. simpl. rewrite !Zpos_to_pos by assumption. lia. Qed.
Lemma Qeq_int_int : forall a b, a = b -> Qeq (inject_Z a) (inject_Z b).
Proof. intros. subst. apply Qeq_refl. Qed.

(* an integer of the guard against a rounding of it: the rounding is the integer *)
Lemma int_round : forall p a X, 24 <= p -> Z.abs a < 2 ^ 24 -> dy_eqb (rne p a 1) X = true -> Qeq (inject_Z a) (dyQ X).
Proof.
  intros p a X Hp Ha H.
  assert (E : dy_eqb (rne p a 1) (a, 0) = true).
  { apply rne_exact; try lia. apply int_rep. eapply Z.lt_le_trans; [exact Ha|]. apply Z.pow_le_mono_r; lia. }
  apply Qeq_sym. eapply Qeq_trans; [apply Qeq_sym; apply dy_eqb_Qeq; exact H|]. apply dyQ_int. exact E.
Qed.
Lemma prec_ge : forall k, 24 <= prec_of k.
Proof. intros []; simpl; lia. Qed.
Lemma int_via : forall k a X, Z.abs a < 2 ^ 24 -> dy_eqb (via_double k a 1) X = true -> Qeq (inject_Z a) (dyQ X).
Proof.
  intros k a X Ha H.
  pose proof (via_double_exact k a 1 a 0 ltac:(lia) (int_rep a) Ha) as E.
  apply Qeq_sym. eapply Qeq_trans; [apply Qeq_sym; apply dy_eqb_Qeq; exact H|]. apply dyQ_int. exact E.
Qed.
Lemma rat_via : forall k n d X, 0 < d -> pow2b d = true -> Z.abs n < 2 ^ 24 ->
  dy_eqb (via_double k n d) X = true -> Qeq (Qmake n (Z.to_pos d)) (dyQ X).
Proof.
  intros k n d X Hd Hp Hn H.
  pose proof (via_double_exact k n d n (- Z.log2 d) Hd (rat_rep n d Hd Hp) Hn) as E.
  apply Qeq_sym. eapply Qeq_trans; [apply Qeq_sym; apply dy_eqb_Qeq; exact H|].
  eapply Qeq_trans; [apply dy_eqb_Qeq; exact E|]. apply dy_is_rat_Qeq; auto. apply rat_rep; auto.
Qed.

Ltac dsym H := rewrite dy_eqb_sym in H.

Lemma same_val : forall fl x y, hash_dom fl x = true -> hash_dom fl y = true ->
  is_number x = true -> is_number y = true -> same_m x y = true -> Qeq (num_val x) (num_val y).
Proof.
  intros fl x y Dx Dy Nx Ny H. apply dom_facts in Dx, Dy.
  destruct x; simpl in Nx; try discriminate; destruct y; simpl in Ny; try discriminate;
    cbn [nfacts] in Dx, Dy; cbn [same_m num_val] in *.
  - (* Fix Fix *) apply Z.eqb_eq in H. apply Qeq_int_int; auto.
  - (* Fix Big *) apply Z.eqb_eq in H. apply Qeq_int_int; auto.
  - (* Fix Rat *) apply Z.eqb_eq in H. apply Qeq_int_rat; tauto.
  - (* Fix Flt *) destruct Dy as [F _]. apply (int_round (prec_of k) z (m, e)); auto using prec_ge.
  - (* Big Fix *) apply Z.eqb_eq in H. apply Qeq_int_int; auto.
  - (* Big Big *) apply Z.eqb_eq in H. apply Qeq_int_int; auto.
  - (* Big Rat *) apply Z.eqb_eq in H. apply Qeq_int_rat; tauto.
  - (* Big Flt *) destruct Dy as [F _]. apply (int_via k z (m, e)); auto.
  - (* Rat Fix *) apply Z.eqb_eq in H. apply Qeq_sym. apply Qeq_int_rat; [tauto|lia].
  - (* Rat Big *) apply Z.eqb_eq in H. apply Qeq_sym. apply Qeq_int_rat; [tauto|lia].
  - (* Rat Rat *) apply Z.eqb_eq in H. apply Qeq_rat_rat; tauto.
  - (* Rat Flt *) destruct Dy as [F _]. destruct Dx as [Hd Dx]. destruct (Dx F) as [P B]. apply (rat_via k n d (m, e)); auto.
  - (* Flt Fix *) destruct Dx as [F _]. dsym H. apply Qeq_sym. apply (int_round (prec_of k) z (m, e)); auto using prec_ge.
  - (* Flt Big *) destruct Dx as [F _]. dsym H. apply Qeq_sym. apply (int_via k z (m, e)); auto.
  - (* Flt Rat *) destruct Dx as [F _]. destruct Dy as [Hd Dy]. destruct (Dy F) as [P B]. dsym H. apply Qeq_sym.
    apply (rat_via k n d (m, e)); auto.
  - (* Flt Flt *) apply dy_eqb_Qeq. exact H.
Qed.

Lemma oeq_val : forall fl x y, hash_dom fl x = true -> hash_dom fl y = true ->
  is_number x = true -> oeq x y = true -> is_number y = true /\ Qeq (num_val x) (num_val y).
Proof.
  intros fl x y Dx Dy Nx H. pose proof (oeq_number x y Nx H) as Ny. split; auto. apply dom_facts in Dx, Dy.
  destruct x; simpl in Nx; try discriminate; destruct y; simpl in Ny; try discriminate;
    cbn [nfacts] in Dx, Dy; cbn [oeq flt_equal_num num_val] in *.
  - apply Z.eqb_eq in H. apply Qeq_int_int; auto.
  - apply andb_true_iff in H as [_ H]. apply Z.eqb_eq in H. apply Qeq_int_int; auto.
  - apply andb_true_iff in H as [H H3]. apply andb_true_iff in H as [H1 _]. apply Z.eqb_eq in H1, H3. subst.
    apply Qeq_int_rat; [tauto|lia].
  - destruct Dy as [F _]. apply (int_round (prec_of k) z (m, e)); auto using prec_ge.
  - apply andb_true_iff in H as [_ H]. apply Z.eqb_eq in H. apply Qeq_int_int; auto.
  - apply Z.eqb_eq in H. apply Qeq_int_int; auto.
  - apply andb_true_iff in H as [H1 H2]. apply Z.eqb_eq in H1, H2. subst. apply Qeq_int_rat; [tauto|lia].
  - apply Qeq_sym. apply dyQ_int. exact H.
  - apply andb_true_iff in H as [H H3]. apply andb_true_iff in H as [H1 _]. apply Z.eqb_eq in H1, H3. subst.
    apply Qeq_sym. apply Qeq_int_rat; [tauto|lia].
  - apply andb_true_iff in H as [H1 H2]. apply Z.eqb_eq in H1, H2. subst. apply Qeq_sym. apply Qeq_int_rat; [tauto|lia].
  - apply Z.eqb_eq in H. apply Qeq_rat_rat; tauto.
  - apply andb_true_iff in H as [H1 H2]. destruct Dx as [Hd _].
    apply Qeq_sym. eapply Qeq_trans; [apply Qeq_sym; apply dy_eqb_Qeq; exact H2|]. apply dy_is_rat_Qeq; auto.
  - destruct Dx as [F _]. dsym H. apply Qeq_sym. apply (int_round (prec_of k) z (m, e)); auto using prec_ge.
  - apply dyQ_int. exact H.
  - apply andb_true_iff in H as [H1 H2]. destruct Dy as [Hd _].
    eapply Qeq_trans; [apply Qeq_sym; apply dy_eqb_Qeq; exact H2|]. apply dy_is_rat_Qeq; auto.
  - apply dy_eqb_Qeq. exact H.
Qed.

Lemma hsum_number : forall x, is_number x = true -> hsum x = Some (hash_num (hcanon x)).
Proof. intros [] H; simpl in H; try discriminate; reflexivity. Qed.
Lemma num_hash : forall x y, is_number x = true -> is_number y = true -> Qeq (num_val x) (num_val y) -> hsum x = hsum y.
Proof. intros x y Nx Ny H. rewrite (hsum_number x Nx), (hsum_number y Ny), (hcanon_compat x y H). reflexivity. Qed.

(* ---- lists ------------------------------------------------------------------------------------------- *)
Definition hsum_list (l : list obj) : option hcode :=
  fold_right (fun e acc => opt_add (hsum e) acc) (hc_text (Some 0%N)) l.
Lemma hsum_Lst : forall xs, hsum (Lst xs) = opt_add (hc_text (Some 184%N)) (hsum_list xs).
Proof. intro xs. reflexivity. Qed.
Lemma hsum_Vec : forall xs, hsum (Vec xs) = opt_add (hc_text (Some 184%N)) (hsum_list xs).
Proof. intro xs. reflexivity. Qed.
Lemma hsum_list_all2 : forall fl (f : obj -> obj -> bool) xs,
  Forall (fun x => hash_dom fl x = true -> forall y, hash_dom fl y = true -> f x y = true -> hsum x = hsum y) xs ->
  forallb (hash_dom fl) xs = true -> forall ys, forallb (hash_dom fl) ys = true -> all2 f xs ys = true ->
  hsum_list xs = hsum_list ys.
Proof.
  intros fl f xs H. induction H as [|x xs Hx Hxs IH]; intros Dx [|y ys] Dy A; simpl in A; try discriminate; auto.
  simpl in Dx, Dy. apply andb_true_iff in Dx as [Dx1 Dx2]. apply andb_true_iff in Dy as [Dy1 Dy2].
  apply andb_true_iff in A as [A1 A2]. simpl. rewrite (Hx Dx1 y Dy1 A1), (IH Dx2 ys Dy2 A2). reflexivity.
Qed.

(* ---- Object.Equal, then equal ------------------------------------------------------------------------- *)
Lemma oeq_hash : forall fl x, hash_dom fl x = true -> forall y, hash_dom fl y = true -> oeq x y = true -> hsum x = hsum y.
Proof.
  intros fl. induction x using obj_ind'; intros Dx yy Dy E.
  3-6: (match type of E with oeq ?x _ = true =>
          destruct (oeq_val fl x yy Dx Dy eq_refl E) as [Ny V]; exact (num_hash x yy eq_refl Ny V) end).
  all: destruct yy; cbn [oeq] in E; try discriminate; cbn [hash_dom] in Dx, Dy; auto.
  - (* Chr *) apply N.eqb_eq in E. subst. reflexivity.
  - (* Str *) apply lN_eqb_eq in E. subst. reflexivity.
  - (* Sym *) cbn [hsum]. rewrite (fold_cfold _ _ E). reflexivity.
  - (* Lst *) rewrite !hsum_Lst. f_equal. eapply (hsum_list_all2 fl oeq); eauto.
  - (* Tl *) cbn [hsum]. apply IHx; assumption.
  - (* Vec *) rewrite !hsum_Vec. f_equal. eapply (hsum_list_all2 fl oeq); eauto.
Qed.

Lemma equal_hash : forall fl x, hash_dom fl x = true -> forall y, hash_dom fl y = true -> equal_s x y = true -> hsum x = hsum y.
Proof.
  intros fl. induction x using obj_ind'; intros Dx yy Dy E.
  3-6: (match type of E with equal_s ?x _ = true =>
          rewrite (equal_s_num x yy eq_refl) in E; apply andb_true_iff in E as [Ny E];
          exact (num_hash x yy eq_refl Ny (same_val fl x yy Dx Dy eq_refl Ny E)) end).
  all: destruct yy; cbn [equal_s eqs is_number andb orb] in E; try discriminate; cbn [hash_dom] in Dx, Dy; auto.
  - (* Chr *) apply N.eqb_eq in E. subst. reflexivity.
  - (* Str *) cbn [hsum]. rewrite (fold_cfold _ _ E). reflexivity.
  - (* Sym *) rewrite orb_false_r in E. apply lN_eqb_eq in E. subst. reflexivity.
  - (* Lst *) rewrite !hsum_Lst. f_equal. eapply (hsum_list_all2 fl equal_s); eauto.
  - (* Tl *) cbn [hsum]. apply IHx; assumption.
  - (* Vec *) rewrite !hsum_Vec. f_equal. eapply (hsum_list_all2 fl oeq); eauto.
    apply Forall_forall. intros a _ Da b Db. apply (oeq_hash fl); assumption.
Qed.

(* the eq shortcut: one cell, one value *)
Theorem sxhash_respects_equal : forall fl a b, consistent2 a b ->
  hash_dom fl (r_obj a) = true -> hash_dom fl (r_obj b) = true ->
  equal_m a b = true -> sxhash_m (r_obj a) = sxhash_m (r_obj b).
Proof.
  intros fl a b C Da Db H. unfold equal_m in H. apply orb_true_iff in H as [H|H].
  - rewrite (Proofs2.eq_m_same_obj a b C H). reflexivity.
  - unfold sxhash_m. apply (equal_hash fl); assumption.
Qed.
