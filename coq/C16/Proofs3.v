(* C16 — proofs, part 3: equal objects have equal sxhash codes (on the domain of hash_dom). *)
From Coq Require Import ZArith NArith List Bool Lia.
From C16 Require Import Model Spec Proofs Proofs2.
Import ListNotations.
Open Scope list_scope.

(* ---- per character: case variants have the same SEN class and the same masked byte ------------------ *)
Definition sclass_eqb (a b : sclass) : bool :=
  match a, b with CO, CO | CZ, CZ | CX, CX | COther, COther => true | _, _ => false end.
Lemma sclass_eqb_eq : forall a b, sclass_eqb a b = true -> a = b.
Proof. intros [] []; simpl; intro; try discriminate; reflexivity. Qed.
Definition range128 : list N := map N.of_nat (seq 0 128).
Lemma in_range128 : forall a, (a < 128)%N -> In a range128.
Proof.
  intros a H. unfold range128. rewrite <- (N2Nat.id a). apply in_map. apply in_seq. lia.
Qed.
Definition char_table_ok : bool :=
  forallb (fun a => forallb (fun b =>
    implb (fold_eqb a b) (sclass_eqb (sen_class a) (sen_class b) && (N.land a 223 =? N.land b 223)%N)) range128) range128.
Lemma char_table_ok_true : char_table_ok = true.
Proof. vm_compute. reflexivity. Qed.
Lemma per_char : forall a b, (a < 128)%N -> (b < 128)%N -> fold_eqb a b = true ->
  sen_class a = sen_class b /\ N.land a 223 = N.land b 223.
Proof.
  intros a b Ha Hb H. pose proof char_table_ok_true as T. unfold char_table_ok in T.
  rewrite forallb_forall in T. specialize (T a (in_range128 a Ha)).
  rewrite forallb_forall in T. specialize (T b (in_range128 b Hb)).
  rewrite H in T. simpl in T. apply andb_true_iff in T as [T1 T2].
  split; [apply sclass_eqb_eq; assumption | apply N.eqb_eq; assumption].
Qed.

(* ---- mask_sum, str_bytes ---------------------------------------------------------------------------- *)
Lemma mask_sum_acc : forall l acc, fold_left (fun a b => (a + N.land b 223)%N) l acc = (acc + mask_sum l)%N.
Proof.
  induction l as [|x l IH]; intro acc; unfold mask_sum; simpl.
  - lia.
  - rewrite IH. rewrite (IH (N.land x 223)). lia.
Qed.
Lemma mask_sum_cons : forall x l, mask_sum (x :: l) = (N.land x 223 + mask_sum l)%N.
Proof. intros x l. unfold mask_sum at 1. simpl. rewrite mask_sum_acc. lia. Qed.

Definition ascii_str (s : list N) : Prop := Forall (fun c => (c < 128)%N) s.
Lemma ascii_plain_lt : forall c, ascii_plain c = true -> (c < 128)%N.
Proof. intros c H. unfold ascii_plain in H. apply andb_true_iff in H as [H _]. apply N.ltb_lt. assumption. Qed.
Lemma ascii_plain_cp : forall c, ascii_plain c = true -> cp_plain c = true.
Proof. intros c H. unfold ascii_plain in H. apply andb_true_iff in H as [_ H]. assumption. Qed.
Lemma str_bytes_ascii : forall s, ascii_str s -> str_bytes s = s.
Proof.
  intros s H. induction H; unfold str_bytes in *; simpl; auto.
  rewrite IHForall. unfold utf8. apply N.ltb_lt in H. rewrite H. reflexivity.
Qed.

Definition first_ok (s : list N) : bool :=
  match s with [] => true | c :: _ => if (c <? 128)%N then match sen_class c with CO => false | _ => true end else false end.
Definition has_x (s : list N) : bool :=
  existsb (fun c => (c <? 128)%N && match sen_class c with CX => true | _ => false end) s.

Lemma fold_pair_facts : forall s t, ascii_str s -> ascii_str t -> equal_fold s t = true ->
  List.length s = List.length t /\ mask_sum s = mask_sum t /\ has_x s = has_x t /\ first_ok s = first_ok t.
Proof.
  intros s t Hs. revert t. induction Hs as [|a s Ha Hs IH]; intros [|b t] Ht H; simpl in H; try discriminate.
  - repeat split.
  - apply andb_true_iff in H as [H1 H2]. inversion Ht as [|? ? Hb Ht']; subst.
    destruct (IH t Ht' H2) as (L & M & X & _).
    destruct (per_char a b Ha Hb H1) as [C K].
    repeat split.
    + simpl. congruence.
    + rewrite !mask_sum_cons. congruence.
    + unfold has_x in *. simpl. rewrite C, X. apply N.ltb_lt in Ha, Hb. rewrite Ha, Hb. reflexivity.
    + simpl. rewrite C. apply N.ltb_lt in Ha, Hb. rewrite Ha, Hb. reflexivity.
Qed.

Lemma sen_quoted_alt : forall s, sen_quoted s =
  match s with [] => true | _ => (64 <? N.of_nat (List.length (str_bytes s)))%N || first_ok s || has_x s end.
Proof. intros [|c s]; reflexivity. Qed.

Lemma hash_string_fold : forall s t, forallb ascii_plain s = true -> forallb ascii_plain t = true ->
  equal_fold s t = true -> hash_string s = hash_string t.
Proof.
  intros s t Hs Ht H.
  assert (As : ascii_str s). { apply forallb_Forall in Hs. eapply Forall_impl; [|exact Hs]. apply ascii_plain_lt. }
  assert (At : ascii_str t). { apply forallb_Forall in Ht. eapply Forall_impl; [|exact Ht]. apply ascii_plain_lt. }
  assert (Ps : forallb cp_plain s = true).
  { apply forallb_Forall. apply forallb_Forall in Hs. eapply Forall_impl; [|exact Hs]. apply ascii_plain_cp. }
  assert (Pt : forallb cp_plain t = true).
  { apply forallb_Forall. apply forallb_Forall in Ht. eapply Forall_impl; [|exact Ht]. apply ascii_plain_cp. }
  unfold hash_string. rewrite Ps, Pt. rewrite !sen_quoted_alt, (str_bytes_ascii s As), (str_bytes_ascii t At).
  destruct (fold_pair_facts s t As At H) as (L & M & X & F).
  rewrite M, X, F, L.
  destruct s, t; simpl in L; try discriminate; reflexivity.
Qed.

(* ---- lists ------------------------------------------------------------------------------------------- *)
Definition hsum_list (l : list obj) : option N := fold_right (fun e acc => opt_add (hsum e) acc) (Some 0%N) l.
Lemma hsum_Lst : forall xs, hsum (Lst xs) = opt_add (Some 184%N) (hsum_list xs).
Proof.
  intro xs. reflexivity.
Qed.
Lemma hsum_Vec : forall xs, hsum (Vec xs) = opt_add (Some 184%N) (hsum_list xs).
Proof.
  intro xs. reflexivity.
Qed.
Lemma hsum_list_all2 : forall (f : obj -> obj -> bool) xs,
  Forall (fun x => hash_dom x = true -> forall y, hash_dom y = true -> f x y = true -> hsum x = hsum y) xs ->
  forallb hash_dom xs = true -> forall ys, forallb hash_dom ys = true -> all2 f xs ys = true -> hsum_list xs = hsum_list ys.
Proof.
  intros f xs H. induction H as [|x xs Hx Hxs IH]; intros Dx [|y ys] Dy A; simpl in A; try discriminate; auto.
  simpl in Dx, Dy. apply andb_true_iff in Dx as [Dx1 Dx2]. apply andb_true_iff in Dy as [Dy1 Dy2].
  apply andb_true_iff in A as [A1 A2]. simpl. rewrite (Hx Dx1 y Dy1 A1), (IH Dx2 ys Dy2 A2). reflexivity.
Qed.

(* ---- Object.Equal, then equal ------------------------------------------------------------------------- *)
Lemma oeq_hash : forall x, hash_dom x = true -> forall y, hash_dom y = true -> oeq x y = true -> hsum x = hsum y.
Proof.
  induction x using obj_ind'; intros Dx yy Dy E; destruct yy; cbn [oeq flt_equal_num] in E; try discriminate;
    cbn [hash_dom] in Dx, Dy; try discriminate; auto.
  - (* Fix, Fix *) apply Z.eqb_eq in E. subst. reflexivity.
  - (* Fix, Big *) apply andb_true_iff in E as [E1 E2]. apply Z.eqb_eq in E2. subst. cbn [hsum]. rewrite E1. reflexivity.
  - (* Big, Fix *) apply andb_true_iff in E as [E1 E2]. apply Z.eqb_eq in E2. subst. cbn [hsum]. rewrite E1. reflexivity.
  - (* Big, Big *) apply Z.eqb_eq in E. subst. reflexivity.
  - (* Chr *) apply N.eqb_eq in E. subst. reflexivity.
  - (* Str *) apply lN_eqb_eq in E. subst. reflexivity.
  - (* Sym *) cbn [hsum]. apply hash_string_fold; assumption.
  - (* Lst *) rewrite !hsum_Lst. f_equal. eapply (hsum_list_all2 oeq); eauto.
  - (* Tl *) cbn [hsum]. apply IHx; assumption.
  - (* Vec *) rewrite !hsum_Vec. f_equal. eapply (hsum_list_all2 oeq); eauto.
Qed.

Lemma equal_hash : forall x, hash_dom x = true -> forall y, hash_dom y = true -> equal_s x y = true -> hsum x = hsum y.
Proof.
  induction x using obj_ind'; intros Dx yy Dy E; destruct yy; cbn [equal_s eqs is_number andb orb] in E; try discriminate;
    cbn [hash_dom] in Dx, Dy; try discriminate; auto.
  - (* Fix, Fix *) unfold same_m in E. apply Z.eqb_eq in E. subst. reflexivity.
  - (* Fix, Big *) unfold same_m in E. apply Z.eqb_eq in E. subst. cbn [hsum]. rewrite Dx. reflexivity.
  - (* Big, Fix *) unfold same_m in E. apply Z.eqb_eq in E. subst. cbn [hsum]. rewrite Dy. reflexivity.
  - (* Big, Big *) unfold same_m in E. apply Z.eqb_eq in E. subst. reflexivity.
  - (* Chr *) apply N.eqb_eq in E. subst. reflexivity.
  - (* Str *) cbn [hsum]. apply hash_string_fold; assumption.
  - (* Sym *) rewrite orb_false_r in E. apply lN_eqb_eq in E. subst. reflexivity.
  - (* Lst *) rewrite !hsum_Lst. f_equal. eapply (hsum_list_all2 equal_s); eauto.
  - (* Tl *) cbn [hsum]. apply IHx; assumption.
  - (* Vec *) rewrite !hsum_Vec. f_equal. eapply (hsum_list_all2 oeq); eauto.
    apply Forall_forall. intros a _ Da b Db. apply oeq_hash; assumption.
Qed.

(* the eq shortcut: one cell, one value *)
Theorem sxhash_respects_equal : forall a b, consistent2 a b ->
  hash_dom (r_obj a) = true -> hash_dom (r_obj b) = true ->
  equal_m a b = true -> sxhash_m (r_obj a) = sxhash_m (r_obj b).
Proof.
  intros a b C Da Db H. unfold equal_m in H. apply orb_true_iff in H as [H|H].
  - rewrite (Proofs2.eq_m_same_obj a b C H). reflexivity.
  - unfold sxhash_m. apply equal_hash; assumption.
Qed.
