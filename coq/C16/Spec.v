(* C16 — S: what the property demands, and the guards delimiting where the model M meets it. *)
From Coq Require Import ZArith NArith List Bool Permutation.
From C16 Require Import Model.
Import ListNotations.
Open Scope Z_scope.
Open Scope list_scope.

(* ------------------------------------------------------------------------------------------------ *)
(* 1. Well-formed objects and the guards for the equivalence laws                                      *)

(* what the Go types guarantee: fixnums are int64, big.Rat is in lowest terms with a positive
   denominator *)
Fixpoint wf (x : obj) : bool :=
  match x with
  | Fix z => int64_ok z
  | Rat n d => (0 <? d) && (Z.gcd n d =? 1)
  | Tl v => wf v
  | Lst xs => forallb wf xs
  | Vec xs => forallb wf xs
  | _ => true
  end.

(* exact: no float anywhere.  Needed for transitivity: comparison with a float rounds the other side. *)
Fixpoint nofloat (x : obj) : bool :=
  match x with
  | Flt _ _ _ => false
  | Lst xs | Vec xs => forallb nofloat xs
  | Tl v => nofloat v
  | _ => true
  end.
(* the alphabet on which the model of case folding is faithful *)
Definition alpha_ok (c : N) : bool := ((c <? 128) || (c =? 8490) || (c =? 383))%N.
Fixpoint alpha (x : obj) : bool :=
  match x with
  | Chr c => alpha_ok c
  | Str s | Sym s => forallb alpha_ok s
  | Lst xs | Vec xs => forallb alpha xs
  | Tl v => alpha v
  | _ => true
  end.
(* symmetry needs nothing beyond well-formedness since repair C16-11 (before it: ratio numerators below 2^62,
   because a bignum outside int64 and a ratio were compared through different roundings in the two orders) *)
Definition sym_guard (x : obj) : bool := wf x.
Definition trans_guard (x : obj) : bool := wf x && nofloat x.

(* domain of the sxhash theorem (sxhash hashes a canonical form since repairs C16-9 / C16-10).  Text needs no
   restriction any more.  Numbers, in two tiers selected by fl:
   fl = false: no float anywhere; every fixnum, bignum and ratio (positive denominator);
   fl = true:  floats too, and then every number must be a single-float value in an explicit form: an integer
               below 2^24 in magnitude, a ratio with a power-of-two denominator and a numerator below 2^24, a float
               whose significand is below 2^24.  There every comparison `equal` makes is exact.
   Outside both tiers `equal` relates numbers through roundings and is not transitive (the float findings); a
   fixnum beyond 2^53 is then equal to a single-float and to a double-float that differ: no code can serve both
   (C16_sxhash_rounding_refuted). *)
Definition pow2b (d : Z) : bool := d =? 2 ^ Z.log2 d.
Fixpoint hash_dom (fl : bool) (x : obj) : bool :=
  match x with
  | Fix z | Big z => negb fl || (Z.abs z <? 2 ^ 24)
  | Rat n d => (0 <? d) && (negb fl || (pow2b d && (Z.abs n <? 2 ^ 24)))
  | Flt _ m e => fl && (Z.abs m <? 2 ^ 24)
  | Lst xs | Vec xs => forallb (hash_dom fl) xs
  | Tl v => hash_dom fl v
  | _ => true
  end.
Definition hash_dom2 (x y : obj) : bool :=
  (hash_dom false x && hash_dom false y) || (hash_dom true x && hash_dom true y).

(* one memory cell holds one value: two references of the same Go type with the same data word are the
   same object (symbols compare by spelling and are exempt) *)
Definition consistent2 (a b : ref) : Prop :=
  same_gotype (r_obj a) (r_obj b) = true -> r_word a = r_word b -> r_obj a = r_obj b.

(* ------------------------------------------------------------------------------------------------ *)
(* 2. The four tests as functions of a code (what hash-table-test reports)                              *)

Definition test_fn (t : N) : ref -> ref -> bool :=
  match t with 0%N => eq_m | 1%N => eql_m | 2%N => equal_m | _ => equalp_m end.

(* ------------------------------------------------------------------------------------------------ *)
(* 3. The hash table as a finite map under its test: a function of the HISTORY                          *)

(* a key the table accepts: its Go representation is comparable.  An operation on any other key (a list)
   signals a type-error and leaves the table as it was (repair C16-4; before it the host died). *)
Definition key_hashable (pool : list tkey) (i : nat) : bool :=
  match key_ok pool i with Some true => true | _ => false end.
Definition op_key (o : hop) : option nat :=
  match o with HPut i _ | HGet i | HRem i => Some i | _ => None end.
Definition op_refused (pool : list tkey) (o : hop) : bool :=
  match op_key o with Some i => negb (key_hashable pool i) | None => false end.

Section TableSpec.
  Variable pool : list tkey.
  Variable tst : nat -> nat -> bool.       (* the table's test on pool indices *)
  Let n := List.length pool.

  (* hist: the ACCEPTED operations so far, most recent first.  A lookup returns the value last stored under an
     equivalent key, unless an equivalent key was removed or the table cleared since. *)
  Fixpoint s_lookup (hist : list hop) (k : nat) : option Z :=
    match hist with
    | [] => None
    | HPut j v :: older => if tst k j then Some v else s_lookup older k
    | HRem j :: older => if tst k j then None else s_lookup older k
    | HClr :: _ => None
    | _ :: older => s_lookup older k
    end.
  Definition has_value (hist : list hop) (i : nat) : bool :=
    match s_lookup hist i with Some _ => true | None => false end.
  (* i is the first member of its equivalence class *)
  Definition is_rep (i : nat) : bool := forallb (fun j => negb (tst j i)) (seq 0 i).
  (* the number of distinct keys present = the number of classes with a value *)
  Definition s_count (hist : list hop) : nat :=
    List.length (filter (fun i => is_rep i && has_value hist i) (seq 0 n)).
  Definition s_entries (hist : list hop) : list (nat * Z) :=
    flat_map (fun i => if is_rep i then match s_lookup hist i with Some v => [(i, v)] | None => [] end else [])
             (seq 0 n).
  Definition s_obs (hist : list hop) (o : hop) : hobs :=
    if op_refused pool o then OTypeErr else
    match o with
    | HPut _ v => OVal v
    | HGet i => OGet (s_lookup hist i)
    | HRem i => OBool (has_value hist i)
    | HClr => OBool true
    | HCount => ONum (Z.of_nat (s_count hist))
    | HMap => OEntries (s_entries hist)
    end.
  (* a refused operation does not enter the history *)
  Definition s_next (hist : list hop) (o : hop) : list hop := if op_refused pool o then hist else o :: hist.
  Fixpoint s_run (hist : list hop) (ops : list hop) : list hobs :=
    match ops with [] => [] | o :: ops' => s_obs hist o :: s_run (s_next hist o) ops' end.
End TableSpec.

(* observations agree; the entries of maphash as a set *)
Definition obs_equiv (a b : hobs) : Prop :=
  match a, b with
  | OEntries l1, OEntries l2 => Permutation l1 l2
  | _, _ => a = b
  end.

(* the guard of the refinement: on the hashable keys of the pool the test agrees with Go's == on the key
   representations, no hashable key is related to an unhashable one, and the test is an equivalence on the
   pool.  (Before repair C16-4 the guard also demanded that every key be hashable.) *)
Definition op_in_range (np : nat) (o : hop) : bool :=
  match o with HPut i _ | HGet i | HRem i => Nat.ltb i np | _ => true end.
Section PoolGuard.
  Variable pool : list tkey.
  Variable tst : nat -> nat -> bool.
  Let idx := seq 0 (List.length pool).
  Let hk := key_hashable pool.
  Definition pool_coherent : bool :=
    forallb (fun i => forallb (fun j =>
      if hk i && hk j then Bool.eqb (same_key pool i j) (tst i j)
      else negb (hk i || hk j) || negb (tst i j)) idx) idx.
  Definition pool_equiv : bool :=
    forallb (fun i => tst i i) idx &&
    forallb (fun i => forallb (fun j => Bool.eqb (tst i j) (tst j i)) idx) idx &&
    forallb (fun i => forallb (fun j => forallb (fun k => implb (tst i j && tst j k) (tst i k)) idx) idx) idx.
  Definition pool_ok : bool := pool_coherent && pool_equiv.
End PoolGuard.
(* keys on which the implementation is coherent under eql: nil, t, characters, strings, symbols (compared by
   value / spelling by eql and by Go's ==), vectors (by identity by both), lists (refused with a type-error; eql
   relates a list to nothing but itself) and the exact numbers in the representation the reader gives them:
   fixnums (int64), bignums outside int64 and ratios in lowest terms with a denominator above 1 (found by value
   since repair C16-5).  Excluded: floats, and the non-canonical representations (a bignum inside int64, a
   ratio n/1) that eql identifies with a fixnum while the table keeps them apart - finding
   C16-hash-eql-numbers-are-different-keys. *)
Definition simple_key (x : obj) : bool :=
  match x with
  | Nil | Tru | Chr _ | Str _ | Sym _ | Vec _ | Lst _ => true
  | Fix z => int64_ok z
  | Big z => negb (int64_ok z)
  | Rat n d => (0 <? d) && (Z.gcd n d =? 1) && negb (d =? 1)
  | _ => false
  end.
Definition simple_pool (pool : list ref) : bool := forallb (fun r => simple_key (r_obj r)) pool.
(* nil and t are each one interface value: all their references carry the same data word *)
Definition const_words (a b : ref) : Prop :=
  r_obj a = r_obj b -> (r_obj a = Nil \/ r_obj a = Tru) -> r_word a = r_word b.

(* the tests on keys.  A signed-byte / unsigned-byte key (value v inside int64): eq is identity of the pointer
   (same Go type, same data word); eql / equal / equalp are eq, or `same` after NormalizeNumber has made the fixnum
   v of it - against another such key, against a number of the universe *)
Definition key_test (t : N) (a b : tkey) : bool :=
  match a, b with
  | TRef x, TRef y => test_fn t x y
  | TByt u v w, TByt u' v' w' => (Bool.eqb u u' && N.eqb w w') || (negb (N.eqb t 0) && Z.eqb v v')
  | TByt _ v _, TRef y => negb (N.eqb t 0) && is_number (r_obj y) && same_m (Fix v) (r_obj y)
  | TRef x, TByt _ v _ => negb (N.eqb t 0) && is_number (r_obj x) && same_m (r_obj x) (Fix v)
  end.
Definition pool_test (t : N) (pool : list tkey) (i j : nat) : bool :=
  match nth_error pool i, nth_error pool j with
  | Some a, Some b => key_test t a b
  | _, _ => false
  end.
