(* C16 — M: executable model of what slip's Go code does for eq / eql / equal / equalp / sxhash, of the
   per-type Equal methods they are layered on, and of the hash table (a Go map keyed by the object
   interface value).  Definitions only; no proofs in this file.

   Sources mirrored (function by function, same branch order):
     pkg/cl/eq.go (eq), pkg/cl/eql.go (Eql.Call), pkg/cl/equal.go (equal), pkg/cl/equalp.go (equalp),
     pkg/cl/same.go (same) + normalizenumber.go (NormalizeNumber), the Equal methods of fixnum.go, bignum.go,
     ratio.go, singlefloat.go, doublefloat.go, character.go, string.go, symbol.go, list.go, tail.go, vector.go,
     true.go, object.go (ObjectEqual), pkg/cl/sxhash.go + the Simplify methods + ojg's SEN writer,
     hash-table.go and pkg/cl/{gethash,remhash,clrhash,maphash,hash-table-count}.go.                        *)
From Coq Require Import ZArith NArith List Bool String Ascii QArith Qreduction.
Import ListNotations.
Close Scope Q_scope.
Open Scope Z_scope.
Open Scope list_scope.

(* ------------------------------------------------------------------------------------------------ *)
(* 1. Objects                                                                                        *)

Inductive fkind := FSingle | FDouble.

(* Finite floats are tagged values m * 2^e (any representation of the value; never NaN or infinite).
   Strings and symbol names are lists of Unicode code points.  A dotted list is a slip.List whose last
   element is a Tail (tail.go), exactly as in Go: [Lst [a; Tl b]] is (a . b). *)
Inductive obj : Type :=
| Nil                        (* the nil interface value *)
| Tru                        (* slip.True *)
| Fix (z : Z)                (* slip.Fixnum, an int64 *)
| Big (z : Z)                (* *slip.Bignum *)
| Rat (n d : Z)              (* *slip.Ratio: big.Rat n/d, 0 < d, lowest terms *)
| Flt (k : fkind) (m e : Z)  (* slip.SingleFloat / slip.DoubleFloat with value m * 2^e *)
| Chr (c : N)                (* slip.Character (a rune) *)
| Str (s : list N)           (* slip.String *)
| Sym (s : list N)           (* slip.Symbol, exact spelling *)
| Lst (xs : list obj)        (* slip.List (a Go slice; may be empty, which is not nil) *)
| Tl (v : obj)               (* slip.Tail{Value: v}: only as the last element of a list *)
| Vec (xs : list obj).       (* *slip.Vector, element type t, one fixed adjustable flag *)

(* A reference = an interface value as eq sees it: the object plus its data word.  The data word is an
   OBSERVED input (canonicalised to a small number by the harness): whether two separately produced
   fixnums share a box is Go runtime behaviour that the model does not predict. *)
Record ref := mkref { r_obj : obj; r_word : N }.

(* same dynamic Go type = equal type words *)
Definition fkind_eqb (a b : fkind) : bool :=
  match a, b with FSingle, FSingle | FDouble, FDouble => true | _, _ => false end.
Definition same_gotype (x y : obj) : bool :=
  match x, y with
  | Nil, Nil | Tru, Tru | Fix _, Fix _ | Big _, Big _ | Rat _ _, Rat _ _ | Chr _, Chr _ | Str _, Str _
  | Sym _, Sym _ | Lst _, Lst _ | Tl _, Tl _ | Vec _, Vec _ => true
  | Flt k _ _, Flt k' _ _ => fkind_eqb k k'
  | _, _ => false
  end.
Definition is_number (x : obj) : bool :=
  match x with Fix _ | Big _ | Rat _ _ | Flt _ _ _ => true | _ => false end.

Definition all2 {A} (f : A -> A -> bool) : list A -> list A -> bool :=
  fix go xs ys := match xs, ys with
                  | [], [] => true
                  | a :: xs', b :: ys' => f a b && go xs' ys'
                  | _, _ => false
                  end.
Definition lN_eqb : list N -> list N -> bool := all2 N.eqb.

(* ------------------------------------------------------------------------------------------------ *)
(* 2. Numbers: rounding to p bits (round to nearest, ties to even) and cross-representation compare   *)

(* n/d (0 < d) rounded to a p-bit significand; result (m, e) stands for m * 2^e.  This is what int64 ->
   float64 / float32 conversion, float64 -> float32 conversion, big.Float.Float64, big.Rat.Float64 and
   big.Float.SetRat do for values inside the exponent range (no overflow, no subnormals: see the guard). *)
Definition rne (p n d : Z) : Z * Z :=
  if n =? 0 then (0, 0) else
  let a := Z.abs n in
  let e0 := Z.log2 a - Z.log2 d - p in
  let nn e := a * 2 ^ Z.max 0 (- e) in
  let dd e := d * 2 ^ Z.max 0 e in
  let e := if nn e0 / dd e0 <? 2 ^ p then e0 else e0 + 1 in
  let q := nn e / dd e in
  let r := nn e mod dd e in
  let q' := if (dd e <? 2 * r) || ((2 * r =? dd e) && Z.odd q) then q + 1 else q in
  (Z.sgn n * q', e).
(* a dyadic (m, e) rounded to p bits *)
Definition rne_dy (p : Z) (x : Z * Z) : Z * Z :=
  let '(m, e) := x in if 0 <=? e then rne p (m * 2 ^ e) 1 else rne p m (2 ^ (- e)).
(* equality of the values of two dyadics *)
Definition dy_eqb (x y : Z * Z) : bool :=
  let '(m1, e1) := x in let '(m2, e2) := y in
  let e := Z.min e1 e2 in m1 * 2 ^ (e1 - e) =? m2 * 2 ^ (e2 - e).
(* the dyadic (m, e) is exactly n/d *)
Definition dy_is_rat (x : Z * Z) (n d : Z) : bool :=
  let '(m, e) := x in if 0 <=? e then m * 2 ^ e * d =? n else m * d =? n * 2 ^ (- e).

Definition prec_of (k : fkind) : Z := match k with FSingle => 24 | FDouble => 53 end.
Definition int64_ok (z : Z) : bool := (- 2 ^ 63 <=? z) && (z <? 2 ^ 63).
Definition bitlen (z : Z) : Z := if z =? 0 then 0 else Z.log2 (Z.abs z) + 1.

(* what a *big.Int / *big.Rat becomes when NormalizeNumber turns it into a float of kind k:
   always through float64 first (z.SetInt(..).Float64(), big.Rat.Float64), then narrowed *)
Definition via_double (k : fkind) (n d : Z) : Z * Z :=
  match k with FDouble => rne 53 n d | FSingle => rne_dy 24 (rne 53 n d) end.

(* same (pkg/cl/same.go): bignum / ratio pairs by exact value (asRat), the others after NormalizeNumber; only
   ever called on two numbers *)
Definition same_m (x y : obj) : bool :=
  match x, y with
  | Fix a, Fix b => a =? b
  | Fix a, Flt k m e => dy_eqb (rne (prec_of k) a 1) (m, e)      (* SingleFloat(t0) / DoubleFloat(t0) *)
  | Fix a, Big b => a =? b
  | Fix a, Rat n d => a * d =? n                                   (* big.NewRat(a, 1).Cmp *)
  | Flt k m e, Fix b => dy_eqb (m, e) (rne (prec_of k) b 1)
  | Flt _ m e, Flt _ m' e' => dy_eqb (m, e) (m', e')              (* the narrower one widened: exact *)
  | Flt k m e, Big b => dy_eqb (m, e) (via_double k b 1)
  | Flt k m e, Rat n d => dy_eqb (m, e) (via_double k n d)       (* t1.RealValue() then narrowed *)
  | Big a, Fix b => a =? b
  | Big a, Flt k m e => dy_eqb (via_double k a 1) (m, e)
  | Big a, Big b => a =? b
  | Big a, Rat n d => a * d =? n                                   (* asRat: big.Rat.Cmp, exact (repair C16-11) *)
  | Rat n d, Fix b => n =? b * d
  | Rat n d, Flt k m e => dy_eqb (via_double k n d) (m, e)
  | Rat n d, Big b => n =? b * d                                   (* asRat: exact (repair C16-11; before it both went to
                                                                      long-floats of an order-dependent precision) *)
  | Rat n d, Rat n' d' => n * d' =? n' * d
  | _, _ => false
  end.

(* ------------------------------------------------------------------------------------------------ *)
(* 3. Characters and strings: case folding on the modelled alphabet                                    *)

(* Alphabet: ASCII plus U+212A KELVIN SIGN and U+017F LATIN SMALL LETTER LONG S, the two non-ASCII
   code points whose simple case folding meets ASCII.  On every other code point the three functions
   below are the identity, which is NOT what Go does for, say, U+00C9; see alpha_ok in Spec.v. *)
Definition is_upper (c : N) : bool := (65 <=? c)%N && (c <=? 90)%N.
(* unicode.ToLower *)
Definition to_lower (c : N) : N :=
  if is_upper c then (c + 32)%N else if (c =? 8490)%N then 107%N else c.
(* canonical representative of the unicode.SimpleFold orbit (what strings.EqualFold compares) *)
Definition fold (c : N) : N :=
  if is_upper c then (c + 32)%N else if (c =? 8490)%N then 107%N else if (c =? 383)%N then 115%N else c.
Definition fold_eqb (a b : N) : bool := (fold a =? fold b)%N.
Definition equal_fold : list N -> list N -> bool := all2 fold_eqb.      (* strings.EqualFold *)

(* ------------------------------------------------------------------------------------------------ *)
(* 4. Object.Equal methods (ObjectEqual)                                                             *)

Definition flt_equal_num (k : fkind) (m e : Z) (y : obj) : bool :=
  match y with
  | Fix b => dy_eqb (m, e) (rne (prec_of k) b 1)                  (* obj == SingleFloat(to) *)
  | Flt _ m' e' => dy_eqb (m, e) (m', e')
  | Rat n d => let f := rne 53 n d in dy_is_rat f n d && dy_eqb f (m, e)   (* f, exact := Float64() *)
  | Big b => dy_eqb (m, e) (b, 0)                                 (* f.IsInt() and the integer is b *)
  | _ => false
  end.

Fixpoint oeq (x y : obj) {struct x} : bool :=
  match x with
  | Nil => match y with Nil => true | _ => false end             (* ObjectEqual: x == nil -> y == nil *)
  | Tru => match y with Tru => true | _ => false end
  | Fix a =>
      match y with
      | Fix b => a =? b
      | Big b => int64_ok b && (b =? a)
      | Flt k m e => dy_eqb (rne (prec_of k) a 1) (m, e)
      | Rat n d => (d =? 1) && int64_ok n && (n =? a)
      | _ => false
      end
  | Big a =>
      match y with
      | Big b => a =? b
      | Fix b => int64_ok a && (a =? b)
      | Flt _ m e => dy_eqb (m, e) (a, 0)
      | Rat n d => (d =? 1) && (a =? n)
      | _ => false
      end
  | Rat n d =>
      match y with
      | Fix b => (d =? 1) && int64_ok n && (n =? b)
      | Flt _ m e => let f := rne 53 n d in dy_is_rat f n d && dy_eqb f (m, e)
      | Rat n' d' => n * d' =? n' * d
      | Big b => (d =? 1) && (b =? n)
      | _ => false
      end
  | Flt k m e => flt_equal_num k m e y
  | Chr c => match y with Chr c' => (c =? c')%N | _ => false end
  | Str s => match y with Str s' => lN_eqb s s' | _ => false end
  | Sym s => match y with Sym s' => equal_fold s s' | _ => false end
  | Lst xs => match y with Lst ys => all2 oeq xs ys | _ => false end
  | Tl v => match y with Tl w => oeq v w | _ => false end
  | Vec xs => match y with Vec ys => all2 oeq xs ys | _ => false end
  end.

(* ------------------------------------------------------------------------------------------------ *)
(* 5. eq, eql, equal, equalp                                                                         *)

(* eq (eq.go): equal type words, then symbols by spelling, everything else by data word *)
Definition eq_m (a b : ref) : bool :=
  match r_obj a, r_obj b with
  | Sym s, Sym s' => lN_eqb s s'
  | x, y => same_gotype x y && (r_word a =? r_word b)%N
  end.

(* The eq test that equal/equalp apply to ELEMENTS of lists: for symbols, nil and t it does not depend on
   data words; for the other kinds it can only succeed when both elements are one box, and then the
   element is compared with itself, which the structural part below also accepts (no NaN in the
   universe).  Element data words are therefore not part of the model. *)
Definition eqs (x y : obj) : bool :=
  match x, y with
  | Sym s, Sym s' => lN_eqb s s'
  | Nil, Nil | Tru, Tru => true
  | _, _ => false
  end.

(* the part of Eql.Call after `if eq(x, y)` (with the repair C16-1: y is type-checked) *)
Definition eql_s (x y : obj) : bool :=
  match x with
  | Chr c => match y with Chr c' => (c =? c')%N | _ => false end
  | Str s => match y with Str s' => lN_eqb s s' | _ => false end      (* x == y on interfaces *)
  | Fix _ | Big _ | Rat _ _ | Flt _ _ _ => is_number y && same_m x y
  | _ => false
  end.
Definition eql_m (a b : ref) : bool := eq_m a b || eql_s (r_obj a) (r_obj b).

Fixpoint equal_s (x y : obj) {struct x} : bool :=
  eqs x y ||
  match x with
  | Chr c => match y with Chr c' => (c =? c')%N | _ => false end
  | Fix _ | Big _ | Rat _ _ | Flt _ _ _ => is_number y && same_m x y
  | Str s => match y with Str s' => equal_fold s s' | _ => false end
  | Lst xs => match y with Lst ys => all2 equal_s xs ys | _ => false end
  | Vec xs => match y with Vec ys => all2 oeq xs ys | _ => false end      (* tx.Equal(y) *)
  | Tl v => match y with Tl w => equal_s v w | _ => false end
  | _ => false
  end.
Definition equal_m (a b : ref) : bool := eq_m a b || equal_s (r_obj a) (r_obj b).

Fixpoint equalp_s (x y : obj) {struct x} : bool :=
  eqs x y ||
  match x with
  | Chr c => match y with Chr c' => (c =? c')%N || (to_lower c =? to_lower c')%N | _ => false end
  | Fix _ | Big _ | Rat _ _ | Flt _ _ _ => is_number y && same_m x y
  | Str s => match y with Str s' => equal_fold s s' | _ => false end
  | Lst xs => match y with Lst ys => all2 equalp_s xs ys | _ => false end
  | Vec xs => match y with Vec ys => all2 oeq xs ys | _ => false end
  | Tl v => match y with Tl w => equal_s v w | _ => false end             (* equal, not equalp: as in the code *)
  | Nil => match y with Nil => true | _ => false end                      (* default: ObjectEqual (repair C16-2) *)
  | Tru => match y with Tru => true | _ => false end
  | Sym s => match y with Sym s' => equal_fold s s' | _ => false end      (* default: Symbol.Equal *)
  end.
Definition equalp_m (a b : ref) : bool := eq_m a b || equalp_s (r_obj a) (r_obj b).

(* ------------------------------------------------------------------------------------------------ *)
(* 6. sxhash: sum of (byte & 0xdf) over the SEN text of hashData(object)                               *)

(* ojg v1.27.0 string.go senMap, rows 0x20..0x7f (o: plain, 0: plain but not first, x: forces quotes,
   h: html, others: escaped) *)
Definition senMap : string :=
  "xx""xoxhxxxooxoox0000000000xxhxhoooooooooooooooooooooooooooox\xoooooooooooooooooooooooooooooxoxo.".
Inductive sclass := CO | CZ | CX | COther.
Definition sen_class (c : N) : sclass :=
  if (c <? 32)%N then COther else
  match String.get (N.to_nat (c - 32)) senMap with
  | Some "o"%char => CO
  | Some "0"%char => CZ
  | Some "x"%char => CX
  | _ => COther
  end.
(* UTF-8 of a code point below 0x10000 *)
Definition utf8 (c : N) : list N :=
  (if c <? 128 then [c]
   else if c <? 2048 then [192 + c / 64; 128 + c mod 64]
   else [224 + c / 4096; 128 + (c / 64) mod 64; 128 + c mod 64])%N.
Definition mask_sum (bs : list N) : N := fold_left (fun a b => a + N.land b 223)%N bs 0%N.

(* a code point the string model covers: ASCII of class o / 0 / x, or non-ASCII below 0x10000 other than
   U+2028 / U+2029 and the surrogates (written through unchanged) *)
Definition cp_plain (c : N) : bool :=
  (if c <? 128 then match sen_class c with COther => false | _ => true end
   else (c <? 65536) && negb ((c =? 8232) || (c =? 8233)) && negb ((55296 <=? c) && (c <=? 57343)))%N.
Definition str_bytes (s : list N) : list N := List.concat (List.map utf8 s).
(* AppendSENString for strings of plain code points: quoted when longer than 64 bytes, when the first
   byte may not start a token, or when some byte forces quotes *)
Definition sen_quoted (s : list N) : bool :=
  match s with
  | [] => true
  | c :: _ =>
      (64 <? N.of_nat (List.length (str_bytes s)))%N
      || (if (c <? 128)%N then match sen_class c with CO => false | _ => true end else false)
      || existsb (fun c => (c <? 128)%N && match sen_class c with CX => true | _ => false end) s
  end.
Definition hash_string (s : list N) : option N :=
  if forallb cp_plain s then Some ((if sen_quoted s then 4 else 0) + mask_sum (str_bytes s))%N else None.

(* decimal digits of an integer, as strconv.AppendInt / the printer in base 10 write it *)
Fixpoint uint_cps (u : Decimal.uint) : list N :=
  match u with
  | Decimal.Nil => []
  | Decimal.D0 u => 48%N :: uint_cps u | Decimal.D1 u => 49%N :: uint_cps u
  | Decimal.D2 u => 50%N :: uint_cps u | Decimal.D3 u => 51%N :: uint_cps u
  | Decimal.D4 u => 52%N :: uint_cps u | Decimal.D5 u => 53%N :: uint_cps u
  | Decimal.D6 u => 54%N :: uint_cps u | Decimal.D7 u => 55%N :: uint_cps u
  | Decimal.D8 u => 56%N :: uint_cps u | Decimal.D9 u => 57%N :: uint_cps u
  end.
Definition dec_cps (z : Z) : list N :=
  match Z.to_int z with
  | Decimal.Pos u => uint_cps u
  | Decimal.Neg u => 45%N :: uint_cps u
  end.

(* hashData (sxhash.go, repairs C16-9 and C16-10) builds the data the SEN writer gets:
   - a string or symbol rune by rune through foldRune, the lowest rune of the unicode.SimpleFold orbit: on the
     modelled alphabet that is the upper-case letter (K for k and KELVIN SIGN, S for s and LONG S);
   - a real number as float64(float32(RealValue())): the value rounded to double and then to single precision;
   - lists, dotted tails and vectors element by element; everything else is Simplify()d (a character is the
     string of that character, not folded). *)
Definition cfold (c : N) : N :=
  let f := fold c in if ((97 <=? f) && (f <=? 122))%N then (f - 32)%N else f.

(* the value of a dyadic as a rational *)
Definition dyQ (x : Z * Z) : Q :=
  let '(m, e) := x in if 0 <=? e then inject_Z (m * 2 ^ e) else Qmake m (Z.to_pos (2 ^ (- e))).
(* the value of a number *)
Definition num_val (x : obj) : Q :=
  match x with
  | Fix z | Big z => inject_Z z
  | Rat n d => Qmake n (Z.to_pos d)
  | Flt _ m e => dyQ (m, e)
  | _ => inject_Z 0
  end.
(* rounding to p bits is a function of the value: it is given the value in lowest terms *)
Definition roundQ (p : Z) (q : Q) : Q := let r := Qred q in Qred (dyQ (rne p (Qnum r) (Zpos (Qden r)))).
(* float64(float32(RealValue())): RealValue rounds a bignum or ratio to a double (a fixnum converts the same way,
   a float is its own value), the conversion to float32 rounds to 24 bits; in lowest terms *)
Definition hcanon (x : obj) : Q := roundQ 24 (roundQ 53 (num_val x)).

(* a code: the masked byte sum of the text that is modelled, and the canonical values of the numbers whose text
   (strconv's shortest formatting of a float64) is not: the real code adds a function of each such value *)
Record hcode := mk_hcode { h_sum : N; h_nums : list Q }.
Definition hc_add (a b : hcode) : hcode := mk_hcode (h_sum a + h_sum b)%N (h_nums a ++ h_nums b).
Definition opt_add (a b : option hcode) : option hcode :=
  match a, b with Some x, Some y => Some (hc_add x y) | _, _ => None end.
Definition hc_text (o : option N) : option hcode := option_map (fun n => mk_hcode n []) o.
(* a float64 that is an integer below 10^6 in magnitude is written as its decimal digits *)
Definition hash_num (q : Q) : hcode :=
  if (Zpos (Qden q) =? 1) && (Z.abs (Qnum q) <? 1000000) then mk_hcode (mask_sum (dec_cps (Qnum q))) []
  else mk_hcode 0%N [q].

(* the code of one object; None = not modelled (strings with escaped characters) *)
Fixpoint hsum (x : obj) : option hcode :=
  match x with
  | Nil => hc_text (Some (mask_sum [110; 117; 108; 108])%N)             (* null *)
  | Tru => hc_text (Some (mask_sum [116; 114; 117; 101])%N)             (* true *)
  | Fix _ | Big _ | Rat _ _ | Flt _ _ _ => Some (hash_num (hcanon x))
  | Chr c => hc_text (hash_string [c])
  | Str s => hc_text (hash_string (map cfold s))
  | Sym s => hc_text (hash_string (map cfold s))
  | Tl v => hsum v
  | Lst xs | Vec xs =>
      (* "[" e1 " " e2 ... "]": '[' & 0xdf = 91, ']' & 0xdf = 93, ' ' & 0xdf = 0 *)
      opt_add (hc_text (Some 184%N))
              ((fix go (l : list obj) : option hcode :=
                  match l with [] => hc_text (Some 0%N) | e :: l' => opt_add (hsum e) (go l') end) xs)
  end.
Definition sxhash_m (x : obj) : option hcode := hsum x.   (* & 0x7fffffffffffffff never bites below 2^63 *)

(* ------------------------------------------------------------------------------------------------ *)
(* 7. The hash table: map[Object]Object                                                              *)

(* which stored key an operation reaches: Go's == on interface values used as map keys, after HashTable.Key *)
Inductive gokey :=
| KNil | KTru | KFix (z : Z) | KFlt (k : fkind) (m e : Z) | KChr (c : N) | KStr (s : list N) | KSym (s : list N)
| KBig (z : Z) | KRat (n d : Z)     (* *Bignum, *Ratio: Go would compare the pointers; HashTable.Key resolves the key to the
                                      stored key of the same Go type that is Equal (repair C16-5), so the VALUE decides *)
| KByt (u : bool) (v : Z)           (* *SignedByte (u = false) / *UnsignedByte (u = true): pointer-held numbers too, resolved by
                                      HashTable.Key to the stored key of the same Go type that is Equal *)
| KPtr (kind : N) (word : N)       (* *Vector 2: pointer identity *)
| KUnhashable.                     (* slip.List: not comparable in Go; HashTable.Key signals a type-error (repair C16-4) *)
Definition gokey_of (r : ref) : gokey :=
  match r_obj r with
  | Nil => KNil | Tru => KTru | Fix z => KFix z | Flt k m e => KFlt k m e | Chr c => KChr c
  | Str s => KStr s | Sym s => KSym s
  | Big z => KBig z | Rat n d => KRat n d | Vec _ => KPtr 2 (r_word r)
  | Lst _ | Tl _ => KUnhashable
  end.
Definition gokey_eqb (a b : gokey) : bool :=
  match a, b with
  | KNil, KNil | KTru, KTru => true
  | KFix x, KFix y => x =? y
  | KFlt k m e, KFlt k' m' e' => fkind_eqb k k' && dy_eqb (m, e) (m', e')
  | KChr x, KChr y => (x =? y)%N
  | KStr x, KStr y | KSym x, KSym y => lN_eqb x y
  | KBig x, KBig y => x =? y                                   (* Bignum.Equal on a *Bignum: Cmp *)
  | KRat n d, KRat n' d' => n * d' =? n' * d                   (* Ratio.Equal on a *Ratio: big.Rat.Cmp *)
  | KByt u v, KByt u' v' => Bool.eqb u u' && (v =? v')         (* same Go type; Equal compares the values (signed: repair C16-12;
                                                                  before it a rune-wise trim identified e.g. -288 and -300) *)
  | KPtr k w, KPtr k' w' => (k =? k')%N && (w =? w')%N
  | _, _ => false
  end.
Definition hashable (k : gokey) : bool := match k with KUnhashable => false | _ => true end.

(* what is handed to the table as a key: a reference of the modelled universe, or a signed-byte / unsigned-byte
   number.  Those are outside the universe of the predicates (their Equal is not even symmetric against floats);
   as KEYS they matter because they are the other numbers held by a pointer.  Restriction: the value is inside
   int64 (as (coerce n 'signed-byte) of a fixnum makes it): Equal on two of the same type is equality of the
   values, and NormalizeNumber turns the object into the fixnum v, so that eql sees the integer v.  w is the data word (the pointer). *)
Inductive tkey := TRef (r : ref) | TByt (u : bool) (v : Z) (w : N).
Coercion TRef : ref >-> tkey.
Definition tkey_gokey (k : tkey) : gokey := match k with TRef r => gokey_of r | TByt u v _ => KByt u v end.

(* operations name keys by their index in a pool of references; values are integers (None = nil).

   VALUES.  What a table stores is an OBJECT, and the table never looks at it: (setf gethash) is the Go
   assignment ht[key] = value (Gethash.Place), whatever is there already.  A value is therefore named by an
   integer code that identifies the object, not merely its number:  0 is nil, and  100 * r + n  (1 <= n < 100)
   is the object of representation r holding the number n:
     r = 0  the fixnum n            r = 1  the double-float n.0        r = 2  the single-float n.0
     r = 3  a list (n), box A       r = 4  a second list (n), box B (made separately: equal, not eq)
   Different codes are different objects, but slip.ObjectEqual - the per-type Equal methods of section 4 -
   accepts many such pairs: a fixnum Equals the float of its value, a list Equals an element-wise equal list.
   val_equal_m is ObjectEqual on value codes; it is NOT part of what the table does (t_put below ignores it) and
   is here for the statement that it must not be: see t_put_unless and Proofs7. *)
Definition val_rep (c : Z) : Z := c / 100.
Definition val_num (c : Z) : Z := c mod 100.
Definition val_code (r n : Z) : Z := 100 * r + n.
Definition val_is_number (c : Z) : bool := (val_rep c <=? 2) && negb (val_num c =? 0).
Definition val_is_list (c : Z) : bool := (3 <=? val_rep c) && (val_rep c <=? 4) && negb (val_num c =? 0).
Definition val_wf (c : Z) : bool := (c =? 0) || ((0 <=? c) && (val_is_number c || val_is_list c)).
(* slip.ObjectEqual(a, b) on value objects: nil only nil; numbers by value across representations
   (Fixnum.Equal / SingleFloat.Equal / DoubleFloat.Equal on an integral value below 100: exact);
   lists element-wise (List.Equal), whichever box *)
Definition val_equal_m (a b : Z) : bool :=
  (a =? b) ||
  ((val_num a =? val_num b) && ((val_is_number a && val_is_number b) || (val_is_list a && val_is_list b))).
Inductive hop :=
| HPut (k : nat) (v : Z)     (* (setf (gethash k h) v) *)
| HGet (k : nat)             (* (gethash k h) *)
| HRem (k : nat)             (* (remhash k h) *)
| HClr                       (* (clrhash h) *)
| HCount                     (* (hash-table-count h) *)
| HMap.                      (* (maphash f h), collecting *)
Inductive hobs :=
| OVal (v : Z)               (* setf returns the value *)
| OGet (v : option Z)        (* Some v: found (second value t); None: nil, nil *)
| OBool (b : bool)
| ONum (n : Z)
| OEntries (es : list (nat * Z))   (* (smallest pool index of a key equal to the stored key, value), as a set *)
| OTypeErr                   (* a type-error is signalled: the key is not hashable (HashTable.Key, repair C16-4) *)
| OFault                     (* host fault: only ever OBSERVED (before C16-4: unhashable key); the model never answers it *)
| OBadKey.                   (* the case is malformed: index outside the pool *)

(* table state: association list, most recent first, one entry per Go key *)
Definition tstate := list (nat * Z).      (* pool index of the key object stored, value *)
Section Table.
  Variable pool : list tkey.
  Definition key_at (i : nat) : option gokey := option_map tkey_gokey (nth_error pool i).
  Definition same_key (i j : nat) : bool :=
    match key_at i, key_at j with Some a, Some b => gokey_eqb a b | _, _ => false end.
  Fixpoint t_find (st : tstate) (i : nat) : option Z :=
    match st with [] => None | (j, v) :: st' => if same_key i j then Some v else t_find st' i end.
  Fixpoint t_del (st : tstate) (i : nat) : tstate :=
    match st with [] => [] | (j, v) :: st' => if same_key i j then t_del st' i else (j, v) :: t_del st' i end.
  (* m[k] = v keeps the key object already in the map when an equal key is present *)
  Fixpoint t_put (st : tstate) (i : nat) (v : Z) : tstate :=
    match st with
    | [] => [(i, v)]
    | (j, w) :: st' => if same_key i j then (j, v) :: st' else (j, w) :: t_put st' i v
    end.
  (* NOT what slip does: the store with a "nothing to change" guard - when the key is present and veq accepts
     (current value, new value) the assignment is skipped.  With veq = val_equal_m (slip.ObjectEqual) this is a
     tempting edit of Gethash.Place; Proofs7 shows it is the same table exactly when veq implies identity and
     refutes it for val_equal_m. *)
  Fixpoint t_put_unless (veq : Z -> Z -> bool) (st : tstate) (i : nat) (v : Z) : tstate :=
    match st with
    | [] => [(i, v)]
    | (j, w) :: st' => if same_key i j then (if veq w v then (j, w) :: st' else (j, v) :: st')
                       else (j, w) :: t_put_unless veq st' i v
    end.
  (* the smallest pool index holding a key Go considers the same (how the observation names a stored key) *)
  Definition canon (i : nat) : nat :=
    match find (fun j => same_key j i) (seq 0 (List.length pool)) with Some j => j | None => i end.
  Definition canon_entries (st : tstate) : list (nat * Z) := map (fun e => (canon (fst e), snd e)) st.
  Definition key_ok (i : nat) : option bool := option_map hashable (key_at i).
  Definition t_step (st : tstate) (o : hop) : tstate * hobs :=
    match o with
    | HPut i v => match key_ok i with
                  | None => (st, OBadKey) | Some false => (st, OTypeErr)
                  | Some true => (t_put st i v, OVal v) end
    | HGet i => match key_ok i with
                | None => (st, OBadKey) | Some false => (st, OTypeErr)
                | Some true => (st, OGet (t_find st i)) end
    | HRem i => match key_ok i with
                | None => (st, OBadKey) | Some false => (st, OTypeErr)
                | Some true => (t_del st i, OBool (match t_find st i with Some _ => true | None => false end)) end
    | HClr => ([], OBool true)
    | HCount => (st, ONum (Z.of_nat (List.length st)))
    | HMap => (st, OEntries (canon_entries st))      (* in the order of the association list: Go's order is arbitrary *)
    end.
  Fixpoint t_run (st : tstate) (ops : list hop) : list hobs :=
    match ops with [] => [] | o :: ops' => let '(st', ob) := t_step st o in ob :: t_run st' ops' end.
  Fixpoint t_final (st : tstate) (ops : list hop) : tstate :=
    match ops with [] => st | o :: ops' => t_final (fst (t_step st o)) ops' end.
End Table.
