(* C16 — the comparison evaluated on every run.  Three kinds of cases (one shard family each):
     eq_case : a few references with the observed matrices of eq / eql / equal / equalp and the sxhash codes;
     ht_case : a pool of keys, a history of hash-table operations and what each returned;
     ty_case : typep / type-of / subtypep observations against the regenerated tables.
   Codes: 0 ok; 1 model <> implementation, the observed behaviour keeps the laws inside the guard;
   2 model <> implementation and the observed behaviour breaks a law inside the guard (failing input);
   3 self-check: model = implementation but a law is broken inside the guard (guard or proof wrong). *)
From Coq Require Import ZArith NArith List Bool String QArith.
From C16 Require Import Model Spec Types.
Close Scope Q_scope.
Import ListNotations.
Open Scope list_scope.

Fixpoint check_all_from {A} (f : A -> N) (i : N) (cs : list A) : list (N * N) :=
  match cs with
  | [] => []
  | c :: cs' => let r := f c in (if N.eqb r 0 then [] else [(i, r)]) ++ check_all_from f (N.succ i) cs'
  end.
(* the orchestrator turns at most the first 50 entries into replays: entries with a failing input (code >= 2)
   go first, and of the code-1 entries (model <> implementation, laws kept) only two per shard are listed;
   their total is reported by the counter model_mismatches *)
Definition tidy (l : list (N * N)) : list (N * N) :=
  filter (fun p => negb (N.eqb (snd p) 1)) l ++ firstn 2 (filter (fun p => N.eqb (snd p) 1) l).
Definition code (agree laws : bool) : N :=
  if agree then (if laws then 0 else 3)%N else if laws then 1%N else 2%N.

(* ---- 1. predicates ------------------------------------------------------------------------------ *)
(* an observed predicate result: 0 nil, 1 t, 2 an error or a host fault *)
Definition pobs := (N * N * N * N)%type.        (* eq, eql, equal, equalp *)
Record eq_case := mk_eq_case {
  ec_refs : list ref;
  ec_obs : list (list pobs);      (* row i, column j: the predicates applied to (ref i, ref j) *)
  ec_hash : list Z                (* sxhash of each ref; -1: error *)
}.
Definition b2n (b : bool) : N := if b then 1%N else 0%N.
Definition model_pobs (a b : ref) : pobs := (b2n (eq_m a b), b2n (eql_m a b), b2n (equal_m a b), b2n (equalp_m a b)).
Definition pobs_eqb (x y : pobs) : bool :=
  let '(a, b, c, d) := x in let '(a', b', c', d') := y in N.eqb a a' && N.eqb b b' && N.eqb c c' && N.eqb d d'.
Definition model_matrix (rs : list ref) : list (list pobs) := map (fun a => map (model_pobs a) rs) rs.
(* the model's code against the observed one: exact when the whole text is modelled; when the code contains
   numbers whose text is strconv's float formatting (h_nums), the observed code is the modelled sum plus a
   function of those canonical values: it is at least the sum, and two references of the case with the same
   model code must have been given the same code *)
Definition Q_eqb (a b : Q) : bool := Z.eqb (Qnum a) (Qnum b) && Pos.eqb (Qden a) (Qden b).
Definition hcode_eqb (a b : hcode) : bool := N.eqb (h_sum a) (h_sum b) && all2 Q_eqb (h_nums a) (h_nums b).
Definition hash_agrees (r : ref) (h : Z) : bool :=
  match sxhash_m (r_obj r) with
  | Some c => match h_nums c with
              | [] => Z.eqb (Z.of_N (h_sum c)) h
              | _ => Z.leb (Z.of_N (h_sum c)) h
              end
  | None => true
  end.
Definition hash_consistent (rs : list ref) (hs : list Z) : bool :=
  let l := combine rs hs in
  forallb (fun p => forallb (fun q =>
    match sxhash_m (r_obj (fst p)), sxhash_m (r_obj (fst q)) with
    | Some c1, Some c2 => negb (hcode_eqb c1 c2) || Z.eqb (snd p) (snd q)
    | _, _ => true
    end) l) l.
Definition eq_agree (c : eq_case) : bool :=
  all2 (all2 pobs_eqb) (model_matrix (ec_refs c)) (ec_obs c) &&
  Nat.eqb (List.length (ec_hash c)) (List.length (ec_refs c)) &&
  forallb (fun p => hash_agrees (fst p) (snd p)) (combine (ec_refs c) (ec_hash c)) &&
  hash_consistent (ec_refs c) (ec_hash c).

(* the laws, judged on the OBSERVED matrix *)
Definition pget (m : list (list pobs)) (i j : nat) : pobs := nth j (nth i m []) (2, 2, 2, 2)%N.
Definition sel (k : nat) (p : pobs) : N :=
  let '(a, b, c, d) := p in match k with 0%nat => a | 1%nat => b | 2%nat => c | _ => d end.
Definition leN (a b : N) : bool := negb (N.eqb a 1) || N.eqb b 1.       (* a = t implies b = t *)
Fixpoint obj_eqb (x y : obj) {struct x} : bool :=
  match x, y with
  | Nil, Nil | Tru, Tru => true
  | Fix a, Fix b | Big a, Big b => Z.eqb a b
  | Rat n d, Rat n' d' => Z.eqb n n' && Z.eqb d d'
  | Flt k m e, Flt k' m' e' => fkind_eqb k k' && Z.eqb m m' && Z.eqb e e'
  | Chr a, Chr b => N.eqb a b
  | Str a, Str b | Sym a, Sym b => lN_eqb a b
  | Lst xs, Lst ys | Vec xs, Vec ys => all2 obj_eqb xs ys
  | Tl v, Tl w => obj_eqb v w
  | _, _ => false
  end.
(* one cell, one value: same Go type and same data word only for the same object (symbols exempt) *)
Definition consistentb (a b : ref) : bool :=
  negb (same_gotype (r_obj a) (r_obj b) && N.eqb (r_word a) (r_word b)) ||
  match r_obj a with Sym _ => true | _ => obj_eqb (r_obj a) (r_obj b) end.
Section Laws.
  Variable rs : list ref.
  Variable m : list (list pobs).
  Variable hs : list Z.
  Let idx := seq 0 (List.length rs).
  Let ob (i : nat) := r_obj (nth i rs (mkref Nil 0)).
  (* every predicate returns a boolean *)
  Definition law_total : bool :=
    forallb (fun i => forallb (fun j => let '(a, b, c, d) := pget m i j in
                                        N.ltb a 2 && N.ltb b 2 && N.ltb c 2 && N.ltb d 2) idx) idx.
  Definition law_chain : bool :=
    forallb (fun i => forallb (fun j => let '(a, b, c, d) := pget m i j in leN a b && leN b c && leN c d) idx) idx.
  Definition law_refl : bool := forallb (fun i => pobs_eqb (pget m i i) (1, 1, 1, 1)%N) idx.
  Definition law_sym : bool :=
    forallb (fun i => forallb (fun j =>
      negb (sym_guard (ob i) && sym_guard (ob j)) || pobs_eqb (pget m i j) (pget m j i)) idx) idx.
  Definition law_trans : bool :=
    forallb (fun i => forallb (fun j => forallb (fun k =>
      negb (trans_guard (ob i) && trans_guard (ob j) && trans_guard (ob k)) ||
      forallb (fun p => negb (N.eqb (sel p (pget m i j)) 1 && N.eqb (sel p (pget m j k)) 1) || N.eqb (sel p (pget m i k)) 1)
              [0; 1; 2; 3]%nat) idx) idx) idx.
  Definition law_hash : bool :=
    forallb (fun i => forallb (fun j =>
      negb (hash_dom2 (ob i) (ob j) && wf (ob i) && wf (ob j)) ||
      negb (N.eqb (sel 2 (pget m i j)) 1) ||
      (Z.eqb (nth i hs (-1)%Z) (nth j hs (-2)%Z) && Z.leb 0 (nth i hs (-1)%Z))) idx) idx.
  Definition refs_consistent : bool := forallb (fun a => forallb (consistentb a) rs) rs.
  Definition laws : bool :=
    negb refs_consistent || (law_total && law_chain && law_refl && law_sym && law_trans && law_hash).
  (* law violations anywhere, ignoring the guards: what the known findings are about *)
  Definition unguarded_violations : N :=
    N.of_nat (List.length (filter (fun p =>
      let '(i, j) := p in
      negb (pobs_eqb (pget m i j) (pget m j i)) ||
      (N.eqb (sel 2 (pget m i j)) 1 && negb (Z.eqb (nth i hs (-1)%Z) (nth j hs (-2)%Z))) ||
      existsb (fun k => existsb (fun q => N.eqb (sel q (pget m i j)) 1 && N.eqb (sel q (pget m j k)) 1 &&
                                          negb (N.eqb (sel q (pget m i k)) 1)) [0; 1; 2; 3]%nat) idx)
      (list_prod idx idx))).
End Laws.
Definition check_eq_case (c : eq_case) : N := code (eq_agree c) (laws (ec_refs c) (ec_obs c) (ec_hash c)).
Definition check_all_eq (cs : list eq_case) := tidy (check_all_from check_eq_case 0%N cs).
Definition eq_mismatches (cs : list eq_case) : N := N.of_nat (List.length (check_all_from check_eq_case 0%N cs)).
Definition outside_guard_violations (cs : list eq_case) : N :=
  fold_left (fun a c => (a + unguarded_violations (ec_refs c) (ec_obs c) (ec_hash c))%N) cs 0%N.
(* cases whose references are not consistent (same type and data word, different objects): there the laws
   are not judged; expected 0 *)
Definition inconsistent_cases (cs : list eq_case) : N :=
  N.of_nat (List.length (filter (fun c => negb (refs_consistent (ec_refs c))) cs)).
Definition guarded_triples (cs : list eq_case) : N :=
  fold_left (fun a c => (a + N.of_nat (List.length (filter trans_guard (map r_obj (ec_refs c)))))%N) cs 0%N.

(* ---- 2. hash tables ------------------------------------------------------------------------------ *)
Record ht_case := mk_ht_case {
  hc_test : N;                  (* what hash-table-test reported: 0 eq, 1 eql, 2 equal, 3 equalp *)
  hc_pool : list tkey;
  hc_tobs : list (list N);      (* the reported test applied by the implementation to every ordered pair of pool keys *)
  hc_ops : list hop;
  hc_obs : list hobs
}.
Fixpoint ins_entry (e : nat * Z) (l : list (nat * Z)) : list (nat * Z) :=
  match l with
  | [] => [e]
  | f :: l' => if Nat.ltb (fst e) (fst f) || (Nat.eqb (fst e) (fst f) && Z.leb (snd e) (snd f)) then e :: l else f :: ins_entry e l'
  end.
Definition sort_entries (l : list (nat * Z)) : list (nat * Z) := fold_right ins_entry [] l.
Definition optZ_eqb (a b : option Z) : bool :=
  match a, b with Some x, Some y => Z.eqb x y | None, None => true | _, _ => false end.
Definition entry_eqb (a b : nat * Z) : bool := Nat.eqb (fst a) (fst b) && Z.eqb (snd a) (snd b).
(* equality of observations, the entries of maphash as sets *)
Definition hobs_eqb (a b : hobs) : bool :=
  match a, b with
  | OVal x, OVal y | ONum x, ONum y => Z.eqb x y
  | OGet x, OGet y => optZ_eqb x y
  | OBool x, OBool y => Bool.eqb x y
  | OEntries x, OEntries y => all2 entry_eqb (sort_entries x) (sort_entries y)
  | OTypeErr, OTypeErr | OFault, OFault | OBadKey, OBadKey => true
  | _, _ => false
  end.
Definition ht_agree (c : ht_case) : bool :=
  all2 hobs_eqb (t_run (hc_pool c) [] (hc_ops c)) (hc_obs c) &&
  (* the model's test on the pool is the implementation's *)
  all2 (all2 N.eqb) (map (fun a => map (fun b => b2n (key_test (hc_test c) a b)) (hc_pool c)) (hc_pool c)) (hc_tobs c).
(* the guard on which the observed behaviour is JUDGED (formerly: keys of the simple kinds; now the guard of the
   refinement theorem itself).  By simple_pool_ok (Proofs6) such a
   pool satisfies pool_ok for eql, so the unchanged code is a finite map there by table_refines_map. *)
Definition const_wordsb (a b : ref) : bool :=
  match r_obj a, r_obj b with
  | Nil, Nil | Tru, Tru => N.eqb (r_word a) (r_word b)
  | _, _ => true
  end.
(* the references among the keys; byte keys: one pointer, one number *)
Definition key_refs (pool : list tkey) : list ref := flat_map (fun k => match k with TRef r => [r] | TByt _ _ _ => [] end) pool.
Definition byt_consistentb (a b : tkey) : bool :=
  match a, b with
  | TByt u v w, TByt u' v' w' => negb (N.eqb w w') || (Bool.eqb u u' && Z.eqb v v')
  | _, _ => true
  end.
Definition keys_consistent (pool : list tkey) : bool :=
  forallb (fun a => forallb (fun b => consistentb a b && const_wordsb a b) (key_refs pool)) (key_refs pool) &&
  forallb (fun a => forallb (byt_consistentb a) pool) pool.
(* the guard is the guard of C16_table_refines_map itself, evaluated with the MODEL's eql on the pool (the
   reported test is always eql): by that theorem the unchanged code is the finite map there.  Pools of simple keys
   are inside it by C16_simple_pool_ok; pools with signed-byte / unsigned-byte keys when no two keys of different
   Go types are eql. *)
Definition ht_guard (c : ht_case) : bool :=
  N.eqb (hc_test c) 1 && pool_ok (hc_pool c) (pool_test 1 (hc_pool c)) &&
  keys_consistent (hc_pool c) &&
  forallb (op_in_range (List.length (hc_pool c))) (hc_ops c).
Definition all_refs (pool : list tkey) : bool := forallb (fun k => match k with TRef _ => true | _ => false end) pool.
(* the observed test as a relation on pool indices *)
Definition tobs_rel (c : ht_case) (i j : nat) : bool := N.eqb (nth j (nth i (hc_tobs c) []) 2%N) 1.
(* the observed behaviour is that of the finite map under the test AS THE IMPLEMENTATION ANSWERS IT *)
Definition ht_spec_ok (c : ht_case) : bool :=
  forallb (forallb (fun x => N.ltb x 2)) (hc_tobs c) &&
  all2 hobs_eqb (s_run (hc_pool c) (tobs_rel c) [] (hc_ops c)) (hc_obs c).
Definition check_ht_case (c : ht_case) : N := code (ht_agree c) (negb (ht_guard c) || ht_spec_ok c).
Definition check_all_ht (cs : list ht_case) := tidy (check_all_from check_ht_case 0%N cs).
Definition ht_mismatches (cs : list ht_case) : N := N.of_nat (List.length (check_all_from check_ht_case 0%N cs)).
Definition ht_guarded (cs : list ht_case) : N := N.of_nat (List.length (filter ht_guard cs)).
Definition ht_spec_violations (cs : list ht_case) : N := N.of_nat (List.length (filter (fun c => negb (ht_spec_ok c)) cs)).
(* self-check of the guard theorem on the run's pools: a guarded pool satisfies pool_ok for eql *)
(* self-check of C16_simple_pool_ok on the run's pools: a consistent pool of simple keys satisfies pool_ok *)
Definition ht_guard_implies_pool_ok (cs : list ht_case) : N :=
  N.of_nat (List.length (filter (fun c => all_refs (hc_pool c) && simple_pool (key_refs (hc_pool c)) && keys_consistent (hc_pool c) &&
                                           negb (pool_ok (hc_pool c) (pool_test 1 (hc_pool c)))) cs)).
Definition ht_byte_pools_guarded (cs : list ht_case) : N :=
  N.of_nat (List.length (filter (fun c => ht_guard c && negb (all_refs (hc_pool c))) cs)).
(* how often the run's histories store, under a key that is present, a DIFFERENT value object that
   slip.ObjectEqual accepts against the current one (5.0 over 5, a second list over an equal list): the stores a
   "nothing to change" guard in (setf gethash) would lose (Proofs7: guarded_store_iff_identity).  Counted on the
   model's state; expected well above 0 on every run (an enumerated block of the generator does it for every
   ordered pair of representations). *)
Fixpoint eq_overwrites (pool : list tkey) (st : tstate) (ops : list hop) : nat :=
  match ops with
  | [] => 0%nat
  | o :: ops' =>
      ((match o with
        | HPut i v => match key_ok pool i, t_find pool st i with
                      | Some true, Some w => if val_equal_m w v && negb (Z.eqb w v) then 1 else 0
                      | _, _ => 0
                      end
        | _ => 0
        end) + eq_overwrites pool (fst (t_step pool st o)) ops')%nat
  end.
Definition ht_equal_value_overwrites (cs : list ht_case) : N :=
  fold_left (fun a c => (a + N.of_nat (eq_overwrites (hc_pool c) [] (hc_ops c)))%N) cs 0%N.
(* values outside the coding of Model.v section 7 among the operations or the observations: expected 0 *)
Definition hobs_vals (o : hobs) : list Z :=
  match o with OVal v => [v] | OGet (Some v) => [v] | OEntries es => map snd es | _ => [] end.
Definition ht_malformed_values (cs : list ht_case) : N :=
  fold_left (fun a c => (a + N.of_nat (List.length (filter (fun v => negb (val_wf v))
     (flat_map (fun o => match o with HPut _ v => [v] | _ => [] end) (hc_ops c) ++ flat_map hobs_vals (hc_obs c)))))%N) cs 0%N.

(* ---- 3. types ------------------------------------------------------------------------------------ *)
Inductive ty_case :=
| TyTypep (kind : string) (type_of_obs : string) (obs : list (string * N))   (* typep of one object for many type symbols *)
| TySub (d1 d2 : tdes) (obs : N).                                          (* 0 nil, 1 t, 2 fault/error *)
Definition sres_code (r : sres) : N := match r with SBool b => b2n b end.
Definition check_ty_case (t kt : ctable) (c : ty_case) : N :=
  match c with
  | TyTypep k tobs obs =>
      let agree := String.eqb (type_of_t kt k) tobs &&
                   forallb (fun p => N.eqb (b2n (typep_t kt k (fst p))) (snd p)) obs in
      (* the law judged on the observation: the object is of its own type-of, typep never fails *)
      let law := forallb (fun p => N.ltb (snd p) 2 && (negb (String.eqb (lower (fst p)) (lower tobs)) || N.eqb (snd p) 1)) obs in
      code agree law
  | TySub d1 d2 o =>
      let agree := N.eqb (sres_code (subtypep_d t d1 d2)) o in
      (* on symbols naming registered classes subtypep must answer; reflexivity on the observation *)
      let law := match d1, d2 with
                 | DSym a, DSym b => N.ltb o 2 && (negb (String.eqb (lower a) (lower b) && mem (lower a) (names t)) || N.eqb o 1)
                 | _, _ => N.ltb o 2
                 end in
      code agree law
  end.
Definition check_all_ty (t kt : ctable) (cs : list ty_case) := tidy (check_all_from (check_ty_case t kt) 0%N cs).
Definition ty_mismatches (t kt : ctable) (cs : list ty_case) : N := N.of_nat (List.length (check_all_from (check_ty_case t kt) 0%N cs)).
