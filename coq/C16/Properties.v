(* C16 — property theorems only.  "ref" = an object together with the data word of the interface value that
   holds it (what eq compares); consistent2 a b = "same Go type and same data word only for the same object". *)
From Coq Require Import ZArith NArith List Bool Permutation.
From C16 Require Import Model Spec Rounding RoundExact Proofs Proofs2 Proofs3 Proofs4 Proofs5 Proofs6 Proofs7.
Import ListNotations.

(* (1) eq implies eql implies equal implies equalp: every pair of references, no guard. *)
Theorem C16_eq_implies_eql : forall a b, eq_m a b = true -> eql_m a b = true.
Proof. exact eq_implies_eql. Qed.
Print Assumptions C16_eq_implies_eql.
Theorem C16_eql_implies_equal : forall a b, eql_m a b = true -> equal_m a b = true.
Proof. exact eql_implies_equal. Qed.
Print Assumptions C16_eql_implies_equal.
Theorem C16_equal_implies_equalp : forall a b, equal_m a b = true -> equalp_m a b = true.
Proof. exact equal_implies_equalp. Qed.
Print Assumptions C16_equal_implies_equalp.

(* (2) eq is an equivalence on all references (no guard). *)
Theorem C16_eq_equivalence :
  (forall a, eq_m a a = true) /\ (forall a b, eq_m a b = eq_m b a) /\
  (forall a b c, eq_m a b = true -> eq_m b c = true -> eq_m a c = true).
Proof. exact (conj eq_m_refl (conj eq_m_sym eq_m_trans)). Qed.
Print Assumptions C16_eq_equivalence.

(* (3) reflexivity: a reference is eql / equal / equalp to itself, and so is any separately built copy of the
   same object for equal and equalp (every object, any nesting; the universe has no NaN). *)
Theorem C16_reflexive : forall a,
  eql_m a a = true /\ equal_m a a = true /\ equalp_m a a = true.
Proof. exact refs_reflexive. Qed.
Print Assumptions C16_reflexive.
Theorem C16_reflexive_on_copies : forall x w w',
  equal_m (mkref x w) (mkref x w') = true /\ equalp_m (mkref x w) (mkref x w') = true.
Proof. exact copies_reflexive. Qed.
Print Assumptions C16_reflexive_on_copies.

(* (4) symmetry of eql, equal, equalp on all well-formed objects (any nesting, floats included).  Before repair
   C16-11 this needed ratio numerators below 2^62 (a bignum and a ratio were compared through roundings). *)
Theorem C16_eql_symmetric : forall a b, sym_guard (r_obj a) = true -> sym_guard (r_obj b) = true -> eql_m a b = eql_m b a.
Proof. exact eql_m_sym. Qed.
Print Assumptions C16_eql_symmetric.
Theorem C16_equal_symmetric : forall a b, sym_guard (r_obj a) = true -> sym_guard (r_obj b) = true -> equal_m a b = equal_m b a.
Proof. exact equal_m_sym. Qed.
Print Assumptions C16_equal_symmetric.
Theorem C16_equalp_symmetric : forall a b, sym_guard (r_obj a) = true -> sym_guard (r_obj b) = true -> equalp_m a b = equalp_m b a.
Proof. exact equalp_m_sym. Qed.
Print Assumptions C16_equalp_symmetric.
(* Object.Equal (what vectors compare their elements with) is symmetric with no guard at all *)
Theorem C16_object_equal_symmetric : forall x y, oeq x y = oeq y x.
Proof. exact oeq_sym. Qed.
Print Assumptions C16_object_equal_symmetric.

(* (5) transitivity of eql, equal, equalp on well-formed objects that contain no float. *)
Theorem C16_eql_transitive : forall a b c, consistent2 a b -> consistent2 b c ->
  trans_guard (r_obj a) = true -> trans_guard (r_obj b) = true -> trans_guard (r_obj c) = true ->
  eql_m a b = true -> eql_m b c = true -> eql_m a c = true.
Proof. exact eql_m_trans. Qed.
Print Assumptions C16_eql_transitive.
Theorem C16_equal_transitive : forall a b c, consistent2 a b -> consistent2 b c ->
  trans_guard (r_obj a) = true -> trans_guard (r_obj b) = true -> trans_guard (r_obj c) = true ->
  equal_m a b = true -> equal_m b c = true -> equal_m a c = true.
Proof. exact equal_m_trans. Qed.
Print Assumptions C16_equal_transitive.
Theorem C16_equalp_transitive : forall a b c, consistent2 a b -> consistent2 b c ->
  trans_guard (r_obj a) = true -> trans_guard (r_obj b) = true -> trans_guard (r_obj c) = true ->
  equalp_m a b = true -> equalp_m b c = true -> equalp_m a c = true.
Proof. exact equalp_m_trans. Qed.
Print Assumptions C16_equalp_transitive.

(* facts about rounding: round-to-nearest never crosses a power of two (what the guards of (4) and (5) rested on
   before repair C16-11), and it is exact on a value that fits the precision (what (6) rests on) *)
Theorem C16_rounding_bound : forall p n d k, (0 < d)%Z -> (0 <= k)%Z -> (Z.abs n <= 2 ^ k * d)%Z ->
  let '(m, e) := rne p n d in
  if (0 <=? e)%Z then (Z.abs m * 2 ^ e <= 2 ^ k)%Z else (Z.abs m <= 2 ^ k * 2 ^ (- e))%Z.
Proof. exact rne_bound. Qed.
Print Assumptions C16_rounding_bound.
Theorem C16_rounding_exact : forall p n d m0 s, (0 < p)%Z -> (0 < d)%Z ->
  dy_is_rat (m0, s) n d = true -> (Z.abs m0 < 2 ^ p)%Z -> dy_eqb (rne p n d) (m0, s) = true.
Proof. exact rne_exact. Qed.
Print Assumptions C16_rounding_exact.

(* (6) equal objects have equal sxhash codes.  Text of any kind (sxhash folds case the way equal does).  Numbers
   in two tiers: fl = false - no float anywhere, every fixnum, bignum and ratio; fl = true - floats too, every
   number being a single-float value in explicit form (integer below 2^24, ratio n/2^k with |n| < 2^24, float
   with a significand below 2^24), so that 1000000 = 1000000.0 = 1000000.0s0 and 1/2 = 0.5 are covered.  A code
   is the masked byte sum of the modelled text plus the canonical values of the numbers whose text is strconv's. *)
Theorem C16_sxhash_respects_equal : forall fl a b, consistent2 a b ->
  hash_dom fl (r_obj a) = true -> hash_dom fl (r_obj b) = true ->
  equal_m a b = true -> sxhash_m (r_obj a) = sxhash_m (r_obj b).
Proof. exact sxhash_respects_equal. Qed.
Print Assumptions C16_sxhash_respects_equal.

(* (7) hash tables: for EVERY history of setf-gethash / gethash / remhash / clrhash / hash-table-count /
   maphash over a pool of keys on which the table's test is an equivalence that coincides with Go's == on
   the representations of the hashable keys and relates no hashable key to an unhashable one, every
   observation of the Go-map model is the observation of the specification, computed from the history alone:
   an operation on an unhashable key (a list) signals a type-error and changes nothing; otherwise the table is
   the finite map under the test: a lookup returns the value last stored under an equivalent key (unless
   removed or cleared since), the count is the number of equivalence classes holding a value, maphash
   enumerates exactly those classes (as a set). *)
Theorem C16_table_refines_map : forall pool tst ops,
  pool_ok pool tst = true -> forallb (op_in_range (List.length pool)) ops = true ->
  Forall2 obs_equiv (t_run pool [] ops) (s_run pool tst [] ops).
Proof. exact table_refines_map. Qed.
Print Assumptions C16_table_refines_map.

(* the guard of (7) is met by every pool of keys of the simple kinds (nil, t, fixnums, bignums outside int64, ratios
   with a denominator above 1, characters, strings, symbols, vectors, lists) whose references are consistent: there the table (whose reported test is always eql) is
   a finite map under slip's eql, for every history. *)
Theorem C16_simple_pool_ok : forall rs,
  simple_pool rs = true ->
  (forall a b, In a rs -> In b rs -> consistent2 a b /\ const_words a b) ->
  pool_ok (map TRef rs) (pool_test 1 (map TRef rs)) = true.
Proof. exact simple_pool_ok. Qed.
Print Assumptions C16_simple_pool_ok.
Theorem C16_table_is_map_on_simple_keys : forall rs ops,
  simple_pool rs = true ->
  (forall a b, In a rs -> In b rs -> consistent2 a b /\ const_words a b) ->
  forallb (op_in_range (List.length rs)) ops = true ->
  Forall2 obs_equiv (t_run (map TRef rs) [] ops) (s_run (map TRef rs) (pool_test 1 (map TRef rs)) [] ops).
Proof. exact table_is_map_on_simple_keys. Qed.
Print Assumptions C16_table_is_map_on_simple_keys.
(* keys may also be signed-byte / unsigned-byte numbers (TByt: the other numbers held by a pointer, which
   HashTable.Key must resolve by type and value too).  (7) quantifies over such pools as it stands; its guard pool_ok
   is a boolean, evaluated on every pool of a run.  Here: separately allocated copies of one value are one key, and
   the pool is inside the guard; a signed and an unsigned byte of one value, or a byte and the fixnum of its value,
   are eql but different keys, outside the guard (finding C16-hash-eql-numbers-are-different-keys). *)
Theorem C16_table_byte_keys :
  t_run pool_byt [] ops_byt =
    [OVal 1; OVal 2; ONum 1; OGet (Some 2%Z); OVal 3; OGet (Some 3%Z); OVal 8; OGet None; OBool true; OGet None; ONum 2;
     OEntries [(2%nat, 3%Z); (4%nat, 8%Z)]] /\
  s_run pool_byt (pool_test 1 pool_byt) [] ops_byt = t_run pool_byt [] ops_byt /\
  pool_ok pool_byt (pool_test 1 pool_byt) = true.
Proof. exact table_byte_keys. Qed.
Print Assumptions C16_table_byte_keys.
Theorem C16_table_byte_key_refuted :
  t_run pool_byt_mixed [] [HPut 0 1; HGet 1; HGet 2; HPut 1 2; HCount] = [OVal 1; OGet None; OGet None; OVal 2; ONum 2] /\
  s_run pool_byt_mixed (pool_test 1 pool_byt_mixed) [] [HPut 0 1; HGet 1; HGet 2; HPut 1 2; HCount] =
    [OVal 1; OGet (Some 1%Z); OGet (Some 1%Z); OVal 2; ONum 1] /\
  pool_coherent pool_byt_mixed (pool_test 1 pool_byt_mixed) = false /\ pool_equiv pool_byt_mixed (pool_test 1 pool_byt_mixed) = true.
Proof. exact table_byte_key_refuted. Qed.
Print Assumptions C16_table_byte_key_refuted.

(* (8) refutations outside the guards: the known findings *)
Theorem C16_transitivity_with_floats_refuted :
  (forallb (fun r => wf (r_obj r)) [w_a; w_b; w_c; w_third; w_third_s; w_third_d] = true) /\
  all_consistent [w_a; w_b; w_c] /\ all_consistent [w_third; w_third_s; w_third_d] /\
  (eql_m w_a w_b = true /\ eql_m w_b w_c = true /\ eql_m w_a w_c = false) /\
  (equal_m w_a w_b = true /\ equal_m w_b w_c = true /\ equal_m w_a w_c = false) /\
  (equalp_m w_a w_b = true /\ equalp_m w_b w_c = true /\ equalp_m w_a w_c = false) /\
  (equal_m w_third_s w_third = true /\ equal_m w_third w_third_d = true /\ equal_m w_third_s w_third_d = false) /\
  trans_guard (r_obj w_b) = false.
Proof. exact transitivity_with_floats_refuted. Qed.
Print Assumptions C16_transitivity_with_floats_refuted.
(* repaired findings: a bignum and a ratio are compared exactly in both orders; k / KELVIN SIGN and
   1000000 / 1000000.0 / 1000000.0s0 and 1/2 / 0.5 have equal codes *)
Theorem C16_bignum_ratio_exact :
  wf (r_obj w_big) = true /\ wf (r_obj w_rat) = true /\
  eql_m w_big w_rat = false /\ eql_m w_rat w_big = false /\
  equalp_m w_big w_rat = false /\ equalp_m w_rat w_big = false /\
  eql_m w_big (mkref (Rat (2 ^ 80) 2) 3) = true /\ eql_m (mkref (Rat (2 ^ 80) 2) 3) w_big = true.
Proof. exact bignum_ratio_exact. Qed.
Print Assumptions C16_bignum_ratio_exact.
Theorem C16_sxhash_repaired :
  equal_m w_k w_kelvin = true /\ sxhash_m (r_obj w_k) = sxhash_m (r_obj w_kelvin) /\
  sxhash_m (r_obj w_kelvin) = Some (mk_hcode 75 []) /\
  equal_m w_mil w_mil_d = true /\ equal_m w_mil w_mil_s = true /\
  sxhash_m (r_obj w_mil) = sxhash_m (r_obj w_mil_d) /\ sxhash_m (r_obj w_mil) = sxhash_m (r_obj w_mil_s) /\
  hash_dom true (r_obj w_mil) = true /\ hash_dom true (r_obj w_mil_d) = true /\
  equal_m (mkref (Rat 1 2) 0) (mkref (Flt FDouble 1 (-1)) 1) = true /\
  sxhash_m (Rat 1 2) = sxhash_m (Flt FDouble 1 (-1)) /\ hash_dom true (Rat 1 2) = true /\
  sxhash_m (Fix 123456) = Some (mk_hcode 117 []).
Proof. exact sxhash_repaired. Qed.
Print Assumptions C16_sxhash_repaired.
(* outside the guard of (6): a fixnum beyond 2^53, the single-float and the double-float it converts to
   (known finding C16-sxhash-fixnum-beyond-2-53-and-single-float) *)
Theorem C16_sxhash_rounding_refuted :
  wf (r_obj w_f60) = true /\ equal_m w_f60 w_s60 = true /\ equal_m w_f60 w_d60 = true /\ equal_m w_s60 w_d60 = false /\
  sxhash_m (r_obj w_f60) = sxhash_m (r_obj w_d60) /\ sxhash_m (r_obj w_f60) <> sxhash_m (r_obj w_s60) /\
  hash_dom true (r_obj w_f60) = false /\ hash_dom false (r_obj w_s60) = false.
Proof. exact sxhash_rounding_refuted. Qed.
Print Assumptions C16_sxhash_rounding_refuted.
(* bignum and ratio keys (findings C16-hash-bignum-key-by-pointer, C16-hash-ratio-key-by-pointer, repaired): two
   separately allocated copies of one value are one key; the pool is inside the guard of (7) *)
Theorem C16_table_bignum_key_by_value :
  t_run pool_big [] ops_big =
    [OVal 1; OGet (Some 1%Z); OVal 2; ONum 1; OVal 7; OGet (Some 7%Z); OGet None; OEntries [(0%nat, 2%Z); (2%nat, 7%Z)]; OBool true; ONum 1; OGet None] /\
  s_run pool_big (pool_test 1 pool_big) [] ops_big = t_run pool_big [] ops_big /\
  pool_ok pool_big (pool_test 1 pool_big) = true.
Proof. exact table_bignum_key_by_value. Qed.
Print Assumptions C16_table_bignum_key_by_value.
Theorem C16_table_float_key_refuted :
  t_run pool_flt [] [HPut 0 1; HGet 1] = [OVal 1; OGet None] /\
  s_run pool_flt (pool_test 1 pool_flt) [] [HPut 0 1; HGet 1] = [OVal 1; OGet (Some 1%Z)] /\
  pool_coherent pool_flt (pool_test 1 pool_flt) = false /\ pool_equiv pool_flt (pool_test 1 pool_flt) = true.
Proof. exact table_float_key_refuted. Qed.
Print Assumptions C16_table_float_key_refuted.
(* a list as key (finding C16-hash-list-key-faults, repaired): the operations signal a type-error, the table is
   untouched, and the pool is inside the guard of (7) *)
Theorem C16_table_list_key_refused :
  t_run pool_lst [] ops_lst = [OTypeErr; OTypeErr; OVal 5; OTypeErr; ONum 1; OGet (Some 5%Z); OEntries [(1%nat, 5%Z)]] /\
  s_run pool_lst (pool_test 1 pool_lst) [] ops_lst = t_run pool_lst [] ops_lst /\
  pool_ok pool_lst (pool_test 1 pool_lst) = true.
Proof. exact table_list_key_refused. Qed.
Print Assumptions C16_table_list_key_refused.

(* (9) the guards are inhabited by non-trivial objects and histories *)
Theorem C16_guards_nonvacuous :
  forallb (fun r => trans_guard (r_obj r)) [ex_x; ex_y; ex_z] = true /\
  hash_dom false (Lst [Str [97; 98]%N; Fix 7]) = true /\ hash_dom true (Lst [Str [65; 66]%N; Big 7]) = true /\
  all_consistent [ex_x; ex_y; ex_z] /\
  eq_m ex_x ex_y = false /\ eql_m ex_x ex_y = false /\ equal_m ex_x ex_y = true /\ equal_m ex_y ex_z = true /\
  equal_m ex_x ex_z = true /\ equalp_m ex_x ex_z = true /\
  equal_m (mkref (Chr 99) 0) (mkref (Chr 67) 1) = false /\ equalp_m (mkref (Chr 99) 0) (mkref (Chr 67) 1) = true /\
  sxhash_m (Lst [Str [97; 98]%N; Fix 7]) = sxhash_m (Lst [Str [65; 66]%N; Big 7]) /\
  sxhash_m (Lst [Str [97; 98]%N; Fix 7]) = Some (mk_hcode 338 []).
Proof. exact guards_nonvacuous. Qed.
Print Assumptions C16_guards_nonvacuous.
Theorem C16_table_guard_nonvacuous :
  pool_ok ex_pool (pool_test 1 ex_pool) = true /\ forallb (op_in_range (List.length ex_pool)) ex_ops = true /\
  t_run ex_pool [] ex_ops =
    [OVal 1; OVal 2; ONum 1; OGet (Some 2%Z); OVal 3; OVal 4; OVal 5; OGet (Some 3%Z);
     OEntries [(0%nat, 2%Z); (2%nat, 3%Z); (4%nat, 4%Z); (7%nat, 5%Z)]; OBool true; OGet None; ONum 3; OVal 9; OBool true; ONum 0; OGet None].
Proof. exact table_guard_nonvacuous. Qed.
Print Assumptions C16_table_guard_nonvacuous.

(* (10) the table stores the value OBJECT it is given.  Values are codes naming an object (representation and
   number: Model.v section 7); slip.ObjectEqual (val_equal_m) accepts many pairs of different objects.
   (a) after (setf (gethash k h) v) the lookup of k is exactly v, from ANY state - in particular when the value
   that was there is ObjectEqual to v (5.0 over 5); together with C16_table_refines_map: for every history the
   lookup is the object last stored. *)
Theorem C16_table_store_then_lookup : forall pool st i v,
  same_key pool i i = true -> t_find pool (t_put pool st i v) i = Some v.
Proof. exact store_then_lookup. Qed.
Print Assumptions C16_table_store_then_lookup.
(* (b) a store that is skipped when a comparison veq accepts (current value, new value) is the same table for all
   pools, states, keys and values IF AND ONLY IF veq accepts only identical values *)
Theorem C16_table_guarded_store_iff_identity : forall veq : Z -> Z -> bool,
  (forall pool st i v, t_put_unless pool veq st i v = t_put pool st i v) <->
  (forall a b, veq a b = true -> a = b).
Proof. exact guarded_store_iff_identity. Qed.
Print Assumptions C16_table_guarded_store_iff_identity.
(* (c) ObjectEqual on values is not identity (fixnum / double-float / single-float of one number, two separately
   made lists with the same element), so the store guarded by it is refuted: 5.0 stored over 5 leaves the fixnum,
   where the unchanged model and the specification answer the double-float (the count is 1 either way) *)
Theorem C16_table_equal_value_store_refuted :
  (forallb (fun p => val_equal_m (fst p) (snd p) && negb (Z.eqb (fst p) (snd p)) && val_wf (fst p) && val_wf (snd p))
          equal_value_pairs = true /\
   forallb (fun p => negb (val_equal_m (fst p) (snd p)) && val_wf (fst p) && val_wf (snd p)) unequal_value_pairs = true) /\
  (let st := t_put one_key_pool [] 0 5%Z in
   t_find one_key_pool (t_put_unless one_key_pool val_equal_m st 0 105%Z) 0 = Some 5%Z /\
   t_find one_key_pool (t_put one_key_pool st 0 105%Z) 0 = Some 105%Z /\
   t_run one_key_pool [] [HPut 0 5%Z; HPut 0 105%Z; HGet 0; HCount] = [OVal 5; OVal 105; OGet (Some 105%Z); ONum 1] /\
   s_run one_key_pool (fun i j => Nat.eqb i j) [] [HPut 0 5%Z; HPut 0 105%Z; HGet 0; HCount] =
     [OVal 5; OVal 105; OGet (Some 105%Z); ONum 1] /\
   List.length (t_put_unless one_key_pool val_equal_m st 0 105%Z) = 1).
Proof. exact (conj val_equal_not_identity equal_value_store_refuted). Qed.
Print Assumptions C16_table_equal_value_store_refuted.
