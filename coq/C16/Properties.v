(* C16 — property theorems only.  "ref" = an object together with the data word of the interface value that
   holds it (what eq compares); consistent2 a b = "same Go type and same data word only for the same object". *)
From Coq Require Import ZArith NArith List Bool Permutation.
From C16 Require Import Model Spec Rounding Proofs Proofs2 Proofs3 Proofs4 Proofs5 Proofs6.
Import ListNotations.

(* (1) eq implies eql implies equal implies equalp: every pair of references, no guard. *)
Theorem C16_eq_implies_eql : forall a b, eq_m a b = true -> eql_m a b = true.
Proof. exact eq_implies_eql. Qed.
Print Assumptions C16_eq_implies_eql.
Theorem C16_eql_implies_equal : forall a b, eql_m a b = true -> equal_m a b = true.
Proof. exact eql_implies_equal. Qed.
Print Assumptions C16_eql_implies_equal.
Theorem C16_equal_implies_equalp : forall a b, equal_m a b = true -> equalp_m a b = true.
Proof. exact equal_implies_equalp. Qed.
Print Assumptions C16_equal_implies_equalp.

(* (2) eq is an equivalence on all references (no guard). *)
Theorem C16_eq_equivalence :
  (forall a, eq_m a a = true) /\ (forall a b, eq_m a b = eq_m b a) /\
  (forall a b c, eq_m a b = true -> eq_m b c = true -> eq_m a c = true).
Proof. exact (conj eq_m_refl (conj eq_m_sym eq_m_trans)). Qed.
Print Assumptions C16_eq_equivalence.

(* (3) reflexivity: a reference is eql / equal / equalp to itself, and so is any separately built copy of the
   same object for equal and equalp (every object, any nesting; the universe has no NaN). *)
Theorem C16_reflexive : forall a,
  eql_m a a = true /\ equal_m a a = true /\ equalp_m a a = true.
Proof. exact refs_reflexive. Qed.
Print Assumptions C16_reflexive.
Theorem C16_reflexive_on_copies : forall x w w',
  equal_m (mkref x w) (mkref x w') = true /\ equalp_m (mkref x w) (mkref x w') = true.
Proof. exact copies_reflexive. Qed.
Print Assumptions C16_reflexive_on_copies.

(* (4) symmetry of eql, equal, equalp on well-formed objects whose ratios have numerators below 2^62
   (any nesting, floats included). *)
Theorem C16_eql_symmetric : forall a b, sym_guard (r_obj a) = true -> sym_guard (r_obj b) = true -> eql_m a b = eql_m b a.
Proof. exact eql_m_sym. Qed.
Print Assumptions C16_eql_symmetric.
Theorem C16_equal_symmetric : forall a b, sym_guard (r_obj a) = true -> sym_guard (r_obj b) = true -> equal_m a b = equal_m b a.
Proof. exact equal_m_sym. Qed.
Print Assumptions C16_equal_symmetric.
Theorem C16_equalp_symmetric : forall a b, sym_guard (r_obj a) = true -> sym_guard (r_obj b) = true -> equalp_m a b = equalp_m b a.
Proof. exact equalp_m_sym. Qed.
Print Assumptions C16_equalp_symmetric.
(* Object.Equal (what vectors compare their elements with) is symmetric with no guard at all *)
Theorem C16_object_equal_symmetric : forall x y, oeq x y = oeq y x.
Proof. exact oeq_sym. Qed.
Print Assumptions C16_object_equal_symmetric.

(* (5) transitivity of eql, equal, equalp on well-formed, tame objects that contain no float. *)
Theorem C16_eql_transitive : forall a b c, consistent2 a b -> consistent2 b c ->
  trans_guard (r_obj a) = true -> trans_guard (r_obj b) = true -> trans_guard (r_obj c) = true ->
  eql_m a b = true -> eql_m b c = true -> eql_m a c = true.
Proof. exact eql_m_trans. Qed.
Print Assumptions C16_eql_transitive.
Theorem C16_equal_transitive : forall a b c, consistent2 a b -> consistent2 b c ->
  trans_guard (r_obj a) = true -> trans_guard (r_obj b) = true -> trans_guard (r_obj c) = true ->
  equal_m a b = true -> equal_m b c = true -> equal_m a c = true.
Proof. exact equal_m_trans. Qed.
Print Assumptions C16_equal_transitive.
Theorem C16_equalp_transitive : forall a b c, consistent2 a b -> consistent2 b c ->
  trans_guard (r_obj a) = true -> trans_guard (r_obj b) = true -> trans_guard (r_obj c) = true ->
  equalp_m a b = true -> equalp_m b c = true -> equalp_m a c = true.
Proof. exact equalp_m_trans. Qed.
Print Assumptions C16_equalp_transitive.

(* the fact about rounding the two guards rest on: round-to-nearest never crosses a power of two *)
Theorem C16_rounding_bound : forall p n d k, (0 < d)%Z -> (0 <= k)%Z -> (Z.abs n <= 2 ^ k * d)%Z ->
  let '(m, e) := rne p n d in
  if (0 <=? e)%Z then (Z.abs m * 2 ^ e <= 2 ^ k)%Z else (Z.abs m <= 2 ^ k * 2 ^ (- e))%Z.
Proof. exact rne_bound. Qed.
Print Assumptions C16_rounding_bound.

(* (6) equal objects have equal sxhash codes: objects without floats and ratios whose strings, symbols and
   characters are ASCII of the classes the SEN writer does not escape. *)
Theorem C16_sxhash_respects_equal : forall a b, consistent2 a b ->
  hash_dom (r_obj a) = true -> hash_dom (r_obj b) = true ->
  equal_m a b = true -> sxhash_m (r_obj a) = sxhash_m (r_obj b).
Proof. exact sxhash_respects_equal. Qed.
Print Assumptions C16_sxhash_respects_equal.

(* (7) hash tables: for EVERY history of setf-gethash / gethash / remhash / clrhash / hash-table-count /
   maphash over a pool of keys on which the table's test is an equivalence that coincides with Go's == on
   the representations of the hashable keys and relates no hashable key to an unhashable one, every
   observation of the Go-map model is the observation of the specification, computed from the history alone:
   an operation on an unhashable key (a list) signals a type-error and changes nothing; otherwise the table is
   the finite map under the test: a lookup returns the value last stored under an equivalent key (unless
   removed or cleared since), the count is the number of equivalence classes holding a value, maphash
   enumerates exactly those classes (as a set). *)
Theorem C16_table_refines_map : forall pool tst ops,
  pool_ok pool tst = true -> forallb (op_in_range (List.length pool)) ops = true ->
  Forall2 obs_equiv (t_run pool [] ops) (s_run pool tst [] ops).
Proof. exact table_refines_map. Qed.
Print Assumptions C16_table_refines_map.

(* the guard of (7) is met by every pool of keys of the simple kinds (nil, t, fixnums, bignums outside int64, ratios
   with a denominator above 1 and a numerator below 2^62, characters, strings, symbols, vectors, lists) whose references are consistent: there the table (whose reported test is always eql) is
   a finite map under slip's eql, for every history. *)
Theorem C16_simple_pool_ok : forall pool,
  simple_pool pool = true ->
  (forall a b, In a pool -> In b pool -> consistent2 a b /\ const_words a b) ->
  pool_ok pool (pool_test 1 pool) = true.
Proof. exact simple_pool_ok. Qed.
Print Assumptions C16_simple_pool_ok.
Theorem C16_table_is_map_on_simple_keys : forall pool ops,
  simple_pool pool = true ->
  (forall a b, In a pool -> In b pool -> consistent2 a b /\ const_words a b) ->
  forallb (op_in_range (List.length pool)) ops = true ->
  Forall2 obs_equiv (t_run pool [] ops) (s_run pool (pool_test 1 pool) [] ops).
Proof. exact table_is_map_on_simple_keys. Qed.
Print Assumptions C16_table_is_map_on_simple_keys.

(* (8) refutations outside the guards: the known findings *)
Theorem C16_transitivity_with_floats_refuted :
  (forallb (fun r => wf (r_obj r) && tame (r_obj r)) [w_a; w_b; w_c; w_third; w_third_s; w_third_d] = true) /\
  all_consistent [w_a; w_b; w_c] /\ all_consistent [w_third; w_third_s; w_third_d] /\
  (eql_m w_a w_b = true /\ eql_m w_b w_c = true /\ eql_m w_a w_c = false) /\
  (equal_m w_a w_b = true /\ equal_m w_b w_c = true /\ equal_m w_a w_c = false) /\
  (equalp_m w_a w_b = true /\ equalp_m w_b w_c = true /\ equalp_m w_a w_c = false) /\
  (equal_m w_third_s w_third = true /\ equal_m w_third w_third_d = true /\ equal_m w_third_s w_third_d = false) /\
  trans_guard (r_obj w_b) = false.
Proof. exact transitivity_with_floats_refuted. Qed.
Print Assumptions C16_transitivity_with_floats_refuted.
Theorem C16_symmetry_bignum_ratio_refuted :
  wf (r_obj w_big) = true /\ wf (r_obj w_rat) = true /\ tame (r_obj w_rat) = false /\
  eql_m w_big w_rat = true /\ eql_m w_rat w_big = false /\
  equal_m w_big w_rat = true /\ equal_m w_rat w_big = false /\
  equalp_m w_big w_rat = true /\ equalp_m w_rat w_big = false.
Proof. exact symmetry_bignum_ratio_refuted. Qed.
Print Assumptions C16_symmetry_bignum_ratio_refuted.
Theorem C16_sxhash_kelvin_refuted :
  equal_m w_k w_kelvin = true /\ sxhash_m (r_obj w_k) = Some 75%N /\ sxhash_m (r_obj w_kelvin) = Some 464%N /\
  hash_dom (r_obj w_kelvin) = false.
Proof. exact sxhash_kelvin_refuted. Qed.
Print Assumptions C16_sxhash_kelvin_refuted.
Theorem C16_sxhash_bignum_ratio_refuted :
  equal_m w_big w_rat = true /\ sxhash_m (r_obj w_big) <> sxhash_m (r_obj w_rat) /\
  (exists h, sxhash_m (r_obj w_big) = Some h) /\ (exists h, sxhash_m (r_obj w_rat) = Some h) /\
  hash_dom (r_obj w_rat) = false.
Proof. exact sxhash_bignum_ratio_refuted. Qed.
Print Assumptions C16_sxhash_bignum_ratio_refuted.
(* bignum and ratio keys (findings C16-hash-bignum-key-by-pointer, C16-hash-ratio-key-by-pointer, repaired): two
   separately allocated copies of one value are one key; the pool is inside the guard of (7) *)
Theorem C16_table_bignum_key_by_value :
  t_run pool_big [] ops_big =
    [OVal 1; OGet (Some 1%Z); OVal 2; ONum 1; OVal 7; OGet (Some 7%Z); OGet None; OEntries [(0%nat, 2%Z); (2%nat, 7%Z)]; OBool true; ONum 1; OGet None] /\
  s_run pool_big (pool_test 1 pool_big) [] ops_big = t_run pool_big [] ops_big /\
  simple_pool pool_big = true /\ pool_ok pool_big (pool_test 1 pool_big) = true.
Proof. exact table_bignum_key_by_value. Qed.
Print Assumptions C16_table_bignum_key_by_value.
Theorem C16_table_float_key_refuted :
  t_run pool_flt [] [HPut 0 1; HGet 1] = [OVal 1; OGet None] /\
  s_run pool_flt (pool_test 1 pool_flt) [] [HPut 0 1; HGet 1] = [OVal 1; OGet (Some 1%Z)] /\
  pool_coherent pool_flt (pool_test 1 pool_flt) = false /\ pool_equiv pool_flt (pool_test 1 pool_flt) = true.
Proof. exact table_float_key_refuted. Qed.
Print Assumptions C16_table_float_key_refuted.
(* a list as key (finding C16-hash-list-key-faults, repaired): the operations signal a type-error, the table is
   untouched, and the pool is inside the guard of (7) *)
Theorem C16_table_list_key_refused :
  t_run pool_lst [] ops_lst = [OTypeErr; OTypeErr; OVal 5; OTypeErr; ONum 1; OGet (Some 5%Z); OEntries [(1%nat, 5%Z)]] /\
  s_run pool_lst (pool_test 1 pool_lst) [] ops_lst = t_run pool_lst [] ops_lst /\
  pool_ok pool_lst (pool_test 1 pool_lst) = true.
Proof. exact table_list_key_refused. Qed.
Print Assumptions C16_table_list_key_refused.

(* (9) the guards are inhabited by non-trivial objects and histories *)
Theorem C16_guards_nonvacuous :
  forallb (fun r => trans_guard (r_obj r)) [ex_x; ex_y; ex_z] = true /\
  hash_dom (Lst [Str [97; 98]%N; Fix 7]) = true /\ hash_dom (Lst [Str [65; 66]%N; Big 7]) = true /\
  all_consistent [ex_x; ex_y; ex_z] /\
  eq_m ex_x ex_y = false /\ eql_m ex_x ex_y = false /\ equal_m ex_x ex_y = true /\ equal_m ex_y ex_z = true /\
  equal_m ex_x ex_z = true /\ equalp_m ex_x ex_z = true /\
  equal_m (mkref (Chr 99) 0) (mkref (Chr 67) 1) = false /\ equalp_m (mkref (Chr 99) 0) (mkref (Chr 67) 1) = true /\
  sxhash_m (Lst [Str [97; 98]%N; Fix 7]) = sxhash_m (Lst [Str [65; 66]%N; Big 7]) /\
  sxhash_m (Lst [Str [97; 98]%N; Fix 7]) = Some 338%N.
Proof. exact guards_nonvacuous. Qed.
Print Assumptions C16_guards_nonvacuous.
Theorem C16_table_guard_nonvacuous :
  pool_ok ex_pool (pool_test 1 ex_pool) = true /\ forallb (op_in_range (List.length ex_pool)) ex_ops = true /\
  t_run ex_pool [] ex_ops =
    [OVal 1; OVal 2; ONum 1; OGet (Some 2%Z); OVal 3; OVal 4; OVal 5; OGet (Some 3%Z);
     OEntries [(0%nat, 2%Z); (2%nat, 3%Z); (4%nat, 4%Z); (7%nat, 5%Z)]; OBool true; OGet None; ONum 3; OVal 9; OBool true; ONum 0; OGet None].
Proof. exact table_guard_nonvacuous. Qed.
Print Assumptions C16_table_guard_nonvacuous.
