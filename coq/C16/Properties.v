(* C16 — property theorems only. *)
From C16 Require Import Model Spec Proofs.

Theorem C16_eq_implies_eql : forall a b, eq_m a b = true -> eql_m a b = true.
Proof. exact eq_implies_eql. Qed.
Print Assumptions C16_eq_implies_eql.
