From C02 Require Import Model Spec.
From Coq Require Import ZArith.

Fixpoint list_eqb {A} (eqb : A -> A -> bool) (a b : list A) : bool :=
  match a, b with [], [] => true | x :: a', y :: b' => eqb x y && list_eqb eqb a' b' | _, _ => false end.
Definition wrap_eqb (a b : wrap) : bool :=
  match a, b with WQuote, WQuote | WFunction, WFunction | WBackquote, WBackquote | WComma, WComma | WCommaAt, WCommaAt => true | _, _ => false end.
Fixpoint ctree_eqb (a b : ctree) : bool :=
  let fix go (x y : list ctree) : bool :=
    match x, y with [], [] => true | p :: x', q :: y' => ctree_eqb p q && go x' y' | _, _ => false end in
  match a, b with
  | CNil, CNil | CTrue, CTrue => true
  | CSym x, CSym y | CStr x, CStr y | CBits x, CBits y => list_eqb N.eqb x y
  | CInt x, CInt y => Z.eqb x y
  | CChr x, CChr y => N.eqb x y
  | CList x, CList y | CVec x, CVec y => go x y
  | CDot x t, CDot y u => go x y && ctree_eqb t u
  | CWrap w t, CWrap v u => wrap_eqb w v && ctree_eqb t u
  | _, _ => false
  end.
Definition err_eqb (a b : err) : bool :=
  match a, b with EParse, EParse => true | EPartial x, EPartial y => Nat.eqb x y | _, _ => false end.
Definition outcome_eqb (a b : outcome) : bool :=
  match a, b with
  | OOk x p, OOk y q => list_eqb ctree_eqb x y && Nat.eqb p q
  | OErr x, OErr y => err_eqb x y
  | _, _ => false
  end.
Definition same_objects (a b : outcome) : bool :=     (* positions aside *)
  match a, b with
  | OOk x _, OOk y _ => list_eqb ctree_eqb x y
  | OErr x, OErr y => err_eqb x y
  | _, _ => false
  end.
Definition opt_outcome_eqb (m : option outcome) (o : outcome) : bool := match m with Some x => outcome_eqb x o | None => false end.

Record case := { k_text : list byte; k_whole : outcome; k_one : outcome;
                 k_streams : list (list (list byte) * bool * outcome) }.

(* 0 ok; 1: a model (M per delivery, or S) differs from the implementation, but the implementation's
   deliveries all read the same objects as its whole read;  2: a model differs and some delivery of the
   implementation reads objects different from the whole read (the property is violated on this text) *)
Definition check_case (T : tables) (esc : byte -> byte) (c : case) : N :=
  let mw := opt_outcome_eqb (outcome_of (m_read_whole T esc false (k_text c))) (k_whole c) in
  let mo := opt_outcome_eqb (outcome_of (m_read_whole T esc true (k_text c))) (k_one c) in
  let sw := match outcome_of (s_read T esc (k_text c)) with Some x => same_objects x (k_whole c) | None => false end in
  let ms := forallb (fun st : list (list byte) * bool * outcome => let '(blocks, one, o) := st in
                               opt_outcome_eqb (outcome_of (m_read_stream T esc one m0 blocks 0)) o) (k_streams c) in
  let consistent := forallb (fun st : list (list byte) * bool * outcome => let '(_, one, o) := st in if (one : bool) then true else same_objects o (k_whole c)) (k_streams c) in
  if mw && mo && sw && ms then 0%N else if consistent then 1%N else 2%N.
Fixpoint check_all_from (T : tables) (esc : byte -> byte) (i : N) (cs : list case) : list (N * N) :=
  match cs with
  | [] => []
  | c :: cs' => let r := check_case T esc c in (if N.eqb r 0 then [] else [(i, r)]) ++ check_all_from T esc (N.succ i) cs'
  end.
Definition check_all T esc := check_all_from T esc 0%N.
Definition guard_count (cs : list case) : N := N.of_nat (fold_left (fun a c => a + 2 + length (k_streams c)) cs 0).
