From C02 Require Import Model Spec.
From Coq Require Import ZArith.

Fixpoint list_eqb {A} (eqb : A -> A -> bool) (a b : list A) : bool :=
  match a, b with [], [] => true | x :: a', y :: b' => eqb x y && list_eqb eqb a' b' | _, _ => false end.
Definition wrap_eqb (a b : wrap) : bool :=
  match a, b with WQuote, WQuote | WFunction, WFunction | WBackquote, WBackquote | WComma, WComma | WCommaAt, WCommaAt => true | _, _ => false end.
(* the lexeme of a float or a ratio: begins with a digit, a sign or a point and holds a digit *)
Definition num_like (bs : list byte) : bool :=
  match bs with
  | b :: _ => ((48 <=? b)%N && (b <=? 57)%N || N.eqb b 43 || N.eqb b 45 || N.eqb b 46) && existsb (fun d => (48 <=? d)%N && (d <=? 57)%N) bs
  | [] => false
  end.
(* the model's tree on the left, the observed object on the right *)
Fixpoint ctree_eqb (a b : ctree) : bool :=
  let fix go (x y : list ctree) : bool :=
    match x, y with [], [] => true | p :: x', q :: y' => ctree_eqb p q && go x' y' | _, _ => false end in
  match a, b with
  | CNil, CNil | CTrue, CTrue => true
  | CSym x, CSym y | CStr x, CStr y | CBits x, CBits y => list_eqb N.eqb x y
  | CInt x, CInt y => Z.eqb x y
  | CNum, CNum => true             (* two observations: their printed forms are compared in the harness *)
  | CSym x, CNum => num_like x     (* token resolution is outside the model: the place holds a token that can be a number *)
  | CChr x, CChr y => N.eqb x y
  | CList x, CList y | CVec x, CVec y => go x y
  | CDot x t, CDot y u => go x y && ctree_eqb t u
  | CWrap w t, CWrap v u => wrap_eqb w v && ctree_eqb t u
  | _, _ => false
  end.
Definition err_eqb (a b : err) : bool :=
  match a, b with EParse, EParse => true | EPartial x, EPartial y => Nat.eqb x y | _, _ => false end.
Definition outcome_eqb (a b : outcome) : bool :=
  match a, b with
  | OOk x p, OOk y q => list_eqb ctree_eqb x y && Nat.eqb p q
  | OErr x, OErr y => err_eqb x y
  | _, _ => false
  end.
Definition same_objects (a b : outcome) : bool :=     (* positions aside *)
  match a, b with
  | OOk x _, OOk y _ => list_eqb ctree_eqb x y
  | OErr x, OErr y => err_eqb x y
  | _, _ => false
  end.
Definition opt_outcome_eqb (m : option outcome) (o : outcome) : bool := match m with Some x => outcome_eqb x o | None => false end.

Record case := { k_text : list byte; k_whole : outcome; k_one : outcome;
                 k_streams : list (list (list byte) * bool * outcome) }.

(* 0 ok; 1: a model (M per delivery, or S) differs from the implementation, but the implementation's
   deliveries all read the same objects as its whole read;  2: a model differs and some delivery of the
   implementation reads objects different from the whole read (the property is violated on this text) *)
Definition check_case (T : tables) (esc : byte -> byte) (c : case) : N :=
  let mw := opt_outcome_eqb (outcome_of (m_read_whole T esc false (k_text c))) (k_whole c) in
  let mo := opt_outcome_eqb (outcome_of (m_read_whole T esc true (k_text c))) (k_one c) in
  let sw := match outcome_of (s_read T esc (k_text c)) with Some x => same_objects x (k_whole c) | None => false end in
  let ms := forallb (fun st : list (list byte) * bool * outcome => let '(blocks, one, o) := st in
                               opt_outcome_eqb (outcome_of (m_read_stream T esc one m0 blocks 0)) o) (k_streams c) in
  let consistent := forallb (fun st : list (list byte) * bool * outcome => let '(_, one, o) := st in if (one : bool) then true else same_objects o (k_whole c)) (k_streams c) in
  if mw && mo && sw && ms then 0%N else if consistent then 1%N else 2%N.
Fixpoint check_all_from (T : tables) (esc : byte -> byte) (i : N) (cs : list case) : list (N * N) :=
  match cs with
  | [] => []
  | c :: cs' => let r := check_case T esc c in (if N.eqb r 0 then [] else [(i, r)]) ++ check_all_from T esc (N.succ i) cs'
  end.
Definition check_all T esc := check_all_from T esc 0%N.
Definition guard_count (cs : list case) : N := N.of_nat (fold_left (fun a c => a + 2 + length (k_streams c)) cs 0).

(* =============== read-from-string: calls observed on the implementation =============== *)
(* what a call gave: the object and the position, the eof value and the position, a reader error
   (incomplete text / parse error), or the refusal of the bounds *)
Inductive robs := BObj (t : ctree) (pos : nat) | BEof (pos : nat) | BErr (partial : bool) | BBounds
                | BNil (pos : nat).   (* the plain call gave nil: the object nil, or the (default) eof value *)
Definition robs_of (r : rfs_result) : option robs :=
  match r with
  | FObj t q => match canon t with Some c => Some (BObj c q) | None => None end
  | FEof q => Some (BEof q)
  | FErr e _ => Some (BErr (match e with EPartial _ => true | EParse => false end))
  | FBounds => Some BBounds
  end.
Definition robs_eqb (a b : robs) : bool :=
  match a, b with
  | BObj x p, BObj y q => ctree_eqb x y && Nat.eqb p q
  | BEof p, BEof q => Nat.eqb p q
  | BErr x, BErr y => Bool.eqb x y
  | BBounds, BBounds => true
  | BObj CNil p, BNil q | BEof p, BNil q => Nat.eqb p q      (* model on the left, observation on the right *)
  | _, _ => false
  end.
(* the depth of an incomplete text is not kept by read-from-string (it signals a plain error) *)
Definition same_objects_nd (a b : outcome) : bool :=
  match a, b with
  | OOk x _, OOk y _ => list_eqb ctree_eqb x y
  | OErr EParse, OErr EParse => true
  | OErr (EPartial x), OErr (EPartial y) => (x <? 900) && (y <? 900) || Nat.eqb x y
  | _, _ => false
  end.
Definition opt_robs_eqb (m : option robs) (o : robs) : bool := match m with Some x => robs_eqb x o | None => false end.

(* one call: the string is the text from q_drop on; q_keys: optional/keyword arguments present *)
Record rcall := { q_drop : nat; q_keys : bool; q_start : nat; q_end : option nat; q_pw : bool; q_obs : robs }.
(* a text, what Read gave for all of it, the calls made while reading it form by form, and what the three
   ways of going through it collected: 0 = (read-from-string rest), 1 = :start pos, 2 = :start pos :preserve-whitespace t *)
Record rcase := { r_text : list byte; r_whole : outcome; r_calls : list rcall; r_iters : list (N * outcome) }.

Definition call_model (T : tables) (esc : byte -> byte) (text : list byte) (c : rcall) : rfs_result :=
  rfs_m T esc (q_keys c) (skipn (q_drop c) text) (q_start c) (q_end c) (q_pw c).
Definition call_rule (T : tables) (esc : byte -> byte) (text : list byte) (c : rcall) : rfs_result :=
  rfs_s T esc (skipn (q_drop c) text) (if q_keys c then q_start c else 0) (if q_keys c then q_end c else None) (q_keys c && q_pw c).
Definition call_guard (text : list byte) (c : rcall) : bool :=
  g_rfs (q_keys c) (skipn (q_drop c) text) (q_start c) (q_pw c) && ascii text.
Definition iter_model (T : tables) (esc : byte -> byte) (text : list byte) (kind : N) : option result :=
  match kind with
  | 0%N => forms_by_suffix_m T esc text
  | 1%N => forms_by_start_m T esc false text
  | _ => forms_by_start_m T esc true text
  end.
Definition opt_same_objects (m : option outcome) (o : outcome) : bool := match m with Some x => same_objects_nd x o | None => false end.
Definition opt_outcome_of (r : option result) : option outcome := match r with Some x => outcome_of x | None => None end.

(* 0: every call is what the model of the function computes (and, inside the guard, what the rule demands);
   3: self-check - a call inside the guard where model = implementation but model <> rule;
   2: a call inside the guard differs from the model, i.e. from the rule: the reported position (or object) is
      wrong for this string; or a way of reading the text form by form collected objects different from the
      read of the whole text where the function as written collects the same;
   1: a call outside the guard differs from the model, nothing else established *)
Definition check_rcase (T : tables) (esc : byte -> byte) (c : rcase) : N :=
  let text := r_text c in
  let agree (q : rcall) := opt_robs_eqb (robs_of (call_model T esc text q)) (q_obs q) in
  let rule_ok (q : rcall) := negb (call_guard text q) || opt_robs_eqb (robs_of (call_rule T esc text q)) (q_obs q) in
  let whole_ok := match outcome_of (s_read T esc text) with Some x => same_objects x (r_whole c) | None => false end in
  if forallb agree (r_calls c) && whole_ok then (if forallb rule_ok (r_calls c) then 0%N else 3%N)
  else if negb (forallb (fun q => agree q || negb (call_guard text q)) (r_calls c)) then 2%N
  else if negb (forallb (fun it : N * outcome => let '(kind, o) := it in
                           same_objects_nd o (r_whole c) || negb (opt_same_objects (opt_outcome_of (iter_model T esc text kind)) (r_whole c)))
                        (r_iters c)) then 2%N
  else 1%N.
Fixpoint check_rall_from (T : tables) (esc : byte -> byte) (i : N) (cs : list rcase) : list (N * N) :=
  match cs with
  | [] => []
  | c :: cs' => let r := check_rcase T esc c in (if N.eqb r 0 then [] else [(i, r)]) ++ check_rall_from T esc (N.succ i) cs'
  end.
Definition check_rall T esc := check_rall_from T esc 0%N.
Definition rguard_count (cs : list rcase) : N :=
  N.of_nat (fold_left (fun a c => a + length (filter (call_guard (r_text c)) (r_calls c))) cs 0).
