(* C02 — what the comparison with the implementation looks at: objects in a canonical form that does
   not depend on how leaves were spelled. *)
From C02 Require Export Model.
From Coq Require Import ZArith.

Inductive ctree :=
| CNil | CTrue | CSym (bs : list byte) | CInt (z : Z) | CStr (bs : list byte) | CChr (c : N) | CBits (bs : list byte)
| CList (l : list ctree) | CDot (l : list ctree) (t : ctree) | CVec (l : list ctree) | CWrap (w : wrap) (t : ctree).

Definition digits_val (base : N) (bs : list byte) : Z :=
  fold_left (fun acc b => match digit_val b with Some d => (acc * Z.of_N base + Z.of_N d)%Z | None => acc end) bs 0%Z.
Definition int_val (base : N) (bs : list byte) : Z :=
  match bs with
  | 45%N :: r => (- digits_val base r)%Z
  | 43%N :: r => digits_val base r
  | _ => digits_val base bs
  end.
(* a decimal integer token (read base 10); anything else that reaches here is a symbol *)
Definition dec_int (bs : list byte) : bool :=
  let ds := match bs with 43%N :: r | 45%N :: r => r | _ => bs end in
  match ds with [] => false | _ => forallb (fun b => (48 <=? b)%N && (b <=? 57)%N) ds end.

Fixpoint canon (t : tree) : option ctree :=
  let fix canon_list (l : list tree) : option (list ctree) :=
    match l with
    | [] => Some []
    | x :: l' => match canon x, canon_list l' with Some c, Some cs => Some (c :: cs) | _, _ => None end
    end in
  match t with
  | TLeaf (LTok bs) => Some (if dec_int bs then CInt (int_val 10 bs) else CSym bs)
  | TLeaf LTrue => Some CTrue
  | TLeaf LNil => Some CNil
  | TLeaf (LStr bs) => Some (CStr bs)
  | TLeaf (LPipe bs) => Some (CSym bs)
  | TLeaf (LChar [c]) => if (c <? 128)%N then Some (CChr c) else None
  | TLeaf (LChar _) => None
  | TLeaf (LInt base bs) => Some (CInt (int_val base bs))
  | TLeaf (LBits bs) => Some (CBits bs)
  | TNode KList l => match canon_list l with Some cs => Some (CList cs) | None => None end
  | TNode KVector l => match canon_list l with Some cs => Some (CVec cs) | None => None end
  | TNode _ _ => None
  | TDot l tl => match canon_list l, canon tl with Some cs, Some c => Some (CDot cs c) | _, _ => None end
  | TWrap w x => match canon x with Some c => Some (CWrap w c) | None => None end
  end.
Fixpoint canon_all (l : list tree) : option (list ctree) :=
  match l with [] => Some [] | x :: l' => match canon x, canon_all l' with Some c, Some cs => Some (c :: cs) | _, _ => None end end.

Inductive outcome := OOk (objs : list ctree) (pos : nat) | OErr (e : err).
Definition outcome_of (r : result) : option outcome :=
  match r with
  | ROk objs pos => match canon_all objs with Some cs => Some (OOk cs pos) | None => None end
  | RErr e _ => Some (OErr e)
  end.

(* a text that stops inside a form: an open list, a string, a |symbol|, an escape, a block comment *)
Definition inside_form (s : sstate) : bool :=
  negb (match stack (c_p (s_core s)) with [] => true | _ => false end) ||
  match c_mode (s_core s) with MString | MSymbol | MEsc | MRune | MBlockComment | MBlockEnd => true | _ => false end.
