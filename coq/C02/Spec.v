(* C02 — what the comparison with the implementation looks at: objects in a canonical form that does
   not depend on how leaves were spelled. *)
From C02 Require Export Model.
From Coq Require Import ZArith.

Inductive ctree :=
| CNil | CTrue | CSym (bs : list byte) | CInt (z : Z) | CStr (bs : list byte) | CChr (c : N) | CBits (bs : list byte)
| CNum   (* observation only: a number the model does not resolve (float, ratio); the model keeps the lexeme *)
| CList (l : list ctree) | CDot (l : list ctree) (t : ctree) | CVec (l : list ctree) | CWrap (w : wrap) (t : ctree).

Definition digits_val (base : N) (bs : list byte) : Z :=
  fold_left (fun acc b => match digit_val b with Some d => (acc * Z.of_N base + Z.of_N d)%Z | None => acc end) bs 0%Z.
Definition int_val (base : N) (bs : list byte) : Z :=
  match bs with
  | 45%N :: r => (- digits_val base r)%Z
  | 43%N :: r => digits_val base r
  | _ => digits_val base bs
  end.
(* a decimal integer token (read base 10); anything else that reaches here is a symbol *)
Definition dec_int (bs : list byte) : bool :=
  let ds := match bs with 43%N :: r | 45%N :: r => r | _ => bs end in
  match ds with [] => false | _ => forallb (fun b => (48 <=? b)%N && (b <=? 57)%N) ds end.

Fixpoint canon (t : tree) : option ctree :=
  let fix canon_list (l : list tree) : option (list ctree) :=
    match l with
    | [] => Some []
    | x :: l' => match canon x, canon_list l' with Some c, Some cs => Some (c :: cs) | _, _ => None end
    end in
  match t with
  | TLeaf (LTok bs) => Some (if dec_int bs then CInt (int_val 10 bs) else CSym bs)
  | TLeaf LTrue => Some CTrue
  | TLeaf LNil => Some CNil
  | TLeaf (LStr bs) => Some (CStr bs)
  | TLeaf (LPipe bs) => Some (CSym bs)
  | TLeaf (LChar [c]) => if (c <? 128)%N then Some (CChr c) else None
  | TLeaf (LChar _) => None
  | TLeaf (LInt base bs) => Some (CInt (int_val base bs))
  | TLeaf (LBits bs) => Some (CBits bs)
  | TNode KList l => match canon_list l with Some cs => Some (CList cs) | None => None end
  | TNode KVector l => match canon_list l with Some cs => Some (CVec cs) | None => None end
  | TNode _ _ => None
  | TDot l tl => match canon_list l, canon tl with Some cs, Some c => Some (CDot cs c) | _, _ => None end
  | TWrap w x => match canon x with Some c => Some (CWrap w c) | None => None end
  end.
Fixpoint canon_all (l : list tree) : option (list ctree) :=
  match l with [] => Some [] | x :: l' => match canon x, canon_all l' with Some c, Some cs => Some (c :: cs) | _, _ => None end end.

Inductive outcome := OOk (objs : list ctree) (pos : nat) | OErr (e : err).
Definition outcome_of (r : result) : option outcome :=
  match r with
  | ROk objs pos => match canon_all objs with Some cs => Some (OOk cs pos) | None => None end
  | RErr e _ => Some (OErr e)
  end.

(* a text that stops inside a form: an open list, a string, a |symbol|, an escape, a block comment *)
Definition inside_form (s : sstate) : bool :=
  negb (match stack (c_p (s_core s)) with [] => true | _ => false end) ||
  match c_mode (s_core s) with MString | MSymbol | MEsc | MRune | MBlockComment | MBlockEnd => true | _ => false end.

(* =============== read-from-string: what the property demands of it =============== *)
(* One form is read from text[start, end) - the bounds 0 <= start <= end <= length are all valid - and the
   position reported with it is where the form ends (s_read_gen ... true: the one-form read), moved over
   the white space that follows it inside the substring unless :preserve-whitespace is given. *)
Definition rfs_s (T : tables) (esc : byte -> byte) (text : list byte) (start : nat) (end_ : option nat) (pw : bool) : rfs_result :=
  let n := length text in
  let e := match end_ with Some e => e | None => n end in
  if (n <? start) || (n <? e) || (e <? start) then FBounds
  else
    let buf := slice text start e in
    match s_read_gen T esc true buf with
    | RErr er objs => FErr er objs
    | ROk [] p => FEof (start + p)
    | ROk (t :: _) p => FObj t (start + (if pw then p else skip_ws (skipn p buf) p))
    end.

(* the position rule as a predicate: q is reached from the end p of the form over white space only, and
   stops at the first byte that is not white space (or at the end) *)
Definition ws_pos_ok (buf : list byte) (p q : nat) : Prop :=
  p <= q <= Nat.max p (length buf) /\
  (forall i, p <= i < q -> is_ws (nth i buf 0%N) = true) /\
  (q < length buf -> is_ws (nth q buf 0%N) = false).

(* where the function as it is written meets this: the plain call, or a call with keys that starts at 0 or
   preserves white space, and starts inside the string; characters are bytes (ASCII) *)
Definition ascii (text : list byte) : bool := forallb (fun b => (b <? 128)%N) text.
Definition g_rfs (keys : bool) (text : list byte) (start : nat) (pw : bool) : bool :=
  negb keys || ((Nat.eqb start 0 || pw) && (start <? length text)).
(* the position counted in characters: the bytes that do not continue a UTF-8 sequence *)
Definition char_pos (text : list byte) (q : nat) : nat :=
  length (filter (fun b => negb ((128 <=? b)%N && (b <? 192)%N)) (firstn q text)).

(* ---- reading a text form by form ---- *)
(* (loop (read-from-string text nil eof :start pos)) from the positions the function reports, until the
   end of the text; None: the fuel ran out or a bound was refused (never, see the theorems) *)
Fixpoint forms_from (step : nat -> rfs_result) (n : nat) (fuel : nat) (pos : nat) : option result :=
  match fuel with
  | O => None
  | S f =>
      if n <=? pos then Some (ROk [] pos)
      else match step pos with
           | FObj t q => option_map (prepend [t] 0) (forms_from step n f q)
           | FEof q => Some (ROk [] q)
           | FErr e objs => Some (RErr e objs)
           | FBounds => None
           end
  end.
(* (read-from-string rest) on what is left of the text, rest := (subseq rest pos) *)
Fixpoint forms_suffix (step : list byte -> rfs_result) (fuel : nat) (rest : list byte) : option result :=
  match fuel with
  | O => None
  | S f =>
      match rest with
      | [] => Some (ROk [] 0)
      | _ => match step rest with
             | FObj t q => option_map (prepend [t] q) (forms_suffix step f (skipn q rest))
             | FEof q => Some (ROk [] q)
             | FErr e objs => Some (RErr e objs)
             | FBounds => None
             end
      end
  end.
Definition forms_by_start_s T esc pw text := forms_from (fun pos => rfs_s T esc text pos None pw) (length text) (S (length text)) 0.
Definition forms_by_start_m T esc pw text := forms_from (fun pos => rfs_m T esc true text pos None pw) (length text) (S (length text)) 0.
Definition forms_by_suffix_m T esc text := forms_suffix (fun rest => rfs_m T esc false rest 0 None false) (S (length text)) text.
