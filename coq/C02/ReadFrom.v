(* C02 — cl:read-from-string: the position it reports and reading a text form by form from the
   reported positions.  rfs_s (Spec.v) is the rule the property demands: the one-form read of
   text[start, end), the position where the form ends, moved over the white space that follows
   unless :preserve-whitespace.  rfs_m (Model.v) is the function as written (on ReadOne = m_read_whole).
   Main results: iterating rfs_s from the positions it returns yields exactly the read of the whole
   text (objects, error, end position), for every text; rfs_m = rfs_s on the guard g_rfs; hence the
   same for the function as written, called on what is left of the text or with :preserve-whitespace. *)
From C02 Require Import Model Spec Proofs OneForm.

(* ---------- small facts ---------- *)
Lemma prepend_prepend a p b q r : prepend a p (prepend b q r) = prepend (a ++ b) (p + q) r.
Proof. destruct r; cbn; rewrite app_assoc; [rewrite Nat.add_assoc|]; reflexivity. Qed.
Lemma prepend_nil r : prepend [] 0 r = r.
Proof. destruct r; reflexivity. Qed.
Lemma skipn_skipn' {A} a : forall b (l : list A), skipn a (skipn b l) = skipn (b + a) l.
Proof. induction b as [|b IH]; intros l; [reflexivity|]. destruct l; cbn [skipn plus]; [apply skipn_nil|apply IH]. Qed.
Lemma s_read_nil T esc : s_read T esc [] = ROk [] 0.
Proof. reflexivity. Qed.

(* ---------- white space: the bytes read-from-string steps over are skipped by the reader in value mode ---------- *)
Definition table_ok4 (T : tables) : bool :=
  forallb (fun b => match act T MValue b with ASkip | ASkipNl => true | _ => false end) [32; 10; 9; 13]%N.

Lemma ws_step T esc b : table_ok4 T = true -> is_ws b = true -> s_step T esc s0 b = s0.
Proof.
  intros H4 Hb. unfold table_ok4 in H4. cbn [forallb] in H4.
  apply andb_true_iff in H4 as [H32 H4]. apply andb_true_iff in H4 as [H10 H4].
  apply andb_true_iff in H4 as [H9 H4]. apply andb_true_iff in H4 as [H13 _].
  unfold is_ws in Hb. repeat (apply orb_true_iff in Hb as [Hb|Hb]); apply N.eqb_eq in Hb; subst b.
  all: unfold s_step; cbn [s0 s_core core0 c_err c_mode].
  - destruct (act T MValue 32%N); try discriminate H32; reflexivity.
  - destruct (act T MValue 10%N); try discriminate H10; reflexivity.
  - destruct (act T MValue 9%N); try discriminate H9; reflexivity.
  - destruct (act T MValue 13%N); try discriminate H13; reflexivity.
Qed.

Lemma s_read_skip T esc b rest : s_step T esc s0 b = s0 -> s_read T esc (b :: rest) = prepend [] 1 (s_read T esc rest).
Proof.
  intros H. unfold s_read, s_run. cbn [fold_left]. rewrite H.
  destruct (c_err (s_core (fold_left (s_step T esc) rest s0))) eqn:E; unfold result_of.
  - rewrite E. reflexivity.
  - destruct (c_err (s_finish (fold_left (s_step T esc) rest s0))); reflexivity.
Qed.

(* stepping over white space does not change what the rest reads as *)
Lemma skip_ws_read T esc : table_ok4 T = true -> forall rest pos,
  pos <= skip_ws rest pos <= pos + length rest /\
  s_read T esc rest = prepend [] (skip_ws rest pos - pos) (s_read T esc (skipn (skip_ws rest pos - pos) rest)).
Proof.
  intros H4. induction rest as [|b rest IH]; intros pos; cbn [skip_ws].
  - rewrite Nat.sub_diag. cbn [skipn]. rewrite prepend_nil. split; [cbn; lia|reflexivity].
  - destruct (is_ws b) eqn:E.
    + destruct (IH (S pos)) as [Hr Heq]. split; [cbn [length]; lia|].
      replace (skip_ws rest (S pos) - pos) with (S (skip_ws rest (S pos) - S pos)) by lia. cbn [skipn].
      rewrite (s_read_skip T esc b rest (ws_step T esc b H4 E)). rewrite Heq at 1. rewrite prepend_prepend. reflexivity.
    + rewrite Nat.sub_diag. cbn [skipn]. rewrite prepend_nil. split; [cbn [length]; lia|reflexivity].
Qed.

(* the position rule as a predicate: skip_ws computes it, and it determines the position *)
Lemma skip_ws_ok_gen : forall rest pre, ws_pos_ok (pre ++ rest) (length pre) (skip_ws rest (length pre)).
Proof.
  induction rest as [|b rest IH]; intros pre; cbn [skip_ws].
  - rewrite app_nil_r. unfold ws_pos_ok. split; [lia|]. split; [intros i Hi; lia|intros Hx; lia].
  - destruct (is_ws b) eqn:E.
    + specialize (IH (pre ++ [b])). rewrite <- app_assoc in IH. cbn [app] in IH. rewrite app_length in IH. cbn [length] in IH.
      rewrite Nat.add_1_r in IH. destruct IH as (A & B & C).
      pose proof (app_length pre (b :: rest)) as Hl. cbn [length] in Hl. unfold ws_pos_ok. split; [lia|]. split; [|exact C].
      intros i Hi. destruct (Nat.eq_dec i (length pre)) as [->|Hne]; [|apply B; lia].
      rewrite app_nth2, Nat.sub_diag by lia. exact E.
    + pose proof (app_length pre (b :: rest)) as Hl. cbn [length] in Hl.
      unfold ws_pos_ok. split; [lia|]. split; [intros i Hi; lia|]. intros _. rewrite app_nth2, Nat.sub_diag by lia. exact E.
Qed.
Lemma skip_ws_ok buf p : p <= length buf -> ws_pos_ok buf p (skip_ws (skipn p buf) p).
Proof.
  intros Hp. pose proof (skip_ws_ok_gen (skipn p buf) (firstn p buf)) as H.
  rewrite firstn_skipn, firstn_length, Nat.min_l in H by exact Hp. exact H.
Qed.
Lemma ws_pos_unique buf p q1 q2 : ws_pos_ok buf p q1 -> ws_pos_ok buf p q2 -> q1 = q2.
Proof.
  intros (A1 & B1 & C1) (A2 & B2 & C2).
  destruct (Nat.lt_trichotomy q1 q2) as [H|[H|H]]; [|exact H|]; exfalso.
  - assert (Hl : q1 < length buf) by lia. specialize (C1 Hl). rewrite B2 in C1 by lia. discriminate C1.
  - assert (Hl : q2 < length buf) by lia. specialize (C2 Hl). rewrite B1 in C2 by lia. discriminate C2.
Qed.

Lemma position_rule buf p : p <= length buf ->
  ws_pos_ok buf p (skip_ws (skipn p buf) p) /\ forall q, ws_pos_ok buf p q -> q = skip_ws (skipn p buf) p.
Proof. intros H. split; [exact (skip_ws_ok buf p H)|intros q Hq; exact (ws_pos_unique buf p _ _ Hq (skip_ws_ok buf p H))]. Qed.

(* ---------- a one-form scan that did not stop at an object is the run over the text ---------- *)
Lemma scan_one_run T esc : forall text s pos s' p, s_scan T esc true s text pos = (s', p) ->
  (c_err (s_core s') <> None \/ has_obj (s_core s') = false) -> s' = s_run T esc s text.
Proof.
  induction text as [|b text IH]; intros s pos s' p H Hx; cbn [s_scan] in H.
  - injection H as <- <-. reflexivity.
  - change (s_run T esc s (b :: text)) with (s_run T esc (s_step T esc s b) text).
    destruct (c_err (s_core (s_step T esc s b))) eqn:E.
    + injection H as <- <-. symmetry. apply s_run_err with e. exact E.
    + cbn [andb] in H. destruct (has_obj (s_core (s_step T esc s b))) eqn:Eo.
      * injection H as <- <-. destruct Hx as [Hx|Hx]; [rewrite E in Hx; contradiction Hx; reflexivity|rewrite Eo in Hx; discriminate Hx].
      * apply IH in H; assumption.
Qed.

(* ---------- a one-form read yields one object ---------- *)
Lemma push_val_grow p t : code (push_val p t) = code p \/ exists t', code (push_val p t) = t' :: code p.
Proof. unfold push_val. destruct (wrap_marks (stack p) t) as [st t']. destruct st; cbn; [right; eexists; reflexivity|left; reflexivity]. Qed.
Lemma close_list_grow p q : close_list p = inl q -> code q = code p \/ exists t, code q = t :: code p.
Proof.
  unfold close_list. destruct (pop_to_open (stack p) []) as [[[k items] below]|]; [|discriminate].
  intros H; injection H as <-. apply (push_val_grow {| stack := below; code := code p |}).
Qed.
Lemma emit_grow c k lex : code (c_p (emit c k lex)) = code (c_p c) \/ exists t, code (c_p (emit c k lex)) = t :: code (c_p c).
Proof.
  unfold emit, push_token. destruct k; cbn [c_p set_mode set_p set_err]; try apply push_val_grow.
  - destruct lex; cbn [c_p set_mode set_p set_err]; [left; reflexivity|apply push_val_grow].
  - destruct (valid_int (c_base c) lex); cbn [c_p set_mode set_p set_err]; [apply push_val_grow|left; reflexivity].
Qed.
Lemma step_core_grow esc a b c c1 op : step_core esc a b c = (c1, op) ->
  code (c_p c1) = code (c_p c) \/ exists t, code (c_p c1) = t :: code (c_p c).
Proof.
  intros H. destruct a; cbn [step_core] in H.
  all: repeat match type of H with context [match ?x with _ => _ end] => destruct x eqn:? end.
  all: injection H as <- <-; cbn; try (left; reflexivity).
  eapply close_list_grow; eassumption.
Qed.
Lemma apply1_grow esc a b s c1 op s1 r :
  allowed2 (c_mode (s_core s)) b a = true -> step_core esc a b (s_core s) = (c1, op) -> s_apply s b c1 op = (s1, r) ->
  code (c_p (s_core s1)) = code (c_p (s_core s)) \/ exists t, code (c_p (s_core s1)) = t :: code (c_p (s_core s)).
Proof.
  intros Hal E1 E2. pose proof (op_facts esc a b _ c1 op Hal E1) as Hop. pose proof (step_core_grow esc a b _ c1 op E1) as G.
  destruct op; cbn in E2; injection E2 as <- <-; cbn [s_core]; try exact G.
  destruct Hop as (_ & _ & ->). apply emit_grow.
Qed.
(* in value mode with nothing open no action completes an object *)
Lemma value_apply_keep esc a b c c2 op2 : c_mode c = MValue -> stack (c_p c) = [] -> allowed2 MValue b a = true ->
  step_core esc a b c = (c2, op2) -> (forall k r, op2 <> LDone k r) /\ (c_err c2 = None -> code (c_p c2) = code (c_p c)).
Proof.
  intros Hm Hs Hal H. apply andb_true_iff in Hal as [H1 H2].
  destruct a; cbn in H1, H2; try discriminate H1; try discriminate H2; cbn [step_core] in H; rewrite ?Hm in H.
  all: try (unfold close_list in H; rewrite Hs in H; cbn in H).
  all: repeat match type of H with context [match ?x with _ => _ end] => destruct x eqn:? end.
  all: injection H as <- <-; cbn; split; [intros; discriminate|intros He; try discriminate He; reflexivity].
Qed.

Lemma step_single T esc s b : table_ok T = true -> table_ok2 T = true ->
  c_err (s_core s) = None -> code (c_p (s_core s)) = [] -> c_err (s_core (s_step T esc s b)) = None ->
  length (code (c_p (s_core (s_step T esc s b)))) <= 1.
Proof.
  intros H1 H2 He Hc. unfold s_step. rewrite He.
  destruct (step_core esc (act T (c_mode (s_core s)) b) b (s_core s)) as [c1 op1] eqn:E1.
  destruct (s_apply s b c1 op1) as [s1 r] eqn:E2.
  pose proof (apply1_grow esc _ b s c1 op1 s1 r (allowed2_all T H1 H2 _ _) E1 E2) as G1. rewrite Hc in G1.
  assert (L1 : length (code (c_p (s_core s1))) <= 1) by (destruct G1 as [->|[t ->]]; cbn; lia).
  destruct r; [|intros _; exact L1].
  destruct (c_err (s_core s1)) eqn:E3; [intros _; exact L1|].
  destruct (step_core esc (act T (c_mode (s_core s1)) b) b (s_core s1)) as [c2 op2] eqn:E4.
  destruct (s_apply s1 b c2 op2) as [s2 r2] eqn:E5. cbn [fst]. intros He2.
  destruct (first_apply esc _ b s c1 op1 s1 true (allowed2_all T H1 H2 _ _) E1 E2 He Hc E3) as [Hc1|[Hcl _]].
  - pose proof (apply1_grow esc _ b s1 c2 op2 s2 r2 (allowed2_all T H1 H2 _ _) E4 E5) as G2. rewrite Hc1 in G2.
    destruct G2 as [->|[t ->]]; cbn; lia.
  - destruct Hcl as (Hm & Hs & _).
    pose proof (allowed2_all T H1 H2 (c_mode (s_core s1)) b) as Hal. rewrite Hm in Hal. rewrite Hm in E4.
    destruct (value_apply_keep esc _ b (s_core s1) c2 op2 Hm Hs Hal E4) as [Hnd Hk].
    destruct op2; cbn in E5; injection E5 as <- <-; cbn [s_core] in *; try (rewrite Hk by exact He2; exact L1).
    exfalso. eapply Hnd. reflexivity.
Qed.

(* a byte that completes an object while nothing is pending is the end of that object: it is consumed *)
Lemma first_byte_bump T esc s b : table_ok T = true -> table_ok2 T = true ->
  c_err (s_core s) = None -> code (c_p (s_core s)) = [] -> class_of (c_mode (s_core s)) = ClsNone ->
  c_err (s_core (s_step T esc s b)) = None -> has_obj (s_core (s_step T esc s b)) = true -> bump b = true.
Proof.
  intros H1 H2 He Hc Hcl. unfold s_step. rewrite He.
  destruct (step_core esc (act T (c_mode (s_core s)) b) b (s_core s)) as [c1 op1] eqn:E1.
  destruct (s_apply s b c1 op1) as [s1 r] eqn:E2.
  pose proof (s_no_retry esc _ b s c1 op1 (allowed2_all T H1 H2 _ _) Hcl E1) as Hr. rewrite E2 in Hr. cbn [snd] in Hr. subst r.
  intros Ee Eo.
  destruct (first_apply esc _ b s c1 op1 s1 false (allowed2_all T H1 H2 _ _) E1 E2 He Hc Ee) as [Hx|[_ [[_ Hb]|[Hr _]]]].
  - apply has_obj_code in Hx. rewrite Hx in Eo. discriminate Eo.
  - exact Hb.
  - discriminate Hr.
Qed.

Lemma finish_single s : code (c_p (s_core s)) = [] -> length (code (c_p (s_finish s))) <= 1.
Proof.
  intros Hc. unfold s_finish, finish. destruct (c_err (s_core s)); [rewrite Hc; cbn; lia|].
  set (c1 := match c_mode (s_core s) with
             | MToken => emit (s_core s) XToken (s_pend s)
             | MString => set_err (s_core s) (EPartial (depth_of (c_p (s_core s))))
             | MRune | MEsc | MSymbol => set_err (s_core s) EParse
             | MChar => emit (s_core s) XChar (s_pend s)
             | MInt => emit (s_core s) XInt (s_pend s)
             | MBitVector => emit (s_core s) XBits (s_pend s)
             | _ => s_core s
             end).
  assert (L : length (code (c_p c1)) <= 1).
  { subst c1. destruct (c_mode (s_core s)); cbn [c_p set_err]; rewrite ?Hc; try (cbn; lia).
    all: match goal with |- context [emit ?c ?k ?l] => destruct (emit_grow c k l) as [->|[t ->]] end; rewrite Hc; cbn; lia. }
  destruct (c_err c1); [exact L|]. destruct (stack (c_p c1)); [exact L|exact L].
Qed.

(* ---------- one call ---------- *)
Definition shift_rfs (k : nat) (r : rfs_result) : rfs_result :=
  match r with FObj t q => FObj t (k + q) | FEof q => FEof (k + q) | FErr e o => FErr e o | FBounds => FBounds end.

Lemma rfs_s_whole T esc buf pw :
  rfs_s T esc buf 0 None pw =
  match s_read_gen T esc true buf with
  | RErr er objs => FErr er objs
  | ROk [] p => FEof p
  | ROk (t :: _) p => FObj t (if pw then p else skip_ws (skipn p buf) p)
  end.
Proof.
  unfold rfs_s. rewrite Nat.ltb_irrefl. replace (length buf <? 0) with false by (symmetry; apply Nat.ltb_ge; lia).
  cbn [orb]. unfold slice. rewrite Nat.sub_0_r. cbn [skipn]. rewrite firstn_all. reflexivity.
Qed.

Lemma rfs_s_shift T esc text start pw : start <= length text ->
  rfs_s T esc text start None pw = shift_rfs start (rfs_s T esc (skipn start text) 0 None pw).
Proof.
  intros Hs. rewrite rfs_s_whole. unfold rfs_s. rewrite Nat.ltb_irrefl.
  replace (length text <? start) with false by (symmetry; apply Nat.ltb_ge; lia). cbn [orb].
  unfold slice. rewrite firstn_all2 by (rewrite skipn_length; lia).
  destruct (s_read_gen T esc true (skipn start text)) as [objs p|]; [|reflexivity]. destruct objs; reflexivity.
Qed.

(* what one call means for the read of the whole buffer *)
Lemma rfs_step T esc buf pw :
  table_ok T = true -> table_ok2 T = true -> table_ok3 T = true -> table_ok4 T = true ->
  match rfs_s T esc buf 0 None pw with
  | FObj t q => 0 < q <= length buf /\ s_read T esc buf = prepend [t] q (s_read T esc (skipn q buf))
  | FEof q => q = length buf /\ s_read T esc buf = ROk [] (length buf)
  | FErr e o => s_read T esc buf = RErr e o
  | FBounds => False
  end.
Proof.
  intros H1 H2 H3 H4. rewrite rfs_s_whole.
  destruct (s_scan T esc true s0 buf 0) as [s' p] eqn:Hscan.
  unfold s_read_gen, s_read_from. rewrite Hscan. unfold stopped.
  destruct (c_err (s_core s')) eqn:Ee.
  - (* the reader's error *)
    unfold result_of. rewrite Ee.
    assert (Hrun : s' = s_run T esc s0 buf) by (eapply scan_one_run; [exact Hscan|left; rewrite Ee; discriminate]).
    unfold s_read. rewrite <- Hrun, Ee. unfold result_of. rewrite Ee. reflexivity.
  - cbn [andb]. destruct (has_obj (s_core s')) eqn:Eo.
    + (* stopped after an object *)
      destruct (one_then_rest T esc buf s' p H1 H2 H3 Hscan Ee Eo) as [_ Hrest].
      destruct (scan_one_decompose T esc buf s0 0 s' p Hscan eq_refl eq_refl Ee Eo) as (pre & b & rest & Hbuf & Hs' & Hp & Hem & Hom).
      assert (Hsingle : exists t, code (c_p (s_core s')) = [t]).
      { pose proof (step_single T esc (s_run T esc s0 pre) b H1 H2 Hem (proj1 (has_obj_code _) Hom)) as L. rewrite <- Hs' in L. specialize (L Ee).
        unfold has_obj in Eo. destruct (code (c_p (s_core s'))) as [|t [|t2 l]]; [discriminate Eo|exists t; reflexivity|cbn in L; lia]. }
      destruct Hsingle as [t Ht]. unfold result_of. rewrite Ee, Ht. cbn [rev app]. rewrite Ht in Hrest. cbn [rev app] in Hrest.
      assert (Hp0 : 0 < p <= length buf).
      { subst p buf. rewrite app_length. cbn [length plus]. unfold stop_pos. split; [|destruct (_ || _); lia].
        destruct pre as [|x pre]; [|destruct (_ || _); cbn [length]; lia].
        (* the first byte completed the object: it is consumed *)
        cbn [length]. change (s_run T esc s0 []) with s0 in *.
        assert (Hb : bump b = true).
        { apply (first_byte_bump T esc s0 b H1 H2 eq_refl eq_refl eq_refl); rewrite <- Hs'; assumption. }
        unfold bump in Hb. rewrite Hb. lia. }
      destruct pw.
      * split; [exact Hp0|exact Hrest].
      * destruct (skip_ws_read T esc H4 (skipn p buf) p) as [Hq Heq]. rewrite skipn_length in Hq.
        split; [lia|]. rewrite Hrest, Heq, prepend_prepend, skipn_skipn'. cbn [app].
        replace (p + (skip_ws (skipn p buf) p - p)) with (skip_ws (skipn p buf) p) by lia. reflexivity.
    + (* the end of the buffer was reached *)
      assert (Hrun : s' = s_run T esc s0 buf) by (eapply scan_one_run; [exact Hscan|right; exact Eo]).
      assert (Hp : p = 0 + length buf) by (eapply scan_pos; [exact Hscan|unfold stopped; rewrite Ee, Eo; reflexivity]).
      cbn [plus] in Hp. subst p.
      assert (Hread : s_read T esc buf = result_of (s_finish s') (length buf)) by (unfold s_read; rewrite <- Hrun, Ee; reflexivity).
      rewrite Hread. cbn [plus].
      pose proof (finish_single s' (proj1 (has_obj_code _) Eo)) as L.
      unfold result_of. destruct (c_err (s_finish s')); [reflexivity|].
      destruct (code (c_p (s_finish s'))) as [|t [|t2 l]] eqn:Ec; cbn [rev app]; [split; reflexivity| |cbn in L; lia].
      assert (Hne : 0 < length buf).
      { destruct buf; [|cbn; lia]. cbn in Hscan. injection Hscan as <-. cbn in Ec. discriminate Ec. }
      rewrite skipn_all. cbn [skip_ws]. replace (if pw then length buf else length buf) with (length buf) by (destruct pw; reflexivity).
      rewrite skipn_all, s_read_nil. split; [lia|]. cbn [prepend app]. rewrite Nat.add_0_r. reflexivity.
Qed.

(* ---------- reading a text form by form ---------- *)
Section Iter.
Variable T : tables.
Variable esc : byte -> byte.
Hypothesis H1 : table_ok T = true.
Hypothesis H2 : table_ok2 T = true.
Hypothesis H3 : table_ok3 T = true.
Hypothesis H4 : table_ok4 T = true.

Lemma forms_suffix_s pw : forall fuel rest, length rest < fuel ->
  forms_suffix (fun r => rfs_s T esc r 0 None pw) fuel rest = Some (s_read T esc rest).
Proof.
  induction fuel as [|fuel IH]; intros rest Hl; [lia|]. cbn [forms_suffix].
  destruct rest as [|b r0]; [reflexivity|].
  pose proof (rfs_step T esc (b :: r0) pw H1 H2 H3 H4) as Hs.
  destruct (rfs_s T esc (b :: r0) 0 None pw) as [t q|q|e o|].
  - destruct Hs as [[Hq1 Hq2] Heq]. rewrite IH by (rewrite skipn_length; lia). cbn [option_map]. rewrite Heq. reflexivity.
  - destruct Hs as [-> ->]. reflexivity.
  - rewrite Hs. reflexivity.
  - contradiction.
Qed.

Lemma forms_from_s pw text : forall fuel pos, pos <= length text -> length text - pos < fuel ->
  forms_from (fun pos => rfs_s T esc text pos None pw) (length text) fuel pos = Some (prepend [] pos (s_read T esc (skipn pos text))).
Proof.
  induction fuel as [|fuel IH]; intros pos Hle Hf; [lia|]. cbn [forms_from].
  destruct (length text <=? pos) eqn:E.
  - apply Nat.leb_le in E. assert (pos = length text) by lia. subst pos. rewrite skipn_all, s_read_nil. cbn. rewrite Nat.add_0_r. reflexivity.
  - apply Nat.leb_gt in E. rewrite rfs_s_shift by lia.
    pose proof (rfs_step T esc (skipn pos text) pw H1 H2 H3 H4) as Hs.
    destruct (rfs_s T esc (skipn pos text) 0 None pw) as [t q|q|e o|]; cbn [shift_rfs].
    + destruct Hs as [[Hq1 Hq2] Heq]. rewrite skipn_length in Hq2. rewrite IH by lia. cbn [option_map].
      rewrite Heq, skipn_skipn', !prepend_prepend. reflexivity.
    + destruct Hs as [-> ->]. reflexivity.
    + rewrite Hs. reflexivity.
    + contradiction.
Qed.

(* the rule the property demands: every text, with and without :preserve-whitespace *)
Theorem by_start_s pw text : forms_by_start_s T esc pw text = Some (s_read T esc text).
Proof. unfold forms_by_start_s. rewrite forms_from_s by lia. cbn [skipn]. rewrite prepend_nil. reflexivity. Qed.

(* the function as written meets the rule on the guard *)
Theorem rfs_m_meets_s keys text start e pw : g_rfs keys text start pw = true ->
  rfs_m T esc keys text start e pw = rfs_s T esc text (if keys then start else 0) (if keys then e else None) (keys && pw).
Proof.
  unfold rfs_m, rfs_s, g_rfs. rewrite (whole_is_text T esc true _ H1). destruct keys; cbn [negb orb andb].
  - intros G. apply andb_true_iff in G as [G1 G2]. apply Nat.ltb_lt in G2.
    replace (length text <=? start) with false by (symmetry; apply Nat.leb_gt; lia).
    replace (length text <? start) with false by (symmetry; apply Nat.ltb_ge; lia). cbn [orb].
    destruct ((length text <? match e with Some e0 => e0 | None => length text end) || (match e with Some e0 => e0 | None => length text end <? start)); [reflexivity|].
    destruct (s_read_gen T esc true _) as [objs p|]; [|reflexivity]. destruct objs; [reflexivity|].
    destruct pw; [reflexivity|]. rewrite orb_false_r in G1. apply Nat.eqb_eq in G1. subst start. reflexivity.
  - intros _. rewrite Nat.ltb_irrefl. replace (length text <? 0) with false by (symmetry; apply Nat.ltb_ge; lia). cbn [orb].
    unfold slice. rewrite Nat.sub_0_r. cbn [skipn]. rewrite firstn_all.
    destruct (s_read_gen T esc true text) as [objs p|]; [|reflexivity]. destruct objs; reflexivity.
Qed.

Lemma forms_suffix_ext f g : (forall r, f r = g r) -> forall fuel rest, forms_suffix f fuel rest = forms_suffix g fuel rest.
Proof.
  intros H. induction fuel as [|fuel IH]; intros rest; [reflexivity|]. cbn [forms_suffix]. destruct rest; [reflexivity|].
  rewrite H. destruct (g (b :: rest)); try rewrite IH; reflexivity.
Qed.
Lemma forms_from_ext f g n : (forall pos, pos < n -> f pos = g pos) -> forall fuel pos, forms_from f n fuel pos = forms_from g n fuel pos.
Proof.
  intros H. induction fuel as [|fuel IH]; intros pos; [reflexivity|]. cbn [forms_from].
  destruct (n <=? pos) eqn:E; [reflexivity|]. apply Nat.leb_gt in E. rewrite H by exact E.
  destruct (g pos); try rewrite IH; reflexivity.
Qed.

(* the function as written, called on what is left of the text: every text *)
Theorem by_suffix_m text : forms_by_suffix_m T esc text = Some (s_read T esc text).
Proof.
  unfold forms_by_suffix_m.
  rewrite (forms_suffix_ext _ (fun r => rfs_s T esc r 0 None false)) by (intros r; apply (rfs_m_meets_s false r 0 None false); reflexivity).
  apply forms_suffix_s. lia.
Qed.
(* ... and called with :start and :preserve-whitespace t: every text *)
Theorem by_start_m_preserve text : forms_by_start_m T esc true text = Some (s_read T esc text).
Proof.
  unfold forms_by_start_m. rewrite (forms_from_ext _ (fun pos => rfs_s T esc text pos None true)).
  - apply (by_start_s true).
  - intros pos Hp. apply (rfs_m_meets_s true text pos None true). unfold g_rfs. cbn [negb orb]. rewrite orb_true_r. cbn [andb].
    apply Nat.ltb_lt. exact Hp.
Qed.
End Iter.

Theorem as_written T esc : table_ok T = true -> table_ok2 T = true -> table_ok3 T = true -> table_ok4 T = true ->
  forall text, forms_by_suffix_m T esc text = Some (s_read T esc text) /\
               forms_by_start_m T esc true text = Some (s_read T esc text).
Proof. intros H1 H2 H3 H4 text. split; [exact (by_suffix_m T esc H1 H2 H3 H4 text)|exact (by_start_m_preserve T esc H1 H2 H3 H4 text)]. Qed.

(* ---------- where the function as written leaves the rule ---------- *)
(* a start equal to the length of the string is a valid bounding index: nothing is left, the eof value is due *)
Theorem rfs_end_bound_refuted : forall T esc,
  rfs_m T esc true [97]%N 1 None false = FBounds /\ rfs_s T esc [97]%N 1 None false = FEof 1.
Proof. intros. split; reflexivity. Qed.

(* characters are bytes for ASCII text *)
Lemma char_pos_ascii : forall text q, ascii text = true -> q <= length text -> char_pos text q = q.
Proof.
  unfold char_pos. induction text as [|b text IH]; intros q Ha Hq.
  - cbn in Hq. assert (q = 0) by lia. subst. reflexivity.
  - destruct q as [|q]; [reflexivity|]. cbn [ascii forallb] in Ha. apply andb_true_iff in Ha as [Hb Ha].
    cbn [firstn filter]. apply N.ltb_lt in Hb. replace (128 <=? b)%N with false by (symmetry; apply N.leb_gt; exact Hb).
    cbn [andb negb length]. f_equal. apply IH; [exact Ha|cbn in Hq; lia].
Qed.
