(* C02 — property theorems only.  M is the reader as code.go runs it (offsets into the current block,
   carry, buf, block ends, ReadOne's stop); S reads one byte at a time with the pending lexeme as a
   list.  T stands for the 15 mode tables; they are regenerated from code.go on every run and
   table_ok T is re-proved for them by computation (C02/TableProofs.v, with the instantiated
   theorems). *)
From C02 Require Import Model Spec Proofs OneForm ReadFrom.

(* (1) A text denotes one result, whatever the delivery: for EVERY list of stream blocks (any number,
   any sizes, empty blocks included), in all-objects and in one-form mode, the stream read equals the
   abstract read of the concatenated text: same objects in the same order, same error, same
   position. *)
Theorem C02_stream_read_is_text_read : forall T esc one blocks, table_ok T = true ->
  m_read_stream T esc one m0 blocks 0 = s_read_gen T esc one (concat blocks).
Proof. exact stream_is_text. Qed.
Print Assumptions C02_stream_read_is_text_read.

(* (2) ... and so does reading the text from a string / byte slice (Read, ReadString, ReadOne) *)
Theorem C02_whole_read_is_text_read : forall T esc one src, table_ok T = true ->
  m_read_whole T esc one src = s_read_gen T esc one src.
Proof. exact whole_is_text. Qed.
Print Assumptions C02_whole_read_is_text_read.

(* (3) two ways of cutting the same text read the same, and like the text read whole *)
Theorem C02_delivery_independent : forall T esc one blocks1 blocks2, table_ok T = true -> concat blocks1 = concat blocks2 ->
  m_read_stream T esc one m0 blocks1 0 = m_read_stream T esc one m0 blocks2 0 /\
  m_read_stream T esc one m0 blocks1 0 = m_read_whole T esc one (concat blocks1).
Proof. exact delivery_independent. Qed.
Print Assumptions C02_delivery_independent.

(* (4) the abstract read of all objects is the fold of the one-byte step over the text, so that a
   text can be cut anywhere and continued from the state reached *)
Theorem C02_read_is_a_fold : forall T esc text, s_read_gen T esc false text = s_read T esc text.
Proof. exact read_all_is_fold. Qed.
Print Assumptions C02_read_is_a_fold.
Theorem C02_fold_chunks : forall T esc s t1 t2, s_run T esc s (t1 ++ t2) = s_run T esc (s_run T esc s t1) t2.
Proof. exact fold_chunks. Qed.
Print Assumptions C02_fold_chunks.

(* (5) a text that stops inside a form - an open list, a string, a |symbol|, an escape - is reported
   (incomplete or parse error); it is never read silently *)
Theorem C02_truncated_is_reported : forall s, truncated s -> c_err (s_finish s) <> None.
Proof. exact truncated_is_reported. Qed.
Print Assumptions C02_truncated_is_reported.

(* (6) the simulation the theorems above rest on: one byte of the machine with offsets is one byte of
   the abstract machine *)
Theorem C02_one_byte_refines : forall T esc m src pos s, table_ok T = true -> sim m src pos s -> pos < length src ->
  sim (m_step T esc m src pos) src (S pos) (s_step T esc s (nth pos src 0%N)).
Proof. exact step_sim. Qed.
Print Assumptions C02_one_byte_refines.

(* (7) reading one form at a time: if the one-form read of a text stops after an object at position p
   (s_read_gen ... true, which (2) shows is what ReadOne computes), then the objects of the whole text are
   that object followed by the objects of the text from p on, with the same error if there is one and
   the same end position: p is where the form ends.  The reader restarted at p has fresh registers; the
   proof relates it to the reader that kept going by an equivalence that ignores registers a mode does
   not read, under a mode discipline of the tables (table_ok2, table_ok3) that is re-proved on the
   regenerated tables on every run. *)
Theorem C02_one_form_then_rest : forall T esc text s' p,
  table_ok T = true -> table_ok2 T = true -> table_ok3 T = true ->
  s_scan T esc true s0 text 0 = (s', p) -> c_err (s_core s') = None -> has_obj (s_core s') = true ->
  s_read_gen T esc true text = ROk (rev (code (c_p (s_core s')))) p /\
  s_read T esc text = prepend (rev (code (c_p (s_core s')))) p (s_read T esc (skipn p text)).
Proof. exact one_then_rest. Qed.
Print Assumptions C02_one_form_then_rest.

(* (8) cl:read-from-string.  rfs_s is the rule the property demands of it: the one-form read of
   text[start, end), and with the object the position where the form ends, moved over the white space that
   follows it unless :preserve-whitespace is given.  Reading ANY text form by form, each call starting at
   the position the previous call reported - (read-from-string text nil eof :start pos) - yields exactly
   the read of the whole text: the same objects in the same order, the same error if there is one, the
   end of the text as the last position.  With and without :preserve-whitespace.  (table_ok4: the
   bytes the function steps over are skipped by the reader in value mode; re-proved on the regenerated
   tables on every run.) *)
Theorem C02_read_from_string_form_by_form : forall T esc,
  table_ok T = true -> table_ok2 T = true -> table_ok3 T = true -> table_ok4 T = true ->
  forall pw text, forms_by_start_s T esc pw text = Some (s_read T esc text).
Proof. exact by_start_s. Qed.
Print Assumptions C02_read_from_string_form_by_form.

(* (9) the position rule as a predicate, and that it fixes the position: from the end p of the form only
   white space is stepped over, and the reported position is the end of the text or a byte that is not white
   space *)
Theorem C02_read_from_string_position : forall buf p, p <= length buf ->
  ws_pos_ok buf p (skip_ws (skipn p buf) p) /\ forall q, ws_pos_ok buf p q -> q = skip_ws (skipn p buf) p.
Proof. exact position_rule. Qed.
Print Assumptions C02_read_from_string_position.

(* (10) rfs_m is the function as pkg/cl/read-from-string.go computes it, on ReadOne (m_read_whole).  On
   the guard g_rfs - the plain call (read-from-string s), or a call with keys that starts at 0 or preserves
   white space, and starts inside the string - it IS the rule. *)
Theorem C02_read_from_string_meets_rule : forall T esc, table_ok T = true ->
  forall keys text start e pw, g_rfs keys text start pw = true ->
  rfs_m T esc keys text start e pw = rfs_s T esc text (if keys then start else 0) (if keys then e else None) (keys && pw).
Proof. exact rfs_m_meets_s. Qed.
Print Assumptions C02_read_from_string_meets_rule.

(* (11) hence for the function as written: called on what is left of the text, (read-from-string rest) with
   rest the text from the reported position on, and called with :start and :preserve-whitespace t, it reads
   every text form by form to exactly the read of the whole text.  (With :start > 0 and without
   :preserve-whitespace it does not: known finding C02-rfs-start-skip, refuted on the current tables in
   TableProofs.v; a start equal to the length is refused: C02-rfs-start-at-end, rfs_end_bound_refuted.) *)
Theorem C02_read_from_string_as_written : forall T esc,
  table_ok T = true -> table_ok2 T = true -> table_ok3 T = true -> table_ok4 T = true ->
  forall text, forms_by_suffix_m T esc text = Some (s_read T esc text) /\
               forms_by_start_m T esc true text = Some (s_read T esc text).
Proof. exact as_written. Qed.
Print Assumptions C02_read_from_string_as_written.

(* (12) a one-form read yields one object: the step that completes the first object completes no second one *)
Theorem C02_one_form_is_one_object : forall T esc s b, table_ok T = true -> table_ok2 T = true ->
  c_err (s_core s) = None -> code (c_p (s_core s)) = [] -> c_err (s_core (s_step T esc s b)) = None ->
  length (code (c_p (s_core (s_step T esc s b)))) <= 1.
Proof. exact step_single. Qed.
Print Assumptions C02_one_form_is_one_object.

(* (13) where the function as written leaves the rule, whatever the tables: a start equal to the length of
   the string is refused although nothing more than the eof value is due there *)
Theorem C02_read_from_string_start_at_end_refuted : forall T esc,
  rfs_m T esc true [97]%N 1 None false = FBounds /\ rfs_s T esc [97]%N 1 None false = FEof 1.
Proof. exact rfs_end_bound_refuted. Qed.
Print Assumptions C02_read_from_string_start_at_end_refuted.

(* (14) inside the guard (ASCII text) the reported byte position is the character position *)
Theorem C02_read_from_string_ascii_positions : forall text q, ascii text = true -> q <= length text -> char_pos text q = q.
Proof. exact char_pos_ascii. Qed.
Print Assumptions C02_read_from_string_ascii_positions.
