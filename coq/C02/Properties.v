(* C02 — property theorems only.  M is the reader as code.go runs it (offsets into the current block,
   carry, buf, block ends, ReadOne's stop); S reads one byte at a time with the pending lexeme as a
   list.  T stands for the 15 mode tables; they are regenerated from code.go on every run and
   table_ok T is re-proved for them by computation (C02/TableProofs.v, with the instantiated
   theorems). *)
From C02 Require Import Model Spec Proofs OneForm.

(* (1) A text denotes one result, whatever the delivery: for EVERY list of stream blocks (any number,
   any sizes, empty blocks included), in all-objects and in one-form mode, the stream read equals the
   abstract read of the concatenated text: same objects in the same order, same error, same
   position. *)
Theorem C02_stream_read_is_text_read : forall T esc one blocks, table_ok T = true ->
  m_read_stream T esc one m0 blocks 0 = s_read_gen T esc one (concat blocks).
Proof. exact stream_is_text. Qed.
Print Assumptions C02_stream_read_is_text_read.

(* (2) ... and so does reading the text from a string / byte slice (Read, ReadString, ReadOne) *)
Theorem C02_whole_read_is_text_read : forall T esc one src, table_ok T = true ->
  m_read_whole T esc one src = s_read_gen T esc one src.
Proof. exact whole_is_text. Qed.
Print Assumptions C02_whole_read_is_text_read.

(* (3) two ways of cutting the same text read the same, and like the text read whole *)
Theorem C02_delivery_independent : forall T esc one blocks1 blocks2, table_ok T = true -> concat blocks1 = concat blocks2 ->
  m_read_stream T esc one m0 blocks1 0 = m_read_stream T esc one m0 blocks2 0 /\
  m_read_stream T esc one m0 blocks1 0 = m_read_whole T esc one (concat blocks1).
Proof. exact delivery_independent. Qed.
Print Assumptions C02_delivery_independent.

(* (4) the abstract read of all objects is the fold of the one-byte step over the text, so that a
   text can be cut anywhere and continued from the state reached *)
Theorem C02_read_is_a_fold : forall T esc text, s_read_gen T esc false text = s_read T esc text.
Proof. exact read_all_is_fold. Qed.
Print Assumptions C02_read_is_a_fold.
Theorem C02_fold_chunks : forall T esc s t1 t2, s_run T esc s (t1 ++ t2) = s_run T esc (s_run T esc s t1) t2.
Proof. exact fold_chunks. Qed.
Print Assumptions C02_fold_chunks.

(* (5) a text that stops inside a form - an open list, a string, a |symbol|, an escape - is reported
   (incomplete or parse error); it is never read silently *)
Theorem C02_truncated_is_reported : forall s, truncated s -> c_err (s_finish s) <> None.
Proof. exact truncated_is_reported. Qed.
Print Assumptions C02_truncated_is_reported.

(* (6) the simulation the theorems above rest on: one byte of the machine with offsets is one byte of
   the abstract machine *)
Theorem C02_one_byte_refines : forall T esc m src pos s, table_ok T = true -> sim m src pos s -> pos < length src ->
  sim (m_step T esc m src pos) src (S pos) (s_step T esc s (nth pos src 0%N)).
Proof. exact step_sim. Qed.
Print Assumptions C02_one_byte_refines.

(* (7) reading one form at a time: if the one-form read of a text stops after an object at position p
   (s_read_gen ... true, which (2) shows is what ReadOne computes), then the objects of the whole text are
   that object followed by the objects of the text from p on, with the same error if there is one and
   the same end position: p is where the form ends.  The reader restarted at p has fresh registers; the
   proof relates it to the reader that kept going by an equivalence that ignores registers a mode does
   not read, under a mode discipline of the tables (table_ok2, table_ok3) that is re-proved on the
   regenerated tables on every run. *)
Theorem C02_one_form_then_rest : forall T esc text s' p,
  table_ok T = true -> table_ok2 T = true -> table_ok3 T = true ->
  s_scan T esc true s0 text 0 = (s', p) -> c_err (s_core s') = None -> has_obj (s_core s') = true ->
  s_read_gen T esc true text = ROk (rev (code (c_p (s_core s')))) p /\
  s_read T esc text = prepend (rev (code (c_p (s_core s')))) p (s_read T esc (skipn p text)).
Proof. exact one_then_rest. Qed.
Print Assumptions C02_one_form_then_rest.
