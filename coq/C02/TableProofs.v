(* C02 — theorems over the mode tables regenerated from /repo/code.go on THIS run (GenC02.Tables). *)
From C02 Require Import Model Spec Proofs.
From GenC02 Require Import Tables.

(* every one of the 15 x 256 table entries is an action the refinement proof covers in that mode *)
Theorem tables_ok : table_ok tables = true.
Proof. vm_compute. reflexivity. Qed.
Print Assumptions tables_ok.

(* hence, with the reader's current tables: however a text is cut into stream reads, in all-objects
   or one-form mode, the machine with offsets, carry and buf reads what the abstract machine reads
   from the concatenation; and so does a read of the whole text *)
Theorem stream_is_text_now : forall one blocks,
  m_read_stream tables esc one m0 blocks 0 = s_read_gen tables esc one (concat blocks).
Proof. intros. apply stream_is_text. exact tables_ok. Qed.
Print Assumptions stream_is_text_now.

Theorem whole_is_text_now : forall one src, m_read_whole tables esc one src = s_read_gen tables esc one src.
Proof. intros. apply whole_is_text. exact tables_ok. Qed.
Print Assumptions whole_is_text_now.

Theorem cuts_do_not_matter_now : forall one blocks1 blocks2, concat blocks1 = concat blocks2 ->
  m_read_stream tables esc one m0 blocks1 0 = m_read_stream tables esc one m0 blocks2 0.
Proof. intros one b1 b2 H. apply (delivery_independent tables esc one b1 b2 tables_ok H). Qed.
Print Assumptions cuts_do_not_matter_now.

(* the tables are the real ones, not something trivially accepted: a token split over three reads *)
Theorem tables_nontrivial :
  m_read_stream tables esc false m0 [[40; 97; 98]; [99; 32; 34; 120]; [92; 110; 34; 41]]%N 0 =
  ROk [TNode KList [TLeaf (LTok [97; 98; 99]%N); TLeaf (LStr [120; 10]%N)]] 11.
Proof. vm_compute. reflexivity. Qed.
