(* C02 — theorems over the mode tables regenerated from /repo/code.go on THIS run (GenC02.Tables). *)
From C02 Require Import Model Spec Proofs OneForm ReadFrom.
From GenC02 Require Import Tables.

(* every one of the 15 x 256 table entries is an action the refinement proof covers in that mode *)
Theorem tables_ok : table_ok tables = true.
Proof. vm_compute. reflexivity. Qed.
Print Assumptions tables_ok.

(* hence, with the reader's current tables: however a text is cut into stream reads, in all-objects
   or one-form mode, the machine with offsets, carry and buf reads what the abstract machine reads
   from the concatenation; and so does a read of the whole text *)
Theorem stream_is_text_now : forall one blocks,
  m_read_stream tables esc one m0 blocks 0 = s_read_gen tables esc one (concat blocks).
Proof. intros. apply stream_is_text. exact tables_ok. Qed.
Print Assumptions stream_is_text_now.

Theorem whole_is_text_now : forall one src, m_read_whole tables esc one src = s_read_gen tables esc one src.
Proof. intros. apply whole_is_text. exact tables_ok. Qed.
Print Assumptions whole_is_text_now.

Theorem cuts_do_not_matter_now : forall one blocks1 blocks2, concat blocks1 = concat blocks2 ->
  m_read_stream tables esc one m0 blocks1 0 = m_read_stream tables esc one m0 blocks2 0.
Proof. intros one b1 b2 H. apply (delivery_independent tables esc one b1 b2 tables_ok H). Qed.
Print Assumptions cuts_do_not_matter_now.

(* the mode discipline the one-form theorem needs: which action may stand in which mode on which byte
   (15 x 256 entries), and that ')' in value mode is the close action *)
Theorem tables_ok2 : table_ok2 tables = true /\ table_ok3 tables = true.
Proof. split; vm_compute; reflexivity. Qed.
Print Assumptions tables_ok2.

(* hence, with the current tables: when the one-form read of a text stops after an object at position p,
   the whole text reads as that object followed by what the text from p on reads as *)
Theorem one_then_rest_now : forall text s' p,
  s_scan tables esc true s0 text 0 = (s', p) -> c_err (s_core s') = None -> has_obj (s_core s') = true ->
  s_read_gen tables esc true text = ROk (rev (code (c_p (s_core s')))) p /\
  s_read tables esc text = prepend (rev (code (c_p (s_core s')))) p (s_read tables esc (skipn p text)).
Proof. intros. apply one_then_rest; try assumption; [exact tables_ok|apply tables_ok2|apply tables_ok2]. Qed.
Print Assumptions one_then_rest_now.

(* the four bytes cl:read-from-string steps over after the object are skipped by the reader in value mode *)
Theorem tables_ok4 : table_ok4 tables = true.
Proof. vm_compute. reflexivity. Qed.
Print Assumptions tables_ok4.

(* hence, with the current tables: read-from-string by the rule (rfs_s), and as written when called on what
   is left of the text or with :start and :preserve-whitespace t, reads every text form by form to the read
   of the whole text *)
Theorem read_from_string_form_by_form_now : forall pw text,
  forms_by_start_s tables esc pw text = Some (s_read tables esc text).
Proof. intros. apply by_start_s; [exact tables_ok|apply tables_ok2|apply tables_ok2|exact tables_ok4]. Qed.
Print Assumptions read_from_string_form_by_form_now.
Theorem read_from_string_as_written_now : forall text,
  forms_by_suffix_m tables esc text = Some (s_read tables esc text) /\
  forms_by_start_m tables esc true text = Some (s_read tables esc text).
Proof. intros. apply as_written; [exact tables_ok|apply tables_ok2|apply tables_ok2|exact tables_ok4]. Qed.
Print Assumptions read_from_string_as_written_now.

(* known finding C02-rfs-start-skip: with :start > 0 and without :preserve-whitespace the loop over the white
   space indexes the substring with the position in the whole string.  "a bcd e  f" from 2: the form bcd ends
   at 5, the loop looks at the bytes 7 and 8 (blank, blank) instead of 5, 6 and reports 7: e is lost *)
Theorem rfs_start_skip_refuted :
  rfs_m tables esc true [97; 32; 98; 99; 100; 32; 101; 32; 32; 102]%N 2%nat None false = FObj (TLeaf (LTok [98; 99; 100]%N)) 7%nat /\
  rfs_s tables esc [97; 32; 98; 99; 100; 32; 101; 32; 32; 102]%N 2%nat None false = FObj (TLeaf (LTok [98; 99; 100]%N)) 6%nat /\
  forms_by_start_m tables esc false [97; 32; 98; 99; 100; 32; 101; 32; 32; 102]%N
    = Some (ROk [TLeaf (LTok [97]%N); TLeaf (LTok [98; 99; 100]%N); TLeaf (LTok [102]%N)] 10%nat) /\
  s_read tables esc [97; 32; 98; 99; 100; 32; 101; 32; 32; 102]%N
    = ROk [TLeaf (LTok [97]%N); TLeaf (LTok [98; 99; 100]%N); TLeaf (LTok [101]%N); TLeaf (LTok [102]%N)] 10%nat.
Proof. vm_compute. repeat split; reflexivity. Qed.
Print Assumptions rfs_start_skip_refuted.

(* known finding C02-rfs-position-in-bytes: the position is a byte offset, strings are indexed by characters.
   "é b": the object ends after 2 bytes = 1 character; the reported position 3 is the character position 2 *)
Theorem rfs_position_in_bytes_refuted :
  rfs_m tables esc false [195; 169; 32; 98]%N 0%nat None false = FObj (TLeaf (LTok [195; 169]%N)) 3%nat /\
  char_pos [195; 169; 32; 98]%N 3%nat = 2%nat /\ ascii [195; 169; 32; 98]%N = false.
Proof. vm_compute. repeat split; reflexivity. Qed.
Print Assumptions rfs_position_in_bytes_refuted.

(* the tables are the real ones, not something trivially accepted: a token split over three reads *)
Theorem tables_nontrivial :
  m_read_stream tables esc false m0 [[40; 97; 98]; [99; 32; 34; 120]; [92; 110; 34; 41]]%N 0 =
  ROk [TNode KList [TLeaf (LTok [97; 98; 99]%N); TLeaf (LStr [120; 10]%N)]] 11.
Proof. vm_compute. reflexivity. Qed.
