(* C02 — reading is a function of the text: the machine with offsets, carry and buf, fed block by
   block, computes what the abstract byte-at-a-time machine computes on the concatenation. *)
From C02 Require Import Model Spec.
Arguments slice : simpl never.
Arguments emit : simpl never.

(* ---------- what the proof needs to know about the tables (checked by computation on the tables
   regenerated from code.go, see TableProofs.v) ---------- *)
Inductive mclass := ClsTok | ClsStr | ClsEsc | ClsNone.
Definition class_of (m : mode) : mclass :=
  match m with
  | MToken | MChar | MInt | MBitVector => ClsTok
  | MString | MSymbol => ClsStr
  | MEsc | MRune => ClsEsc
  | _ => ClsNone
  end.
Definition allowed (cl : mclass) (a : action) : bool :=
  match cl, a with
  | _, AErr => true
  | ClsTok, (ASkip | ASkipNl | ATokenDone | ACharDone | AIntDone | ABitVectorDone) => true
  | ClsStr, (AStrByte | AStrDone | APipeDone | AEsc) => true
  | ClsEsc, (AEscOne | AU4 | AU8 | ARuneDigit | ARuneHexA | ARuneHexa) => true
  | ClsNone, (ASkip | ASkipNl | AComment | ACommentDone | AOpen | AClose | ATokenStart | ADQuote | APipe | ASharp | ACharSlash
              | AVector | ABinary | AOct | AHex | ASharpInt | ASharpNum | ASharpQuote | ASharpComplex | ARadix | AArray
              | ASwallowOpen | AQuote | ABackquote | AComma | ACommaAt | ABlockStart | ABlockEnd0 | ABitVector) => true
  | _, _ => false
  end.
Definition all_modes : list mode :=
  [MValue; MComment; MToken; MString; MSymbol; MEsc; MRune; MSharp; MChar; MInt; MSharpNum; MMustArray; MBitVector; MBlockComment; MBlockEnd].
Definition table_ok (T : tables) : bool :=
  forallb (fun m => (length (T m) =? 256) && forallb (fun c => allowed (class_of m) (decode c)) (T m)) all_modes.

Lemma all_modes_complete m : In m all_modes.
Proof. destruct m; cbn; tauto. Qed.
Lemma table_ok_allowed T m b : table_ok T = true -> allowed (class_of m) (act T m b) = true.
Proof.
  unfold table_ok. rewrite forallb_forall. intros H. specialize (H m (all_modes_complete m)).
  apply andb_true_iff in H as [_ H]. rewrite forallb_forall in H. unfold act.
  destruct (Nat.lt_ge_cases (N.to_nat b) (length (T m))) as [Hlt|Hge].
  - apply H. apply nth_In. exact Hlt.
  - rewrite nth_overflow by exact Hge. destruct (class_of m); reflexivity.
Qed.

(* ---------- slices ---------- *)
Lemma slice_empty src a : slice src a a = [].
Proof. unfold slice. rewrite Nat.sub_diag. reflexivity. Qed.
Lemma firstn_S_nth {A} (d : A) : forall n l, n < length l -> firstn (S n) l = firstn n l ++ [nth n l d].
Proof. induction n as [|n IH]; intros [|x l] H; cbn in *; try lia; [reflexivity|]. f_equal. apply IH. lia. Qed.
Lemma nth_skipn {A} (d : A) : forall a l i, nth i (skipn a l) d = nth (a + i) l d.
Proof. induction a as [|a IH]; intros l i; [reflexivity|]. destruct l; [destruct i; reflexivity|]. cbn. apply IH. Qed.
Lemma slice_snoc src a p : a <= p -> p < length src -> slice src a (S p) = slice src a p ++ [nth p src 0%N].
Proof.
  intros H1 H2. unfold slice. replace (S p - a) with (S (p - a)) by lia.
  rewrite (firstn_S_nth 0%N) by (rewrite skipn_length; lia). f_equal. f_equal. rewrite nth_skipn. f_equal. lia.
Qed.

Lemma slice_one src p : p < length src -> slice src p (S p) = [nth p src 0%N].
Proof. intros H. rewrite slice_snoc by lia. rewrite slice_empty. reflexivity. Qed.

(* ---------- the abstract state a machine state stands for ---------- *)
Definition lexeme (m : mstate) (src : list byte) (pos : nat) : list byte :=
  match class_of (c_mode (m_core m)) with
  | ClsTok => m_carry m ++ slice src (m_ts m) pos
  | ClsStr => match m_buf m with [] => slice src (m_ts m) pos | b => b end
  | ClsEsc => m_buf m
  | ClsNone => []
  end.
Definition norm (m : mstate) (src : list byte) (pos : nat) : sstate := {| s_core := m_core m; s_pend := lexeme m src pos |}.

(* what holds of the offsets while a block is being read *)
Definition wf (m : mstate) (pos : nat) : Prop :=
  match class_of (c_mode (m_core m)) with
  | ClsNone => m_carry m = []
  | _ => m_ts m <= pos
  end /\ (class_of (c_mode (m_core m)) <> ClsTok -> m_carry m = []) /\
  (* inside a string or |symbol| (or an escape within one) the mode to come back to is that one *)
  (class_of (c_mode (m_core m)) = ClsStr \/ class_of (c_mode (m_core m)) = ClsEsc -> class_of (c_next (m_core m)) = ClsStr).

(* emit always leaves the value mode behind (also when it raises) *)
Lemma emit_mode c k lex : c_mode (emit c k lex) = MValue.
Proof. unfold emit. destruct k; cbn; try reflexivity; [destruct lex; reflexivity|destruct (valid_int (c_base c) lex); reflexivity]. Qed.

Lemma utf8_nonempty r : exists x l, utf8 r = x :: l.
Proof. unfold utf8. repeat match goal with |- context [if ?c then _ else _] => destruct c end; eauto. Qed.

Ltac solve_sim :=
  repeat match goal with
         | |- _ /\ _ => split
         | |- _ -> _ => intro
         | |- (_, _) = (_, _) => f_equal
         | |- {| s_core := _; s_pend := _ |} = {| s_core := _; s_pend := _ |} => f_equal
         end; try reflexivity; try assumption; try lia; try discriminate; try congruence; try tauto;
  try match goal with H : _ <> ClsTok -> ?c = [] |- ?c = [] => apply H; discriminate end;
  try match goal with H : _ \/ _ |- _ => destruct H; discriminate end.

(* one application of an action: the machine with offsets and the abstract one stay in step *)
Lemma apply_sim T esc m src pos :
  let b := nth pos src 0%N in
  let a := act T (c_mode (m_core m)) b in
  allowed (class_of (c_mode (m_core m))) a = true -> wf m pos -> pos < length src ->
  forall c1 op, step_core esc a b (m_core m) = (c1, op) ->
  forall m1 r, m_apply m src pos c1 op = (m1, r) ->
  exists s1, s_apply (norm m src pos) b c1 op = (s1, r) /\ s_core s1 = m_core m1 /\
             (c_err (m_core m1) = None -> s_pend s1 = lexeme m1 src (if r then pos else S pos) /\ wf m1 (if r then pos else S pos)).
Proof.
  intros b a Hal (Hwf & Hc & Hnx) Hpos c1 op Hstep m1 r Happ.
  destruct m as [c ts carry buf]. cbn [m_core m_ts m_carry m_buf] in *.
  unfold norm, lexeme, wf in *. cbn [m_core m_ts m_carry m_buf] in *.
  destruct (class_of (c_mode c)) eqn:Ecl.
  - (* token-like *)
    destruct a; try discriminate Hal; cbn [step_core] in Hstep.
    all: try (destruct (c_mode c) eqn:Emode; try discriminate Ecl; injection Hstep as <- <-; cbn in Happ; injection Happ as <- <-;
              eexists; refine (conj eq_refl _); cbn; rewrite ?Emode; cbn; rewrite ?emit_mode; cbn; rewrite ?slice_snoc by assumption; rewrite ?app_assoc; fold b; solve_sim).
  - (* string-like *)
    assert (Hn : class_of (c_next c) = ClsStr) by (apply Hnx; left; reflexivity).
    destruct a; try discriminate Hal; cbn [step_core] in Hstep.
    all: try (destruct (c_mode c) eqn:Emode; try discriminate Ecl; injection Hstep as <- <-; cbn in Happ;
              destruct buf as [|b0 buf]; injection Happ as <- <-;
              eexists; refine (conj eq_refl _); cbn; rewrite ?Emode, ?Hn; cbn; rewrite ?emit_mode; cbn; rewrite ?slice_snoc by assumption; fold b; solve_sim).
  - (* inside an escape *)
    destruct a; try discriminate Hal; cbn [step_core] in Hstep.
    all: assert (Hn : class_of (c_next c) = ClsStr) by (apply Hnx; right; reflexivity).
    all: try (destruct (c_mode c) eqn:Emode; try discriminate Ecl; try (destruct (c_rcnt c) as [|[|n]]); injection Hstep as <- <-; cbn in Happ; injection Happ as <- <-;
              eexists; refine (conj eq_refl _); cbn; rewrite ?Emode, ?Hn; cbn; try (destruct buf; cbn);
              try (match goal with |- context [utf8 ?r] => destruct (utf8_nonempty r) as (? & ? & ->) end); solve_sim).
  - (* no lexeme pending *)
    destruct a; try discriminate Hal; cbn [step_core] in Hstep.
    all: subst carry; destruct (c_mode c) eqn:Emode; try discriminate Ecl; cbn iota in Hstep.
    all: try (injection Hstep as <- <-; cbn in Happ; injection Happ as <- <-;
              eexists; refine (conj eq_refl _); cbn; rewrite ?Emode; cbn; rewrite ?slice_empty; rewrite ?slice_one by assumption; fold b; solve_sim).
    all: try (repeat match type of Hstep with context [match ?x with _ => _ end] => destruct x eqn:? end;
              injection Hstep as <- <-; cbn in Happ; injection Happ as <- <-;
              eexists; refine (conj eq_refl _); cbn; rewrite ?Emode; cbn; rewrite ?slice_empty; rewrite ?slice_one by assumption; fold b; solve_sim).
    all: destruct (c_sharp c) as [|[p|p|]]; cbn in *; rewrite ?Emode in *; cbn in *;
      try (match goal with |- context [(1024 <? ?x)%N] => destruct (1024 <? x)%N end); cbn in *; rewrite ?Emode in *; cbn in *; solve_sim.
Qed.

(* ---------- one byte ---------- *)
Definition sim (m : mstate) (src : list byte) (pos : nat) (s : sstate) : Prop :=
  s_core s = m_core m /\ (c_err (m_core m) = None -> s_pend s = lexeme m src pos /\ wf m pos).

Lemma retry_mode m src pos c1 op m1 : m_apply m src pos c1 op = (m1, true) -> c_mode (m_core m1) = MValue.
Proof.
  destruct op; cbn; try (intros H; injection H as _ H; discriminate H).
  destruct k; intros H; injection H as <- _; cbn; apply emit_mode.
Qed.
Lemma none_no_retry esc a b c c1 op m src pos :
  class_of (c_mode c) = ClsNone -> allowed ClsNone a = true -> step_core esc a b c = (c1, op) -> snd (m_apply m src pos c1 op) = false.
Proof.
  intros Hcl Hal Hstep. destruct a; try discriminate Hal; cbn [step_core] in Hstep.
  all: destruct (c_mode c) eqn:Emode; try discriminate Hcl; cbn iota in Hstep.
  all: try (injection Hstep as <- <-; reflexivity).
  all: repeat match type of Hstep with context [match ?x with _ => _ end] => destruct x eqn:? end; injection Hstep as <- <-; reflexivity.
Qed.

Lemma sim_norm m src pos s : sim m src pos s -> c_err (m_core m) = None -> s = norm m src pos /\ wf m pos.
Proof. intros [Hc Hs] E. destruct (Hs E) as [Hp Hwf]. split; [|exact Hwf]. destruct s; unfold norm; cbn in *; congruence. Qed.

Lemma step_sim T esc m src pos s :
  table_ok T = true -> sim m src pos s -> pos < length src ->
  sim (m_step T esc m src pos) src (S pos) (s_step T esc s (nth pos src 0%N)).
Proof.
  intros HT Hsim Hpos. unfold m_step, s_step. pose proof Hsim as [Hc Hs]. rewrite Hc.
  destruct (c_err (m_core m)) eqn:E.
  - split; [exact Hc|rewrite E; discriminate].
  - destruct (sim_norm _ _ _ _ Hsim E) as [-> Hwf]. cbn [norm s_core].
    destruct (step_core esc (act T (c_mode (m_core m)) (nth pos src 0%N)) (nth pos src 0%N) (m_core m)) as [c1 op1] eqn:E1.
    destruct (m_apply m src pos c1 op1) as [m1 r] eqn:E2.
    destruct (apply_sim T esc m src pos (table_ok_allowed T _ _ HT) Hwf Hpos c1 op1 E1 m1 r E2) as (s1 & A & B & C).
    unfold byte in *. rewrite A. destruct r; [|split; [exact B|exact C]].
    assert (Hsim1 : sim m1 src pos s1) by (split; [exact B|exact C]).
    rewrite B. destruct (c_err (m_core m1)) eqn:E3; [split; [exact B|rewrite E3; discriminate]|].
    destruct (sim_norm _ _ _ _ Hsim1 E3) as [-> Hwf1]. cbn [norm s_core].
    destruct (step_core esc (act T (c_mode (m_core m1)) (nth pos src 0%N)) (nth pos src 0%N) (m_core m1)) as [c2 op2] eqn:E4.
    destruct (m_apply m1 src pos c2 op2) as [m2 r2] eqn:E5.
    assert (Hmode : c_mode (m_core m1) = MValue) by (eapply retry_mode; exact E2).
    assert (Hr2 : r2 = false).
    { pose proof (none_no_retry esc _ _ _ c2 op2 m1 src pos (f_equal class_of Hmode) (eq_trans (f_equal (fun cl => allowed cl _) (eq_sym (f_equal class_of Hmode))) (table_ok_allowed T _ _ HT)) E4) as H.
      rewrite E5 in H. exact H. }
    subst r2.
    destruct (apply_sim T esc m1 src pos (table_ok_allowed T _ _ HT) Hwf1 Hpos c2 op2 E4 m2 false E5) as (s2 & A2 & B2 & C2).
    unfold byte in *. rewrite A2. cbn [fst]. split; [exact B2|exact C2].
Qed.

(* ---------- one block ---------- *)
Lemma skipn_nth_cons {A} (d : A) : forall n l, n < length l -> skipn n l = nth n l d :: skipn (S n) l.
Proof. induction n as [|n IH]; intros [|x l] H; cbn in *; try lia; [reflexivity|]. apply IH. lia. Qed.

Lemma block_sim T esc one : table_ok T = true -> forall fuel m src pos s,
  sim m src pos s -> pos <= length src -> length src - pos <= fuel ->
  forall m' p', m_block T esc one m src pos fuel = (m', p') ->
  exists s', s_scan T esc one s (skipn pos src) pos = (s', p') /\ s_core s' = m_core m' /\
             (stopped one (s_core s') = false -> p' = length src /\ sim m' src (length src) s').
Proof.
  intros HT. induction fuel as [|f IH]; intros m src pos s Hsim Hle Hfuel m' p' Hb.
  - cbn in Hb. injection Hb as <- <-. assert (pos = length src) by lia. subst pos. rewrite skipn_all. cbn.
    exists s. split; [reflexivity|]. split; [apply Hsim|]. intros _. split; [reflexivity|exact Hsim].
  - cbn [m_block] in Hb. destruct (length src <=? pos) eqn:El.
    + apply Nat.leb_le in El. injection Hb as <- <-. assert (pos = length src) by lia. subst pos. rewrite skipn_all. cbn.
      exists s. split; [reflexivity|]. split; [apply Hsim|]. intros _. split; [reflexivity|exact Hsim].
    + apply Nat.leb_gt in El. rewrite (skipn_nth_cons 0%N) by exact El. cbn [s_scan].
      pose proof (step_sim T esc m src pos s HT Hsim El) as Hs1. pose proof Hs1 as [Hc1 _].
      unfold byte in *. rewrite Hc1. destruct (c_err (m_core (m_step T esc m src pos))) eqn:E.
      * injection Hb as <- <-. eexists. split; [reflexivity|]. split; [exact Hc1|]. unfold stopped. rewrite Hc1, E. discriminate.
      * unfold has_obj. destruct (one && negb match code (c_p (m_core (m_step T esc m src pos))) with [] => true | _ => false end) eqn:Eo.
        -- injection Hb as <- <-. eexists. split; [reflexivity|]. split; [exact Hc1|]. unfold stopped, has_obj. rewrite Hc1, E, Eo. discriminate.
        -- apply (IH _ _ _ _ Hs1); [lia|lia|exact Hb].
Qed.

(* ---------- scanning the abstract machine ---------- *)
Lemma scan_app T esc one : forall t1 t2 s pos, stopped one (s_core s) = false ->
  s_scan T esc one s (t1 ++ t2) pos =
  let '(s1, p1) := s_scan T esc one s t1 pos in if stopped one (s_core s1) then (s1, p1) else s_scan T esc one s1 t2 p1.
Proof.
  induction t1 as [|b t1 IH]; intros t2 s pos Hs; cbn [app s_scan].
  - rewrite Hs. reflexivity.
  - destruct (c_err (s_core (s_step T esc s b))) eqn:E.
    + unfold stopped. rewrite E. reflexivity.
    + destruct (one && has_obj (s_core (s_step T esc s b))) eqn:Eo.
      * unfold stopped. rewrite E, Eo. reflexivity.
      * apply IH. unfold stopped. rewrite E. exact Eo.
Qed.
Lemma scan_pos T esc one : forall t s pos s' p', s_scan T esc one s t pos = (s', p') -> stopped one (s_core s') = false -> p' = pos + length t.
Proof.
  induction t as [|b t IH]; intros s pos s' p' H Hst; cbn [s_scan] in H.
  - injection H as <- <-. cbn. lia.
  - destruct (c_err (s_core (s_step T esc s b))) eqn:E.
    + injection H as <- <-. unfold stopped in Hst. rewrite E in Hst. discriminate.
    + destruct (one && has_obj (s_core (s_step T esc s b))) eqn:Eo.
      * injection H as <- <-. unfold stopped in Hst. rewrite E, Eo in Hst. discriminate.
      * apply IH in H; [|exact Hst]. cbn [length]. lia.
Qed.
Lemma scan_shift T esc one base : forall t s pos,
  s_scan T esc one s t (base + pos) = let '(s', q) := s_scan T esc one s t pos in (s', base + q).
Proof.
  induction t as [|b t IH]; intros s pos; cbn [s_scan]; [reflexivity|].
  destruct (c_err (s_core (s_step T esc s b))); [reflexivity|].
  destruct (one && has_obj (s_core (s_step T esc s b))).
  - unfold stop_pos. destruct (_ || _); f_equal; lia.
  - replace (S (base + pos)) with (base + S pos) by lia. apply IH.
Qed.
Lemma read_from_app T esc one t1 t2 s base : stopped one (s_core s) = false ->
  s_read_from T esc one s (t1 ++ t2) base =
  let '(s1, p1) := s_scan T esc one s t1 base in
  if stopped one (s_core s1) then result_of (s_core s1) p1 else s_read_from T esc one s1 t2 (base + length t1).
Proof.
  intros Hs. unfold s_read_from. rewrite scan_app by exact Hs.
  destruct (s_scan T esc one s t1 base) as [s1 p1] eqn:E1. destruct (stopped one (s_core s1)) eqn:Est.
  - rewrite Est. reflexivity.
  - rewrite (scan_pos _ _ _ _ _ _ _ _ E1 Est). rewrite app_length, Nat.add_assoc. reflexivity.
Qed.

(* ---------- block boundaries and the end of the input ---------- *)
Definition reset (m : mstate) : mstate := {| m_core := m_core m; m_ts := 0; m_carry := m_carry m; m_buf := m_buf m |}.
(* what holds between two blocks: the pending lexeme lives in carry / buf alone *)
Definition bstart (m : mstate) (s : sstate) : Prop := sim (reset m) [] 0 s.

Lemma bstart_sim m s src : bstart m s -> sim (reset m) src 0 s.
Proof.
  intros [Hc Hs]. split; [exact Hc|]. intros E. destruct (Hs E) as [Hp Hwf]. split; [|exact Hwf].
  rewrite Hp. unfold lexeme. cbn [reset m_core m_ts m_carry m_buf]. rewrite !slice_empty. reflexivity.
Qed.
Lemma bstart0 : bstart m0 s0.
Proof. split; [reflexivity|]. intros _. split; [reflexivity|]. unfold wf. cbn. repeat split; try reflexivity. intros [H|H]; discriminate H. Qed.

Lemma block_end_bstart m src s : sim m src (length src) s -> bstart (m_block_end m src) s.
Proof.
  intros [Hc Hs]. unfold bstart, m_block_end.
  destruct m as [c ts carry buf]. cbn [m_core m_ts m_carry m_buf] in *.
  split.
  - rewrite Hc. destruct (token_like (c_mode c)); [reflexivity|]. destruct (string_like (c_mode c)); reflexivity.
  - intros E. assert (E' : c_err c = None).
    { revert E. destruct (token_like (c_mode c)); [exact (fun x => x)|]. destruct (string_like (c_mode c)); exact (fun x => x). }
    destruct (Hs E') as [Hp (Hwf & Hcar & Hnx)]. rewrite Hp. unfold lexeme, wf, reset in *. cbn [m_core m_ts m_carry m_buf] in *.
    destruct (c_mode c) eqn:Em; cbn [token_like string_like class_of m_core m_ts m_carry m_buf] in *; rewrite ?Em; cbn [class_of];
      rewrite ?slice_empty, ?app_nil_r.
    all: try (destruct buf; cbn).
    all: repeat split; try reflexivity; try lia; try assumption; try (intros; discriminate);
      try (apply Hcar; discriminate); try (intros _; apply Hcar; discriminate).
    all: try (destruct (slice src ts (length src)); reflexivity).
    all: intros H; exfalso; apply H; reflexivity.
Qed.

Lemma finish_sim m src s : sim m src (length src) s -> m_finish m src = s_finish s.
Proof.
  intros [Hc Hs]. unfold m_finish, s_finish, finish. rewrite Hc. destruct (c_err (m_core m)) eqn:E; [reflexivity|].
  destruct (Hs eq_refl) as [Hp _]. rewrite Hp. unfold lexeme.
  destruct (c_mode (m_core m)); cbn [class_of]; reflexivity.
Qed.

(* ---------- the stream read is the abstract read of the concatenation ---------- *)
Lemma stream_sim T esc one : table_ok T = true -> forall blocks m s base,
  bstart m s -> stopped one (s_core s) = false ->
  m_read_stream T esc one m blocks base = s_read_from T esc one s (concat blocks) base.
Proof.
  intros HT. induction blocks as [|src rest IH]; intros m s base Hb Hst.
  - cbn [m_read_stream concat]. unfold s_read_from. cbn [s_scan]. rewrite Hst.
    pose proof (finish_sim (reset m) [] s Hb) as Hf. unfold m_finish in *. cbn [reset m_core m_ts m_carry m_buf length] in Hf.
    assert (Hnil : forall a b, slice [] a b = []) by (intros a b; unfold slice; destruct a; destruct (b - _); reflexivity).
    rewrite !Hnil in Hf. rewrite !Hnil. rewrite Hf. cbn [length]. rewrite Nat.add_0_r. reflexivity.
  - cbn [m_read_stream concat]. fold (reset m).
    destruct (m_block T esc one (reset m) src 0 (length src)) as [m' p'] eqn:Eb.
    destruct (block_sim T esc one HT (length src) (reset m) src 0 s (bstart_sim m s src Hb) (Nat.le_0_l _) (Nat.le_sub_l _ _) m' p' Eb)
      as (s' & Hscan & Hc' & Hrest).
    cbn [skipn] in Hscan. rewrite (read_from_app T esc one src (concat rest) s base Hst).
    pose proof (scan_shift T esc one base src s 0) as Hsh. rewrite Nat.add_0_r in Hsh. rewrite Hsh, Hscan.
    unfold stopped in *. rewrite Hc' in *. destruct (c_err (m_core m')) eqn:E; [reflexivity|].
    unfold has_obj in *. destruct (one && negb match code (c_p (m_core m')) with [] => true | _ => false end) eqn:Eo; [reflexivity|].
    destruct (Hrest eq_refl) as [-> Hsim']. destruct rest as [|src2 rest].
    + cbn [concat]. unfold s_read_from. cbn [s_scan]. unfold stopped. rewrite Hc', E. unfold has_obj. rewrite Eo.
      rewrite (finish_sim m' src s' Hsim'). cbn [length]. rewrite Nat.add_0_r. reflexivity.
    + apply IH; [apply block_end_bstart; exact Hsim'|]. unfold stopped. rewrite Hc', E. unfold has_obj. exact Eo.
Qed.

Lemma stopped0 one : stopped one (s_core s0) = false.
Proof. unfold stopped. cbn. apply andb_false_r. Qed.

Theorem stream_is_text T esc one blocks : table_ok T = true ->
  m_read_stream T esc one m0 blocks 0 = s_read_gen T esc one (concat blocks).
Proof. intros HT. apply stream_sim; [exact HT|exact bstart0|apply stopped0]. Qed.

Theorem whole_is_text T esc one src : table_ok T = true -> m_read_whole T esc one src = s_read_gen T esc one src.
Proof.
  intros HT. unfold m_read_whole, s_read_gen, s_read_from.
  destruct (m_block T esc one m0 src 0 (length src)) as [m' p'] eqn:Eb.
  destruct (block_sim T esc one HT (length src) m0 src 0 s0 (bstart_sim m0 s0 src bstart0) (Nat.le_0_l _) (Nat.le_sub_l _ _) m' p' Eb)
    as (s' & Hscan & Hc' & Hrest).
  cbn [skipn] in Hscan. rewrite Hscan. unfold stopped, has_obj in *. rewrite Hc' in *.
  destruct (c_err (m_core m')) eqn:E.
  - destruct (one && _); reflexivity.
  - destruct (one && negb match code (c_p (m_core m')) with [] => true | _ => false end) eqn:Eo; [reflexivity|].
    destruct (Hrest eq_refl) as [-> Hsim']. rewrite (finish_sim m' src s' Hsim'). reflexivity.
Qed.

(* any two ways of cutting the same text read the same *)
Theorem delivery_independent T esc one blocks1 blocks2 : table_ok T = true -> concat blocks1 = concat blocks2 ->
  m_read_stream T esc one m0 blocks1 0 = m_read_stream T esc one m0 blocks2 0 /\
  m_read_stream T esc one m0 blocks1 0 = m_read_whole T esc one (concat blocks1).
Proof. intros HT H. rewrite !stream_is_text, whole_is_text by exact HT. rewrite H. split; reflexivity. Qed.

(* ---------- reading everything is folding the byte step over the text ---------- *)
Lemma s_step_err T esc s b e : c_err (s_core s) = Some e -> s_step T esc s b = s.
Proof. intros E. unfold s_step. rewrite E. reflexivity. Qed.
Lemma s_run_err T esc : forall text s e, c_err (s_core s) = Some e -> s_run T esc s text = s.
Proof. induction text as [|b text IH]; intros s e E; [reflexivity|]. unfold s_run in *. cbn [fold_left]. rewrite (s_step_err _ _ _ _ _ E). exact (IH s e E). Qed.
Lemma scan_all_run T esc : forall text s pos, fst (s_scan T esc false s text pos) = s_run T esc s text.
Proof.
  induction text as [|b text IH]; intros s pos; [reflexivity|]. cbn [s_scan]. unfold s_run. cbn [fold_left].
  destruct (c_err (s_core (s_step T esc s b))) eqn:E.
  - cbn [fst]. symmetry. exact (s_run_err T esc text _ _ E).
  - cbn [andb]. apply IH.
Qed.
Theorem read_all_is_fold T esc text : s_read_gen T esc false text = s_read T esc text.
Proof.
  unfold s_read_gen, s_read_from, s_read. pose proof (scan_all_run T esc text s0 0) as H.
  destruct (s_scan T esc false s0 text 0) as [s' p']. cbn [fst] in H. subst s'. unfold stopped. cbn [andb].
  destruct (c_err (s_core (s_run T esc s0 text))) eqn:E; unfold result_of; rewrite ?E; reflexivity.
Qed.
(* cutting the text anywhere and continuing with the state reached so far changes nothing *)
Theorem fold_chunks T esc s t1 t2 : s_run T esc s (t1 ++ t2) = s_run T esc (s_run T esc s t1) t2.
Proof. unfold s_run. apply fold_left_app. Qed.

(* ---------- a text that stops inside a form is reported ---------- *)
Lemma wrap_marks_depth : forall st t, depth_of {| stack := fst (wrap_marks st t); code := [] |} = depth_of {| stack := st; code := [] |}.
Proof. induction st as [|[k|w|x] st IH]; intros t; cbn [wrap_marks fst]; try reflexivity. rewrite IH. reflexivity. Qed.
Lemma depth_push_val p t : depth_of (push_val p t) = depth_of p.
Proof.
  unfold push_val. pose proof (wrap_marks_depth (stack p) t) as H. destruct (wrap_marks (stack p) t) as [st t']. cbn [fst] in H.
  unfold depth_of in *. cbn [stack] in *. destruct st; cbn [stack]; rewrite <- H; reflexivity.
Qed.
Lemma depth_push_token p tok : depth_of (push_token p tok) = depth_of p.
Proof. unfold push_token. apply depth_push_val. Qed.
Lemma emit_depth c k lex : c_err c = None -> c_err (emit c k lex) <> None \/ depth_of (c_p (emit c k lex)) = depth_of (c_p c).
Proof.
  intros E. unfold emit. destruct k; cbn; try (right; apply depth_push_val); try (right; apply depth_push_token).
  - destruct lex; cbn; [left; discriminate|right; apply depth_push_val].
  - destruct (valid_int (c_base c) lex); cbn; [right; apply depth_push_val|left; discriminate].
Qed.
Lemma depth_stack p : 0 < depth_of p -> stack p <> [].
Proof. unfold depth_of. destruct (stack p); cbn; [lia|discriminate]. Qed.

Definition truncated (s : sstate) : Prop :=
  0 < depth_of (c_p (s_core s)) \/ c_mode (s_core s) = MString \/ c_mode (s_core s) = MSymbol \/ c_mode (s_core s) = MEsc \/ c_mode (s_core s) = MRune.
Theorem truncated_is_reported s : truncated s -> c_err (s_finish s) <> None.
Proof.
  intros Ht. unfold s_finish, finish. destruct (c_err (s_core s)) eqn:E; [rewrite E; discriminate|].
  assert (Hfin : forall c1, (c_err c1 <> None \/ depth_of (c_p c1) = depth_of (c_p (s_core s))) -> 0 < depth_of (c_p (s_core s)) ->
                 c_err match c_err c1 with Some _ => c1 | None => match stack (c_p c1) with [] => c1 | _ => set_err c1 (EPartial (depth_of (c_p c1))) end end <> None).
  { intros c1 [H|H] Hd; destruct (c_err c1) eqn:E1; try congruence.
    pose proof (depth_stack (c_p c1)) as Hs. rewrite H in Hs. specialize (Hs Hd). destruct (stack (c_p c1)); [congruence|cbn; discriminate]. }
  destruct Ht as [Hd|Hm].
  - destruct (c_mode (s_core s)); try (apply Hfin; [|exact Hd]; first [apply emit_depth; exact E | right; reflexivity]); cbn; discriminate.
  - destruct Hm as [Hm|[Hm|[Hm|Hm]]]; rewrite Hm; cbn; discriminate.
Qed.
