(* C02 — reading one form at a time.  If the one-form read of a text stops after an object at position p,
   then the objects of the whole text are that object followed by the objects of the text from p on.
   The reader restarted at p has fresh registers (next mode, radix, #n, rune accumulator); the proof
   relates it to the reader that kept going by an equivalence that ignores the registers a mode
   does not read, under a mode discipline of the tables checked by computation on the regenerated
   tables (table_ok2). *)
From C02 Require Import Model Spec Proofs.

Definition mode_eqb (a b : mode) : bool :=
  match a, b with
  | MValue, MValue | MComment, MComment | MToken, MToken | MString, MString | MSymbol, MSymbol | MEsc, MEsc | MRune, MRune
  | MSharp, MSharp | MChar, MChar | MInt, MInt | MSharpNum, MSharpNum | MMustArray, MMustArray | MBitVector, MBitVector
  | MBlockComment, MBlockComment | MBlockEnd, MBlockEnd => true
  | _, _ => false
  end.
Lemma mode_eqb_eq a b : mode_eqb a b = true -> a = b.
Proof. destruct a, b; cbn; intros H; try discriminate H; reflexivity. Qed.

(* which action may stand in which mode, on which byte *)
Definition allowed2 (m : mode) (b : byte) (a : action) : bool :=
  allowed (class_of m) a &&
  match a with
  | AClose => mode_eqb m MValue && N.eqb b 41
  | AStrDone => mode_eqb m MString && N.eqb b 34
  | APipeDone => mode_eqb m MSymbol && N.eqb b 124
  | ATokenDone => mode_eqb m MToken && negb (N.eqb b 34) && negb (N.eqb b 124)
  | ACharDone => mode_eqb m MChar && negb (N.eqb b 34) && negb (N.eqb b 124)
  | AIntDone => mode_eqb m MInt && negb (N.eqb b 34) && negb (N.eqb b 124)
  | ABitVectorDone => mode_eqb m MBitVector && negb (N.eqb b 34) && negb (N.eqb b 124)
  | AEscOne | AU4 | AU8 => mode_eqb m MEsc
  | ARuneDigit | ARuneHexA | ARuneHexa => mode_eqb m MRune
  | ASharpNum | ARadix | AArray => mode_eqb m MSharpNum
  | ATokenStart | ACommaAt | AOpen | AQuote | ABackquote | AComma | ADQuote | APipe | ASharp | AComment => mode_eqb m MValue
  | ACommentDone => mode_eqb m MComment || mode_eqb m MBlockEnd
  | ABlockStart => mode_eqb m MSharp || mode_eqb m MBlockEnd
  | ABlockEnd0 => mode_eqb m MBlockComment
  | ASharpQuote | AVector | ABitVector | ASharpInt | ABinary | ASharpComplex | AOct | AHex | ACharSlash => mode_eqb m MSharp
  | ASwallowOpen => mode_eqb m MMustArray
  | ASkip | ASkipNl | AStrByte | AEsc | AErr => true
  end.
Definition all_bytes : list N := map N.of_nat (seq 0 256).
Definition table_ok2 (T : tables) : bool :=
  forallb (fun m => forallb (fun b => allowed2 m b (act T m b)) all_bytes) all_modes.

(* ---------- states that differ in the objects already read and in dead registers ---------- *)
Definition pR (old : list tree) (p p' : pstate) : Prop := stack p = stack p' /\ code p = code p' ++ old.

Lemma push_val_R old p p' t : pR old p p' -> pR old (push_val p t) (push_val p' t).
Proof. intros [Hs Hc]. unfold push_val. rewrite Hs. destruct (stack p'); cbn; split; try reflexivity; try assumption. rewrite Hc. reflexivity. Qed.
Lemma push_token_R old p p' tok : pR old p p' -> pR old (push_token p tok) (push_token p' tok).
Proof.
  intros H. unfold push_token. destruct (is_t tok); [apply push_val_R; exact H|]. destruct (is_nil_tok tok); [apply push_val_R; exact H|].
  pose proof H as [Hs Hc]. rewrite Hs. destruct (stack p') as [|[k|w|t] rest]; try (apply push_val_R; exact H).
  destruct rest; cbn; split; try reflexivity; try assumption. rewrite Hc. reflexivity.
Qed.
Lemma close_list_R old p p' : pR old p p' ->
  match close_list p, close_list p' with inl q, inl q' => pR old q q' | inr e, inr e' => e = e' | _, _ => False end.
Proof.
  intros [Hs Hc]. unfold close_list. rewrite Hs. destruct (pop_to_open (stack p') []) as [[[k items] below]|]; [|reflexivity].
  destruct k; try (destruct below; cbn; split; try reflexivity; try assumption; rewrite Hc; reflexivity).
  destruct below as [|[k|w|t] below]; cbn; try (split; try reflexivity; try assumption; rewrite Hc; reflexivity).
  destruct below; cbn; split; try reflexivity; try assumption; rewrite Hc; reflexivity.
Qed.

Definition R (old : list tree) (c c' : core) : Prop :=
  c_mode c = c_mode c' /\ pR old (c_p c) (c_p c') /\ c_err c = c_err c' /\
  (class_of (c_mode c) = ClsStr \/ class_of (c_mode c) = ClsEsc -> c_next c = c_next c' /\ class_of (c_next c) = ClsStr) /\
  (c_mode c = MInt -> c_base c = c_base c') /\
  (c_mode c = MSharpNum -> c_sharp c = c_sharp c') /\
  (c_mode c = MRune -> c_rn c = c_rn c' /\ c_rcnt c = c_rcnt c').
