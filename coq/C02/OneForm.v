(* C02 — reading one form at a time.  If the one-form read of a text stops after an object at position p,
   then the objects of the whole text are that object followed by the objects of the text from p on.
   The reader restarted at p has fresh registers (next mode, radix, #n, rune accumulator); the proof
   relates it to the reader that kept going by an equivalence that ignores the registers a mode
   does not read, under a mode discipline of the tables checked by computation on the regenerated
   tables (table_ok2). *)
From C02 Require Import Model Spec Proofs.

Definition mode_eqb (a b : mode) : bool :=
  match a, b with
  | MValue, MValue | MComment, MComment | MToken, MToken | MString, MString | MSymbol, MSymbol | MEsc, MEsc | MRune, MRune
  | MSharp, MSharp | MChar, MChar | MInt, MInt | MSharpNum, MSharpNum | MMustArray, MMustArray | MBitVector, MBitVector
  | MBlockComment, MBlockComment | MBlockEnd, MBlockEnd => true
  | _, _ => false
  end.
Lemma mode_eqb_eq a b : mode_eqb a b = true -> a = b.
Proof. destruct a, b; cbn; intros H; try discriminate H; reflexivity. Qed.

(* which action may stand in which mode, on which byte *)
Definition allowed2 (m : mode) (b : byte) (a : action) : bool :=
  allowed (class_of m) a &&
  match a with
  | AClose => mode_eqb m MValue && N.eqb b 41
  | AStrDone => mode_eqb m MString && N.eqb b 34
  | APipeDone => mode_eqb m MSymbol && N.eqb b 124
  | ATokenDone => mode_eqb m MToken && negb (N.eqb b 34) && negb (N.eqb b 124)
  | ACharDone => mode_eqb m MChar && negb (N.eqb b 34) && negb (N.eqb b 124)
  | AIntDone => mode_eqb m MInt && negb (N.eqb b 34) && negb (N.eqb b 124)
  | ABitVectorDone => mode_eqb m MBitVector && negb (N.eqb b 34) && negb (N.eqb b 124)
  | AEscOne | AU4 | AU8 => mode_eqb m MEsc
  | ARuneDigit | ARuneHexA | ARuneHexa => mode_eqb m MRune
  | ASharpNum | ARadix | AArray => mode_eqb m MSharpNum
  | ATokenStart | ACommaAt | AOpen | AQuote | ABackquote | AComma | ADQuote | APipe | ASharp | AComment => mode_eqb m MValue
  | ACommentDone => mode_eqb m MComment || mode_eqb m MBlockEnd
  | ABlockStart => mode_eqb m MSharp || mode_eqb m MBlockEnd
  | ABlockEnd0 => mode_eqb m MBlockComment
  | ASharpQuote | AVector | ABitVector | ASharpInt | ABinary | ASharpComplex | AOct | AHex | ACharSlash => mode_eqb m MSharp
  | ASwallowOpen => mode_eqb m MMustArray
  | ASkip | ASkipNl | AStrByte | AEsc | AErr => true
  end.
Definition all_bytes : list N := map N.of_nat (seq 0 256).
Definition table_ok2 (T : tables) : bool :=
  forallb (fun m => forallb (fun b => allowed2 m b (act T m b)) all_bytes) all_modes.

(* ---------- states that differ in the objects already read and in dead registers ---------- *)
Definition pR (old : list tree) (p p' : pstate) : Prop := stack p = stack p' /\ code p = code p' ++ old.

Lemma push_val_R old p p' t : pR old p p' -> pR old (push_val p t) (push_val p' t).
Proof.
  intros [Hs Hc]. unfold push_val. rewrite Hs. destruct (wrap_marks (stack p') t) as [st t'].
  destruct st; cbn; split; try reflexivity; try assumption. rewrite Hc. reflexivity.
Qed.
Lemma push_token_R old p p' tok : pR old p p' -> pR old (push_token p tok) (push_token p' tok).
Proof. intros H. unfold push_token. apply push_val_R; exact H. Qed.
Lemma close_list_R old p p' : pR old p p' ->
  match close_list p, close_list p' with inl q, inl q' => pR old q q' | inr e, inr e' => e = e' | _, _ => False end.
Proof.
  intros [Hs Hc]. unfold close_list. rewrite Hs. destruct (pop_to_open (stack p') []) as [[[k items] below]|]; [|reflexivity].
  apply push_val_R. split; [reflexivity|exact Hc].
Qed.

Definition R (old : list tree) (c c' : core) : Prop :=
  c_mode c = c_mode c' /\ pR old (c_p c) (c_p c') /\ c_err c = c_err c' /\
  (class_of (c_mode c) = ClsStr \/ class_of (c_mode c) = ClsEsc -> c_next c = c_next c' /\ class_of (c_next c) = ClsStr) /\
  (c_mode c = MInt -> c_base c = c_base c') /\
  (c_mode c = MSharpNum -> c_sharp c = c_sharp c') /\
  (c_mode c = MRune -> c_rn c = c_rn c' /\ c_rcnt c = c_rcnt c').

Lemma in_backquote_R old c c' : pR old (c_p c) (c_p c') -> in_backquote c = in_backquote c'.
Proof. intros [Hs _]. unfold in_backquote. rewrite Hs. reflexivity. Qed.

Ltac unR := unfold R, pR; cbn [c_mode c_next c_base c_sharp c_rn c_rcnt c_p c_err set_mode set_modes set_p set_err set_base set_sharp set_rune push_open push_mark class_of stack code].
Ltac finR :=
  unR; repeat match goal with |- _ /\ _ => split end;
  try reflexivity; try assumption; try (intros; discriminate); try (intros [?|?]; discriminate);
  try (f_equal; assumption); try tauto;
  try (match goal with H : code _ = _ |- _ => rewrite H; reflexivity end).

Lemma step_core_R esc old a b c c' c1 op :
  R old c c' -> allowed2 (c_mode c) b a = true -> step_core esc a b c = (c1, op) ->
  exists c1', step_core esc a b c' = (c1', op) /\ R old c1 c1'.
Proof.
  intros HR Hal Hstep. pose proof HR as (Hm & Hp & He & Hnx & Hba & Hsh & Hru).
  apply andb_true_iff in Hal as [Hal1 Hal2].
  pose proof Hp as [Hst Hco].
  destruct c as [m n ba sh rn rc p e], c' as [m' n' ba' sh' rn' rc' p' e'].
  cbn [c_mode c_next c_base c_sharp c_rn c_rcnt c_p c_err] in *. subst m' e'.
  destruct a; cbn [step_core c_mode c_next c_base c_sharp c_rn c_rcnt c_p c_err] in Hstep |- *.
  all: try (apply mode_eqb_eq in Hal2; subst m).
  all: try (apply andb_true_iff in Hal2 as [Hal2 _]; try (apply andb_true_iff in Hal2 as [Hal2 _]); try (apply andb_true_iff in Hal2 as [Hal2 _]); apply mode_eqb_eq in Hal2; subst m).
  all: try (apply orb_true_iff in Hal2 as [Hal2|Hal2]; apply mode_eqb_eq in Hal2; subst m).
  all: try (destruct (Hnx ltac:(cbn; tauto)) as [Hn Hcls]; subst n').
  all: try (destruct (Hru eq_refl) as [Hrn Hrc]; subst rn' rc').
  all: try (pose proof (Hsh eq_refl) as Hsh'; subst sh').
  all: try (pose proof (Hba eq_refl) as Hba'; subst ba').
  all: cbn in Hstep |- *.
  all: try (match type of Hstep with context [match ?v with N0 => _ | Npos _ => _ end] => destruct v as [|[q|q|]]; cbn in Hstep |- *; try (match type of Hstep with context [(1024 <? ?x)%N] => destruct (1024 <? x)%N end) end).
  all: try (injection Hstep as <- <-; eexists; split; [reflexivity|]; finR;
            try (intros Hx; rewrite Hx in *; discriminate)).
  - (* AClose *)
    pose proof (close_list_R old p p' Hp) as Hcl.
    destruct (close_list p) as [q|er], (close_list p') as [q'|er']; try contradiction.
    + injection Hstep as <- <-. eexists; split; [reflexivity|]. destruct Hcl. finR.
    + subst er'. injection Hstep as <- <-. eexists; split; [reflexivity|]. finR.
  - (* AEsc *) intros _. apply Hnx. destruct m; cbn in Hal1; try discriminate Hal1; cbn; tauto.
  - destruct rc as [|[|rc]]; injection Hstep as <- <-; eexists; (split; [reflexivity|]); finR; try (intros Hx; rewrite Hx in *; discriminate).
  - destruct rc as [|[|rc]]; injection Hstep as <- <-; eexists; (split; [reflexivity|]); finR; try (intros Hx; rewrite Hx in *; discriminate).
  - destruct rc as [|[|rc]]; injection Hstep as <- <-; eexists; (split; [reflexivity|]); finR; try (intros Hx; rewrite Hx in *; discriminate).
  - (* AComma *)
    match goal with |- context [in_backquote ?c'] => match type of Hstep with context [in_backquote ?c] =>
      rewrite <- (in_backquote_R old c c') by exact Hp; destruct (in_backquote c) end end;
    injection Hstep as <- <-; eexists; (split; [reflexivity|]); finR.
  - (* ACommaAt *)
    rewrite <- Hst. destruct (stack p) as [|[k|[]|t] rest] eqn:Es; injection Hstep as <- <-; eexists; (split; [reflexivity|]); finR.
    all: try (rewrite Es; exact Hst).
    all: try (cbn; f_equal; injection Hst as ?; congruence).
Qed.

Lemma R_value old c c' p p' : c_err c = c_err c' -> pR old p p' -> R old (set_mode (set_p c p) MValue) (set_mode (set_p c' p') MValue).
Proof. intros He Hp. unR. repeat split; try reflexivity; try apply Hp; try exact He; try (intros; discriminate); try (intros [?|?]; discriminate);
  try (match goal with H : _ = _ \/ _ = _ |- _ => destruct H; discriminate end). Qed.
Lemma R_err_value old c c' x : pR old (c_p c) (c_p c') -> R old (set_mode (set_err c x) MValue) (set_mode (set_err c' x) MValue).
Proof. intros Hp. unR. repeat split; try reflexivity; try apply Hp; try (intros; discriminate); try (intros [?|?]; discriminate);
  try (match goal with H : _ = _ \/ _ = _ |- _ => destruct H; discriminate end). Qed.

Lemma emit_R old c c' k lex : R old c c' -> (k = XInt -> c_base c = c_base c') -> R old (emit c k lex) (emit c' k lex).
Proof.
  intros (Hm & Hp & He & _) Hb. unfold emit. destruct k.
  - apply R_value; [exact He|apply push_token_R; exact Hp].
  - apply R_value; [exact He|apply push_val_R; exact Hp].
  - apply R_value; [exact He|apply push_val_R; exact Hp].
  - destruct lex; [apply R_err_value; exact Hp|apply R_value; [exact He|apply push_val_R; exact Hp]].
  - rewrite <- (Hb eq_refl). destruct (valid_int (c_base c) lex); [apply R_value; [exact He|apply push_val_R; exact Hp]|apply R_err_value; exact Hp].
  - apply R_value; [exact He|apply push_val_R; exact Hp].
Qed.

(* what an action needs of the pending lexeme, by mode *)
Lemma op_facts esc a b c c1 op : allowed2 (c_mode c) b a = true -> step_core esc a b c = (c1, op) ->
  match op with
  | LGrow | LAppend _ | LAppendIf _ => class_of (c_mode c) <> ClsNone
  | LDone k _ => class_of (c_mode c) <> ClsNone /\ (k = XInt -> c_mode c1 = MInt) /\ c1 = c
  | LNone | LFreeze => class_of (c_mode c1) <> ClsNone -> class_of (c_mode c) <> ClsNone
  | LStartHere | LStartNext => True
  end.
Proof.
  intros Hal Hstep. apply andb_true_iff in Hal as [Hal1 Hal2].
  destruct c as [m n ba sh rn rc p e]. cbn [c_mode] in *.
  destruct a; cbn [step_core c_mode c_next c_base c_sharp c_rn c_rcnt c_p c_err] in Hstep.
  all: try (apply mode_eqb_eq in Hal2; subst m).
  all: try (apply andb_true_iff in Hal2 as [Hal2 _]; try (apply andb_true_iff in Hal2 as [Hal2 _]); try (apply andb_true_iff in Hal2 as [Hal2 _]); apply mode_eqb_eq in Hal2; subst m).
  all: try (apply orb_true_iff in Hal2 as [Hal2|Hal2]; apply mode_eqb_eq in Hal2; subst m).
  all: cbn in Hstep.
  all: repeat match type of Hstep with context [match ?x with _ => _ end] => destruct x eqn:? end.
  all: try (injection Hstep as <- <-; cbn; try tauto; try (repeat split; try discriminate; try reflexivity; intros; discriminate)).
  all: try (destruct m; cbn in *; try discriminate; injection Hstep as <- <-; cbn; try tauto; try discriminate; intros; try discriminate; try tauto).
Qed.

Definition Rs (old : list tree) (s s' : sstate) : Prop :=
  R old (s_core s) (s_core s') /\ (class_of (c_mode (s_core s)) <> ClsNone -> s_pend s = s_pend s').

Lemma table_ok2_allowed T m b : table_ok2 T = true -> (b < 256)%N -> allowed2 m b (act T m b) = true.
Proof.
  unfold table_ok2. rewrite forallb_forall. intros H Hb. specialize (H m (all_modes_complete m)).
  rewrite forallb_forall in H. apply H. unfold all_bytes. apply in_map_iff. exists (N.to_nat b). split; [apply N2Nat.id|].
  apply in_seq. lia.
Qed.

(* one application of an action *)
Lemma apply_R esc old a b s s' c1 op s1 r :
  Rs old s s' -> allowed2 (c_mode (s_core s)) b a = true ->
  step_core esc a b (s_core s) = (c1, op) -> s_apply s b c1 op = (s1, r) ->
  exists c1' s1', step_core esc a b (s_core s') = (c1', op) /\ s_apply s' b c1' op = (s1', r) /\ Rs old s1 s1'.
Proof.
  intros [HR Hpend] Hal Hstep Happ.
  destruct (step_core_R esc old a b _ _ c1 op HR Hal Hstep) as (c1' & Hstep' & HR1).
  pose proof (op_facts esc a b _ c1 op Hal Hstep) as Hop.
  exists c1'. destruct op; cbn in Happ |- *; injection Happ as <- <-; eexists; (split; [exact Hstep'|]); (split; [reflexivity|]); split; cbn [s_core s_pend].
  all: try exact HR1.
  all: try (intros Hc; first [rewrite (Hpend (Hop Hc)); reflexivity | rewrite (Hpend Hop); reflexivity | reflexivity]).
  - (* LDone *) destruct Hop as (Hc & Hint & ->). rewrite (Hpend Hc). apply emit_R; [exact HR1|].
    intros ->. destruct HR1 as (_ & _ & _ & _ & Hba & _). apply Hba. apply Hint. reflexivity.
Qed.

Lemma allowed2_all T : table_ok T = true -> table_ok2 T = true -> forall m b, allowed2 m b (act T m b) = true.
Proof.
  intros H1 H2 m b. destruct (N.lt_ge_cases b 256) as [Hlt|Hge]; [apply table_ok2_allowed; assumption|].
  unfold table_ok in H1. rewrite forallb_forall in H1. specialize (H1 m (all_modes_complete m)).
  apply andb_true_iff in H1 as [Hlen _]. apply Nat.eqb_eq in Hlen.
  unfold act. rewrite nth_overflow by lia. cbn. unfold allowed2. destruct (class_of m); reflexivity.
Qed.

Lemma step_R T esc old s s' b : table_ok T = true -> table_ok2 T = true -> Rs old s s' ->
  Rs old (s_step T esc s b) (s_step T esc s' b).
Proof.
  intros H1 H2 HRs. pose proof HRs as [HR _]. pose proof HR as (Hm & _ & He & _).
  unfold s_step. rewrite <- He, <- Hm. destruct (c_err (s_core s)) eqn:E; [exact HRs|].
  destruct (step_core esc (act T (c_mode (s_core s)) b) b (s_core s)) as [c1 op1] eqn:E1.
  destruct (s_apply s b c1 op1) as [s1 r] eqn:E2.
  destruct (apply_R esc old _ b s s' c1 op1 s1 r HRs (allowed2_all T H1 H2 _ _) E1 E2) as (c1' & s1' & -> & -> & HRs1).
  destruct r; [|exact HRs1].
  pose proof HRs1 as [HR1 _]. pose proof HR1 as (Hm1 & _ & He1 & _). rewrite <- He1, <- Hm1.
  destruct (c_err (s_core s1)) eqn:E3; [exact HRs1|].
  destruct (step_core esc (act T (c_mode (s_core s1)) b) b (s_core s1)) as [c2 op2] eqn:E4.
  destruct (s_apply s1 b c2 op2) as [s2 r2] eqn:E5.
  destruct (apply_R esc old _ b s1 s1' c2 op2 s2 r2 HRs1 (allowed2_all T H1 H2 _ _) E4 E5) as (c2' & s2' & -> & -> & HRs2).
  exact HRs2.
Qed.

Lemma run_R T esc old : table_ok T = true -> table_ok2 T = true -> forall text s s', Rs old s s' ->
  Rs old (s_run T esc s text) (s_run T esc s' text).
Proof.
  intros H1 H2. induction text as [|b text IH]; intros s s' HRs; [exact HRs|].
  unfold s_run in *. cbn [fold_left]. apply IH. apply step_R; assumption.
Qed.

(* related states finish alike: the continuing reader has the earlier objects in front (prepend: Model.v) *)

Lemma depth_R old p p' : pR old p p' -> depth_of p = depth_of p'.
Proof. intros [Hs _]. unfold depth_of. rewrite Hs. reflexivity. Qed.

Lemma R_set_err old c c' x : R old c c' -> R old (set_err c x) (set_err c' x).
Proof. intros (A & B & C & D & E & F & G). unR. exact (conj A (conj B (conj eq_refl (conj D (conj E (conj F G)))))). Qed.

Lemma finish_R old s s' : Rs old s s' -> R old (s_finish s) (s_finish s').
Proof.
  intros [HR Hpend]. pose proof HR as (Hm & Hp & He & Hnx & Hba & _).
  unfold s_finish, finish. rewrite <- He. destruct (c_err (s_core s)) eqn:E; [exact HR|]. rewrite <- Hm.
  assert (Hfin : forall c1 c1', R old c1 c1' ->
     R old match c_err c1 with Some _ => c1 | None => match stack (c_p c1) with [] => c1 | _ => set_err c1 (EPartial (depth_of (c_p c1))) end end
           match c_err c1' with Some _ => c1' | None => match stack (c_p c1') with [] => c1' | _ => set_err c1' (EPartial (depth_of (c_p c1'))) end end).
  { intros c1 c1' HR1. pose proof HR1 as (Hm1 & Hp1 & He1 & Hr1). rewrite <- He1. destruct (c_err c1); [exact HR1|].
    pose proof Hp1 as [Hs1 _]. rewrite <- Hs1, <- (depth_R old _ _ Hp1). destruct (stack (c_p c1)); [exact HR1|]. apply R_set_err. exact HR1. }
  destruct (c_mode (s_core s)) eqn:Em; try (apply Hfin; exact HR).
  all: try (rewrite <- (Hpend ltac:(cbn; discriminate)); apply Hfin; apply emit_R; [exact HR|]; intros Hk; try discriminate Hk; apply Hba; reflexivity).
  all: try (apply Hfin; rewrite <- (depth_R old _ _ Hp); apply R_set_err; exact HR).
  all: try (apply Hfin; apply R_set_err; exact HR).
Qed.

(* ---------- the step that completes the first object ---------- *)
Definition clean (c : core) : Prop := c_mode c = MValue /\ stack (c_p c) = [] /\ c_err c = None.
Definition bump (b : byte) : bool := N.eqb b 41 || N.eqb b 34 || N.eqb b 124.

Lemma clean_Rs s : clean (s_core s) -> Rs (code (c_p (s_core s))) s s0.
Proof.
  intros (Hm & Hs & He). split.
  - unfold R, pR. cbn [s_core s0 core0 c_mode c_p c_err stack code c_next c_base c_sharp c_rn c_rcnt]. rewrite Hm, Hs, He. cbn.
    repeat split; try reflexivity; try (intros; discriminate); try (intros [?|?]; discriminate);
      try (match goal with H : _ = _ \/ _ = _ |- _ => destruct H; discriminate end).
  - rewrite Hm. intros H. exfalso. apply H. reflexivity.
Qed.

Lemma push_val_code p t : code p = [] -> code (push_val p t) = [] \/ stack (push_val p t) = [].
Proof. intros Hc. unfold push_val. destruct (wrap_marks (stack p) t) as [st t']. destruct st; cbn; [right; reflexivity|left; exact Hc]. Qed.
Lemma push_token_code p tok : code p = [] -> code (push_token p tok) = [] \/ stack (push_token p tok) = [].
Proof. intros Hc. unfold push_token. apply push_val_code; exact Hc. Qed.
Lemma close_list_code p q : code p = [] -> close_list p = inl q -> code q = [] \/ stack q = [].
Proof.
  intros Hc. unfold close_list. destruct (pop_to_open (stack p) []) as [[[k items] below]|]; [|discriminate].
  intros H; injection H as <-. apply push_val_code. exact Hc.
Qed.
Lemma emit_code c k lex : code (c_p c) = [] -> c_err c = None -> c_err (emit c k lex) = None ->
  code (c_p (emit c k lex)) = [] \/ clean (emit c k lex).
Proof.
  intros Hc He Hn. assert (Hm := emit_mode c k lex). unfold clean. rewrite Hm.
  unfold emit in *. destruct k; cbn in *.
  - destruct (push_token_code (c_p c) lex Hc); [left|right]; tauto.
  - destruct (push_val_code (c_p c) (TLeaf (LStr lex)) Hc); [left|right]; tauto.
  - destruct (push_val_code (c_p c) (TLeaf (LPipe lex)) Hc); [left|right]; tauto.
  - destruct lex; cbn in *; [discriminate|]. destruct (push_val_code (c_p c) (TLeaf (LChar (b :: lex))) Hc); [left|right]; tauto.
  - destruct (valid_int (c_base c) lex); cbn in *; [|discriminate].
    destruct (push_val_code (c_p c) (TLeaf (LInt (c_base c) lex)) Hc); [left|right]; tauto.
  - destruct (push_val_code (c_p c) (TLeaf (LBits lex)) Hc); [left|right]; tauto.
Qed.

(* one application of an action to a state with no object yet: either still none, or the state is
   clean (value mode, empty stack) and the object was completed by this byte (no retry: the byte is
   ')', '"' or '|') or by a lexeme the byte terminates (retry: the byte is neither '"' nor '|') *)
Lemma first_apply esc a b s c1 op s1 r :
  allowed2 (c_mode (s_core s)) b a = true -> step_core esc a b (s_core s) = (c1, op) -> s_apply s b c1 op = (s1, r) ->
  c_err (s_core s) = None -> code (c_p (s_core s)) = [] -> c_err (s_core s1) = None ->
  code (c_p (s_core s1)) = [] \/
  (clean (s_core s1) /\ ((r = false /\ bump b = true) \/ (r = true /\ N.eqb b 34 = false /\ N.eqb b 124 = false))).
Proof.
  intros Hal Hstep Happ He Hc He1. apply andb_true_iff in Hal as [Hal1 Hal2].
  destruct s as [c pend]. cbn [s_core] in *.
  destruct a; cbn [step_core] in Hstep.
  all: try (injection Hstep as <- <-; cbn in Happ; injection Happ as <- <-; left; cbn; exact Hc).
  all: try (repeat match type of Hstep with context [match ?x with _ => _ end] => destruct x eqn:? end;
            injection Hstep as <- <-; cbn in Happ; injection Happ as <- <-; left; cbn; first [exact Hc | discriminate He1]).
  { (* AClose *)
    apply andb_true_iff in Hal2 as [Hm Hb]. apply mode_eqb_eq in Hm.
    destruct (close_list (c_p c)) as [q|er] eqn:Ecl; injection Hstep as <- <-; cbn in Happ; injection Happ as <- <-; cbn in He1 |- *; [|discriminate He1].
    destruct (close_list_code _ _ Hc Ecl) as [H|H]; [left; exact H|right].
    split; [unfold clean; cbn; tauto|]. left. split; [reflexivity|]. unfold bump. rewrite Hb. reflexivity. }
  all: injection Hstep as <- <-; cbn in Happ; injection Happ as <- <-; cbn [s_core] in *;
    (destruct (emit_code c _ pend Hc He He1) as [H|H]; [left; exact H|right; split; [exact H|]]).
  all: repeat (apply andb_true_iff in Hal2 as [Hal2 ?]).
  all: try (right; split; [reflexivity|]; split; apply negb_true_iff; assumption).
  all: left; split; [reflexivity|]; unfold bump;
    repeat match goal with H : N.eqb _ _ = true |- _ => rewrite H end; cbn; rewrite ?orb_true_r; reflexivity.
Qed.

Lemma s_no_retry esc a b s c1 op : allowed2 (c_mode (s_core s)) b a = true -> class_of (c_mode (s_core s)) = ClsNone ->
  step_core esc a b (s_core s) = (c1, op) -> snd (s_apply s b c1 op) = false.
Proof.
  intros Hal Hcl Hstep. pose proof (op_facts esc a b _ c1 op Hal Hstep) as Hop.
  destruct op; try reflexivity. destruct Hop as [Hc _]. exfalso. apply Hc. exact Hcl.
Qed.
Lemma s_retry_mode s b c1 op s1 : s_apply s b c1 op = (s1, true) -> c_mode (s_core s1) = MValue.
Proof. destruct op; cbn; intros H; injection H as <- Hr; try discriminate Hr. cbn. apply emit_mode. Qed.

(* the third table fact: in value mode a close parenthesis is the close action *)
Definition table_ok3 (T : tables) : bool := match act T MValue 41%N with AClose => true | _ => false end.

Lemma stop_step T esc sm b : table_ok T = true -> table_ok2 T = true -> table_ok3 T = true ->
  c_err (s_core sm) = None -> code (c_p (s_core sm)) = [] ->
  c_err (s_core (s_step T esc sm b)) = None -> code (c_p (s_core (s_step T esc sm b))) <> [] ->
  Rs (code (c_p (s_core (s_step T esc sm b)))) (s_step T esc sm b) (if bump b then s0 else s_step T esc s0 b).
Proof.
  intros H1 H2 H3 He Hc. unfold s_step at 1 2 3 4. rewrite He.
  destruct (step_core esc (act T (c_mode (s_core sm)) b) b (s_core sm)) as [c1 op1] eqn:E1.
  destruct (s_apply sm b c1 op1) as [s1 r] eqn:E2.
  pose proof (first_apply esc _ b sm c1 op1 s1 r (allowed2_all T H1 H2 _ _) E1 E2 He Hc) as F1.
  destruct r.
  - (* the byte terminated a lexeme and is looked at again *)
    destruct (c_err (s_core s1)) eqn:E3; [intros Hx; rewrite E3 in Hx; discriminate Hx|].
    specialize (F1 eq_refl).
    pose proof (s_retry_mode sm b c1 op1 s1 E2) as Hm1.
    destruct (step_core esc (act T (c_mode (s_core s1)) b) b (s_core s1)) as [c2 op2] eqn:E4.
    destruct (s_apply s1 b c2 op2) as [s2 r2] eqn:E5. cbn [fst].
    assert (Hr2 : r2 = false).
    { pose proof (s_no_retry esc _ b s1 c2 op2 (allowed2_all T H1 H2 _ _) ltac:(rewrite Hm1; reflexivity) E4) as H. rewrite E5 in H. exact H. }
    subst r2. intros He2 Hc2.
    destruct F1 as [Hc1|[Hcl1 [[Hr _]|(_ & Hb34 & Hb124)]]]; [| discriminate Hr |].
    + (* the lexeme went into an open list: the object is completed by the byte itself *)
      destruct (first_apply esc _ b s1 c2 op2 s2 false (allowed2_all T H1 H2 _ _) E4 E5 E3 Hc1 He2) as [Hx|[Hcl2 [[_ Hb]|[Hr _]]]];
        [contradiction | | discriminate Hr].
      rewrite Hb. apply clean_Rs. exact Hcl2.
    + (* the lexeme is the object; the byte is read afresh by both readers *)
      pose proof (clean_Rs s1 Hcl1) as HRs1.
      destruct (N.eqb b 41%N) eqn:Eb.
      * (* a close parenthesis with nothing open: error *)
        apply N.eqb_eq in Eb. subst b. exfalso. unfold table_ok3 in H3. rewrite Hm1 in E4.
        destruct (act T MValue 41%N); try discriminate H3. cbn [step_core] in E4.
        destruct Hcl1 as (_ & Hst & _). unfold close_list in E4. rewrite Hst in E4. cbn in E4.
        injection E4 as <- <-. cbn in E5. injection E5 as <-. cbn in He2. discriminate He2.
      * assert (Hbump : bump b = false) by (unfold bump; rewrite Eb, Hb34, Hb124; reflexivity). rewrite Hbump.
        destruct (apply_R esc _ _ b s1 s0 c2 op2 s2 false HRs1 (allowed2_all T H1 H2 _ _) E4 E5) as (c2' & s2' & E4' & E5' & HRs2).
        unfold s_step. cbn [s0 s_core core0 c_err]. change (c_mode core0) with MValue. rewrite Hm1 in E4'. cbn [s0 s_core] in E4'. rewrite E4'.
        cbn [s0] in E5'. rewrite E5'.
        assert (He2' : c_err (s_core s2') = None).
        { destruct HRs2 as [(_ & _ & He' & _) _]. rewrite <- He'. exact He2. }
        destruct (first_apply esc _ b s0 c2' op2 s2' false (allowed2_all T H1 H2 _ _) E4' E5' eq_refl eq_refl He2') as [Hx|[_ [[_ Hb]|[Hr _]]]].
        -- destruct HRs2 as [HR2 Hp2]. pose proof HR2 as (_ & (_ & Hco) & _). rewrite Hx in Hco. cbn in Hco. rewrite Hco. split; [exact HR2|exact Hp2].
        -- rewrite Hbump in Hb. discriminate Hb.
        -- discriminate Hr.
  - (* no retry: the byte completed the object *)
    intros He1 Hc1. destruct (F1 He1) as [Hx|[Hcl [[_ Hb]|[Hr _]]]]; [contradiction| |discriminate Hr].
    rewrite Hb. apply clean_Rs. exact Hcl.
Qed.

(* ---------- the theorem ---------- *)
Lemma result_R old c c' p n : R old c c' -> result_of c (p + n) = prepend (rev old) p (result_of c' n).
Proof.
  intros (_ & (_ & Hco) & He & _). unfold result_of. rewrite <- He, Hco, rev_app_distr. destruct (c_err c); reflexivity.
Qed.

Lemma has_obj_code c : has_obj c = false <-> code (c_p c) = [].
Proof. unfold has_obj. destruct (code (c_p c)); cbn; split; intros H; try reflexivity; discriminate H. Qed.

Lemma scan_one_decompose T esc : forall text s pos s' p,
  s_scan T esc true s text pos = (s', p) -> c_err (s_core s) = None -> has_obj (s_core s) = false ->
  c_err (s_core s') = None -> has_obj (s_core s') = true ->
  exists pre b rest, text = pre ++ b :: rest /\ s' = s_step T esc (s_run T esc s pre) b /\ p = stop_pos b (pos + length pre) /\
                     c_err (s_core (s_run T esc s pre)) = None /\ has_obj (s_core (s_run T esc s pre)) = false.
Proof.
  induction text as [|b text IH]; intros s pos s' p Hscan He Ho He' Ho'; cbn [s_scan] in Hscan.
  - injection Hscan as <- <-. rewrite Ho in Ho'. discriminate Ho'.
  - destruct (c_err (s_core (s_step T esc s b))) eqn:E.
    + injection Hscan as <- <-. rewrite E in He'. discriminate He'.
    + cbn [andb] in Hscan. destruct (has_obj (s_core (s_step T esc s b))) eqn:Eo.
      * injection Hscan as <- <-. exists [], b, text. cbn. rewrite Nat.add_0_r. repeat split; assumption.
      * destruct (IH _ _ _ _ Hscan E Eo He' Ho') as (pre & b' & rest & -> & -> & -> & Hx & Hy).
        exists (b :: pre), b', rest. cbn [app length]. unfold s_run in *. cbn [fold_left].
        repeat split; try assumption. f_equal. lia.
Qed.

Theorem one_then_rest T esc text s' p :
  table_ok T = true -> table_ok2 T = true -> table_ok3 T = true ->
  s_scan T esc true s0 text 0 = (s', p) -> c_err (s_core s') = None -> has_obj (s_core s') = true ->
  s_read_gen T esc true text = ROk (rev (code (c_p (s_core s')))) p /\
  s_read T esc text = prepend (rev (code (c_p (s_core s')))) p (s_read T esc (skipn p text)).
Proof.
  intros H1 H2 H3 Hscan He' Ho'. split.
  { unfold s_read_gen, s_read_from. rewrite Hscan. unfold stopped. rewrite He', Ho'. cbn. unfold result_of. rewrite He'. reflexivity. }
  destruct (scan_one_decompose T esc text s0 0 s' p Hscan eq_refl eq_refl He' Ho') as (pre & b & rest & -> & -> & -> & Hem & Hom).
  set (sm := s_run T esc s0 pre) in *.
  apply has_obj_code in Hom.
  assert (Hc' : code (c_p (s_core (s_step T esc sm b))) <> []).
  { intros Hx. apply has_obj_code in Hx. rewrite Hx in Ho'. discriminate Ho'. }
  pose proof (stop_step T esc sm b H1 H2 H3 Hem Hom He' Hc') as HRs.
  set (old := code (c_p (s_core (s_step T esc sm b)))) in *.
  (* the reader that kept going, and the reader restarted at the reported position *)
  assert (Hwhole : s_run T esc s0 (pre ++ b :: rest) = s_run T esc (s_step T esc sm b) rest).
  { unfold s_run, sm. rewrite fold_left_app. reflexivity. }
  assert (Hrest : s_run T esc s0 (skipn (stop_pos b (0 + length pre)) (pre ++ b :: rest)) =
                  s_run T esc (if bump b then s0 else s_step T esc s0 b) rest).
  { unfold stop_pos. fold (bump b). cbn [plus]. destruct (bump b).
    - replace (S (length pre)) with (length (pre ++ [b])) by (rewrite app_length; cbn; lia).
      replace (pre ++ b :: rest) with ((pre ++ [b]) ++ rest) by (rewrite <- app_assoc; reflexivity).
      rewrite skipn_app, skipn_all, Nat.sub_diag. reflexivity.
    - rewrite skipn_app, skipn_all, Nat.sub_diag. reflexivity. }
  pose proof (run_R T esc old H1 H2 rest _ _ HRs) as HRrun.
  set (q := stop_pos b (0 + length pre)) in *.
  assert (Hq : q <= length (pre ++ b :: rest)).
  { unfold q, stop_pos. rewrite app_length. cbn. destruct (_ || _); lia. }
  unfold s_read. rewrite Hwhole, Hrest.
  set (sa := s_run T esc (s_step T esc sm b) rest) in *. set (sb := s_run T esc (if bump b then s0 else s_step T esc s0 b) rest) in *.
  pose proof HRrun as [HRc _]. pose proof HRc as (_ & _ & Hee & _). rewrite <- Hee.
  destruct (c_err (s_core sa)) eqn:Ea.
  - unfold result_of. rewrite <- Hee, Ea. cbn. destruct HRc as (_ & (_ & Hco) & _). rewrite Hco, rev_app_distr. reflexivity.
  - replace (length (pre ++ b :: rest)) with (q + length (skipn q (pre ++ b :: rest))) by (rewrite skipn_length; lia).
    apply result_R. apply finish_R. exact HRrun.
Qed.
