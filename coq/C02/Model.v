(* C02 — the reader of code.go as a byte machine.
   The 15 mode tables are NOT written here: they are regenerated from code.go on every run
   (GenC02.Tables) and enter as the parameter T.  This file has
     - the parser half (stack of markers and values, closeList, pushToken ...), shared by
     - M, the machine as the Go code runs it: offsets into the current block (tokenStart, pos),
       a carry buffer across blocks, buf for escaped strings, and
     - S, the abstract machine: one byte at a time, the pending lexeme is an explicit list.
   Leaves keep their lexeme (token resolution is the same pure function whatever the delivery). *)
From Coq Require Export List Bool Arith NArith Lia.
Export ListNotations.

Definition byte := N.
Inductive mode := MValue | MComment | MToken | MString | MSymbol | MEsc | MRune | MSharp | MChar | MInt
                | MSharpNum | MMustArray | MBitVector | MBlockComment | MBlockEnd.

(* ---- trees ---- *)
Inductive leaf :=
| LTok (bs : list byte)         (* a token, unresolved: number or symbol *)
| LTrue | LNil
| LStr (bs : list byte) | LPipe (bs : list byte) | LChar (bs : list byte)
| LInt (base : N) (bs : list byte) | LBits (bs : list byte).
Inductive wrap := WQuote | WFunction | WBackquote | WComma | WCommaAt.
Inductive okind := KList | KVector | KArray (rank : N) | KComplex.
Inductive tree :=
| TLeaf (l : leaf)
| TNode (k : okind) (items : list tree)
| TDot (items : list tree) (tail : tree)       (* dotted list *)
| TWrap (w : wrap) (t : tree).

Inductive item := IOpen (k : okind) | IMark (w : wrap) | IVal (t : tree).
Inductive err := EParse | EPartial (depth : nat).

(* parser state: stack with the TOP FIRST, completed top-level objects in reverse order *)
Record pstate := { stack : list item; code : list tree }.

(* reader.push: the reader macros waiting on top of the stack (' ` , ,@ #') are applied to the completed object,
   innermost first; then it goes onto the stack (inside a list) or to the code *)
Fixpoint wrap_marks (st : list item) (t : tree) : list item * tree :=
  match st with
  | IMark w :: rest => wrap_marks rest (TWrap w t)
  | _ => (st, t)
  end.
Definition push_val (p : pstate) (t : tree) : pstate :=
  let '(st, t') := wrap_marks (stack p) t in
  match st with
  | [] => {| stack := []; code := t' :: code p |}
  | _ => {| stack := IVal t' :: st; code := code p |}
  end.

(* pop the values above the nearest open marker *)
Fixpoint pop_to_open (st : list item) (acc : list tree) : option (okind * list tree * list item) :=
  match st with
  | [] => None
  | IOpen k :: rest => Some (k, acc, rest)
  | IVal t :: rest => pop_to_open rest (t :: acc)
  | IMark _ :: rest => pop_to_open rest acc          (* a dangling marker inside a list is dropped by copy: see closeList *)
  end.

Definition is_dot (t : tree) : bool := match t with TLeaf (LTok [46%N]) => true | _ => false end.
Definition is_nil (t : tree) : bool := match t with TLeaf LNil => true | _ => false end.
(* (a b . c): the last but one element is the symbol "." *)
Definition dotted (l : list tree) : tree :=
  match rev l with
  | last :: d :: front =>
      if is_dot d && (3 <=? length l) then
        (if is_nil last then TNode KList (rev front ++ [TLeaf LNil]) else TDot (rev front) last)
      else TNode KList l
  | _ => TNode KList l
  end.

Definition close_list (p : pstate) : pstate + err :=
  match pop_to_open (stack p) [] with
  | None => inr EParse                                  (* unmatched close parenthesis *)
  | Some (k, items, below) =>
      let obj := match k with KList => dotted items | _ => TNode k items end in
      inl (push_val {| stack := below; code := code p |} obj)
  end.

Definition lower (b : byte) : byte := if (65 <=? b)%N && (b <=? 90)%N then (b + 32)%N else b.
Definition is_t (tok : list byte) : bool := match tok with [116%N] | [84%N] => true | _ => false end.
Definition is_nil_tok (tok : list byte) : bool := match map lower tok with [110; 105; 108]%N => true | _ => false end.
Definition push_token (p : pstate) (tok : list byte) : pstate :=
  push_val p (TLeaf (if is_t tok then LTrue else if is_nil_tok tok then LNil else LTok tok)).

(* ---- actions: the bytes found in the mode tables ---- *)
Inductive action :=
| ASkip | ASkipNl | AComment | ACommentDone | AOpen | AClose | ATokenStart | ATokenDone
| ADQuote | APipe | AStrByte | AStrDone | APipeDone | AEsc | AEscOne | AU4 | AU8 | ARuneDigit | ARuneHexA | ARuneHexa
| ASharp | ACharSlash | ACharDone | AVector | ABinary | AOct | AHex | AIntDone | ASharpInt | ASharpNum
| ASharpQuote | ASharpComplex | ARadix | AArray | ASwallowOpen | AQuote | ABackquote | AComma | ACommaAt
| ABlockStart | ABlockEnd0 | ABitVector | ABitVectorDone | AErr.

Definition decode (c : N) : action :=
  match c with
  | 97 => ASkip | 107 => ASkipNl | 59 => AComment | 99 => ACommentDone | 40 => AOpen | 41 => AClose
  | 116 => ATokenStart | 84 => ATokenDone | 81 => ADQuote | 80 => APipe | 115 => AStrByte | 83 => AStrDone | 112 => APipeDone
  | 101 => AEsc | 69 => AEscOne | 117 => AU4 | 85 => AU8 | 49 => ARuneDigit | 72 => ARuneHexA | 104 => ARuneHexa
  | 35 => ASharp | 47 => ACharSlash | 67 => ACharDone | 86 => AVector | 98 => ABinary | 111 => AOct | 120 => AHex | 73 => AIntDone
  | 57 => ASharpInt | 56 => ASharpNum | 71 => ASharpQuote | 105 => ASharpComplex | 114 => ARadix | 65 => AArray | 123 => ASwallowOpen
  | 113 => AQuote | 66 => ABackquote | 44 => AComma | 64 => ACommaAt | 124 => ABlockStart | 125 => ABlockEnd0
  | 90 => ABitVector | 122 => ABitVectorDone
  | _ => AErr
  end%N.

(* utf-8 encoding of a scalar (utf8.EncodeRune; surrogates and out-of-range give U+FFFD) *)
Definition utf8 (r : N) : list byte :=
  (if r <? 128 then [r]
   else if r <? 2048 then [192 + r / 64; 128 + r mod 64]
   else if ((55296 <=? r) && (r <=? 57343)) || (1114111 <? r) then [239; 191; 189]
   else if r <? 65536 then [224 + r / 4096; 128 + (r / 64) mod 64; 128 + r mod 64]
   else [240 + r / 262144; 128 + (r / 4096) mod 64; 128 + (r / 64) mod 64; 128 + r mod 64])%N.

(* ---- the part of the reader state both machines share ---- *)
Record core := {
  c_mode : mode; c_next : mode; c_base : N; c_sharp : N; c_rn : N; c_rcnt : nat;
  c_p : pstate; c_err : option err }.

Definition core0 : core :=
  {| c_mode := MValue; c_next := MValue; c_base := 0; c_sharp := 0; c_rn := 0; c_rcnt := 0;
     c_p := {| stack := []; code := [] |}; c_err := None |}.

Definition set_mode (c : core) (m : mode) : core :=
  {| c_mode := m; c_next := c_next c; c_base := c_base c; c_sharp := c_sharp c; c_rn := c_rn c; c_rcnt := c_rcnt c; c_p := c_p c; c_err := c_err c |}.
Definition set_modes (c : core) (m n : mode) : core :=
  {| c_mode := m; c_next := n; c_base := c_base c; c_sharp := c_sharp c; c_rn := c_rn c; c_rcnt := c_rcnt c; c_p := c_p c; c_err := c_err c |}.
Definition set_p (c : core) (p : pstate) : core :=
  {| c_mode := c_mode c; c_next := c_next c; c_base := c_base c; c_sharp := c_sharp c; c_rn := c_rn c; c_rcnt := c_rcnt c; c_p := p; c_err := c_err c |}.
Definition set_err (c : core) (e : err) : core :=
  {| c_mode := c_mode c; c_next := c_next c; c_base := c_base c; c_sharp := c_sharp c; c_rn := c_rn c; c_rcnt := c_rcnt c; c_p := c_p c; c_err := Some e |}.
Definition set_base (c : core) (m : mode) (b : N) : core :=
  {| c_mode := m; c_next := c_next c; c_base := b; c_sharp := c_sharp c; c_rn := c_rn c; c_rcnt := c_rcnt c; c_p := c_p c; c_err := c_err c |}.
Definition set_sharp (c : core) (m : mode) (n : N) : core :=
  {| c_mode := m; c_next := c_next c; c_base := c_base c; c_sharp := n; c_rn := c_rn c; c_rcnt := c_rcnt c; c_p := c_p c; c_err := c_err c |}.
Definition set_rune (c : core) (m : mode) (rn : N) (cnt : nat) : core :=
  {| c_mode := m; c_next := c_next c; c_base := c_base c; c_sharp := c_sharp c; c_rn := rn; c_rcnt := cnt; c_p := c_p c; c_err := c_err c |}.
Definition push_open (c : core) (k : okind) (m : mode) : core :=
  set_mode (set_p c {| stack := IOpen k :: stack (c_p c); code := code (c_p c) |}) m.
Definition push_mark (c : core) (w : wrap) : core :=
  set_p c {| stack := IMark w :: stack (c_p c); code := code (c_p c) |}.
Definition in_backquote (c : core) : bool :=
  existsb (fun i => match i with IMark WBackquote => true | _ => false end) (stack (c_p c)).

(* strconv.ParseInt / big.Int.SetString: optional sign, at least one digit, every digit below the base *)
Definition digit_val (b : byte) : option N :=
  if (48 <=? b)%N && (b <=? 57)%N then Some (b - 48)%N
  else if (97 <=? b)%N && (b <=? 122)%N then Some (b - 87)%N
  else if (65 <=? b)%N && (b <=? 90)%N then Some (b - 55)%N else None.
Definition valid_digits (base : N) (bs : list byte) : bool :=
  match bs with [] => false | _ => forallb (fun b => match digit_val b with Some d => (d <? base)%N | None => false end) bs end.
Definition valid_int (base : N) (bs : list byte) : bool :=
  (2 <=? base)%N && (base <=? 36)%N &&
  match bs with
  | 43%N :: r | 45%N :: r => valid_digits base r
  | _ => valid_digits base bs
  end.

(* What a finished lexeme of each kind becomes *)
Inductive lexkind := XToken | XString | XPipe | XChar | XInt | XBits.
Definition emit (c : core) (k : lexkind) (lex : list byte) : core :=
  match k with
  | XToken => set_mode (set_p c (push_token (c_p c) lex)) MValue
  | XString => set_mode (set_p c (push_val (c_p c) (TLeaf (LStr lex)))) MValue
  | XPipe => set_mode (set_p c (push_val (c_p c) (TLeaf (LPipe lex)))) MValue
  | XChar => match lex with
             | [] => set_mode (set_err c EParse) MValue    (* '#\' is not a valid character *)
             | _ => set_mode (set_p c (push_val (c_p c) (TLeaf (LChar lex)))) MValue
             end
  | XInt => if valid_int (c_base c) lex then set_mode (set_p c (push_val (c_p c) (TLeaf (LInt (c_base c) lex)))) MValue
            else set_mode (set_err c EParse) MValue         (* not a valid base-n integer *)
  | XBits => set_mode (set_p c (push_val (c_p c) (TLeaf (LBits lex)))) MValue
  end.

(* how an action touches the lexeme store *)
Inductive lexop :=
| LNone                        (* nothing *)
| LStartHere                   (* the lexeme starts at this byte (tokenStart = pos) *)
| LStartNext                   (* the lexeme starts after this byte (tokenStart = pos + 1); buf cleared *)
| LGrow                        (* this byte belongs to the lexeme being scanned (token-like modes) *)
| LAppend (bs : list byte)     (* content bytes produced by an escape *)
| LAppendIf (bs : list byte)   (* a plain content byte of a string: appended only when a buffer is in use *)
| LDone (k : lexkind) (retry : bool)     (* the lexeme is complete *)
| LFreeze.                     (* escape begins: what has been read so far becomes the buffer *)

(* One byte, everything except the lexeme store.  Returns the new core and what to do with the lexeme. *)
Definition step_core (esc : byte -> byte) (a : action) (b : byte) (c : core) : core * lexop :=
  match a with
  | ASkip | ASkipNl => (c, match c_mode c with
                           | MToken | MChar | MInt | MBitVector => LGrow
                           | _ => LNone end)
  | AComment => (set_mode c MComment, LNone)
  | ACommentDone => (set_mode c MValue, LNone)
  | AOpen => (push_open c KList (c_mode c), LNone)
  | AClose => match close_list (c_p c) with
              | inl p => (set_p c p, LNone)
              | inr e => (set_err c e, LNone) end
  | ATokenStart => match c_mode c with MToken => (c, LGrow) | _ => (set_mode c MToken, LStartHere) end
  | ATokenDone => (c, LDone XToken true)
  | ADQuote => (set_modes c MString MString, LStartNext)
  | APipe => (set_modes c MSymbol MSymbol, LStartNext)
  | AStrByte => (c, LAppendIf [b])
  | AStrDone => (c, LDone XString false)
  | APipeDone => (c, LDone XPipe false)
  | AEsc => (set_mode c MEsc, LFreeze)
  | AEscOne => (set_mode c (c_next c), LAppend [esc b])
  | AU4 => (set_rune c MRune 0 4, LNone)
  | AU8 => (set_rune c MRune 0 8, LNone)
  | ARuneDigit | ARuneHexA | ARuneHexa =>
      let d := match a with ARuneDigit => (b - 48)%N | ARuneHexA => (b - 65 + 10)%N | _ => (b - 97 + 10)%N end in
      let rn := (c_rn c * 16 + d)%N in
      match c_rcnt c with
      | 1%nat => (set_rune c (c_next c) rn 0, LAppend (utf8 rn))
      | n => (set_rune c (c_mode c) rn (n - 1), LNone)
      end
  | ASharp => (set_mode c MSharp, LNone)
  | ACharSlash => (set_mode c MChar, LStartNext)
  | ACharDone => (c, LDone XChar true)
  | AVector => (push_open c KVector MValue, LNone)
  | ABinary => (set_base c MInt 2, LStartNext)
  | AOct => (set_base c MInt 8, LStartNext)
  | AHex => (set_base c MInt 16, LStartNext)
  | AIntDone => (c, LDone XInt true)
  | ASharpInt => (set_sharp c MSharpNum (b - 48)%N, LNone)
  | ASharpNum => (set_sharp c (c_mode c) (c_sharp c * 10 + (b - 48))%N, LNone)
  | ARadix => (set_base c MInt (c_sharp c), LStartNext)
  | ASharpComplex => (push_open c KComplex MMustArray, LNone)
  | AArray => (match c_sharp c with
               | 1%N => push_open c KVector MMustArray
               | n => if (1024 <? n)%N then set_err c EParse else push_open c (KArray n) MMustArray
               end, LNone)
  | ASwallowOpen => (set_mode c MValue, LNone)
  | AQuote => (push_mark c WQuote, LNone)
  | ASharpQuote => (set_mode (push_mark c WFunction) MValue, LNone)
  | ABackquote => (push_mark c WBackquote, LNone)
  | AComma => if in_backquote c then (push_mark c WComma, LNone) else (set_err c EParse, LNone)
  | ACommaAt => match stack (c_p c) with
                | IMark WComma :: rest => (set_p c {| stack := IMark WCommaAt :: rest; code := code (c_p c) |}, LNone)
                | _ => match c_mode c with MToken => (c, LGrow) | _ => (set_mode c MToken, LStartHere) end
                end
  | ABlockStart => (set_mode c MBlockComment, LNone)
  | ABlockEnd0 => (set_mode c MBlockEnd, LNone)
  | ABitVector => (set_mode c MBitVector, LStartNext)
  | ABitVectorDone => (c, LDone XBits true)
  | AErr => (set_err c EParse, LNone)
  end.

(* ---- the tables ---- *)
Definition tables := mode -> list N.
Definition act (T : tables) (m : mode) (b : byte) : action := decode (nth (N.to_nat b) (T m) 46%N).

Definition slice (src : list byte) (a b : nat) : list byte := firstn (b - a) (skipn a src).

Definition token_like (m : mode) : bool := match m with MToken | MChar | MInt | MBitVector => true | _ => false end.
Definition string_like (m : mode) : bool := match m with MString | MSymbol => true | _ => false end.

(* =============== M: the machine with offsets, carry and buf =============== *)
Record mstate := { m_core : core; m_ts : nat; m_carry : list byte; m_buf : list byte }.
Definition m0 : mstate := {| m_core := core0; m_ts := 0; m_carry := []; m_buf := [] |}.

Definition m_apply (m : mstate) (src : list byte) (pos : nat) (c' : core) (op : lexop) : mstate * bool :=
  match op with
  | LNone | LGrow => ({| m_core := c'; m_ts := m_ts m; m_carry := m_carry m; m_buf := m_buf m |}, false)
  | LStartHere => ({| m_core := c'; m_ts := pos; m_carry := m_carry m; m_buf := m_buf m |}, false)
  | LStartNext => ({| m_core := c'; m_ts := S pos; m_carry := m_carry m; m_buf := [] |}, false)
  | LAppend bs => ({| m_core := c'; m_ts := m_ts m; m_carry := m_carry m; m_buf := m_buf m ++ bs |}, false)
  | LAppendIf bs => ({| m_core := c'; m_ts := m_ts m; m_carry := m_carry m;
                        m_buf := match m_buf m with [] => [] | _ => m_buf m ++ bs end |}, false)
  | LFreeze => ({| m_core := c'; m_ts := m_ts m; m_carry := m_carry m;
                   m_buf := match m_buf m with [] => slice src (m_ts m) pos | _ => m_buf m end |}, false)
  | LDone k retry =>
      match k with
      | XString | XPipe =>
          let lex := match m_buf m with [] => slice src (m_ts m) pos | _ => m_buf m end in
          ({| m_core := emit c' k lex; m_ts := m_ts m; m_carry := m_carry m; m_buf := m_buf m |}, retry)
      | _ =>   (* makeToken: carry ++ src[tokenStart:pos], carry cleared *)
          ({| m_core := emit c' k (m_carry m ++ slice src (m_ts m) pos); m_ts := m_ts m; m_carry := []; m_buf := m_buf m |}, retry)
      end
  end.

Definition m_step (T : tables) (esc : byte -> byte) (m : mstate) (src : list byte) (pos : nat) : mstate :=
  let b := nth pos src 0%N in
  match c_err (m_core m) with
  | Some _ => m
  | None =>
      let '(c1, op1) := step_core esc (act T (c_mode (m_core m)) b) b (m_core m) in
      let '(m1, retry) := m_apply m src pos c1 op1 in
      if retry then
        match c_err (m_core m1) with
        | Some _ => m1
        | None => let '(c2, op2) := step_core esc (act T (c_mode (m_core m1)) b) b (m_core m1) in fst (m_apply m1 src pos c2 op2)
        end
      else m1
  end.

(* the bytes of one block, left to right; in `one` mode stop as soon as an object is complete *)
Fixpoint m_block (T : tables) (esc : byte -> byte) (one : bool) (m : mstate) (src : list byte) (pos : nat) (fuel : nat) : mstate * nat :=
  match fuel with
  | O => (m, pos)
  | S f =>
      if length src <=? pos then (m, pos)
      else
        let m' := m_step T esc m src pos in
        match c_err (m_core m') with
        | Some _ => (m', pos)
        | None =>
            if one && negb (match code (c_p (m_core m')) with [] => true | _ => false end)
            then (m', let b := nth pos src 0%N in if N.eqb b 41 || N.eqb b 34 || N.eqb b 124 then S pos else pos)
            else m_block T esc one m' src (S pos) f
        end
  end.

(* end of a block when more blocks follow: the pending lexeme is saved, tokenStart restarts at 0 *)
Definition m_block_end (m : mstate) (src : list byte) : mstate :=
  let md := c_mode (m_core m) in
  if token_like md then
    {| m_core := m_core m; m_ts := 0; m_carry := m_carry m ++ slice src (m_ts m) (length src); m_buf := m_buf m |}
  else if string_like md then
    {| m_core := m_core m; m_ts := 0; m_carry := m_carry m;
       m_buf := match m_buf m with [] => slice src (m_ts m) (length src) | _ => m_buf m end |}
  else {| m_core := m_core m; m_ts := 0; m_carry := m_carry m; m_buf := m_buf m |}.

Definition depth_of (p : pstate) : nat := length (filter (fun i => match i with IOpen _ => true | _ => false end) (stack p)).

(* end of the input *)
Definition finish (c : core) (lex_tok lex_str : list byte) : core :=
  match c_err c with
  | Some _ => c
  | None =>
      let c1 := match c_mode c with
                | MToken => emit c XToken lex_tok
                | MString => set_err c (EPartial (depth_of (c_p c)))
                | MRune | MEsc | MSymbol => set_err c EParse
                | MChar => emit c XChar lex_tok
                | MInt => emit c XInt lex_tok
                | MBitVector => emit c XBits lex_tok
                | _ => c
                end in
      match c_err c1 with
      | Some _ => c1
      | None => match stack (c_p c1) with [] => c1 | _ => set_err c1 (EPartial (depth_of (c_p c1))) end
      end
  end.
Definition m_finish (m : mstate) (src : list byte) : core :=
  finish (m_core m) (m_carry m ++ slice src (m_ts m) (length src))
         (match m_buf m with [] => slice src (m_ts m) (length src) | _ => m_buf m end).

Inductive result := ROk (objs : list tree) (pos : nat) | RErr (e : err) (objs : list tree).
Definition result_of (c : core) (pos : nat) : result :=
  match c_err c with Some e => RErr e (rev (code (c_p c))) | None => ROk (rev (code (c_p c))) pos end.

(* Read / ReadString / ReadOne: one block, no more *)
Definition m_read_whole (T : tables) (esc : byte -> byte) (one : bool) (src : list byte) : result :=
  let '(m, pos) := m_block T esc one m0 src 0 (length src) in
  if one && negb (match code (c_p (m_core m)) with [] => true | _ => false end) then result_of (m_core m) pos
  else match c_err (m_core m) with
       | Some _ => result_of (m_core m) pos
       | None => result_of (m_finish m src) (length src)
       end.

(* ReadStream: blocks as the io.Reader hands them out; the last Read returns the final bytes with EOF *)
Fixpoint m_read_stream (T : tables) (esc : byte -> byte) (one : bool) (m : mstate) (blocks : list (list byte)) (base : nat) : result :=
  match blocks with
  | [] => result_of (m_finish m []) base
  | src :: rest =>
      let m := {| m_core := m_core m; m_ts := 0; m_carry := m_carry m; m_buf := m_buf m |} in
      let '(m', pos) := m_block T esc one m src 0 (length src) in
      match c_err (m_core m') with
      | Some _ => result_of (m_core m') (base + pos)
      | None =>
          if one && negb (match code (c_p (m_core m')) with [] => true | _ => false end) then result_of (m_core m') (base + pos)
          else match rest with
               | [] => result_of (m_finish m' src) (base + length src)
               | _ => m_read_stream T esc one (m_block_end m' src) rest (base + length src)
               end
      end
  end.

(* =============== S: one byte at a time, the pending lexeme is a list =============== *)
Record sstate := { s_core : core; s_pend : list byte }.
Definition s0 : sstate := {| s_core := core0; s_pend := [] |}.

Definition s_apply (s : sstate) (b : byte) (c' : core) (op : lexop) : sstate * bool :=
  match op with
  | LNone | LFreeze => ({| s_core := c'; s_pend := s_pend s |}, false)
  | LGrow => ({| s_core := c'; s_pend := s_pend s ++ [b] |}, false)
  | LStartHere => ({| s_core := c'; s_pend := [b] |}, false)
  | LStartNext => ({| s_core := c'; s_pend := [] |}, false)
  | LAppend bs | LAppendIf bs => ({| s_core := c'; s_pend := s_pend s ++ bs |}, false)
  | LDone k retry => ({| s_core := emit c' k (s_pend s); s_pend := [] |}, retry)
  end.
Definition s_step (T : tables) (esc : byte -> byte) (s : sstate) (b : byte) : sstate :=
  match c_err (s_core s) with
  | Some _ => s
  | None =>
      let '(c1, op1) := step_core esc (act T (c_mode (s_core s)) b) b (s_core s) in
      let '(s1, retry) := s_apply s b c1 op1 in
      if retry then
        match c_err (s_core s1) with
        | Some _ => s1
        | None => let '(c2, op2) := step_core esc (act T (c_mode (s_core s1)) b) b (s_core s1) in fst (s_apply s1 b c2 op2)
        end
      else s1
  end.
Definition s_run (T : tables) (esc : byte -> byte) (s : sstate) (text : list byte) : sstate := fold_left (s_step T esc) text s.
Definition s_finish (s : sstate) : core := finish (s_core s) (s_pend s) (s_pend s).
(* a text denotes one sequence of objects *)
Definition s_read (T : tables) (esc : byte -> byte) (text : list byte) : result :=
  let s := s_run T esc s0 text in
  match c_err (s_core s) with
  | Some _ => result_of (s_core s) 0
  | None => result_of (s_finish s) (length text)
  end.

(* ---- S with the two things a caller can ask for: all the objects, or the first one and where it ends ---- *)
Definition stop_pos (b : byte) (pos : nat) : nat := if N.eqb b 41 || N.eqb b 34 || N.eqb b 124 then S pos else pos.
Definition has_obj (c : core) : bool := negb (match code (c_p c) with [] => true | _ => false end).
Definition stopped (one : bool) (c : core) : bool := match c_err c with Some _ => true | None => one && has_obj c end.
Fixpoint s_scan (T : tables) (esc : byte -> byte) (one : bool) (s : sstate) (text : list byte) (pos : nat) : sstate * nat :=
  match text with
  | [] => (s, pos)
  | b :: rest =>
      let s' := s_step T esc s b in
      match c_err (s_core s') with
      | Some _ => (s', pos)
      | None => if one && has_obj (s_core s') then (s', stop_pos b pos) else s_scan T esc one s' rest (S pos)
      end
  end.
Definition s_read_from (T : tables) (esc : byte -> byte) (one : bool) (s : sstate) (text : list byte) (base : nat) : result :=
  let '(s', pos) := s_scan T esc one s text base in
  if stopped one (s_core s') then result_of (s_core s') pos else result_of (s_finish s') (base + length text).
Definition s_read_gen (T : tables) (esc : byte -> byte) (one : bool) (text : list byte) : result := s_read_from T esc one s0 text 0.

(* =============== cl:read-from-string (pkg/cl/read-from-string.go), on top of ReadOne =============== *)
(* objs in front of what a later read yields, positions counted from p *)
Definition prepend (objs : list tree) (p : nat) (r : result) : result :=
  match r with ROk o q => ROk (objs ++ o) (p + q) | RErr e o => RErr e (objs ++ o) end.

(* the bytes the function steps over after the object: blank, newline, tab, carriage return *)
Definition is_ws (b : byte) : bool := N.eqb b 32 || N.eqb b 10 || N.eqb b 9 || N.eqb b 13.
(* `for ; pos < len(buf); pos++ { switch buf[pos] {...} }` with rest = buf[pos:] *)
Fixpoint skip_ws (rest : list byte) (pos : nat) : nat :=
  match rest with
  | b :: r => if is_ws b then skip_ws r (S pos) else pos
  | [] => pos
  end.

Inductive rfs_result :=
| FObj (t : tree) (pos : nat)          (* the object and the position reported with it *)
| FEof (pos : nat)                     (* nothing but white space and comments: the eof value and a position *)
| FErr (e : err) (objs : list tree)    (* the reader's error (objs: what a whole read had completed before it) *)
| FBounds.                             (* "the bounding indices ... are not valid" *)

(* keys = false: the call has the string only, (read-from-string s); the bounds are not looked at.
   keys = true: an optional or keyword argument is present: the string is cut to [start, end) first.
   The model takes the string as its bytes: for ASCII text (the guard) characters are bytes.
   As the code runs: ReadOne on the substring, start added to its position, and then the white space
   loop indexes the SUBSTRING with the position in the whole string (known finding C02-rfs-start-skip). *)
Definition rfs_m (T : tables) (esc : byte -> byte) (keys : bool) (text : list byte) (start : nat) (end_ : option nat) (pw : bool) : rfs_result :=
  let n := length text in
  let e := match end_ with Some e => e | None => n end in
  if keys && ((n <=? start) || (n <? e) || (e <? start)) then FBounds
  else
    let buf := if keys then slice text start e else text in
    let start := if keys then start else 0 in
    match m_read_whole T esc true buf with
    | RErr er objs => FErr er objs
    | ROk [] p => FEof (start + p)
    | ROk (t :: _) p =>
        let pos := start + p in
        FObj t (if keys && pw then pos else skip_ws (skipn pos buf) pos)
    end.
