(* C17 — model of the per-scope mutex while variables are used (scope.go: get / localGet / set / has / bound /
   remove / Let).  No proofs in this file.

   Every scope operation has the same shape: s.locker.Lock(); look the name up in s.Vars; if it is there, do the
   work (a binding that is a *Ref - a with-slots variable - forwards the read or the write to the slot of the
   instance), Unlock, return; otherwise Unlock and go on to the parents, in the order of `walk`.  The locker is the
   no-op locker unless the scope is synchronized (ScopeModel: `syn`), i.e. unless run shared it.  sync.Mutex is not
   re-entrant and has no owner: a Lock on a mutex that was left locked waits for ever, whoever left it.

   An EXIT PATH of a scope operation is (operation, the name was found here?, kind of the binding found).  A lock
   discipline `rel` says, for every exit path, whether the mutex is released on it.  The code releases on all of
   them (`all_release`).  The state added to ScopeModel's is `held`: the scopes whose mutex is locked and will not
   be unlocked by anybody (no operation is in progress between the steps of this model: the operations are atomic
   here - their interleaving is the business of the mutex itself, Model.v). *)
From Coq Require Import List Arith Bool.
From C17 Require Import Model ScopeModel.
Import ListNotations.

Inductive akind := KGet | KSet | KHas | KBound | KRemove | KLet.
Inductive bind := BPlain | BRef.
(* found = Some b: the exit where the name is bound in this scope; None: the exit towards the parents *)
Definition discipline := akind -> option bind -> bool.
Definition all_release : discipline := fun _ _ => true.

Definition is_held (held : list nat) (s : nat) : bool := existsb (Nat.eqb s) held.

(* one visit of scope s by operation k; the name is bound in scope t with a binding of kind b.
   None: the visit waits for ever (the mutex of s was left locked).  Some (held', found). *)
Definition visit (rel : discipline) (st : sstate) (held : list nat) (s : nat) (k : akind) (t : nat) (b : bind)
  : option (list nat * bool) :=
  if synced st s && is_held held s then None
  else
    let found := Nat.eqb s t in
    let path := if found then Some b else None in
    let held' := if synced st s && negb (rel k path) then s :: held else held in
    Some (held', found).

(* the operation started in a scope whose lookup order is `path` (anc st s): visit scope after scope until found.
   (KLet only ever visits the first scope: Scope.Let binds in the scope itself; the harness gives it t = that scope.) *)
Fixpoint access (rel : discipline) (st : sstate) (held : list nat) (path : list nat) (k : akind) (t : nat) (b : bind)
  : option (list nat) :=
  match path with
  | [] => Some held                        (* not found anywhere: the package's variables (another lock, TableModel) *)
  | s :: path' =>
      match visit rel st held s k t b with
      | None => None
      | Some (held', true) => Some held'
      | Some (held', false) => access rel st held' path' k t b
      end
  end.

(* a history: routine i, evaluating in the scope on top of its stack, performs operation k on a variable bound in
   scope t.  The scope structure (lets, calls, runs) is any state of ScopeModel. *)
Definition aop := (nat * akind * nat * bind)%type.
Definition astep (rel : discipline) (st : sstate) (held : list nat) (a : aop) : option (list nat) :=
  let '(i, k, t, b) := a in
  match nth_error (stacks st) i with
  | Some (s :: _) => access rel st held (anc st s) k t b
  | _ => Some held
  end.
Fixpoint arun (rel : discipline) (st : sstate) (held : list nat) (l : list aop) : option (list nat) :=
  match l with
  | [] => Some held
  | a :: l' => match astep rel st held a with Some h => arun rel st h l' | None => None end
  end.

(* the seeded variant: Scope.set returns from the *Ref branch without Unlock *)
Definition leak_set_ref : discipline :=
  fun k p => match k, p with KSet, Some BRef => false | _, _ => true end.

(* the scenario of the refutation: (let (..) (with-slots (v) o (run ..) (setq v ..) v)): scope 1 is the let, scope 2
   the with-slots body, run shares 2, 1 and 0 *)
Definition ex_slots_state : option sstate := srun sinit [(0, SLet); (0, SLet); (0, SRun)].
