(* C17 — the reduction (serialisability) theorem for programs that touch the shared cells only inside
   with-mutex-lock sections of ONE mutex.

   Class: `flat p` (cells and mutexes only, ignore-errors / error anywhere, no lock nested in a lock, no channel
   operation), `p_nmutex p = 1` (every with-mutex-lock is on mutex 0) and `sec p` (no read or write of a cell
   outside a with-mutex-lock).  Any number of routines, any number of sections of any length, errors unwinding
   through sections included.

   Theorem (serial_reduction): every state reachable by ANY schedule is reached by a schedule in which, while a
   routine holds the mutex (from its acquire step to its release step), no other routine moves: the critical
   sections run one after the other, un-interleaved.  The state is the SAME state (cells, every routine's
   registers, log and control stack, the ghost fields too).

   Route (Lipton): a step of routine j that is neither an access to a cell nor a lock / unlock only rewrites
   rs[j] (and may set the ghost flag `unwound`), and does so uniformly in the rest of the state
   (local_uniform); every step of another routine i is insensitive to it (step_frame_other); so it moves to the
   left over any step of i (commute_local).  While i holds the mutex every step of j <> i is of this kind
   (other_is_local: j is not inside a section, its next operation is not an access, and an acquire is not
   enabled).  Induction over the schedule, the inserted step bubbling to the left of the open section
   (insert_local). *)
From C17 Require Import Model Spec Steps ChanProofs MutexProofs FlatProofs.

Lemma upd_comm : forall A (l : list A) i j a b, i <> j -> upd (upd l j a) i b = upd (upd l i b) j a.
Proof. induction l; destruct i; destruct j; simpl; intros; auto; try congruence. f_equal. apply IHl. congruence. Qed.

(* ---- the class ---- *)
(* code outside any with-mutex-lock: no access to a cell *)
Fixpoint sec_op (o : op) {struct o} : bool :=
  let fix all (l : list op) : bool := match l with [] => true | o' :: l' => sec_op o' && all l' end in
  match o with
  | OLock _ _ => true
  | OCatch body => all body
  | OFail => true
  | _ => false
  end.
Definition sec_ops (l : list op) : bool := forallb sec_op l.
Definition sec (p : prog) : bool := forallb sec_ops (p_code p).
Lemma sec_op_catch : forall body, sec_op (OCatch body) = sec_ops body.
Proof. intros. reflexivity. Qed.

Definition one_mutex_sections (p : prog) : bool := flat p && Nat.eqb (p_nmutex p) 1 && sec p.

(* ---- un-interleaved schedules ---- *)
(* routine j may move in s: nobody else holds the mutex *)
Definition unint (s : state) (j : nat) : Prop := forall i, nth_error (mus s) 0 = Some (Some i) -> i = j.
Fixpoint serial_from (s : state) (sch : list (nat * nat)) : Prop :=
  match sch with
  | [] => True
  | (j, k) :: sch' => unint s j /\ match step s j k with Some s' => serial_from s' sch' | None => False end
  end.
Fixpoint serialb (s : state) (sch : list (nat * nat)) : bool :=
  match sch with
  | [] => true
  | (j, k) :: sch' =>
      (match nth_error (mus s) 0 with Some (Some i) => Nat.eqb i j | _ => true end)
      && match step s j k with Some s' => serialb s' sch' | None => false end
  end.
Lemma serialb_sound : forall sch s, serialb s sch = true -> serial_from s sch.
Proof.
  induction sch as [|[j k] sch IH]; cbn [serialb serial_from]; intros s H; auto.
  apply andb_true_iff in H. destruct H as [A B]. split.
  - intros i E. rewrite E in A. apply Nat.eqb_eq in A. auto.
  - destruct (step s j k); try discriminate. auto.
Qed.

Inductive Ser (s0 : state) : list (nat * nat) -> state -> Prop :=
| Ser_nil : Ser s0 [] s0
| Ser_snoc : forall sch s j k s', Ser s0 sch s -> unint s j -> step s j k = Some s' -> Ser s0 (sch ++ [(j, k)]) s'.

Lemma run_sched_snoc : forall sch s0 s j k s', run_sched s0 sch = Some s -> step s j k = Some s' ->
  run_sched s0 (sch ++ [(j, k)]) = Some s'.
Proof.
  induction sch as [|[a b] sch IH]; simpl; intros s0 s j k s' R S.
  - inversion R; subst. rewrite S. auto.
  - destruct (step s0 a b); try discriminate. eauto.
Qed.
Lemma serial_snoc : forall sch s0 s j k, run_sched s0 sch = Some s -> serial_from s0 sch -> unint s j ->
  (exists s', step s j k = Some s') -> serial_from s0 (sch ++ [(j, k)]).
Proof.
  induction sch as [|[a b] sch IH]; simpl; intros s0 s j k R SF U [s' S].
  - inversion R; subst. rewrite S. auto.
  - destruct SF as [UA SF]. split; auto. destruct (step s0 a b); try discriminate. eapply IH; eauto.
Qed.
Lemma Ser_sound : forall s0 sch s, Ser s0 sch s -> run_sched s0 sch = Some s /\ serial_from s0 sch.
Proof.
  induction 1 as [| sch s j k s' _ [R SF] U S].
  - simpl; auto.
  - split. eapply run_sched_snoc; eauto. eapply serial_snoc; eauto.
Qed.

(* ---- local steps ---- *)
Definition is_shared_op (o : op) : bool :=
  match o with OLoad _ | OStore _ _ | OLock _ _ => true | _ => is_chan_op o end.
(* the next move of r is neither an access to a cell, nor an acquire, nor a release, nor a channel operation *)
Definition local_next (r : routine) : bool :=
  match stk r with
  | [] => true
  | f :: _ =>
      if unw r then negb (is_lock f) else
      match ext r with
      | Some _ => negb (is_lock f)
      | None => match fops f with [] => negb (is_lock f) | o :: _ => negb (is_shared_op o) end
      end
  end.
Definition nochan_next (r : routine) : bool :=
  match stk r with
  | f :: _ => match fops f with o :: _ => negb (is_chan_op o) | [] => true end
  | [] => true
  end.

(* a local step rewrites rs[j] only (an error also sets the ghost flag), the same way in every state that
   agrees on rs[j] *)
Lemma local_uniform : forall s j k s' r, nth_error (rs s) j = Some r -> local_next r = true -> step s j k = Some s' ->
  exists r', (s' = set_r s j r' /\ forall t, nth_error (rs t) j = Some r -> parked t j = false -> step t j k = Some (set_r t j r'))
          \/ (s' = raise s j r' /\ forall t, nth_error (rs t) j = Some r -> parked t j = false -> step t j k = Some (raise t j r')).
Proof.
  unfold step, local_next, is_lock. intros s j k s' r R L H. rewrite R in H.
  destruct (parked s j); try discriminate.
  destruct (stk r) as [|f rest] eqn:ST; try discriminate.
  destruct (unw r) eqn:U.
  - destruct (fk f) eqn:K; try discriminate; inversion H; subst; eexists; left; (split; [reflexivity|]);
      intros t Rt Pt; rewrite Rt, Pt, ST, U, K; reflexivity.
  - destruct (ext r) as [[tb b]|] eqn:EX.
    + destruct (fk f) as [| m | | [|] b0] eqn:K; try discriminate;
        try destruct tb; try destruct (Nat.eqb b0 b) eqn:EQ; simpl in H; inversion H; subst; eexists; left;
        (split; [reflexivity|]); intros t Rt Pt; rewrite Rt, Pt, ST, U, EX, K; simpl; rewrite ?EQ; reflexivity.
    + destruct (fops f) as [|o ops'] eqn:O.
      * destruct (fk f) eqn:K; try discriminate; inversion H; subst; eexists; left; (split; [reflexivity|]);
          intros t Rt Pt; rewrite Rt, Pt, ST, U, EX, O, K; reflexivity.
      * destruct o; simpl in L; try discriminate; unfold exec in *.
        -- inversion H; subst; eexists; right; (split; [reflexivity|]);
             intros t Rt Pt; rewrite Rt, Pt, ST, U, EX, O; reflexivity.
        -- inversion H; subst; eexists; left; (split; [reflexivity|]);
             intros t Rt Pt; rewrite Rt, Pt, ST, U, EX, O; reflexivity.
        -- inversion H; subst; eexists; left; (split; [reflexivity|]);
             intros t Rt Pt; rewrite Rt, Pt, ST, U, EX, O; reflexivity.
        -- match type of H with (if ?c then _ else _) = _ => destruct c eqn:EE end; inversion H; subst; eexists;
             [left | right]; (split; [reflexivity|]); intros t Rt Pt; rewrite Rt, Pt, ST, U, EX, O, EE; reflexivity.
Qed.

Ltac fin_frame :=
  repeat split; try (f_equal; f_equal; apply upd_comm; congruence); try (apply nth_error_upd_other; congruence).

(* any step of routine i that is not a channel operation does not look at rs[j], j <> i, nor at the ghost flag *)
Lemma step_frame_other : forall s i b s1 r j rj, j <> i -> nth_error (rs s) i = Some r -> nochan_next r = true ->
  step s i b = Some s1 ->
  step (set_r s j rj) i b = Some (set_r s1 j rj) /\ step (raise s j rj) i b = Some (raise s1 j rj)
  /\ nth_error (rs s1) j = nth_error (rs s) j /\ chs s1 = chs s.
Proof.
  unfold step, nochan_next, parked. intros s i b s1 r j rj NE R NC H.
  cbn [rs chs mus mem bumps unwound set_r raise].
  rewrite !nth_error_upd_other by auto. rewrite R in *.
  destruct (existsb (parked_in i) (chs s)); try discriminate.
  destruct (stk r) as [|f rest] eqn:ST; try discriminate.
  destruct (unw r) eqn:U.
  - destruct (fk f) eqn:K; inversion H; subst; unfold set_r, set_rm, raise; cbn;
      fin_frame.
  - destruct (ext r) as [[tb b0]|] eqn:EX.
    + destruct (fk f) as [| m | | [|] b1] eqn:K;
        try destruct tb; try destruct (Nat.eqb b1 b0) eqn:EQ; simpl in H; inversion H; subst;
        unfold set_r, set_rm, raise; cbn; rewrite ?EQ;
        fin_frame.
    + destruct (fops f) as [|o ops'] eqn:O.
      * destruct (fk f) eqn:K; inversion H; subst; unfold set_r, set_rm, raise; cbn;
          fin_frame.
      * unfold exec in *. cbn [rs chs mus mem bumps unwound set_r raise].
        destruct o; simpl in NC; try discriminate.
        -- destruct (nth_error (mem s) x); inversion H; subst; unfold set_r, set_rm, raise; cbn;
             fin_frame.
        -- destruct (nth_error (mem s) x); inversion H; subst; unfold set_r, set_rm, raise; cbn;
             fin_frame.
        -- inversion H; subst; unfold set_r, set_rm, raise; cbn;
             fin_frame.
        -- destruct (nth_error (mus s) m) as [[?|]|]; inversion H; subst; unfold set_r, set_rm, raise; cbn;
             fin_frame.
        -- inversion H; subst; unfold set_r, set_rm, raise; cbn;
             fin_frame.
        -- inversion H; subst; unfold set_r, set_rm, raise; cbn;
             fin_frame.
        -- match type of H with (if ?c then _ else _) = _ => destruct c eqn:EE end; inversion H; subst;
             unfold set_r, set_rm, raise; cbn;
             fin_frame.
Qed.

(* ---- invariant: code that is not under a lock frame has no access to a cell ---- *)
Fixpoint stack_sec (st : list frame) : Prop :=
  match st with
  | [] => True
  | g :: b => stack_sec b /\ (under g b = false -> sec_ops (fops g) = true)
  end.
Definition sec_inv (s : state) : Prop := forall i r, nth_error (rs s) i = Some r -> stack_sec (stk r).

Lemma sec_inv_init : forall p, sec p = true -> sec_inv (init p).
Proof.
  intros p F i r H. unfold init in H; simpl in H.
  apply nth_error_In in H. apply in_map_iff in H. destruct H as (ops & E & IN). rewrite <- E. simpl. split; auto.
  intros _. unfold sec in F. rewrite forallb_forall in F. auto.
Qed.

Lemma sec_inv_step : forall nm nx s i k s', flat_inv nm nx s -> sec_inv s -> step s i k = Some s' -> sec_inv s'.
Proof.
  intros nm nx s i k s' FI SI H.
  assert (OTH : forall j rj', j <> i -> nth_error (rs s') j = Some rj' -> exists rj, nth_error (rs s) j = Some rj /\ stk rj' = stk rj).
  { intros j rj' NE N. destruct (step_others _ _ _ _ H j rj' NE N) as (rj & A & B & _). eauto. }
  destruct (step_Step _ _ _ _ H) as (r & f & rest & R & P & ST & S).
  assert (U : forall r0, nth_error (upd (rs s) i r0) i = Some r0) by (intros; eapply nth_error_upd_same; eauto).
  assert (SF : stack_sec (f :: rest)) by (rewrite <- ST; eauto).
  assert (FF : stack_flat nm nx (f :: rest)) by (rewrite <- ST; eapply fi_stack; eauto).
  assert (GEN : forall r', nth_error (rs s') i = Some r' -> stack_sec (stk r') -> sec_inv s').
  { intros r' N' S' j rj N. destruct (Nat.eq_dec j i) as [-> | NE].
    - rewrite N' in N. inversion N; subst; auto.
    - destruct (OTH _ _ NE N) as (rj0 & A & B). rewrite B. eauto. }
  assert (TOP := stack_top _ _ _ _ FF).
  assert (ADV : forall o ops', fops f = o :: ops' -> stack_sec (mkF (fk f) ops' :: rest)).
  { intros o ops' E. simpl. split; [apply SF |]. intros UN. destruct SF as [_ SF]. specialize (SF UN).
    rewrite E in SF. simpl in SF. apply andb_true_iff in SF. apply SF. }
  assert (NOCH : forall o ops', fops f = o :: ops' -> is_chan_op o = true -> False).
  { intros o ops' E C. rewrite E in TOP. apply head_tail in TOP. destruct TOP as [HD _].
    destruct (under f rest); destruct o; simpl in *; discriminate. }
  assert (NOBL : forall o ops', fops f = o :: ops' -> (match o with OBlock _ _ _ | OExit _ _ => true | _ => false end) = true -> False).
  { intros o ops' E C. rewrite E in TOP. apply head_tail in TOP. destruct TOP as [HD _].
    destruct (under f rest); destruct o; simpl in *; discriminate. }
  inversion S; subst;
    try (exfalso; eapply NOCH; [eassumption | reflexivity]);
    try (exfalso; eapply NOBL; [eassumption | reflexivity]);
    try (eapply (GEN _ (U _)); simpl; apply SF; fail);
    try (eapply (GEN _ (U _)); cbn [stk load adv set_stk set_unw]; eapply ADV; eauto; fail).
  - (* lock *)
    eapply (GEN _ (U _)). cbn [stk adv set_stk]. split; [eapply ADV; eauto |]. intros UN. discriminate UN.
  - (* catch *)
    eapply (GEN _ (U _)). cbn [stk adv set_stk]. split; [eapply ADV; eauto |]. intros UN.
    change (under (mkF KCatch body) (mkF (fk f) ops' :: rest)) with (under f rest) in UN.
    destruct SF as [_ SF]. specialize (SF UN). rewrite H1 in SF. simpl in SF. apply andb_true_iff in SF.
    destruct SF as [SF _]. exact SF.
Qed.

Theorem sec_inv_reach : forall p s, flat p = true -> sec p = true -> reach p s -> sec_inv s.
Proof.
  intros p s F SC R. apply (reach_ind p sec_inv); auto. apply sec_inv_init; auto.
  intros. eapply sec_inv_step; eauto. eapply flat_inv_reach; eauto.
Qed.

Lemma flat_nochan : forall nm nx s i r, flat_inv nm nx s -> nth_error (rs s) i = Some r -> nochan_next r = true.
Proof.
  intros nm nx s i r FI R. unfold nochan_next. destruct (stk r) as [|f rest] eqn:ST; auto.
  destruct (fops f) as [|o ops'] eqn:O; auto.
  assert (FF : stack_flat nm nx (f :: rest)) by (rewrite <- ST; eapply fi_stack; eauto).
  assert (TOP := stack_top _ _ _ _ FF). rewrite O in TOP. apply head_tail in TOP. destruct TOP as [HD _].
  destruct (under f rest); destruct o; simpl in *; try discriminate; auto.
Qed.

Lemma parked_false : forall nm nx s j, flat_inv nm nx s -> parked s j = false.
Proof.
  intros nm nx s j FI. unfold parked. destruct (existsb (parked_in j) (chs s)) eqn:E; auto.
  apply existsb_exists in E. destruct E as (ch & IN & PI). apply In_nth_error in IN. destruct IN as (c & N).
  unfold parked_in in PI. rewrite (fi_queue _ _ _ FI _ _ N) in PI. destruct (cap ch); simpl in PI; discriminate.
Qed.

(* while routine i holds the mutex, every enabled step of another routine is local *)
Lemma other_is_local : forall nx s i j k s' rj, flat_inv 1 nx s -> lock_inv s -> sec_inv s ->
  nth_error (mus s) 0 = Some (Some i) -> i <> j -> nth_error (rs s) j = Some rj -> step s j k = Some s' ->
  local_next rj = true.
Proof.
  intros nx s i j k s' rj FI LI SI HO NE R H.
  assert (NL : forall m, ~ In m (locks_of (stk rj))).
  { intros m IN. assert (E := li_held _ LI _ _ _ R IN).
    assert (m < length (mus s)) by (apply nth_error_Some; congruence).
    rewrite (fi_mus _ _ _ FI) in H0. assert (m = 0) by lia. subst. congruence. }
  unfold local_next. destruct (stk rj) as [|f rest] eqn:ST; auto.
  assert (IL : is_lock f = false).
  { unfold is_lock. destruct (fk f) eqn:K; auto. exfalso. apply (NL m). unfold locks_of. simpl. rewrite K. left; auto. }
  assert (UN : under f rest = false).
  { unfold under. rewrite IL. simpl. destruct (existsb is_lock rest) eqn:E; auto.
    apply existsb_exists in E. destruct E as (g & IN & GL). unfold is_lock in GL. destruct (fk g) eqn:K; try discriminate.
    exfalso. apply (NL m). unfold locks_of. simpl. apply in_or_app. right. apply in_flat_map. exists g. split; auto.
    rewrite K. left; auto. }
  rewrite IL. simpl. destruct (unw rj) eqn:U; auto. destruct (ext rj) eqn:EX; auto.
  destruct (fops f) as [|o ops'] eqn:O; auto.
  assert (FF : stack_flat 1 nx (f :: rest)) by (rewrite <- ST; eapply fi_stack; eauto).
  assert (TOP := stack_top _ _ _ _ FF). rewrite O, UN in TOP. apply head_tail in TOP. destruct TOP as [HD _].
  assert (SS : stack_sec (f :: rest)) by (rewrite <- ST; eauto).
  destruct SS as [_ SS]. specialize (SS UN). rewrite O in SS. simpl in SS. apply andb_true_iff in SS. destruct SS as [SO _].
  destruct o; simpl in HD, SO; try discriminate; auto.
  (* an acquire is not enabled *)
  exfalso. unfold step in H. rewrite R, ST, U, EX, O in H. destruct (parked s j); try discriminate.
  unfold exec in H. apply andb_true_iff in HD. destruct HD as [LT _]. apply Nat.ltb_lt in LT. assert (m = 0) by lia. subst.
  rewrite HO in H. discriminate.
Qed.

(* how a step changes the holder of the mutex *)
Lemma holder_step : forall s a b s1 i, step s a b = Some s1 -> nth_error (mus s1) 0 = Some (Some i) ->
  nth_error (mus s) 0 = Some (Some i) \/ (nth_error (mus s) 0 = Some None /\ a = i).
Proof.
  intros s a b s1 i H HO.
  destruct (step_locks _ _ _ _ H) as (r & r' & _ & _ & [[_ E] | [(m & _ & E) | (m & _ & N & E)]]); rewrite E in HO; auto.
  - rewrite nth_error_upd in HO. destruct (Nat.eqb_spec m 0); auto. subst. destruct (nth_error (mus s) 0); discriminate.
  - rewrite nth_error_upd in HO. destruct (Nat.eqb_spec m 0); auto. subst. rewrite N in HO. inversion HO; subst. auto.
Qed.

(* a local step of j moves to the left over the step of i that precedes it *)
Lemma commute_local : forall nx s i b s1 j k s2,
  flat_inv 1 nx s -> flat_inv 1 nx s1 -> lock_inv s1 -> sec_inv s1 ->
  i <> j -> step s i b = Some s1 -> nth_error (mus s1) 0 = Some (Some i) -> step s1 j k = Some s2 ->
  exists s1', step s j k = Some s1' /\ step s1' i b = Some s2 /\ mus s1' = mus s.
Proof.
  intros nx s i b s1 j k s2 FI FI1 LI1 SI1 NE H HO H2.
  assert (NE' : j <> i) by congruence.
  destruct (nth_error (rs s) i) as [r|] eqn:R; [| unfold step in H; rewrite R in H; discriminate].
  destruct (nth_error (rs s1) j) as [rj|] eqn:RJ; [| unfold step in H2; rewrite RJ in H2; discriminate].
  assert (NC := flat_nochan _ _ _ _ _ FI R).
  assert (A := fun rj0 => step_frame_other s i b s1 r j rj0 NE' R NC H).
  destruct (A rj) as (_ & _ & A3 & A4).
  assert (L := other_is_local _ _ _ _ _ _ _ FI1 LI1 SI1 HO NE RJ H2).
  assert (PS := parked_false _ _ _ j FI).
  rewrite A3 in RJ.
  destruct (local_uniform _ _ _ _ _ (eq_trans A3 RJ) L H2) as (r' & [[E UNI] | [E UNI]]).
  - exists (set_r s j r'). split; [apply UNI; auto |]. split; [| reflexivity]. subst s2. apply (A r').
  - exists (raise s j r'). split; [apply UNI; auto |]. split; [| reflexivity]. subst s2. apply (A r').
Qed.

(* the picks of routine x in a schedule, in order *)
Definition proj (x : nat) (sch : list (nat * nat)) : list (nat * nat) := filter (fun pk => Nat.eqb (fst pk) x) sch.
Lemma proj_app : forall x a b, proj x (a ++ b) = proj x a ++ proj x b.
Proof. intros. apply filter_app. Qed.
Lemma swap_proj : forall x sch i b j k, i <> j ->
  proj x ((sch ++ [(j, k)]) ++ [(i, b)]) = proj x ((sch ++ [(i, b)]) ++ [(j, k)]).
Proof.
  intros x sch i b j k NE. rewrite !proj_app, <- !app_assoc. f_equal. unfold proj. simpl.
  destruct (Nat.eqb_spec i x); destruct (Nat.eqb_spec j x); subst; try congruence; reflexivity.
Qed.
Lemma run_sched_snoc_inv : forall sch s0 j k s', run_sched s0 (sch ++ [(j, k)]) = Some s' ->
  exists s, run_sched s0 sch = Some s /\ step s j k = Some s'.
Proof.
  induction sch as [|[a b] sch IH]; simpl; intros s0 j k s' R.
  - destruct (step s0 j k) eqn:S; try discriminate. inversion R; subst. eauto.
  - destruct (step s0 a b); try discriminate. eauto.
Qed.

Section Reduction.
Variable p : prog.
Hypothesis FL : flat p = true.
Hypothesis NM : p_nmutex p = 1.
Hypothesis SC : sec p = true.

Lemma Ser_reach : forall sch s, Ser (init p) sch s -> reach p s.
Proof. intros sch s H. exists sch. apply Ser_sound in H. apply H. Qed.

Lemma reach_flat1 : forall s, reach p s -> flat_inv 1 (length (p_mem p)) s.
Proof. intros. rewrite <- NM. eapply flat_inv_reach; eauto. Qed.

(* a step of j taken while i <> j holds the mutex is inserted before i's open section; every routine keeps its
   own sequence of picks *)
Lemma insert_local : forall sch s, Ser (init p) sch s -> forall i j k s',
  nth_error (mus s) 0 = Some (Some i) -> i <> j -> step s j k = Some s' ->
  exists sch', Ser (init p) sch' s' /\ forall x, proj x sch' = proj x (sch ++ [(j, k)]).
Proof.
  induction 1 as [| sch s0 a b s SER IH UA SA]; intros i j k s' HO NE HS.
  - unfold init in HO. simpl in HO. rewrite NM in HO. simpl in HO. discriminate.
  - assert (R0 := Ser_reach _ _ SER).
    assert (R1 : reach p s) by (eapply Ser_reach; econstructor; eauto).
    assert (F0 := reach_flat1 _ R0). assert (F1 := reach_flat1 _ R1).
    assert (L1 := lock_inv_reach _ _ R1). assert (S1 := sec_inv_reach _ _ FL SC R1).
    destruct (holder_step _ _ _ _ _ SA HO) as [HP | [HP EA]].
    + assert (a = i) by (symmetry; apply UA; auto). subst a.
      destruct (commute_local _ _ _ _ _ _ _ _ F0 F1 L1 S1 NE SA HO HS) as (s0' & J & I & M).
      destruct (IH _ _ _ _ HP NE J) as (sch' & SER' & PR).
      exists (sch' ++ [(i, b)]). split.
      * econstructor; eauto. intros i0 E. rewrite M in E. congruence.
      * intros x. rewrite <- swap_proj by auto. rewrite (proj_app x sch'), PR, <- proj_app. reflexivity.
    + subst a.
      destruct (commute_local _ _ _ _ _ _ _ _ F0 F1 L1 S1 NE SA HO HS) as (s0' & J & I & M).
      exists ((sch ++ [(j, k)]) ++ [(i, b)]). split.
      * econstructor; [econstructor; eauto | | eauto].
        -- intros i0 E. congruence.
        -- intros i0 E. rewrite M in E. congruence.
      * intros x. apply swap_proj; auto.
Qed.

Lemma serial_reduction_ser : forall sch s, run_sched (init p) sch = Some s ->
  exists sch', Ser (init p) sch' s /\ forall x, proj x sch' = proj x sch.
Proof.
  induction sch as [| [j k] sch IH] using rev_ind; intros s' R.
  - simpl in R. inversion R; subst. exists []. split; [constructor | auto].
  - destruct (run_sched_snoc_inv _ _ _ _ _ R) as (s & R0 & HS).
    destruct (IH _ R0) as (sch0 & SER & PR).
    assert (DIRECT : unint s j -> exists sch', Ser (init p) sch' s' /\ forall x, proj x sch' = proj x (sch ++ [(j, k)])).
    { intros UJ. exists (sch0 ++ [(j, k)]). split; [econstructor; eauto |]. intros x. rewrite !proj_app, PR. auto. }
    destruct (nth_error (mus s) 0) as [[h|]|] eqn:HO.
    + destruct (Nat.eq_dec h j) as [-> | NE].
      * apply DIRECT. intros i0 E. congruence.
      * destruct (insert_local _ _ SER _ _ _ _ HO NE HS) as (sch' & SER' & PR').
        exists sch'. split; auto. intros x. rewrite PR', !proj_app, PR. auto.
    + apply DIRECT. intros i0 E. congruence.
    + apply DIRECT. intros i0 E. congruence.
Qed.

(* every schedule can be reordered, keeping each routine's own sequence of picks, into an un-interleaved one
   that reaches the same state *)
Theorem serial_reduction_sched : forall sch s, run_sched (init p) sch = Some s ->
  exists sch', run_sched (init p) sch' = Some s /\ serial_from (init p) sch' /\ forall x, proj x sch' = proj x sch.
Proof.
  intros sch s R. destruct (serial_reduction_ser _ _ R) as (sch' & SER & PR).
  exists sch'. destruct (Ser_sound _ _ _ SER). auto.
Qed.

Theorem serial_reduction : forall s, reach p s ->
  exists sch, run_sched (init p) sch = Some s /\ serial_from (init p) sch.
Proof.
  intros s (sch & R). destruct (serial_reduction_sched _ _ R) as (sch' & A & B & _). eauto.
Qed.
End Reduction.

Theorem serial_reduction_sched_class : forall p sch s, one_mutex_sections p = true -> run_sched (init p) sch = Some s ->
  exists sch', run_sched (init p) sch' = Some s /\ serial_from (init p) sch' /\ forall x, proj x sch' = proj x sch.
Proof.
  intros p sch s C R. unfold one_mutex_sections in C. apply andb_true_iff in C. destruct C as [C SC].
  apply andb_true_iff in C. destruct C as [FL NM]. apply Nat.eqb_eq in NM. apply serial_reduction_sched; auto.
Qed.

Theorem serial_reduction_class : forall p s, one_mutex_sections p = true -> reach p s ->
  exists sch, run_sched (init p) sch = Some s /\ serial_from (init p) sch.
Proof.
  intros p s C R. unfold one_mutex_sections in C. apply andb_true_iff in C. destruct C as [C SC].
  apply andb_true_iff in C. destruct C as [FL NM]. apply Nat.eqb_eq in NM. apply serial_reduction; auto.
Qed.

(* ---- non-vacuity: two routines, two sections each (one routine raises and catches an error between its
   sections); an interleaved schedule in which routine 0 moves three times while routine 1 is inside its first
   section, and the un-interleaved schedule that reaches the same final state ---- *)
Definition ex_red : prog :=
  mkP [] 1 [0; 0]%Z
    [ [OLock 0 [OLoad 0; OStore 0 (ZAccPlus 1)]; OCatch [OFail]; OLock 0 [OLoad 1; OStore 0 (ZAccPlus 2)]];
      [OLock 0 [OLoad 0; OStore 1 (ZAccPlus 5)]; OLock 0 [OLoad 1; OStore 0 (ZAccPlus 3)]] ].
Definition ex_red_picks (l : list nat) : list (nat * nat) := map (fun i => (i, 0)) l.
Definition ex_red_interleaved := ex_red_picks [0;0;0;0; 1;0;1;0;1;0;1; 0;0;0;0; 1;1;1;1; 0;1].
Definition ex_red_serial := ex_red_picks [0;0;0;0; 0;0;0; 1;1;1;1; 0;0;0;0; 1;1;1;1; 0;1].

Theorem reduction_example :
  one_mutex_sections ex_red = true /\ serialb (init ex_red) ex_red_interleaved = false /\
  exists s, run_sched (init ex_red) ex_red_interleaved = Some s /\ all_finished s = true /\ mem s = [9; 6]%Z /\
            run_sched (init ex_red) ex_red_serial = Some s /\ serial_from (init ex_red) ex_red_serial.
Proof.
  split; [vm_compute; reflexivity |]. split; [vm_compute; reflexivity |].
  eexists. split; [vm_compute; reflexivity |]. split; [vm_compute; reflexivity |]. split; [vm_compute; reflexivity |].
  split; [vm_compute; reflexivity |]. apply serialb_sound. vm_compute. reflexivity.
Qed.
