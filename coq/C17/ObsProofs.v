(* C17 — the conditions `obs_ok` hold for whatever ANY schedule of the model can show: an observation that
   breaks one of them is outside the model's behaviours (this is what makes code 2 a failing input). *)
From C17 Require Import Model Spec Steps ChanProofs MutexProofs CounterProofs FlatProofs.

Lemma list_eqb_Z : forall a b, list_eqb Z.eqb a b = true -> a = b.
Proof.
  induction a; destruct b; simpl; intros; try discriminate; auto.
  apply andb_true_iff in H. destruct H as [A B]. apply Z.eqb_eq in A. f_equal; auto.
Qed.

Lemma logs_match_fin : forall rl fin logs, logs_match rl fin logs = true -> all_true fin = true -> forallb finished rl = true.
Proof.
  induction rl; destruct fin; destruct logs; simpl; intros; try discriminate; auto.
  apply andb_true_iff in H0. destruct H0 as [B0 B1]. subst.
  apply andb_true_iff in H. destruct H as [H H2]. apply andb_true_iff in H. destruct H as [H _].
  apply eqb_prop in H. apply andb_true_iff in H. destruct H as [F _]. rewrite F. simpl. eauto.
Qed.

Lemma logs_match_all : forall rl fin logs, logs_match rl fin logs = true ->
  forallb finished rl = true -> existsb crashed rl = false -> all_true fin = true.
Proof.
  induction rl; destruct fin; destruct logs; simpl; intros; try discriminate; auto.
  apply andb_true_iff in H0. destruct H0 as [F0 F1]. apply orb_false_iff in H1. destruct H1 as [C0 C1].
  apply andb_true_iff in H. destruct H as [H H2]. apply andb_true_iff in H. destruct H as [H _].
  apply eqb_prop in H. unfold crashed in C0. rewrite F0 in *. simpl in *. rewrite C0 in H. simpl in H. subst.
  simpl. eauto.
Qed.

Theorem obs_ok_sound : forall p s o, reach p s -> matches s o = true -> obs_ok p o = true.
Proof.
  intros p s o R M. unfold obs_ok. unfold matches in M. destruct (o_crash o).
  - (* the process died: some routine crashed, so the program can raise *)
    apply negb_true_iff. destruct (nofail p) eqn:NF; auto. exfalso.
    apply existsb_exists in M. destruct M as (r & IN & C). apply In_nth_error in IN. destruct IN as (i & N).
    destruct (nofail_never_unwinds _ _ NF R) as [_ U]. unfold crashed in C. rewrite (U _ _ N) in C.
    rewrite andb_false_r in C. discriminate.
  - repeat (apply andb_true_iff in M; destruct M as [M ?]).
    apply negb_true_iff in M.
    apply andb_true_iff. split.
    + destruct (flat p) eqn:F; auto.
      eapply logs_match_all; eauto. apply (flat_no_deadlock _ _ F R); auto.
    + destruct (nofail p && all_true (o_fin o)) eqn:C; auto.
      apply andb_true_iff in C. destruct C as [NF AT].
      apply forallb_forall. intros x _. unfold counter_ok.
      destruct (existsb (fun m => guarded p x m) (seq 0 (p_nmutex p))) eqn:G; auto.
      apply existsb_exists in G. destruct G as (m & _ & G).
      apply Z.eqb_eq. rewrite <- (list_eqb_Z _ _ H0).
      eapply counter_final; eauto. unfold all_finished. eapply logs_match_fin; eauto.
Qed.
