(* C17 — mutexes: in every reachable state a mutex is held by routine i exactly when i is inside a
   with-mutex-lock on it; hence bodies on the same mutex never overlap, and the mutex is free again
   after every exit of the body (end of the body, or an error unwinding through it). *)
From C17 Require Import Model Spec Steps ChanProofs.

Record lock_inv (s : state) : Prop := {
  li_held : forall i r m, nth_error (rs s) i = Some r -> In m (locks_of (stk r)) -> nth_error (mus s) m = Some (Some i);
  li_owner : forall m i, nth_error (mus s) m = Some (Some i) -> exists r, nth_error (rs s) i = Some r /\ In m (locks_of (stk r));
  li_nodup : forall i r, nth_error (rs s) i = Some r -> NoDup (locks_of (stk r))
}.

(* how a step of routine i changes its lock frames and the mutexes *)
Lemma step_locks : forall s i k s', step s i k = Some s' ->
  exists r r', nth_error (rs s) i = Some r /\ nth_error (rs s') i = Some r' /\
    ( (locks_of (stk r') = locks_of (stk r) /\ mus s' = mus s)
    \/ (exists m, locks_of (stk r) = m :: locks_of (stk r') /\ mus s' = upd (mus s) m None)
    \/ (exists m, locks_of (stk r') = m :: locks_of (stk r) /\ nth_error (mus s) m = Some None /\ mus s' = upd (mus s) m (Some i)) ).
Proof.
  intros s i k s' H. destruct (step_Step _ _ _ _ H) as (r & f & rest & R & P & ST & S).
  exists r.
  assert (U : forall r0, nth_error (upd (rs s) i r0) i = Some r0) by (intros; eapply nth_error_upd_same; eauto).
  assert (A : forall ops', locks_of (mkF (fk f) ops' :: rest) = locks_of (stk r)).
  { intros. rewrite ST. unfold locks_of. simpl. auto. }
  inversion S; subst; simpl;
    try (eexists; split; [eauto | split; [apply U | left; split; [cbn [stk adv set_stk set_unw recv load]; apply A | reflexivity]]]; fail).
  - eexists; split; [eauto | split; [apply U | left; simpl; split; auto]]. rewrite ST. unfold locks_of; simpl. rewrite H1. auto.
  - eexists; split; [eauto | split; [apply U | right; left; exists m; simpl; split; auto]]. rewrite ST. unfold locks_of; simpl. rewrite H1. auto.
  - eexists; split; [eauto | split; [apply U | left; simpl; split; auto]]. rewrite ST. unfold locks_of; simpl. rewrite H1. auto.
  - eexists; split; [eauto | split; [apply U | right; left; exists m; simpl; split; auto]]. rewrite ST. unfold locks_of; simpl. rewrite H2. auto.
  - eexists; split; [eauto | split; [apply U | left; simpl; split; auto]]. rewrite ST. unfold locks_of; simpl.
    destruct (fk f); auto. exfalso. eapply H2; eauto.
  - (* range: the operation stays *)
    eexists; split; [eauto | split; [apply U | left; split; reflexivity]].
  - (* close *)
    destruct (mark_unw_nth (skipn (cap ch) (q ch)) _ 0 _ _ (U (adv r f rest ops'))) as (b & N' & B).
    eexists; split; [eauto | split; [apply N' | left; split; [cbn [stk adv set_stk]; apply A | reflexivity]]].
  - eexists; split; [eauto | split; [apply U | right; right; exists m; simpl; split; [| split]; auto]].
    unfold locks_of at 1; simpl. f_equal. apply (A ops').
  - (* an error passes a block / tagbody frame *)
    eexists; split; [eauto | split; [apply U | left; simpl; split; auto]]. rewrite ST. unfold locks_of; simpl.
    match goal with K : fk f = KBlock _ _ |- _ => rewrite K end. auto.
  - (* an exit marker leaves a frame that is not a lock *)
    eexists; split; [eauto | split; [apply U | left; simpl; split; auto]]. rewrite ST. unfold locks_of; simpl.
    destruct (fk f) eqn:K; auto. exfalso. match goal with N : forall m, _ <> KLock m |- _ => eapply N; eauto end.
  - (* an exit marker leaves a with-mutex-lock: the deferred Unlock *)
    eexists; split; [eauto | split; [apply U | right; left; exists m; simpl; split; auto]]. rewrite ST. unfold locks_of; simpl.
    match goal with K : fk f = KLock m |- _ => rewrite K end. auto.
Qed.

Lemma lock_inv_init : forall p, lock_inv (init p).
Proof.
  intros p. split; unfold init; simpl; intros.
  - apply nth_error_In in H. apply in_map_iff in H. destruct H as (x & E & _). subst. simpl in H0. contradiction.
  - apply nth_error_In in H. apply repeat_spec in H. discriminate.
  - apply nth_error_In in H. apply in_map_iff in H. destruct H as (x & E & _). subst. simpl. constructor.
Qed.

Lemma lock_inv_step : forall s i k s', lock_inv s -> step s i k = Some s' -> lock_inv s'.
Proof.
  intros s i k s' [HELD OWN ND] H.
  destruct (step_locks _ _ _ _ H) as (r & r' & R & R' & D).
  assert (OTH : forall j rj', j <> i -> nth_error (rs s') j = Some rj' -> exists rj, nth_error (rs s) j = Some rj /\ stk rj' = stk rj).
  { intros j rj' NE N. destruct (step_others _ _ _ _ H j rj' NE N) as (rj & A & B & _). eauto. }
  assert (OTH' : forall j rj, j <> i -> nth_error (rs s) j = Some rj -> exists rj', nth_error (rs s') j = Some rj' /\ stk rj' = stk rj).
  { intros j rj NE N. assert (L := step_length _ _ _ _ H).
    destruct (nth_error (rs s') j) as [rj'|] eqn:E.
    - destruct (OTH j rj' NE E) as (rj0 & A & B). rewrite N in A. inversion A; subst. eauto.
    - apply nth_error_None in E. assert (j < length (rs s)) by (apply nth_error_Some; congruence). lia. }
  destruct D as [[LK MU] | [(m & LK & MU) | (m & LK & FREE & MU)]].
  - (* no lock change *)
    split; intros.
    + rewrite MU. destruct (Nat.eq_dec i0 i) as [-> | NE].
      * rewrite R' in H0. inversion H0; subst. rewrite LK in H1. eauto.
      * destruct (OTH _ _ NE H0) as (rj & A & B). rewrite B in H1. eauto.
    + rewrite MU in H0. destruct (OWN _ _ H0) as (r0 & A & B). destruct (Nat.eq_dec i0 i) as [-> | NE].
      * rewrite R in A. inversion A; subst. exists r'. rewrite LK. auto.
      * destruct (OTH' _ _ NE A) as (rj' & A' & B'). exists rj'. rewrite B'. auto.
    + destruct (Nat.eq_dec i0 i) as [-> | NE].
      * rewrite R' in H0. inversion H0; subst. rewrite LK. eauto.
      * destruct (OTH _ _ NE H0) as (rj & A & B). rewrite B. eauto.
  - (* release of m *)
    assert (MI : nth_error (mus s) m = Some (Some i)) by (eapply HELD; eauto; rewrite LK; simpl; auto).
    assert (NDr := ND _ _ R). rewrite LK in NDr. inversion NDr; subst.
    split; intros.
    + rewrite MU. destruct (Nat.eq_dec i0 i) as [-> | NE].
      * rewrite R' in H0. inversion H0; subst. rewrite nth_error_upd_other by (intro; subst; auto).
        eapply HELD; eauto. rewrite LK. simpl; auto.
      * destruct (OTH _ _ NE H0) as (rj & A & B). rewrite B in H1. assert (G := HELD _ _ _ A H1).
        rewrite nth_error_upd_other; auto. intro; subst. congruence.
    + rewrite MU in H0. rewrite nth_error_upd in H0. destruct (Nat.eqb_spec m m0).
      * subst. rewrite MI in H0. discriminate.
      * destruct (OWN _ _ H0) as (r0 & A & B). destruct (Nat.eq_dec i0 i) as [-> | NE].
        -- rewrite R in A. inversion A; subst. exists r'. split; auto. rewrite LK in B. destruct B; auto. congruence.
        -- destruct (OTH' _ _ NE A) as (rj' & A' & B'). exists rj'. rewrite B'. auto.
    + destruct (Nat.eq_dec i0 i) as [-> | NE].
      * rewrite R' in H0. inversion H0; subst. auto.
      * destruct (OTH _ _ NE H0) as (rj & A & B). rewrite B. eauto.
  - (* acquisition of m *)
    assert (NI : forall j rj, nth_error (rs s) j = Some rj -> ~ In m (locks_of (stk rj))).
    { intros j rj A B. rewrite (HELD _ _ _ A B) in FREE. discriminate. }
    split; intros.
    + rewrite MU. destruct (Nat.eq_dec i0 i) as [-> | NE].
      * rewrite R' in H0. inversion H0; subst. rewrite LK in H1. destruct H1 as [-> | IN].
        -- eapply nth_error_upd_same; eauto.
        -- rewrite nth_error_upd_other; [eapply HELD; eauto |]. intro; subst. eapply NI; eauto.
      * destruct (OTH _ _ NE H0) as (rj & A & B). rewrite B in H1.
        rewrite nth_error_upd_other; [eapply HELD; eauto |]. intro; subst. eapply NI; eauto.
    + rewrite MU in H0. rewrite nth_error_upd in H0. destruct (Nat.eqb_spec m m0).
      * subst. rewrite FREE in H0. inversion H0; subst. exists r'. rewrite LK. simpl; auto.
      * destruct (OWN _ _ H0) as (r0 & A & B). destruct (Nat.eq_dec i0 i) as [-> | NE].
        -- rewrite R in A. inversion A; subst. exists r'. rewrite LK. simpl; auto.
        -- destruct (OTH' _ _ NE A) as (rj' & A' & B'). exists rj'. rewrite B'. auto.
    + destruct (Nat.eq_dec i0 i) as [-> | NE].
      * rewrite R' in H0. inversion H0; subst. rewrite LK. constructor; eauto.
      * destruct (OTH _ _ NE H0) as (rj & A & B). rewrite B. eauto.
Qed.

Theorem lock_inv_reach : forall p s, reach p s -> lock_inv s.
Proof. intros p s R. apply (reach_ind p lock_inv); auto. apply lock_inv_init. intros; eapply lock_inv_step; eauto. Qed.

(* ---- the statements ---- *)

(* code inside with-mutex-lock on the same mutex never overlaps: two routines are never both inside *)
Theorem mutual_exclusion : forall p s m i j, reach p s -> inside s i m -> inside s j m -> i = j.
Proof.
  intros p s m i j R (ri & A & B) (rj & C & D). destruct (lock_inv_reach _ _ R) as [HELD _ _].
  assert (E1 := HELD _ _ _ A B). assert (E2 := HELD _ _ _ C D). congruence.
Qed.

(* nor does one routine nest two bodies on the same mutex (the second acquisition blocks for good) *)
Theorem no_reentry : forall p s i r, reach p s -> nth_error (rs s) i = Some r -> NoDup (locks_of (stk r)).
Proof. intros. eapply li_nodup; eauto. eapply lock_inv_reach; eauto. Qed.

(* the mutex is held exactly while its holder is inside the body *)
Theorem held_iff_inside : forall p s m i, reach p s -> (nth_error (mus s) m = Some (Some i) <-> inside s i m).
Proof.
  intros p s m i R. destruct (lock_inv_reach _ _ R) as [HELD OWN _]. split.
  - intros. apply OWN; auto.
  - intros (r & A & B). eauto.
Qed.

(* ... so it is free again after ANY exit: whenever a step takes routine i out of a body on m -- the body
   ended, or an error is unwinding through it -- the mutex is free in the resulting state *)
Theorem mutex_free_after_exit : forall p s i k s' m, reach p s -> step s i k = Some s' ->
  inside s i m -> ~ inside s' i m -> nth_error (mus s') m = Some None.
Proof.
  intros p s i k s' m R H IN OUT.
  assert (R' : reach p s'). { destruct R as [sch E]. exists (sch ++ [(i, k)]). revert E. generalize (init p).
    induction sch as [|[a b] sch IH]; simpl; intros s0 E. - inversion E; subst. rewrite H; auto.
    - destruct (step s0 a b); try discriminate. auto. }
  destruct (lock_inv_reach _ _ R) as [HELD _ _]. destruct (lock_inv_reach _ _ R') as [_ OWN' _].
  destruct IN as (r & A & B). assert (M := HELD _ _ _ A B).
  destruct (step_locks _ _ _ _ H) as (r0 & r' & R0 & R1 & D).
  assert (LEN : m < length (mus s')).
  { destruct D as [[_ MU] | [(m0 & _ & MU) | (m0 & _ & _ & MU)]]; rewrite MU; try rewrite upd_length; apply nth_error_Some; congruence. }
  destruct (nth_error (mus s') m) as [[j|]|] eqn:E; auto.
  - destruct (OWN' _ _ E) as (rj & C & D').
    destruct (Nat.eq_dec j i) as [-> | NE]; [exfalso; apply OUT; exists rj; auto |].
    (* another routine cannot have acquired m in this step *)
    destruct (step_others _ _ _ _ H j rj NE C) as (rj0 & C0 & ST & _). rewrite ST in D'.
    assert (M' := HELD _ _ _ C0 D'). congruence.
  - apply nth_error_None in E. lia.
Qed.

(* a routine that has finished (or crashed) holds nothing; when all have, every mutex is free *)
Theorem finished_holds_nothing : forall p s i r m, reach p s -> nth_error (rs s) i = Some r -> finished r = true ->
  nth_error (mus s) m <> Some (Some i).
Proof.
  intros p s i r m R N F M. destruct (lock_inv_reach _ _ R) as [_ OWN _]. destruct (OWN _ _ M) as (r0 & A & B).
  rewrite N in A. inversion A; subst. unfold finished in F. destruct (stk r0); try discriminate. simpl in B. contradiction.
Qed.

Theorem all_free_at_end : forall p s m o, reach p s -> all_finished s = true -> nth_error (mus s) m = Some o -> o = None.
Proof.
  intros p s m o R F M. destruct o as [i|]; auto. exfalso.
  destruct (lock_inv_reach _ _ R) as [_ OWN _]. destruct (OWN _ _ M) as (r & A & B).
  unfold all_finished in F. rewrite forallb_forall in F. assert (G := F _ (nth_error_In _ _ A)).
  unfold finished in G. destruct (stk r); try discriminate. simpl in B. contradiction.
Qed.
