(* C17 — per-run comparison: the harness gives the program, what the implementation showed, and a
   schedule it found (untrusted search); Coq replays the schedule through M. *)
From C17 Require Import Model Spec.

(* the schedule: Some sch = the search found one (to be replayed); Some [] with a non-matching replay =
   the search proved there is none; None = the search gave up (budget): only the conditions are judged *)
Definition case := (prog * obs * option (list (nat * nat)))%type.

(* 0 ok: the schedule replays to the observation.  1: no schedule, the necessary conditions hold.
   2: the observation breaks a condition proved for every schedule.  3: self-check. *)
Definition check_case (c : case) : N :=
  let '(p, o, osch) := c in
  match osch with
  | None => if obs_ok p o then 0%N else 2%N
  | Some sch =>
      let replay := match run_sched (init p) sch with Some s => matches s o | None => false end in
      if replay then (if obs_ok p o then 0%N else 3%N)
      else (if obs_ok p o then 1%N else 2%N)
  end.

Fixpoint check_all_from (i : N) (cs : list case) : list (N * N) :=
  match cs with
  | [] => []
  | c :: cs' => let r := check_case c in (if N.eqb r 0 then [] else [(i, r)]) ++ check_all_from (N.succ i) cs'
  end.
Definition check_all := check_all_from 0%N.
Definition sched_steps (cs : list case) : N :=
  N.of_nat (fold_left (fun a c => a + match snd c with Some sch => length sch | None => 0 end) cs 0).
Definition undecided (cs : list case) : N :=
  N.of_nat (fold_left (fun a c => a + match snd c with Some _ => 0 | None => 1 end) cs 0).
