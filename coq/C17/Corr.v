(* C17 — per-run comparison: the harness gives the program, what the implementation showed, and a
   schedule it found (untrusted search); Coq replays the schedule through M. *)
From C17 Require Import Model Spec Explore.

(* the schedule: Some sch = the search found one (to be replayed); Some [] with a non-matching replay =
   the search proved there is none; None = the search gave up (budget): only the conditions are judged *)
Definition case := (prog * obs * option (list (nat * nat)))%type.

Fixpoint size_op (o : op) {struct o} : nat :=
  let fix sum (l : list op) : nat := match l with [] => 0 | o' :: l' => size_op o' + sum l' end in
  match o with OLock _ b => S (sum b) | OCatch b => S (sum b) | OBlock _ _ b => S (sum b) | _ => 1 end.
Definition size_prog (p : prog) : nat := fold_right (fun l a => fold_right (fun o b => size_op o + b) 0 l + a) 0 (p_code p).
Definition small (p : prog) : bool := Nat.leb (size_prog p) 30.
Definition explore_fuel : nat := 3000.

(* 0 ok: the schedule replays to the observation.
   1: the search found no schedule; nothing established inside Coq (program too large to explore).
   2: no schedule of the model shows the observation, established inside Coq: either the observation breaks a
      condition proved for every schedule (obs_ok), or the verified exhaustive exploration of the (small)
      program finds no reachable state that matches.
   3: self-check: a schedule replays to the observation, yet obs_ok rejects it. *)
Definition check_case (c : case) : N :=
  let '(p, o, osch) := c in
  match osch with
  | None => if obs_ok p o then 0%N else 2%N
  | Some sch =>
      let replay := match run_sched (init p) sch with Some s => matches s o | None => false end in
      if replay then (if obs_ok p o then 0%N else 3%N)
      else if obs_ok p o then (if small p && exhaustive_none explore_fuel p o then 2%N else 1%N)
      else 2%N
  end.

Fixpoint check_all_from (i : N) (cs : list case) : list (N * N) :=
  match cs with
  | [] => []
  | c :: cs' => let r := check_case c in (if N.eqb r 0 then [] else [(i, r)]) ++ check_all_from (N.succ i) cs'
  end.
Definition check_all := check_all_from 0%N.
Definition sched_steps (cs : list case) : N :=
  N.of_nat (fold_left (fun a c => a + match snd c with Some sch => length sch | None => 0 end) cs 0).
Definition undecided (cs : list case) : N :=
  N.of_nat (fold_left (fun a c => a + match snd c with Some _ => 0 | None => 1 end) cs 0).

(* ---- second comparison: the scopes shared by routines (ScopeModel.v).  The harness generates nested let / call /
   run forms with probes; a probe (harness builtin vchain) walks from the scope it is evaluated in through
   Scope.Parents() and reports Scope.Synchronized() of every scope visited, in the order of the walk.  The model
   executes the same operations (routine 0, the harness itself, starts routine 1; then every routine in turn: what
   a probe sees does not depend on the interleaving, see docs/design/C17.md) and must predict every report.
     0 ok;  1 reports differ, but every scope the model has synchronized is reported synchronized;
     2 a scope that the model has synchronized - run shared it with another routine - is reported as NOT
       synchronized: its variable map is used by two threads without a lock (the scenario is the failing input);
     3 self-check: the generated scenario is not executable in the model or leaves its guard (a variable operation
       names a scope that the lookup does not reach). ---- *)
From C17 Require Import ScopeModel ScopeLockModel.

(* XAcc k t b: the routine performs scope operation k on a variable bound in scope t by a binding of kind b (a let
   variable / a with-slots variable), starting the lookup in its current scope.  The model (ScopeLockModel.v, the
   discipline of the code: all_release) says that the operation finds the scope, completes and leaves no mutex locked
   (ScopeLockProofs.scope_locks_released: so `held` is [] before every operation) - the routine goes on to its next
   probe.  An implementation in which a routine does NOT go on (watchdog) is reported with the program by the harness. *)
Inductive xop := XOp (o : sop) | XObs (k : nat) | XAcc (k : akind) (t : nat) (b : bind).
Definition sobs := list (nat * list bool).
Definition scase := (list (list xop) * sobs)%type.

Fixpoint exec_code (st : sstate) (i : nat) (code : list xop) (acc : sobs) : option (sstate * sobs) :=
  match code with
  | [] => Some (st, acc)
  | XObs k :: code' =>
      match nth_error (stacks st) i with
      | Some (s :: _) => exec_code st i code' (acc ++ [(k, map (synced st) (anc st s))])
      | _ => None
      end
  | XAcc k t b :: code' =>
      match nth_error (stacks st) i with
      | Some (s :: _) =>
          if existsb (Nat.eqb t) (anc st s)
          then match access all_release st [] (anc st s) k t b with
               | Some [] => exec_code st i code' acc
               | _ => None
               end
          else None
      | _ => None
      end
  | XOp o :: code' =>
      if guardb st i o
      then match sstep st i o with Some st' => exec_code st' i code' acc | None => None end
      else None
  end.
Fixpoint exec_all (st : sstate) (i : nat) (codes : list (list xop)) (acc : sobs) : option sobs :=
  match codes with
  | [] => Some acc
  | c :: cs => match exec_code st i c acc with Some (st', acc') => exec_all st' (S i) cs acc' | None => None end
  end.

Fixpoint flags_eqb (a b : list bool) : bool :=
  match a, b with
  | [], [] => true
  | x :: a', y :: b' => Bool.eqb x y && flags_eqb a' b'
  | _, _ => false
  end.
Fixpoint sobs_eqb (a b : sobs) : bool :=
  match a, b with
  | [], [] => true
  | (k, f) :: a', (k', f') :: b' => Nat.eqb k k' && flags_eqb f f' && sobs_eqb a' b'
  | _, _ => false
  end.
(* same shape, and wherever the model says synchronized the report says so too *)
Fixpoint flags_cover (m o : list bool) : bool :=
  match m, o with
  | [], [] => true
  | x :: m', y :: o' => (negb x || y) && flags_cover m' o'
  | _, _ => true
  end.
Fixpoint sobs_cover (m o : sobs) : bool :=
  match m, o with
  | (_, f) :: m', (_, f') :: o' => flags_cover f f' && sobs_cover m' o'
  | _, _ => true
  end.

Definition scheck_case (c : scase) : N :=
  match exec_all sinit 0 (fst c) [] with
  | None => 3%N
  | Some expected =>
      if sobs_eqb expected (snd c) then 0%N
      else if sobs_cover expected (snd c) then 1%N else 2%N
  end.
Fixpoint scheck_all_from (i : N) (cs : list scase) : list (N * N) :=
  match cs with
  | [] => []
  | c :: cs' => let r := scheck_case c in (if N.eqb r 0 then [] else [(i, r)]) ++ scheck_all_from (N.succ i) cs'
  end.
Definition scheck_all := scheck_all_from 0%N.
Definition scope_probes (cs : list scase) : N := N.of_nat (fold_left (fun a c => a + length (snd c)) cs 0).
Definition scopes_seen_synchronized (cs : list scase) : N :=
  N.of_nat (fold_left (fun a c => a + fold_left (fun b kf => b + length (filter (fun x => x) (snd kf))) (snd c) 0) cs 0).

(* ---- third comparison: the lock discipline of the package tables (TableModel.v).  For every operation of the
   alphabet `lop` the harness holds the mutex of the current package (as every writer of its tables does) and lets
   another goroutine evaluate the operation: `waited` = the goroutine ended up in sync.Mutex.Lock.
     0 ok;  1 the operation waited although the model says it uses no table (needless locking; no safety consequence);
     2 the operation uses a table of the package and did NOT wait: it reads or writes the Go map without the mutex
       while a writer may be inside (TableProofs.unlocked_reader_overlaps_writer_refuted); the operation is the
       failing input. ---- *)
From C17 Require Import TableModel.
Definition tcase := (lop * bool)%type.
Definition tcheck_case (c : tcase) : N :=
  let '(o, waited) := c in
  if uses_tables o then (if waited then 0%N else 2%N) else (if waited then 1%N else 0%N).
Fixpoint tcheck_all_from (i : N) (cs : list tcase) : list (N * N) :=
  match cs with
  | [] => []
  | c :: cs' => let r := tcheck_case c in (if N.eqb r 0 then [] else [(i, r)]) ++ tcheck_all_from (N.succ i) cs'
  end.
Definition tcheck_all := tcheck_all_from 0%N.
Definition operations_seen_waiting_for_the_package_mutex (cs : list tcase) : N :=
  N.of_nat (length (filter (fun c => snd c) cs)).

(* ---- fourth comparison: the lock of an instance.  The harness takes the lock of the instance `o` through its
   exported Lock() (what every slot access does) and lets another goroutine evaluate a slot operation on `o`.
     0 ok;  1 the operation waited although it need not (not synchronized, or no slot is touched);
     2 a slot operation on a SYNCHRONIZED instance did not wait: it reads or writes the slot map while another routine
       may be inside a write (TableProofs.unlocked_slot_read_overlaps_write_refuted): the operation is the failing input. *)
Definition icase := (iop * bool * bool)%type.        (* operation, synchronized, waited *)
Definition icheck_case (c : icase) : N :=
  let '(o, sy, waited) := c in
  if must_wait o sy then (if waited then 0%N else 2%N) else (if waited then 1%N else 0%N).
Fixpoint icheck_all_from (i : N) (cs : list icase) : list (N * N) :=
  match cs with
  | [] => []
  | c :: cs' => let r := icheck_case c in (if N.eqb r 0 then [] else [(i, r)]) ++ icheck_all_from (N.succ i) cs'
  end.
Definition icheck_all := icheck_all_from 0%N.
Definition slot_operations_seen_waiting_for_the_instance_lock (cs : list icase) : N :=
  N.of_nat (length (filter (fun c => snd c) cs)).
