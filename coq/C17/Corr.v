(* C17 — per-run comparison: the harness gives the program, what the implementation showed, and a
   schedule it found (untrusted search); Coq replays the schedule through M. *)
From C17 Require Import Model Spec.

Definition ev_eqb (a b : ev) : bool :=
  match a, b with
  | EvPop c v, EvPop c' v' => Nat.eqb c c' && match v, v' with Some x, Some y => Z.eqb x y | None, None => true | _, _ => false end
  | EvLoad x z, EvLoad x' z' => Nat.eqb x x' && Z.eqb z z'
  | _, _ => false
  end.
Fixpoint list_eqb {A} (eqb : A -> A -> bool) (a b : list A) : bool :=
  match a, b with [], [] => true | x :: a', y :: b' => eqb x y && list_eqb eqb a' b' | _, _ => false end.

Definition buffered (ch : chanst) : nat := Nat.min (length (q ch)) (cap ch).

Fixpoint logs_match (rl : list routine) (fin : list bool) (logs : list (list ev)) : bool :=
  match rl, fin, logs with
  | [], [], [] => true
  | r :: rl', f :: fin', l :: logs' =>
      Bool.eqb (finished r && negb (unw r)) f && (if f then list_eqb ev_eqb (log r) l else true) && logs_match rl' fin' logs'
  | _, _, _ => false
  end.

(* the final state of the replay shows exactly what was observed, and is quiescent *)
Definition matches (s : state) (o : obs) : bool :=
  if o_crash o then existsb crashed (rs s)
  else negb (existsb crashed (rs s)) && stuck s && logs_match (rs s) (o_fin o) (o_logs o)
       && list_eqb Z.eqb (mem s) (o_mem o) && list_eqb Nat.eqb (map buffered (chs s)) (o_lens o).

(* the schedule: Some sch = the search found one (to be replayed); Some [] with a non-matching replay =
   the search proved there is none; None = the search gave up (budget): only the conditions are judged *)
Definition case := (prog * obs * option (list (nat * nat)))%type.

(* 0 ok: the schedule replays to the observation.  1: no schedule, the necessary conditions hold.
   2: the observation breaks a condition proved for every schedule.  3: self-check. *)
Definition check_case (c : case) : N :=
  let '(p, o, osch) := c in
  match osch with
  | None => if obs_ok p o then 0%N else 2%N
  | Some sch =>
      let replay := match run_sched (init p) sch with Some s => matches s o | None => false end in
      if replay then (if obs_ok p o then 0%N else 3%N)
      else (if obs_ok p o then 1%N else 2%N)
  end.

Fixpoint check_all_from (i : N) (cs : list case) : list (N * N) :=
  match cs with
  | [] => []
  | c :: cs' => let r := check_case c in (if N.eqb r 0 then [] else [(i, r)]) ++ check_all_from (N.succ i) cs'
  end.
Definition check_all := check_all_from 0%N.
Definition sched_steps (cs : list case) : N :=
  N.of_nat (fold_left (fun a c => a + match snd c with Some sch => length sch | None => 0 end) cs 0).
Definition undecided (cs : list case) : N :=
  N.of_nat (fold_left (fun a c => a + match snd c with Some _ => 0 | None => 1 end) cs 0).
