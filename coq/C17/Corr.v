(* C17 — per-run comparison: the harness gives the program, what the implementation showed, and a
   schedule it found (untrusted search); Coq replays the schedule through M. *)
From C17 Require Import Model Spec Explore.

(* the schedule: Some sch = the search found one (to be replayed); Some [] with a non-matching replay =
   the search proved there is none; None = the search gave up (budget): only the conditions are judged *)
Definition case := (prog * obs * option (list (nat * nat)))%type.

Fixpoint size_op (o : op) {struct o} : nat :=
  let fix sum (l : list op) : nat := match l with [] => 0 | o' :: l' => size_op o' + sum l' end in
  match o with OLock _ b => S (sum b) | OCatch b => S (sum b) | OBlock _ _ b => S (sum b) | _ => 1 end.
Definition size_prog (p : prog) : nat := fold_right (fun l a => fold_right (fun o b => size_op o + b) 0 l + a) 0 (p_code p).
Definition small (p : prog) : bool := Nat.leb (size_prog p) 30.
Definition explore_fuel : nat := 3000.

(* 0 ok: the schedule replays to the observation.
   1: the search found no schedule; nothing established inside Coq (program too large to explore).
   2: no schedule of the model shows the observation, established inside Coq: either the observation breaks a
      condition proved for every schedule (obs_ok), or the verified exhaustive exploration of the (small)
      program finds no reachable state that matches.
   3: self-check: a schedule replays to the observation, yet obs_ok rejects it. *)
Definition check_case (c : case) : N :=
  let '(p, o, osch) := c in
  match osch with
  | None => if obs_ok p o then 0%N else 2%N
  | Some sch =>
      let replay := match run_sched (init p) sch with Some s => matches s o | None => false end in
      if replay then (if obs_ok p o then 0%N else 3%N)
      else if obs_ok p o then (if small p && exhaustive_none explore_fuel p o then 2%N else 1%N)
      else 2%N
  end.

Fixpoint check_all_from (i : N) (cs : list case) : list (N * N) :=
  match cs with
  | [] => []
  | c :: cs' => let r := check_case c in (if N.eqb r 0 then [] else [(i, r)]) ++ check_all_from (N.succ i) cs'
  end.
Definition check_all := check_all_from 0%N.
Definition sched_steps (cs : list case) : N :=
  N.of_nat (fold_left (fun a c => a + match snd c with Some sch => length sch | None => 0 end) cs 0).
Definition undecided (cs : list case) : N :=
  N.of_nat (fold_left (fun a c => a + match snd c with Some _ => 0 | None => 1 end) cs 0).
