(* C17 — channels: every schedule keeps `sent = received ++ queued ++ dropped` (a channel neither loses,
   duplicates nor reorders), the receivers' logs are exactly what `rcvd` says, hence at-most-once,
   exactly-once when drained, per-producer FIFO. *)
From C17 Require Import Model Spec Steps.

(* ---- subseq ---- *)
Lemma subseq_refl : forall A (l : list A), subseq l l.
Proof. induction l; [apply sub_nil | apply sub_cons; auto]. Qed.
Lemma subseq_app_r : forall A (a b c : list A), subseq a b -> subseq a (b ++ c).
Proof. induction 1; simpl; [apply sub_nil | apply sub_cons; auto | apply sub_skip; auto]. Qed.
Lemma subseq_prefix : forall A (a c : list A), subseq a (a ++ c).
Proof. intros. apply subseq_app_r, subseq_refl. Qed.
Lemma subseq_trans : forall A (a b c : list A), subseq a b -> subseq b c -> subseq a c.
Proof.
  intros A a b c H1 H2. revert a H1. induction H2; intros.
  - inversion H1; subst. apply sub_nil.
  - inversion H1; subst; [apply sub_nil | apply sub_cons; auto | apply sub_skip; auto].
  - apply sub_skip; auto.
Qed.
Lemma subseq_filter : forall A (P : A -> bool) l, subseq (filter P l) l.
Proof. induction l; simpl; [apply sub_nil |]. destruct (P a); [apply sub_cons | apply sub_skip]; auto. Qed.
Lemma subseq_filter_mono : forall A (P : A -> bool) a b, subseq a b -> subseq (filter P a) (filter P b).
Proof.
  induction 1; simpl.
  - apply sub_nil.
  - destruct (P x); [apply sub_cons |]; auto.
  - destruct (P x); [apply sub_skip |]; auto.
Qed.
Lemma subseq_map : forall A B (f : A -> B) a b, subseq a b -> subseq (map f a) (map f b).
Proof. induction 1; simpl; [apply sub_nil | apply sub_cons; auto | apply sub_skip; auto]. Qed.
Lemma subseq_app_both : forall A (x a b : list A), subseq a b -> subseq (x ++ a) (x ++ b).
Proof. induction x; simpl; intros; auto. apply sub_cons; auto. Qed.
Lemma subseq_app_skip : forall A (x a b : list A), subseq a b -> subseq a (x ++ b).
Proof. induction x; simpl; intros; auto. apply sub_skip; auto. Qed.
Lemma subseq_flat_map : forall A B (f : A -> list B) a b, subseq a b -> subseq (flat_map f a) (flat_map f b).
Proof.
  induction 1; simpl.
  - apply sub_nil.
  - apply subseq_app_both; auto.
  - apply subseq_app_skip; auto.
Qed.
Lemma subseq_In : forall A (a b : list A) x, subseq a b -> In x a -> In x b.
Proof.
  induction 1; simpl; intros; auto.
  - contradiction.
  - destruct H0; auto.
Qed.
Lemma subseq_NoDup : forall A (a b : list A), subseq a b -> NoDup b -> NoDup a.
Proof.
  induction 1; intros.
  - constructor.
  - inversion H0; subst. constructor; auto. intro. apply H3. eapply subseq_In; eauto.
  - inversion H0; auto.
Qed.
Lemma subseq_length : forall A (a b : list A), subseq a b -> length a <= length b.
Proof. induction 1; simpl; lia. Qed.

(* ---- items ---- *)
Lemma items_app : forall a b, items (a ++ b) = items a ++ items b.
Proof. intros. unfold items. apply flat_map_app. Qed.

(* ---- invariant of one channel ---- *)
Definition chan_ok (ch : chanst) : Prop :=
  sent ch = items (rcvd ch) ++ q ch ++ dropped ch /\ (closed ch = false -> dropped ch = []).

Lemma chan_trans_ok : forall i ch ch', chan_ok ch -> chan_trans i ch ch' -> chan_ok ch'.
Proof.
  intros i ch ch' [E D] T. inversion T; subst; unfold chan_ok; simpl.
  - rewrite (D H) in *. split; auto. rewrite E. repeat rewrite app_nil_r. repeat rewrite <- app_assoc. auto.
  - split; auto. rewrite items_app. simpl. rewrite E, H. rewrite <- app_assoc. auto.
  - split; [| congruence]. rewrite items_app. simpl. rewrite E, H. rewrite app_nil_r. auto.
  - split; [| congruence]. rewrite (D H) in *. simpl. rewrite E. rewrite app_nil_r. rewrite firstn_skipn. auto.
Qed.

(* how a step changes the channels *)
Lemma step_chs : forall s i k s', step s i k = Some s' ->
  chs s' = chs s \/
  exists c ch ch', nth_error (chs s) c = Some ch /\ chs s' = upd (chs s) c ch' /\ chan_trans i ch ch'.
Proof.
  intros s i k s' H. destruct (step_Step _ _ _ _ H) as (r & f & rest & R & P & ST & S).
  inversion S; subst; simpl; auto; right.
  - exists c, ch, (mkC (cap ch) (q ch ++ [mkE (veval (adv r f rest ops') e) i]) false
                       (sent ch ++ [mkE (veval (adv r f rest ops') e) i]) (rcvd ch) (dropped ch)).
    repeat split; auto. apply CTpush; auto.
  - exists c, ch, ch'. repeat split; auto. eapply take_trans; eauto.
  - exists c, ch, ch'. repeat split; auto. eapply take_trans; eauto.
  - exists c, ch, ch'. repeat split; auto. eapply take_trans; eauto.
  - exists c, ch, (mkC (cap ch) (firstn (cap ch) (q ch)) true (sent ch) (rcvd ch) (dropped ch ++ skipn (cap ch) (q ch))).
    repeat split; auto. apply CTclose; auto.
Qed.

Definition chans_ok (s : state) : Prop := forall c ch, nth_error (chs s) c = Some ch -> chan_ok ch.

Lemma chans_ok_init : forall p, chans_ok (init p).
Proof.
  unfold chans_ok, init; simpl; intros. apply nth_error_In in H. apply in_map_iff in H. destruct H as (x & E & _).
  subst. unfold chan_ok; simpl; auto.
Qed.

Lemma chans_ok_step : forall s i k s', chans_ok s -> step s i k = Some s' -> chans_ok s'.
Proof.
  unfold chans_ok; intros s i k s' I H c ch N.
  destruct (step_chs _ _ _ _ H) as [E | (c0 & ch0 & ch0' & N0 & E & T)]; rewrite E in N; eauto.
  rewrite nth_error_upd in N. destruct (Nat.eqb_spec c0 c); eauto.
  subst. rewrite N0 in N. inversion N; subst. eapply chan_trans_ok; eauto.
Qed.

Theorem chans_ok_reach : forall p s, reach p s -> chans_ok s.
Proof. intros p s R. apply (reach_ind p chans_ok); auto. apply chans_ok_init. intros; eapply chans_ok_step; eauto. Qed.

(* ---- what the other routines keep across a step of routine i ---- *)
Lemma step_others : forall s i k s', step s i k = Some s' -> forall j rj', j <> i -> nth_error (rs s') j = Some rj' ->
  exists rj, nth_error (rs s) j = Some rj /\ stk rj' = stk rj /\ got rj' = got rj /\ acc rj' = acc rj /\ log rj' = log rj
             /\ (unw rj' = unw rj \/ unw rj' = true).
Proof.
  intros s i k s' H j rj' NE N. destruct (step_Step _ _ _ _ H) as (r & f & rest & R & P & ST & S).
  assert (G : forall r0, nth_error (upd (rs s) i r0) j = Some rj' ->
          exists rj, nth_error (rs s) j = Some rj /\ stk rj' = stk rj /\ got rj' = got rj /\ acc rj' = acc rj /\ log rj' = log rj
             /\ (unw rj' = unw rj \/ unw rj' = true)).
  { intros r0 N0. rewrite nth_error_upd_other in N0 by auto. exists rj'. repeat split; auto. }
  inversion S; subst; simpl in N; eauto.
  (* close: mark_unw *)
  destruct (nth_error (upd (rs s) i (adv r f rest ops')) j) as [rj|] eqn:E.
  - destruct (mark_unw_nth (skipn (cap ch) (q ch)) _ 0 _ _ E) as (b & N' & B). rewrite N' in N. inversion N; subst; simpl.
    rewrite nth_error_upd_other in E by auto. exists rj. repeat split; auto.
  - rewrite (mark_unw_none _ _ _ _ E) in N. discriminate.
Qed.

Lemma step_others_ext : forall s i k s', step s i k = Some s' -> forall j rj', j <> i -> nth_error (rs s') j = Some rj' ->
  exists rj, nth_error (rs s) j = Some rj /\ ext rj' = ext rj.
Proof.
  intros s i k s' H j rj' NE N. destruct (step_Step _ _ _ _ H) as (r & f & rest & R & P & ST & S).
  assert (G : forall r0, nth_error (upd (rs s) i r0) j = Some rj' -> exists rj, nth_error (rs s) j = Some rj /\ ext rj' = ext rj).
  { intros r0 N0. rewrite nth_error_upd_other in N0 by auto. exists rj'. auto. }
  inversion S; subst; simpl in N; eauto.
  destruct (nth_error (upd (rs s) i (adv r f rest ops')) j) as [rj|] eqn:E.
  - destruct (mark_unw_nth (skipn (cap ch) (q ch)) _ 0 _ _ E) as (b & N' & B). rewrite N' in N. inversion N; subst; simpl.
    rewrite nth_error_upd_other in E by auto. exists rj. auto.
  - rewrite (mark_unw_none _ _ _ _ E) in N. discriminate.
Qed.

Lemma step_length : forall s i k s', step s i k = Some s' -> length (rs s') = length (rs s).
Proof.
  intros s i k s' H. destruct (step_Step _ _ _ _ H) as (r & f & rest & R & P & ST & S).
  inversion S; subst; simpl; try apply upd_length. rewrite mark_unw_length. apply upd_length.
Qed.

(* how the moving routine's log and the channels change together *)
Inductive log_delta (s : state) (i : nat) (r : routine) (s' : state) (r' : routine) : Prop :=
| LDquiet : log r' = log r ->
    (chs s' = chs s \/ exists c ch ch', nth_error (chs s) c = Some ch /\ chs s' = upd (chs s) c ch' /\ rcvd ch' = rcvd ch) ->
    log_delta s i r s' r'
| LDload : forall x z, log r' = log r ++ [EvLoad x z] -> chs s' = chs s -> log_delta s i r s' r'
| LDrecv : forall c ch ch' v, log r' = log r ++ [EvPop c v] -> nth_error (chs s) c = Some ch -> chs s' = upd (chs s) c ch' ->
    (exists it, rcvd ch' = rcvd ch ++ [mkRcv it i] /\ v = rcv_val (mkRcv it i)) -> log_delta s i r s' r'.

Lemma step_self : forall s i k s', step s i k = Some s' ->
  exists r r', nth_error (rs s) i = Some r /\ nth_error (rs s') i = Some r' /\ log_delta s i r s' r'.
Proof.
  intros s i k s' H. destruct (step_Step _ _ _ _ H) as (r & f & rest & R & P & ST & S).
  exists r.
  assert (U : forall r0, nth_error (upd (rs s) i r0) i = Some r0) by (intros; eapply nth_error_upd_same; eauto).
  assert (TK : forall ch v ch', take ch i = Some (v, ch') -> exists it, rcvd ch' = rcvd ch ++ [mkRcv it i] /\ v = rcv_val (mkRcv it i)).
  { intros ch0 v0 ch0' T. destruct (take_trans _ _ _ _ T) as [_ [(e0 & q' & Q & V & RC) | (Q & C & V & RC)]].
    - exists (Some e0). split; auto.
    - exists None. split; auto. }
  inversion S; subst; simpl;
    try (eexists; split; [eauto | split; [apply U | apply LDquiet; simpl; auto]]; fail).
  - eexists; split; [eauto | split; [apply U | apply LDquiet; simpl; auto]].
    right. do 3 eexists. split; [eauto | split; [eauto | simpl; auto]].
  - eexists; split; [eauto | split; [apply U | eapply LDrecv; simpl; eauto]].
  - eexists; split; [eauto | split; [apply U | eapply LDrecv; simpl; eauto]].
  - eexists; split; [eauto | split; [apply U | eapply LDrecv; simpl; eauto]].
  - (* close *)
    destruct (mark_unw_nth (skipn (cap ch) (q ch)) _ 0 _ _ (U (adv r f rest ops'))) as (b & N' & B).
    eexists; split; [eauto | split; [apply N' | apply LDquiet; simpl; auto]].
    right. do 3 eexists. split; [eauto | split; [eauto | simpl; auto]].
  - eexists; split; [eauto | split; [apply U | eapply LDload; simpl; eauto]].
Qed.

(* ---- the receivers' logs are what rcvd says ---- *)
Definition logs_linked (s : state) : Prop :=
  forall i r c ch, nth_error (rs s) i = Some r -> nth_error (chs s) c = Some ch ->
    pops c (log r) = map rcv_val (by_ i (rcvd ch)).

Lemma pops_app : forall c a b, pops c (a ++ b) = pops c a ++ pops c b.
Proof. intros. unfold pops. apply flat_map_app. Qed.
Lemma by_app : forall i a b, by_ i (a ++ b) = by_ i a ++ by_ i b.
Proof. intros. unfold by_. apply filter_app. Qed.

Lemma logs_linked_init : forall p, logs_linked (init p).
Proof.
  unfold logs_linked, init; simpl; intros.
  apply nth_error_In in H, H0. apply in_map_iff in H, H0. destruct H as (x & E & _), H0 as (y & E' & _). subst. auto.
Qed.

Lemma logs_linked_step : forall s i k s', logs_linked s -> step s i k = Some s' -> logs_linked s'.
Proof.
  unfold logs_linked; intros s i k s' I H j rj' c ch' NR NC.
  destruct (step_self _ _ _ _ H) as (r & r' & R & R' & D).
  destruct (Nat.eq_dec j i) as [-> | NE].
  - rewrite R' in NR. inversion NR; subst rj'. inversion D.
    + rewrite H0. destruct H1 as [E | (c0 & ch0 & ch0' & N0 & E & RC)]; rewrite E in NC; eauto.
      rewrite nth_error_upd in NC. destruct (Nat.eqb_spec c0 c); eauto. subst. rewrite N0 in NC. inversion NC; subst.
      rewrite RC. eauto.
    + rewrite H0, H1 in *. rewrite pops_app. simpl. rewrite app_nil_r. eauto.
    + rewrite H0. rewrite pops_app. rewrite H2 in NC. rewrite nth_error_upd in NC.
      destruct H3 as (it & RC & V). destruct (Nat.eqb_spec c0 c).
      * subst c0. rewrite H1 in NC. inversion NC; subst ch'. rewrite RC, by_app, map_app. simpl.
        repeat rewrite Nat.eqb_refl. simpl. f_equal; eauto. rewrite V. auto.
      * simpl. destruct (Nat.eqb_spec c0 c); try congruence. simpl. rewrite app_nil_r. eauto.
  - destruct (step_others _ _ _ _ H j rj' NE NR) as (rj & N & _ & _ & _ & L & _). rewrite L.
    inversion D.
    + destruct H1 as [E | (c0 & ch0 & ch0' & N0 & E & RC)]; rewrite E in NC; eauto.
      rewrite nth_error_upd in NC. destruct (Nat.eqb_spec c0 c); eauto. subst. rewrite N0 in NC. inversion NC; subst.
      rewrite RC. eauto.
    + rewrite H1 in NC. eauto.
    + rewrite H2 in NC. rewrite nth_error_upd in NC. destruct H3 as (it & RC & V). destruct (Nat.eqb_spec c0 c); eauto.
      subst c0. rewrite H1 in NC. inversion NC; subst ch'. rewrite RC, by_app. simpl.
      destruct (Nat.eqb_spec i j); try congruence. rewrite app_nil_r. eauto.
Qed.

Theorem logs_linked_reach : forall p s, reach p s -> logs_linked s.
Proof. intros p s R. apply (reach_ind p logs_linked); auto. apply logs_linked_init. intros; eapply logs_linked_step; eauto. Qed.

(* ---- the statements of the property, for every reachable state ---- *)

(* nothing lost, nothing duplicated, nothing reordered *)
Theorem channel_conservation : forall p s c ch, reach p s -> nth_error (chs s) c = Some ch ->
  sent ch = items (rcvd ch) ++ q ch ++ dropped ch.
Proof. intros. eapply chans_ok_reach; eauto. Qed.

(* every item is received at most once: what was received is a prefix of what was sent *)
Theorem received_prefix_of_sent : forall p s c ch, reach p s -> nth_error (chs s) c = Some ch ->
  exists rest, sent ch = items (rcvd ch) ++ rest.
Proof. intros. eexists. eapply channel_conservation; eauto. Qed.

Lemma NoDup_app_l : forall A (a b : list A), NoDup (a ++ b) -> NoDup a.
Proof. induction a; simpl; intros; constructor; inversion H; subst; eauto. intro; apply H2; apply in_or_app; auto. Qed.

Theorem received_at_most_once : forall p s c ch, reach p s -> nth_error (chs s) c = Some ch ->
  NoDup (sent ch) -> NoDup (items (rcvd ch)).
Proof. intros p s c ch R N D. rewrite (channel_conservation _ _ _ _ R N) in D. eapply NoDup_app_l; eauto. Qed.

(* exactly once: when the channel is drained (nothing queued, nothing dropped by a close) *)
Theorem received_exactly_once : forall p s c ch, reach p s -> nth_error (chs s) c = Some ch ->
  q ch = [] -> dropped ch = [] -> items (rcvd ch) = sent ch.
Proof. intros p s c ch R N Q D. rewrite (channel_conservation _ _ _ _ R N), Q, D. repeat rewrite app_nil_r. auto. Qed.

(* per-producer FIFO: what consumer i received from producer j on c, in i's order of reception, is a
   subsequence of what j sent on c in j's order of sending *)
Lemma items_by_subseq : forall i l, subseq (items (by_ i l)) (items l).
Proof. intros. unfold items. apply subseq_flat_map. apply subseq_filter. Qed.

Theorem per_producer_fifo : forall p s c ch i j, reach p s -> nth_error (chs s) c = Some ch ->
  subseq (from_ j (items (by_ i (rcvd ch)))) (from_ j (sent ch)).
Proof.
  intros p s c ch i j R N. unfold from_. apply subseq_filter_mono.
  eapply subseq_trans; [apply items_by_subseq |].
  rewrite (channel_conservation _ _ _ _ R N). apply subseq_prefix.
Qed.

(* and the consumer's own log shows exactly those receptions, in that order *)
Theorem log_shows_receptions : forall p s i r c ch, reach p s -> nth_error (rs s) i = Some r -> nth_error (chs s) c = Some ch ->
  pops c (log r) = map rcv_val (by_ i (rcvd ch)).
Proof. intros. eapply logs_linked_reach; eauto. Qed.

(* ---- select: whatever the order of the clauses, and wherever timeout clauses stand among them, the item is
        taken from the channel of the chosen clause and delivered to THAT clause (the log entry carries the
        clause's channel); a timeout clause whose timer has not fired is never chosen; no other channel changes ---- *)
Theorem select_delivers_to_its_clause : forall s i k s' r f rest cs ops',
  nth_error (rs s) i = Some r -> stk r = f :: rest -> unw r = false -> ext r = None -> fops f = OSelect cs :: ops' ->
  step s i k = Some s' ->
  exists c ch ch' v r',
    nth_error cs k = Some (Some c) /\ nth_error (chs s) c = Some ch /\ take ch i = Some (v, ch') /\
    chs s' = upd (chs s) c ch' /\ nth_error (rs s') i = Some r' /\
    log r' = log r ++ [EvPop c v] /\ got r' = v /\ stk r' = mkF (fk f) ops' :: rest.
Proof.
  intros s i k s' r f rest cs ops' R ST U E O H. unfold step in H. rewrite R in H.
  destruct (parked s i); try discriminate. rewrite ST, U, E, O in H. unfold exec in H.
  destruct (nth_error cs k) as [[c|]|] eqn:N; try discriminate.
  destruct (nth_error (chs s) c) as [ch|] eqn:C; try discriminate.
  destruct (take ch i) as [[v ch']|] eqn:T; try discriminate. inversion H; subst.
  exists c, ch, ch', v, (recv (set_stk r (mkF (fk f) ops' :: rest)) c v).
  repeat split; auto. simpl. eapply nth_error_upd_same; eauto.
Qed.

Corollary select_never_runs_timeout_clause : forall s i k r f rest cs ops',
  nth_error (rs s) i = Some r -> stk r = f :: rest -> unw r = false -> ext r = None -> fops f = OSelect cs :: ops' ->
  nth_error cs k = Some None -> step s i k = None.
Proof.
  intros s i k r f rest cs ops' R ST U E O N. unfold step. rewrite R.
  destruct (parked s i); auto. rewrite ST, U, E, O. unfold exec. rewrite N. auto.
Qed.
