(* C17 — programs that use only mutexes and cells and never nest one with-mutex-lock in another cannot block
   for good: in every reachable state where nothing can move, every routine has finished.  (The owner of a
   mutex somebody waits for is inside the body, whose next operation is never a lock or a channel
   operation, so it can move.) *)
From C17 Require Import Model Spec Steps ChanProofs MutexProofs.

Lemma lockfree_op_catch : forall nm nx body, lockfree_op nm nx (OCatch body) = lockfree_ops nm nx body.
Proof. intros. reflexivity. Qed.
Lemma flat_op_catch : forall nm nx body, flat_op nm nx (OCatch body) = flat_ops nm nx body.
Proof. intros. reflexivity. Qed.

Definition is_lock (f : frame) : bool := match fk f with KLock _ => true | _ => false end.

Section Flat.
Variable nm nx : nat.

(* a frame at or above a lock frame runs lock-free code, the others flat code *)
Fixpoint stack_flat (st : list frame) : Prop :=
  match st with
  | [] => True
  | g :: b => stack_flat b /\
      (if is_lock g || existsb is_lock b then lockfree_ops nm nx (fops g) = true else flat_ops nm nx (fops g) = true)
  end.

Record flat_inv (s : state) : Prop := {
  fi_stack : forall i r, nth_error (rs s) i = Some r -> stack_flat (stk r);
  fi_queue : forall c ch, nth_error (chs s) c = Some ch -> q ch = [];
  fi_mem : length (mem s) = nx;
  fi_mus : length (mus s) = nm
}.

Lemma flat_inv_init : forall p, nm = p_nmutex p -> nx = length (p_mem p) -> flat p = true -> flat_inv (init p).
Proof.
  intros p E1 E2 F. split; unfold init; simpl; intros; auto.
  - apply nth_error_In in H. apply in_map_iff in H. destruct H as (ops & E & IN). rewrite <- E. simpl. split; auto.
    unfold flat in F. rewrite forallb_forall in F. rewrite E1, E2. auto.
  - apply nth_error_In in H. apply in_map_iff in H. destruct H as (c0 & E & IN). rewrite <- E. auto.
  - rewrite E1. apply repeat_length.
Qed.

Definition code_ok (ul : bool) (l : list op) : Prop :=
  if ul then lockfree_ops nm nx l = true else flat_ops nm nx l = true.
Definition under (g : frame) (b : list frame) : bool := is_lock g || existsb is_lock b.

Lemma head_tail : forall ul o ops, code_ok ul (o :: ops) ->
  (if ul then lockfree_op nm nx o = true else flat_op nm nx o = true) /\ code_ok ul ops.
Proof. unfold code_ok; intros ul o ops H. destruct ul; simpl in H; apply andb_true_iff in H; auto. Qed.

Lemma stack_top : forall g b, stack_flat (g :: b) -> code_ok (under g b) (fops g).
Proof. intros g b [_ C]. exact C. Qed.

Lemma flat_inv_step : forall s i k s', flat_inv s -> step s i k = Some s' -> flat_inv s'.
Proof.
  intros s i k s' [STK QU ME MU] H.
  assert (OTH : forall j rj', j <> i -> nth_error (rs s') j = Some rj' -> exists rj, nth_error (rs s) j = Some rj /\ stk rj' = stk rj).
  { intros j rj' NE N. destruct (step_others _ _ _ _ H j rj' NE N) as (rj & A & B & _). eauto. }
  destruct (step_Step _ _ _ _ H) as (r & f & rest & R & P & ST & S).
  assert (U : forall r0, nth_error (upd (rs s) i r0) i = Some r0) by (intros; eapply nth_error_upd_same; eauto).
  assert (SF : stack_flat (f :: rest)) by (rewrite <- ST; eauto).
  assert (GEN : forall r', nth_error (rs s') i = Some r' -> stack_flat (stk r') -> chs s' = chs s ->
                length (mem s') = length (mem s) -> length (mus s') = length (mus s) -> flat_inv s').
  { intros r' N' S' C' M1 M2. split; try congruence.
    - intros j rj N. destruct (Nat.eq_dec j i) as [-> | NE].
      + rewrite N' in N. inversion N; subst; auto.
      + destruct (OTH _ _ NE N) as (rj0 & A & B). rewrite B. eauto.
    - rewrite C'. auto. }
  assert (TOP := stack_top _ _ SF).
  assert (ADV : forall o ops', fops f = o :: ops' -> stack_flat (mkF (fk f) ops' :: rest)).
  { intros o ops' E. rewrite E in TOP. apply head_tail in TOP. destruct TOP as [_ TL]. simpl. split; [apply SF | exact TL]. }
  assert (NOCH : forall o ops', fops f = o :: ops' -> is_chan_op o = true -> False).
  { intros o ops' E C. rewrite E in TOP. apply head_tail in TOP. destruct TOP as [HD _].
    destruct (under f rest); destruct o; simpl in *; discriminate. }
  assert (NOBL : forall o ops', fops f = o :: ops' -> (match o with OBlock _ _ _ | OExit _ _ => true | _ => false end) = true -> False).
  { intros o ops' E C. rewrite E in TOP. apply head_tail in TOP. destruct TOP as [HD _].
    destruct (under f rest); destruct o; simpl in *; discriminate. }
  inversion S; subst;
    try (exfalso; eapply NOCH; [eassumption | reflexivity]);
    try (exfalso; eapply NOBL; [eassumption | reflexivity]).
  - eapply (GEN _ (U _)); simpl; auto. apply SF.
  - eapply (GEN _ (U _)); simpl; auto. apply SF. apply upd_length.
  - eapply (GEN _ (U _)); simpl; auto. apply SF.
  - eapply (GEN _ (U _)); simpl; auto. apply SF. apply upd_length.
  - eapply (GEN _ (U _)); simpl; auto. apply SF.
  - eapply (GEN _ (U _)); [cbn [stk load adv set_stk set_unw]; eapply ADV; eauto | simpl; rewrite ?upd_length; auto ..].
  - eapply (GEN _ (U _)); [cbn [stk load adv set_stk set_unw]; eapply ADV; eauto | simpl; rewrite ?upd_length; auto ..].
  - eapply (GEN _ (U _)); [cbn [stk load adv set_stk set_unw]; eapply ADV; eauto | simpl; rewrite ?upd_length; auto ..].
  - (* lock: only outside any lock; the body is lock-free *)
    rewrite H1 in TOP. apply head_tail in TOP. destruct TOP as [HD TL].
    destruct (under f rest) eqn:UL; simpl in HD; try discriminate.
    apply andb_true_iff in HD. destruct HD as [_ LB].
    eapply (GEN _ (U _)); simpl; auto; [| apply upd_length].
    split; [eapply ADV; eauto | exact LB].
  - (* catch *)
    rewrite H1 in TOP. apply head_tail in TOP. destruct TOP as [HD TL].
    eapply (GEN _ (U _)); simpl; auto.
    split; [eapply ADV; eauto |].
    change (is_lock (mkF (fk f) ops') || existsb is_lock rest) with (under f rest).
    destruct (under f rest); exact HD.
  - (* block frames and exit markers do not occur in flat programs; the steps keep the invariant anyway *)
    eapply (GEN _ (U _)); simpl; auto. apply SF.
  - eapply (GEN _ (U _)); simpl; auto. apply SF.
  - eapply (GEN _ (U _)); simpl; auto. apply SF. apply upd_length.
Qed.

Theorem flat_inv_reach : forall p s, nm = p_nmutex p -> nx = length (p_mem p) -> flat p = true -> reach p s -> flat_inv s.
Proof.
  intros p s E1 E2 F R. apply (reach_ind p flat_inv); auto. apply flat_inv_init; auto. intros; eapply flat_inv_step; eauto.
Qed.

(* the top frame of a routine that is inside some with-mutex-lock runs lock-free code *)
Lemma inside_top_lockfree : forall st m, stack_flat st -> In m (locks_of st) ->
  exists g b, st = g :: b /\ lockfree_ops nm nx (fops g) = true.
Proof.
  intros st m SF IN. destruct st as [|g b]; [simpl in IN; contradiction |].
  exists g, b. split; auto. destruct SF as [_ C].
  assert (E : is_lock g || existsb is_lock b = true).
  { unfold locks_of in IN. simpl in IN. apply in_app_or in IN. destruct IN as [IN | IN].
    - unfold is_lock. destruct (fk g); simpl in IN; try contradiction. auto.
    - apply orb_true_iff. right. apply existsb_exists. apply in_flat_map in IN. destruct IN as (g' & I1 & I2).
      exists g'. split; auto. unfold is_lock. destruct (fk g'); simpl in I2; try contradiction. auto. }
  rewrite E in C. auto.
Qed.

(* a routine whose exit marker is travelling can always move *)
Lemma marker_moves : forall s j r g b e, nth_error (rs s) j = Some r -> parked s j = false -> stk r = g :: b ->
  unw r = false -> ext r = Some e -> exists s', step s j 0 = Some s'.
Proof.
  intros s j r g b [tb bb] R P ST U E. unfold step. rewrite R, P, ST, U, E.
  destruct (fk g) as [| m | | [] b']; destruct tb; try destruct (Nat.eqb b' bb); simpl; eauto.
Qed.

(* a routine whose top frame runs lock-free code can always move *)
Lemma lockfree_moves : forall s j r g b, flat_inv s -> nth_error (rs s) j = Some r -> stk r = g :: b ->
  lockfree_ops nm nx (fops g) = true -> exists s', step s j 0 = Some s'.
Proof.
  intros s j r g b [STK QU ME MU] R ST LF. unfold step. rewrite R.
  assert (P : parked s j = false).
  { unfold parked. apply not_true_is_false. intro E. apply existsb_exists in E. destruct E as (ch & IN & E).
    apply In_nth_error in IN. destruct IN as (c & IN). unfold parked_in in E. rewrite (QU _ _ IN) in E.
    destruct (cap ch); simpl in E; discriminate. }
  rewrite P, ST. destruct (unw r) eqn:UW.
  - destruct (fk g); eauto.
  - destruct (ext r) as [e|] eqn:EX.
    { destruct (marker_moves s j r g b e R P ST UW EX) as (s' & M). unfold step in M. rewrite R, P, ST, UW, EX in M. eauto. }
    destruct (fops g) as [|o ops] eqn:O.
    + destruct (fk g); eauto.
    + simpl in LF. apply andb_true_iff in LF. destruct LF as [HD _]. unfold exec.
      destruct o; simpl in HD; try discriminate; eauto.
      * apply Nat.ltb_lt in HD. rewrite <- ME in HD. apply nth_error_Some in HD. destruct (nth_error (mem s) x); [eauto | congruence].
      * apply Nat.ltb_lt in HD. rewrite <- ME in HD. apply nth_error_Some in HD. destruct (nth_error (mem s) x); [eauto | congruence].
Qed.
End Flat.

Lemma step0_enabled : forall s j s', step s j 0 = Some s' -> enabled s j = true.
Proof.
  intros s j s' E. unfold enabled. destruct (nth_error (rs s) j) as [r|] eqn:N.
  - apply existsb_exists. exists 0. split; [| rewrite E; auto]. apply in_seq. split; [lia |]. simpl.
    unfold max_choice. destruct (stk r); [lia |]. destruct (fops f); [lia |]. destruct o; lia.
  - unfold step in E. rewrite N in E. discriminate.
Qed.

(* a routine that has not finished can move, or waits for a mutex whose owner can move *)
Lemma flat_moves : forall nm nx s i r g b, flat_inv nm nx s -> lock_inv s -> nth_error (rs s) i = Some r -> stk r = g :: b ->
  exists j s', step s j 0 = Some s'.
Proof.
  intros nm nx s i r g b FI LI R ST.
  assert (SF : stack_flat nm nx (g :: b)) by (rewrite <- ST; eapply fi_stack; eauto).
  destruct (is_lock g || existsb is_lock b) eqn:UL.
  - (* under a lock: lock-free code *)
    exists i. eapply lockfree_moves; eauto. destruct SF as [_ C]. rewrite UL in C. exact C.
  - destruct FI as [STK QU ME MU].
    assert (P : parked s i = false).
    { unfold parked. apply not_true_is_false. intro E. apply existsb_exists in E. destruct E as (ch & IN & E).
      apply In_nth_error in IN. destruct IN as (c & IN). unfold parked_in in E. rewrite (QU _ _ IN) in E.
      destruct (cap ch); simpl in E; discriminate. }
    assert (TOP := stack_top _ _ _ _ SF). unfold under in TOP. rewrite UL in TOP.
    destruct (unw r) eqn:UW.
    { exists i. unfold step. rewrite R, P, ST, UW. destruct (fk g); eauto. }
    destruct (ext r) as [e|] eqn:EX.
    { exists i. eapply marker_moves; eauto. }
    destruct (fops g) as [|o ops] eqn:O.
    { exists i. unfold step. rewrite R, P, ST, UW, EX, O. destruct (fk g); eauto. }
    apply (head_tail nm nx false) in TOP. destruct TOP as [HD _].
    destruct o; simpl in HD; try discriminate.
    + exists i. unfold step. rewrite R, P, ST, UW, EX, O. unfold exec.
      apply Nat.ltb_lt in HD. rewrite <- ME in HD. apply nth_error_Some in HD. destruct (nth_error (mem s) x); [eauto | congruence].
    + exists i. unfold step. rewrite R, P, ST, UW, EX, O. unfold exec.
      apply Nat.ltb_lt in HD. rewrite <- ME in HD. apply nth_error_Some in HD. destruct (nth_error (mem s) x); [eauto | congruence].
    + exists i. unfold step. rewrite R, P, ST, UW, EX, O. unfold exec. eauto.
    + apply andb_true_iff in HD. destruct HD as [A _]. apply Nat.ltb_lt in A. rewrite <- MU in A. apply nth_error_Some in A.
      destruct (nth_error (mus s) m) as [[j|]|] eqn:M; try congruence.
      * (* held by j: j is inside the body, whose code is lock-free *)
        destruct (li_owner _ LI _ _ M) as (rj & RJ & IN).
        assert (SJ : stack_flat nm nx (stk rj)) by eauto.
        destruct (inside_top_lockfree _ _ _ _ SJ IN) as (gj & bj & EJ & LF).
        exists j. eapply lockfree_moves; eauto. split; auto.
      * exists i. unfold step. rewrite R, P, ST, UW, EX, O. unfold exec. rewrite M. eauto.
    + exists i. unfold step. rewrite R, P, ST, UW, EX, O. unfold exec. eauto.
Qed.

(* the statement: nothing can move only when everything has finished *)
Theorem flat_no_deadlock : forall p s, flat p = true -> reach p s -> stuck s = true -> all_finished s = true.
Proof.
  intros p s F R ST.
  assert (FI := flat_inv_reach _ _ p s eq_refl eq_refl F R).
  assert (LI := lock_inv_reach _ _ R).
  unfold all_finished. apply forallb_forall. intros r IN. apply In_nth_error in IN. destruct IN as (i & N).
  destruct (finished r) eqn:FN; auto. exfalso.
  unfold finished in FN. destruct (stk r) as [|g b] eqn:SK; try discriminate.
  destruct (flat_moves _ _ _ _ _ _ _ FI LI N SK) as (j & s' & E).
  assert (EN := step0_enabled _ _ _ E).
  unfold stuck in ST. apply negb_true_iff in ST.
  assert (X : existsb (enabled s) (seq 0 (length (rs s))) = true).
  { apply existsb_exists. exists j. split; auto. apply in_seq. split; [lia |]. simpl.
    unfold step in E. destruct (nth_error (rs s) j) eqn:NJ; try discriminate. apply nth_error_Some. congruence. }
  congruence.
Qed.
