(* C17 — the lock discipline of the package tables: when every access holds the package mutex no two accesses
   ever overlap; one unlocked reader is enough to overlap with a locked writer. *)
From Coq Require Import List Arith Bool Lia.
From C17 Require Import Model ScopeModel ScopeProofs TableModel.
Import ListNotations.

Definition tinv (st : tstate) : Prop :=
  forall i a, nth_error (within st) i = Some (Some a) -> a_locked a = true /\ holder st = Some i.

Lemma tstep_inv st i e st' :
  tinv st -> (match e with TEnter a => a_locked a = true | TLeave => True end) -> tstep st i e = Some st' -> tinv st'.
Proof.
  unfold tstep. intros Hinv He H.
  destruct (nth_error (within st) i) as [[a0|]|] eqn:Hi; destruct e as [a|]; try discriminate.
  - (* leave *)
    injection H as <-. destruct (Hinv i a0 Hi) as [Hl Hh]. rewrite Hl.
    intros j b Hj. simpl in Hj. exfalso.
    destruct (Nat.eq_dec i j) as [<-|Hne].
    + rewrite nth_error_upd_same in Hj by (apply nth_error_Some; congruence). discriminate.
    + rewrite nth_error_upd_other in Hj by auto.
      destruct (Hinv j b Hj) as [_ Hhb]. rewrite Hh in Hhb. injection Hhb as E. auto.
  - (* enter *)
    rewrite He in H. destruct (holder st) eqn:Hh; try discriminate. injection H as <-.
    intros j b Hj. simpl in Hj. simpl.
    apply nth_error_upd_cases in Hj. destruct Hj as [[-> Hj]|Hj].
    + injection Hj as ->. auto.
    + destruct (Hinv j b Hj) as [_ Hhb]. congruence.
Qed.

Lemma trun_inv : forall sch st st', tinv st -> disciplined sch = true -> trun st sch = Some st' -> tinv st'.
Proof.
  induction sch as [|[i e] sch IH]; simpl; intros st st' Hinv Hd H.
  - injection H as <-. auto.
  - apply andb_prop in Hd. destruct Hd as [He Hd]. simpl in He.
    destruct (tstep st i e) as [st1|] eqn:Hs; try discriminate.
    apply (IH st1); auto. apply (tstep_inv st i e); auto. destruct e; auto.
Qed.

Lemma tinv_init n : tinv (tinit n).
Proof.
  intros i a H. unfold tinit in H; simpl in H. apply nth_error_In in H. apply repeat_spec in H. discriminate.
Qed.

(* any number of routines, any interleaving: when every access to a package table is made with the package mutex
   held, two routines are never within an access at the same time *)
Theorem locked_table_accesses_never_overlap : forall n sch st i j a b,
  trun (tinit n) sch = Some st -> disciplined sch = true -> i <> j ->
  nth_error (within st) i = Some (Some a) -> nth_error (within st) j = Some (Some b) -> False.
Proof.
  intros n sch st i j a b Hr Hd Hij Hi Hj.
  pose proof (trun_inv sch _ _ (tinv_init n) Hd Hr) as Hinv.
  destruct (Hinv i a Hi) as [_ H1]. destruct (Hinv j b Hj) as [_ H2]. congruence.
Qed.

(* REFUTED without the discipline: a writer that holds the mutex (defvar of a new variable) and a reader that does
   not (the constant check of a let binding without the mutex) are within the variable table together *)
Definition w_defvar : access := mkAc TVars true true.
Definition r_unlocked : access := mkAc TVars false false.
Theorem unlocked_reader_overlaps_writer_refuted :
  exists st, trun (tinit 2) [(0, TEnter w_defvar); (1, TEnter r_unlocked)] = Some st /\
             nth_error (within st) 0 = Some (Some w_defvar) /\ nth_error (within st) 1 = Some (Some r_unlocked) /\
             conflict w_defvar r_unlocked = true.
Proof. eexists. repeat split; reflexivity. Qed.

(* non-vacuity: with the discipline the reader waits (its step is not enabled) until the writer has left *)
Theorem locked_reader_waits :
  let r_locked := mkAc TVars false true in
  trun (tinit 2) [(0, TEnter w_defvar); (1, TEnter r_locked)] = None /\
  exists st, trun (tinit 2) [(0, TEnter w_defvar); (0, TLeave); (1, TEnter r_locked)] = Some st /\ holder st = Some 1.
Proof. split; [reflexivity|]. eexists. split; reflexivity. Qed.

(* the instance lock: a synchronized instance's slot READ that does not take the lock is inside the slot map together
   with a writer that does *)
Definition w_slot : access := mkAc TSlots true true.
Definition r_slot_unlocked : access := mkAc TSlots false false.
Theorem unlocked_slot_read_overlaps_write_refuted :
  exists st, trun (tinit 2) [(0, TEnter w_slot); (1, TEnter r_slot_unlocked)] = Some st /\
             nth_error (within st) 0 = Some (Some w_slot) /\ nth_error (within st) 1 = Some (Some r_slot_unlocked) /\
             conflict w_slot r_slot_unlocked = true.
Proof. eexists. repeat split; reflexivity. Qed.

(* what the probe table demands, for every operation: exactly the slot operations of a synchronized instance wait *)
Theorem must_wait_spec : forall o sy, must_wait o sy = true <-> (sy = true /\ iop_uses o <> []).
Proof.
  intros o sy. unfold must_wait, uses_slots. destruct sy; simpl.
  - destruct (iop_uses o); split; intros H; try discriminate; try (split; congruence); auto.
    destruct H as [_ H]. congruence.
  - split; [discriminate|]. intros [H _]. discriminate.
Qed.
