(* C17 — counters: when every access to a cell is the critical section
   (with-mutex-lock m (setq acc <x>) (setf <x> (+ acc k))), the cell always equals its initial value plus
   the sum of the increments executed (no update is ever lost), and when all routines have finished without
   errors, plus the sum of the increments written in the program.  Without the mutex the same
   read-modify-write loses updates (refutation in Proofs.v). *)
From C17 Require Import Model Spec Steps ChanProofs MutexProofs.
Local Open Scope Z_scope.

(* ---- unfolding the nested fixpoints ---- *)
Lemma ok_op_lock : forall x m m' body, ok_op x m (OLock m' body) = (Nat.eqb m' m && incr_body x body) || ok_ops x m body.
Proof. intros. reflexivity. Qed.
Lemma ok_op_catch : forall x m body, ok_op x m (OCatch body) = ok_ops x m body.
Proof. intros. reflexivity. Qed.
Lemma ok_op_block : forall x m tb b body, ok_op x m (OBlock tb b body) = ok_ops x m body.
Proof. intros. reflexivity. Qed.
Lemma incs_op_block : forall x tb b body, incs_op x (OBlock tb b body) = incs_ops x body.
Proof. intros. reflexivity. Qed.
Lemma nofail_op_block : forall tb b body, nofail_op (OBlock tb b body) = nofail_ops body.
Proof. intros. reflexivity. Qed.
Lemma incs_op_lock : forall x m body, incs_op x (OLock m body) = incs_ops x body.
Proof. intros. reflexivity. Qed.
Lemma incs_op_catch : forall x body, incs_op x (OCatch body) = incs_ops x body.
Proof. intros. reflexivity. Qed.
Lemma nofail_op_lock : forall m body, nofail_op (OLock m body) = nofail_ops body.
Proof. intros. reflexivity. Qed.
Lemma nofail_op_catch : forall body, nofail_op (OCatch body) = nofail_ops body.
Proof. intros. reflexivity. Qed.

Lemma incr_body_inv : forall x body, incr_body x body = true -> exists k, body = [OLoad x; OStore x (ZAccPlus k)].
Proof.
  intros x body H. destruct body as [|[] [|[] [|]]]; simpl in H; try discriminate;
    destruct e; try discriminate. apply andb_true_iff in H. destruct H as [A B].
  apply Nat.eqb_eq in A, B. subst. eauto.
Qed.

Section Counter.
Variable x m : nat.

Definition mid0 (f : frame) : Prop := fk f = KLock m /\ exists k, fops f = [OLoad x; OStore x (ZAccPlus k)].
Definition mid1 (f : frame) : Prop := fk f = KLock m /\ exists k, fops f = [OStore x (ZAccPlus k)].
Definition okf (f : frame) : Prop := ok_ops x m (fops f) = true.

(* shape of a stack: the top frame is ordinary or inside the critical section, the others are ordinary *)
Definition stack_ok (st : list frame) : Prop :=
  match st with
  | [] => True
  | f :: rest => (okf f \/ mid0 f \/ mid1 f) /\ Forall okf rest
  end.

Record cnt_inv (p : prog) (s : state) : Prop := {
  ci_stack : forall i r, nth_error (rs s) i = Some r -> stack_ok (stk r);
  ci_acc : forall i r f rest, nth_error (rs s) i = Some r -> stk r = f :: rest -> mid1 f -> acc r = nth x (mem s) 0;
  ci_len : length (bumps s) = length (mem s);
  ci_val : nth x (mem s) 0 = nth x (p_mem p) 0 + nth x (bumps s) 0
}.

Lemma okf_tail : forall k o ops, okf (mkF k (o :: ops)) -> okf (mkF k ops).
Proof. unfold okf; simpl; intros. apply andb_true_iff in H. tauto. Qed.
Lemma okf_head : forall k o ops, okf (mkF k (o :: ops)) -> ok_op x m o = true.
Proof. unfold okf; simpl; intros. apply andb_true_iff in H. tauto. Qed.

Lemma cnt_inv_init : forall p, guarded p x m = true -> cnt_inv p (init p).
Proof.
  intros p G. split; unfold init; simpl; intros.
  - apply nth_error_In in H. apply in_map_iff in H. destruct H as (ops & E & IN). subst. simpl. split; auto.
    left. unfold okf; simpl. unfold guarded in G. rewrite forallb_forall in G. auto.
  - apply nth_error_In in H. apply in_map_iff in H. destruct H as (ops & E & IN). subst. simpl in H0. inversion H0; subst.
    destruct H1 as [K _]. discriminate.
  - apply repeat_length.
  - assert (E : forall y n, nth y (repeat 0 n) 0 = 0) by (induction y; destruct n; simpl; auto). rewrite E. lia.
Qed.

(* a frame whose next operation is not an access to x and that is not an entry into the critical section *)
Lemma top_cases : forall f, okf f \/ mid0 f \/ mid1 f ->
  forall o ops, fops f = o :: ops ->
  (okf f /\ ok_op x m o = true /\ okf (mkF (fk f) ops)) \/
  (fk f = KLock m /\ exists k, o = OLoad x /\ ops = [OStore x (ZAccPlus k)]) \/
  (fk f = KLock m /\ exists k, o = OStore x (ZAccPlus k) /\ ops = []).
Proof.
  intros f H o ops E. destruct H as [H | [[K (k & H)] | [K (k & H)]]].
  - left. split; auto. unfold okf in *. rewrite E in H. simpl in H. apply andb_true_iff in H. simpl. tauto.
  - right; left. rewrite E in H. inversion H; subst. eauto.
  - right; right. rewrite E in H. inversion H; subst. eauto.
Qed.

Lemma okf_not_mid1 : forall f, okf f -> mid1 f -> False.
Proof.
  unfold okf; intros f H [_ (k & E)]. rewrite E in H. simpl in H. rewrite Nat.eqb_refl in H. discriminate.
Qed.
Lemma okf_not_mid0 : forall f, okf f -> mid0 f -> False.
Proof.
  unfold okf; intros f H [_ (k & E)]. rewrite E in H. simpl in H. rewrite Nat.eqb_refl in H. discriminate.
Qed.
Lemma stack_ok_rest : forall f rest, stack_ok (f :: rest) -> stack_ok rest.
Proof. intros f rest [_ F]. destruct rest; simpl; auto. inversion F; subst. split; auto. Qed.
Lemma stack_ok_adv : forall f rest ops', stack_ok (f :: rest) -> okf (mkF (fk f) ops') -> stack_ok (mkF (fk f) ops' :: rest).
Proof. intros f rest ops' [_ F] O. split; auto. Qed.
Lemma stack_ok_push : forall f rest ops' g, stack_ok (f :: rest) -> okf (mkF (fk f) ops') -> (okf g \/ mid0 g) ->
  stack_ok (g :: mkF (fk f) ops' :: rest).
Proof. intros f rest ops' g [_ F] O G. split; [tauto | constructor; auto]. Qed.

(* everything but a store: memory and ghost counters unchanged *)
Lemma cnt_keep : forall p s s' i r',
  cnt_inv p s ->
  (forall j rj', j <> i -> nth_error (rs s') j = Some rj' -> exists rj, nth_error (rs s) j = Some rj /\ stk rj' = stk rj /\ acc rj' = acc rj) ->
  nth_error (rs s') i = Some r' -> stack_ok (stk r') ->
  (forall f rest, stk r' = f :: rest -> mid1 f -> acc r' = nth x (mem s) 0) ->
  mem s' = mem s -> bumps s' = bumps s -> cnt_inv p s'.
Proof.
  intros p s s' i r' [ST AC LN VL] OTH R' SO MID M B. split; try rewrite M; try rewrite B; auto.
  - intros j rj N. destruct (Nat.eq_dec j i) as [-> | NE].
    + rewrite R' in N. inversion N; subst; auto.
    + destruct (OTH _ _ NE N) as (rj0 & A & E & _). rewrite E. eauto.
  - intros j rj f rest N E MD. destruct (Nat.eq_dec j i) as [-> | NE].
    + rewrite R' in N. inversion N; subst; eauto.
    + destruct (OTH _ _ NE N) as (rj0 & A & E1 & E2). rewrite E2. rewrite E1 in E. eauto.
Qed.

Lemma no_mid1 : forall g, okf g \/ mid0 g -> mid1 g -> False.
Proof.
  intros g [G | [_ (k0 & G)]] MD. - eapply okf_not_mid1; eauto. - destruct MD as [_ (k1 & MD)]. congruence.
Qed.
Ltac nomid :=
  let f0 := fresh "f0" in let rest0 := fresh "rest0" in let E0 := fresh "E0" in let MD := fresh "MD" in
  intros f0 rest0 E0 MD; simpl in E0; inversion E0; subst; exfalso;
  first [ eapply okf_not_mid1; [eassumption | eassumption] | eapply no_mid1; [eassumption | eassumption] ].

Lemma cnt_inv_step : forall p s i k s', reach p s -> cnt_inv p s -> step s i k = Some s' -> cnt_inv p s'.
Proof.
  intros p s i k s' RE I H.
  assert (OTH : forall j rj', j <> i -> nth_error (rs s') j = Some rj' ->
                exists rj, nth_error (rs s) j = Some rj /\ stk rj' = stk rj /\ acc rj' = acc rj).
  { intros j rj' NE N. destruct (step_others _ _ _ _ H j rj' NE N) as (rj & A & B & _ & C & _). eauto. }
  destruct (step_Step _ _ _ _ H) as (r & f & rest & R & P & ST & S).
  assert (SO : stack_ok (f :: rest)) by (rewrite <- ST; eapply ci_stack; eauto).
  assert (U : forall r0, nth_error (upd (rs s) i r0) i = Some r0) by (intros; eapply nth_error_upd_same; eauto).
  assert (TOP := proj1 SO).
  assert (RESTOK : forall (r0 : routine) f0 rest1, rest = f0 :: rest1 -> mid1 f0 -> acc r0 = nth x (mem s) 0).
  { intros r0 f0 rest1 E MD. exfalso. destruct SO as [_ F]. rewrite E in F. inversion F; subst. eapply okf_not_mid1; eauto. }
  inversion S; subst.
  - eapply cnt_keep; eauto; simpl; eauto. eapply stack_ok_rest; eauto.
  - eapply cnt_keep; eauto; simpl; eauto. eapply stack_ok_rest; eauto.
  - eapply cnt_keep; eauto; simpl; eauto. eapply stack_ok_rest; eauto.
  - eapply cnt_keep; eauto; simpl; eauto. eapply stack_ok_rest; eauto.
  - eapply cnt_keep; eauto; simpl; eauto. eapply stack_ok_rest; eauto.
  - (* push on closed *)
    destruct (top_cases _ TOP _ _ H1) as [(O & HD & TL) | [(K & kk & E & _) | (K & kk & E & _)]]; try discriminate.
    eapply cnt_keep; eauto; simpl; eauto. eapply stack_ok_adv; eauto. nomid.
  - destruct (top_cases _ TOP _ _ H1) as [(O & HD & TL) | [(K & kk & E & _) | (K & kk & E & _)]]; try discriminate.
    eapply cnt_keep; eauto; simpl; eauto. eapply stack_ok_adv; eauto. nomid.
  - destruct (top_cases _ TOP _ _ H1) as [(O & HD & TL) | [(K & kk & E & _) | (K & kk & E & _)]]; try discriminate.
    eapply cnt_keep; eauto; simpl; eauto. eapply stack_ok_adv; eauto. nomid.
  - (* range take: the frame stays *)
    destruct (top_cases _ TOP _ _ H1) as [(O & HD & TL) | [(K & kk & E & _) | (K & kk & E & _)]]; try discriminate.
    eapply cnt_keep; eauto; simpl; eauto.
    + cbn [stk recv]. rewrite ST. auto.
    + cbn [stk recv]. intros f0 rest0 E0 MD. rewrite ST in E0. inversion E0; subst. exfalso. eapply okf_not_mid1; [exact O | exact MD].
  - destruct (top_cases _ TOP _ _ H1) as [(O & HD & TL) | [(K & kk & E & _) | (K & kk & E & _)]]; try discriminate.
    eapply cnt_keep; eauto; simpl; eauto. eapply stack_ok_adv; eauto. nomid.
  - destruct (top_cases _ TOP _ _ H1) as [(O & HD & TL) | [(K & kk & E & _) | (K & kk & E & _)]]; try discriminate.
    eapply cnt_keep; eauto; simpl; eauto. eapply stack_ok_adv; eauto. nomid.
  - destruct (top_cases _ TOP _ _ H1) as [(O & HD & TL) | [(K & kk & E & _) | (K & kk & E & _)]]; try discriminate.
    eapply cnt_keep; eauto; simpl; eauto. eapply stack_ok_adv; eauto. nomid.
  - (* close *)
    destruct (top_cases _ TOP _ _ H1) as [(O & HD & TL) | [(K & kk & E & _) | (K & kk & E & _)]]; try discriminate.
    destruct (mark_unw_nth (skipn (cap ch) (q ch)) _ 0 _ _ (U (adv r f rest ops'))) as (b & N' & B).
    eapply cnt_keep; eauto; simpl; eauto. eapply stack_ok_adv; eauto. nomid.
  - (* load *)
    destruct (top_cases _ TOP _ _ H1) as [(O & HD & TL) | [(K & kk & E & E') | (K & kk & E & _)]]; try discriminate.
    + eapply cnt_keep; eauto; simpl; eauto. eapply stack_ok_adv; eauto. nomid.
    + inversion E; subst x0. eapply cnt_keep; eauto; simpl; eauto.
      * split; [| apply SO]. right; right. split; simpl; eauto.
      * intros. cbn [acc load]. symmetry. eapply nth_error_nth'; eauto.
  - (* store *)
    assert (LI := lock_inv_reach _ _ RE).
    destruct I as [STK AC LN VL].
    assert (XL : (x0 < length (mem s))%nat) by (apply nth_error_Some; congruence).
    destruct (top_cases _ TOP _ _ H1) as [(O & HD & TL) | [(K & kk & E & _) | (K & kk & E & E')]]; try discriminate.
    + (* a store to another cell *)
      simpl in HD. apply negb_true_iff in HD. apply Nat.eqb_neq in HD.
      assert (BX : nth x (match e with ZAccPlus d => upd (bumps s) x0 (nth x0 (bumps s) 0 + d) | ZLit _ => bumps s end) 0 = nth x (bumps s) 0).
      { destruct e; auto. apply nth_upd_other; auto. }
      split; simpl.
      * intros j rj N. destruct (Nat.eq_dec j i) as [-> | NE].
        -- rewrite U in N. inversion N; subst. simpl. eapply stack_ok_adv; eauto.
        -- destruct (OTH _ _ NE N) as (rj0 & A & E1 & _). rewrite E1. eauto.
      * intros j rj f0 rest0 N E MD. rewrite nth_upd_other by auto. destruct (Nat.eq_dec j i) as [-> | NE].
        -- rewrite U in N. inversion N; subst. simpl in E. inversion E; subst. exfalso. eapply okf_not_mid1; eauto.
        -- destruct (OTH _ _ NE N) as (rj0 & A & E1 & E2). rewrite E2. rewrite E1 in E. eauto.
      * destruct e; repeat rewrite upd_length; auto.
      * rewrite BX. rewrite nth_upd_other by auto. auto.
    + (* the increment itself *)
      inversion E; subst x0 e. subst ops'.
      assert (ACC : acc r = nth x (mem s) 0) by (eapply AC; eauto; split; eauto).
      split; simpl.
      * intros j rj N. destruct (Nat.eq_dec j i) as [-> | NE].
        -- rewrite U in N. inversion N; subst. simpl. split; [| apply SO]. left. unfold okf; simpl; auto.
        -- destruct (OTH _ _ NE N) as (rj0 & A & E1 & _). rewrite E1. eauto.
      * intros j rj f0 rest0 N E0 MD. destruct (Nat.eq_dec j i) as [-> | NE].
        -- rewrite U in N. inversion N; subst. simpl in E0. inversion E0; subst. exfalso.
           destruct MD as [_ (k1 & MD)]. simpl in MD. discriminate.
        -- (* another routine inside the critical section: excluded by mutual exclusion *)
           exfalso. destruct (OTH _ _ NE N) as (rj0 & A & E1 & E2). rewrite E1 in E0.
           destruct MD as [K' _].
           assert (M1 : nth_error (mus s) m = Some (Some j)).
           { eapply (li_held _ LI); eauto. rewrite E0. unfold locks_of; simpl. rewrite K'. simpl; auto. }
           assert (M2 : nth_error (mus s) m = Some (Some i)).
           { eapply (li_held _ LI); eauto. rewrite ST. unfold locks_of; simpl. rewrite K. simpl; auto. }
           congruence.
      * rewrite !upd_length; auto.
      * rewrite !nth_upd_same by lia. simpl. rewrite VL in ACC. rewrite ACC. lia.
  - (* fail *)
    destruct (top_cases _ TOP _ _ H1) as [(O & HD & TL) | [(K & kk & E & _) | (K & kk & E & _)]]; try discriminate.
    eapply cnt_keep; eauto; simpl; eauto. eapply stack_ok_adv; eauto. nomid.
  - (* lock *)
    destruct (top_cases _ TOP _ _ H1) as [(O & HD & TL) | [(K & kk & E & _) | (K & kk & E & _)]]; try discriminate.
    rewrite ok_op_lock in HD. apply orb_true_iff in HD.
    assert (G : okf (mkF (KLock m0) body) \/ mid0 (mkF (KLock m0) body)).
    { destruct HD as [HD | HD]; [right | left; auto].
      apply andb_true_iff in HD. destruct HD as [A B]. apply Nat.eqb_eq in A. subst m0.
      destruct (incr_body_inv _ _ B) as (k1 & ->). split; simpl; eauto. }
    eapply cnt_keep; eauto; simpl; eauto. eapply stack_ok_push; eauto. nomid.
  - (* catch *)
    destruct (top_cases _ TOP _ _ H1) as [(O & HD & TL) | [(K & kk & E & _) | (K & kk & E & _)]]; try discriminate.
    rewrite ok_op_catch in HD.
    assert (G : okf (mkF KCatch body)) by exact HD.
    eapply cnt_keep; eauto; simpl; eauto. eapply stack_ok_push; eauto. nomid.
  - (* block / tagbody *)
    destruct (top_cases _ TOP _ _ H1) as [(O & HD & TL) | [(K & kk & E & _) | (K & kk & E & _)]]; try discriminate.
    rewrite ok_op_block in HD.
    assert (G : okf (mkF (KBlock tb b) body)) by exact HD.
    eapply cnt_keep; eauto; simpl; eauto. eapply stack_ok_push; eauto. nomid.
  - (* return-from / go *)
    destruct (top_cases _ TOP _ _ H1) as [(O & HD & TL) | [(K & kk & E & _) | (K & kk & E & _)]]; try discriminate.
    eapply cnt_keep; eauto; simpl; eauto. eapply stack_ok_adv; eauto. nomid.
  - destruct (top_cases _ TOP _ _ H1) as [(O & HD & TL) | [(K & kk & E & _) | (K & kk & E & _)]]; try discriminate.
    eapply cnt_keep; eauto; simpl; eauto. eapply stack_ok_adv; eauto. nomid.
  - eapply cnt_keep; eauto; simpl; eauto. eapply stack_ok_rest; eauto.
  - eapply cnt_keep; eauto; simpl; eauto. eapply stack_ok_rest; eauto.
  - eapply cnt_keep; eauto; simpl; eauto. eapply stack_ok_rest; eauto.
Qed.
End Counter.

Theorem cnt_inv_reach : forall x m p s, guarded p x m = true -> reach p s -> cnt_inv x m p s.
Proof.
  intros x m p s G R. apply (reach_ind p (cnt_inv x m p)); auto.
  - apply cnt_inv_init; auto.
  - intros. eapply cnt_inv_step; eauto.
Qed.

(* no update is ever lost: in EVERY reachable state the cell holds its initial value plus the sum of all
   increments executed so far (bumps counts every executed (setf <x> (+ acc k))) *)
Theorem no_lost_update : forall p x m s, guarded p x m = true -> reach p s ->
  nth x (mem s) 0 = nth x (p_mem p) 0 + nth x (bumps s) 0.
Proof. intros. eapply ci_val. eapply cnt_inv_reach; eauto. Qed.

(* ---- programs that cannot raise an error never unwind ---- *)
Record nf_inv (s : state) : Prop := {
  nf_frames : forall i r f, nth_error (rs s) i = Some r -> In f (stk r) -> nofail_ops (fops f) = true;
  nf_open : forall c ch, nth_error (chs s) c = Some ch -> closed ch = false;
  nf_unw : forall i r, nth_error (rs s) i = Some r -> unw r = false;
  nf_ext : forall i r, nth_error (rs s) i = Some r -> ext r = None;
  nf_flag : unwound s = false
}.

Lemma nf_inv_init : forall p, nofail p = true -> nf_inv (init p).
Proof.
  intros p NF. split; unfold init; simpl; intros; auto.
  - apply nth_error_In in H. apply in_map_iff in H. destruct H as (ops & E & IN). subst. simpl in H0. destruct H0 as [<- | []].
    simpl. unfold nofail in NF. rewrite forallb_forall in NF. auto.
  - apply nth_error_In in H. apply in_map_iff in H. destruct H as (c0 & E & IN). subst. auto.
  - apply nth_error_In in H. apply in_map_iff in H. destruct H as (ops & E & IN). subst. auto.
  - apply nth_error_In in H. apply in_map_iff in H. destruct H as (ops & E & IN). subst. auto.
Qed.

Lemma nofail_tail : forall o ops, nofail_ops (o :: ops) = true -> nofail_op o = true /\ nofail_ops ops = true.
Proof. unfold nofail_ops; simpl; intros. apply andb_true_iff in H. auto. Qed.

(* under nf_inv only these things can happen to the moving routine *)
Lemma nf_inv_step : forall s i k s', nf_inv s -> step s i k = Some s' -> nf_inv s'.
Proof.
  intros s i k s' [FR OP UN EXN FL] H.
  assert (OTHE := step_others_ext _ _ _ _ H).
  assert (OTH : forall j rj', j <> i -> nth_error (rs s') j = Some rj' ->
                exists rj, nth_error (rs s) j = Some rj /\ stk rj' = stk rj /\ (unw rj' = unw rj \/ unw rj' = true)).
  { intros j rj' NE N. destruct (step_others _ _ _ _ H j rj' NE N) as (rj & A & B & _ & _ & _ & C). eauto. }
  destruct (step_Step _ _ _ _ H) as (r & f & rest & R & P & ST & S).
  assert (U : forall r0, nth_error (upd (rs s) i r0) i = Some r0) by (intros; eapply nth_error_upd_same; eauto).
  assert (UF := UN _ _ R).
  assert (EF := EXN _ _ R).
  assert (FF : forall g, In g (f :: rest) -> nofail_ops (fops g) = true) by (intros; eapply FR; eauto; rewrite ST; auto).
  (* generic: routine i gets stack st' (all frames nofail), unwinding flag false, channels stay open *)
  assert (GEN : forall r' chs', nth_error (rs s') i = Some r' -> unw r' = false -> ext r' = None ->
            (forall g, In g (stk r') -> nofail_ops (fops g) = true) ->
            (forall j rj', j <> i -> nth_error (rs s') j = Some rj' -> exists rj, nth_error (rs s) j = Some rj /\ stk rj' = stk rj /\ unw rj' = unw rj) ->
            chs s' = chs' -> (forall c ch, nth_error chs' c = Some ch -> closed ch = false) -> unwound s' = false -> nf_inv s').
  { intros r' chs' N' U' E' F' O' C' CL' W'. split; auto.
    - intros j rj g N IN. destruct (Nat.eq_dec j i) as [-> | NE].
      + rewrite N' in N. inversion N; subst; auto.
      + destruct (O' _ _ NE N) as (rj0 & A & B & _). rewrite B in IN. eauto.
    - rewrite C'. auto.
    - intros j rj N. destruct (Nat.eq_dec j i) as [-> | NE].
      + rewrite N' in N. inversion N; subst; auto.
      + destruct (O' _ _ NE N) as (rj0 & A & _ & C). rewrite C. eauto.
    - intros j rj N. destruct (Nat.eq_dec j i) as [-> | NE].
      + rewrite N' in N. inversion N; subst; auto.
      + destruct (OTHE _ _ NE N) as (rj0 & A & C). rewrite C. eauto. }
  assert (CHU : forall c ch0 ch', nth_error (chs s) c = Some ch0 -> closed ch' = false ->
                forall c1 ch1, nth_error (upd (chs s) c ch') c1 = Some ch1 -> closed ch1 = false).
  { intros c ch0 ch' N C c1 ch1 N1. rewrite nth_error_upd in N1. destruct (Nat.eqb_spec c c1); eauto.
    subst. rewrite N in N1. inversion N1; subst; auto. }
  assert (TKC : forall ch v ch', take ch i = Some (v, ch') -> closed ch = false -> closed ch' = false).
  { intros ch0 v0 ch0' T C. unfold take in T. destruct (q ch0); [rewrite C in T; discriminate | inversion T; subst; auto]. }
  assert (OTH2 : forall r0, rs s' = upd (rs s) i r0 ->
            forall j rj', j <> i -> nth_error (rs s') j = Some rj' -> exists rj, nth_error (rs s) j = Some rj /\ stk rj' = stk rj /\ unw rj' = unw rj).
  { intros r0 E j rj' NE N. rewrite E in N. rewrite nth_error_upd_other in N by auto. eauto. }
  assert (ADV : forall o ops' g, fops f = o :: ops' -> In g (mkF (fk f) ops' :: rest) -> nofail_ops (fops g) = true).
  { intros o ops' g E [<- | IN]; [| apply FF; simpl; auto]. simpl. assert (A := FF f (or_introl eq_refl)). rewrite E in A.
    apply nofail_tail in A. tauto. }
  assert (HD : forall o ops', fops f = o :: ops' -> nofail_op o = true).
  { intros o ops' E. assert (A := FF f (or_introl eq_refl)). rewrite E in A. apply nofail_tail in A. tauto. }
  inversion S; subst; try congruence;
    try (apply HD in H1; discriminate);
    try (rewrite (OP _ _ H2) in *; discriminate).
  all: eapply (GEN _ _ (U _)); simpl; eauto; try (intros; apply FF; simpl; auto; fail); try (eapply CHU; eauto; fail);
    try (intros j rj' NE N; rewrite nth_error_upd_other in N by auto; eauto; fail).
  - intros g [<- | IN]; eauto. simpl. assert (A := HD _ _ H1). rewrite nofail_op_lock in A. auto.
  - intros g [<- | IN]; eauto. simpl. assert (A := HD _ _ H1). rewrite nofail_op_catch in A. auto.
  - intros g [<- | IN]; eauto. simpl. assert (A := HD _ _ H1). rewrite nofail_op_block in A. auto.
Qed.

Theorem nf_inv_reach : forall p s, nofail p = true -> reach p s -> nf_inv s.
Proof.
  intros p s NF R. apply (reach_ind p nf_inv); auto. apply nf_inv_init; auto. intros; eapply nf_inv_step; eauto.
Qed.

(* ---- what is left to do + what has been done = what the program says ---- *)
Definition stack_incs (x : nat) (st : list frame) : Z := fold_right (fun f a => incs_ops x (fops f) + a) 0 st.
Definition remaining (x : nat) (l : list routine) : Z := fold_right (fun r a => stack_incs x (stk r) + a) 0 l.

Lemma remaining_upd : forall x l i r r', nth_error l i = Some r ->
  remaining x (upd l i r') = remaining x l - stack_incs x (stk r) + stack_incs x (stk r').
Proof.
  induction l; destruct i; simpl; intros; try discriminate.
  - inversion H; subst. lia.
  - rewrite (IHl _ _ r' H). lia.
Qed.

Definition tot_inv (p : prog) (x : nat) (s : state) : Prop :=
  remaining x (rs s) + nth x (bumps s) 0 = total_incs p x /\ length (bumps s) = length (mem s).

Lemma tot_inv_init : forall p x, tot_inv p x (init p).
Proof.
  intros p x. unfold tot_inv, init; simpl. split; [| apply repeat_length].
  assert (E : forall y n, nth y (repeat 0 n) 0 = 0) by (induction y; destruct n; simpl; auto). rewrite E.
  unfold total_incs. induction (p_code p); simpl; auto. unfold remaining in *. simpl in *. lia.
Qed.

Lemma tot_inv_step : forall p x s i k s', nf_inv s -> tot_inv p x s -> step s i k = Some s' -> tot_inv p x s'.
Proof.
  intros p x s i k s' [FR OP UN EXN FL] [T L] H.
  destruct (step_Step _ _ _ _ H) as (r & f & rest & R & P & ST & S).
  assert (UF := UN _ _ R).
  assert (EF := EXN _ _ R).
  assert (FF : nofail_ops (fops f) = true) by (eapply FR; eauto; rewrite ST; simpl; auto).
  assert (HD : forall o ops', fops f = o :: ops' -> nofail_op o = true).
  { intros o ops' E. rewrite E in FF. apply nofail_tail in FF. tauto. }
  assert (OLD : stack_incs x (stk r) = incs_ops x (fops f) + stack_incs x rest) by (rewrite ST; auto).
  assert (KEEP : forall r' bs, stack_incs x (stk r') = stack_incs x (stk r) -> bs = bumps s ->
            remaining x (upd (rs s) i r') + nth x bs 0 = total_incs p x).
  { intros r' bs E ->. rewrite (remaining_upd _ _ _ _ r' R). lia. }
  unfold tot_inv.
  inversion S; subst; try congruence;
    try (apply HD in H1; discriminate);
    try (rewrite (OP _ _ H2) in *; discriminate); simpl.
  all: try (split; auto; apply KEEP; auto; simpl; rewrite ?OLD, ?H1; simpl; rewrite ?incs_op_lock, ?incs_op_catch; lia).
  - (* store *)
    assert (XL : (x0 < length (bumps s))%nat) by (rewrite L; apply nth_error_Some; congruence).
    split; [| destruct e; repeat rewrite upd_length; auto].
    rewrite (remaining_upd _ _ _ _ (adv r f rest ops') R). simpl. rewrite OLD, H1. simpl.
    destruct e; simpl.
    + lia.
    + destruct (Nat.eqb_spec x0 x).
      * subst. rewrite nth_upd_same by auto. lia.
      * rewrite nth_upd_other by auto. lia.
  - split; auto. apply KEEP; auto. cbn [stk set_stk adv stack_incs fold_right fops]. rewrite OLD, H1.
    change (incs_ops x (OLock m body :: ops')) with (incs_op x (OLock m body) + incs_ops x ops'). rewrite incs_op_lock.
    fold (stack_incs x rest). lia.
  - split; auto. apply KEEP; auto. cbn [stk set_stk adv stack_incs fold_right fops]. rewrite OLD, H1.
    change (incs_ops x (OCatch body :: ops')) with (incs_op x (OCatch body) + incs_ops x ops'). rewrite incs_op_catch.
    fold (stack_incs x rest). lia.
  - split; auto. apply KEEP; auto. cbn [stk set_stk adv stack_incs fold_right fops]. rewrite OLD, H1.
    change (incs_ops x (OBlock tb b body :: ops')) with (incs_op x (OBlock tb b body) + incs_ops x ops'). rewrite incs_op_block.
    fold (stack_incs x rest). lia.
Qed.

Theorem tot_inv_reach : forall p x s, nofail p = true -> reach p s -> tot_inv p x s.
Proof.
  intros p x s NF R. apply (reach_ind p (tot_inv p x)); auto. apply tot_inv_init.
  intros. eapply tot_inv_step; eauto. eapply nf_inv_reach; eauto.
Qed.

Lemma remaining_finished : forall x l, forallb finished l = true -> remaining x l = 0.
Proof.
  induction l; simpl; intros; auto. apply andb_true_iff in H. destruct H as [A B].
  unfold finished in A. destruct (stk a); try discriminate. simpl. rewrite IHl; auto.
Qed.

(* final value = initial value + the increments written in the program, on EVERY schedule that lets all
   routines finish, for programs that cannot raise errors and access x only in the critical section *)
Theorem counter_final : forall p x m s, guarded p x m = true -> nofail p = true -> reach p s -> all_finished s = true ->
  nth x (mem s) 0 = nth x (p_mem p) 0 + total_incs p x.
Proof.
  intros p x m s G NF R F. rewrite (no_lost_update _ _ _ _ G R).
  destruct (tot_inv_reach _ x _ NF R) as [T _]. unfold all_finished in F. rewrite (remaining_finished _ _ F) in T. lia.
Qed.

(* such programs never crash and never start unwinding *)
Theorem nofail_never_unwinds : forall p s, nofail p = true -> reach p s ->
  unwound s = false /\ forall i r, nth_error (rs s) i = Some r -> unw r = false.
Proof. intros p s NF R. destruct (nf_inv_reach _ _ NF R). split; auto. Qed.

(* hence the result does not depend on the schedule: it is the result of every sequential order of the
   critical sections, in particular of running the routines one after the other *)
Theorem guarded_result_schedule_independent : forall p x m s1 s2, guarded p x m = true -> nofail p = true ->
  reach p s1 -> all_finished s1 = true -> reach p s2 -> all_finished s2 = true -> nth x (mem s1) 0 = nth x (mem s2) 0.
Proof.
  intros. rewrite (counter_final _ _ _ _ H H0 H1 H2), (counter_final _ _ _ _ H H0 H3 H4). auto.
Qed.
