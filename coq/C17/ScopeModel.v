(* C17 — model of the scopes that routines share (scope.go: parents, locker, Share; pkg/gi/run.go;
   lambda.go: Lambda.Call; pkg/cl/let.go, lambda.go, defun.go).  No proofs in this file.

   A scope keeps its variables in a Go map guarded by `locker`, which is the no-op locker for a scope made by
   let or by a function call and a sync.Mutex once the scope is synchronized.  (run form) evaluates form on a
   new goroutine IN THE CALLER'S SCOPE: from then on the caller's scope and every scope a variable lookup can
   reach from it (Scope.get / set / has walk `parents` recursively) are used by two threads.  The repair
   (Scope.Share, called by Run.Call before the go statement) makes exactly those scopes synchronized.

   Scopes are numbered in order of creation.  `pars` gives the parents of each scope as the Go slice does:
   [s] for a let in scope s (Scope.NewScope), [c; s] for a call in scope s of a lambda whose closure scope is
   c (Lambda.Call: ss.parents = []*Scope{lam.Closure, s}).  `syn` says whether the locker is a mutex.  Every
   routine has a stack of the scopes it is evaluating in (top first): a let or a call pushes the new scope, its
   end pops it; a routine started by run begins with the scope of its creator. *)
From Coq Require Import List Arith Bool.
From C17 Require Import Model.
Import ListNotations.

Record sstate := mkSS { pars : list (list nat); syn : list bool; stacks : list (list nat) }.

(* the scopes a variable lookup started in scope s visits, in the order of the recursive walk over `parents`
   (Scope.localGet / set / has / Share); parents are older than their children, so fuel S s is enough *)
Fixpoint walk (ps : list (list nat)) (fuel s : nat) : list nat :=
  match fuel with
  | O => []
  | S f => s :: flat_map (walk ps f) (nth s ps [])
  end.
Definition anc (st : sstate) (s : nat) : list nat := walk (pars st) (S s) s.

(* Scope.Share: SetSynchronized(true) on the scope and, recursively, on its parents *)
Fixpoint mark (l : list nat) (sy : list bool) : list bool :=
  match l with
  | [] => sy
  | t :: l' => mark l' (upd sy t true)
  end.

Inductive sop :=
| SLet               (* (let (...) ...): a new scope under the current one *)
| SCall (c : nat)    (* call of a lambda / function whose closure scope is c: a new scope with parents [c; current] *)
| SEnd               (* the let / the call returns *)
| SRun               (* (run form): Share the current scope, start a routine in it *)
| SInst.             (* (set-synchronized (make-instance ..) t): the scope of a flavors instance - no parents,
                        synchronized; it is on nobody's stack: a method call reaches it as SCall c *)

Definition sstep (st : sstate) (i : nat) (o : sop) : option sstate :=
  match nth_error (stacks st) i with
  | Some (s :: rest) =>
      let n := length (pars st) in
      match o with
      | SLet => Some (mkSS (pars st ++ [[s]]) (syn st ++ [false]) (upd (stacks st) i (n :: s :: rest)))
      | SCall c =>
          if Nat.ltb c n
          then Some (mkSS (pars st ++ [[c; s]]) (syn st ++ [false]) (upd (stacks st) i (n :: s :: rest)))
          else None
      | SEnd => Some (mkSS (pars st) (syn st) (upd (stacks st) i rest))
      | SRun => Some (mkSS (pars st) (mark (anc st s) (syn st)) (stacks st ++ [[s]]))
      | SInst => Some (mkSS (pars st ++ [[]]) (syn st ++ [true]) (stacks st))
      end
  | _ => None
  end.

(* one thread, one scope (the scope the program is read and evaluated in), not synchronized *)
Definition sinit : sstate := mkSS [[]] [false] [[0]].

Fixpoint srun (st : sstate) (sch : list (nat * sop)) : option sstate :=
  match sch with
  | [] => Some st
  | (i, o) :: sch' => match sstep st i o with Some st' => srun st' sch' | None => None end
  end.

Definition synced (st : sstate) (t : nat) : bool := nth t (syn st) false.

(* the guard: a call uses a closure that is lexically visible - its scope is reached from the caller's scope -
   or whose scope is synchronized already (a closure shared by an earlier run; the scope of a synchronized flavors
   instance, which Instance.Receive makes the first parent of the method's scope).
   (An unsynchronized closure scope that reaches a routine any other way - a global function defined inside a let,
   a lambda received over a channel - is one that Share never saw: refuted in ScopeProofs.v.) *)
Definition guardb (st : sstate) (i : nat) (o : sop) : bool :=
  match o with
  | SCall c => match nth_error (stacks st) i with
               | Some (s :: _) => existsb (Nat.eqb c) (anc st s) || synced st c
               | _ => false
               end
  | _ => true
  end.
Fixpoint srun_g (st : sstate) (sch : list (nat * sop)) : option sstate :=
  match sch with
  | [] => Some st
  | (i, o) :: sch' =>
      if guardb st i o then match sstep st i o with Some st' => srun_g st' sch' | None => None end else None
  end.

(* the scopes whose variable maps routine i may touch: everything a lookup reaches from any scope on its
   stack (it returns to the lower ones when the upper ones end) *)
Definition touches (st : sstate) (i t : nat) : Prop :=
  exists stk s, nth_error (stacks st) i = Some stk /\ In s stk /\ In t (anc st s).

(* ---- a seeded variant of Scope.Share ("do not walk a chain that was shared before"): the loop over the parents
   stops - break - at the first parent that is synchronized already, so the parents AFTER it are skipped.  A
   transcription of the recursive Go function; fuel S s is enough as in walk ---- *)
Fixpoint share_break (ps : list (list nat)) (fuel s : nat) (sy : list bool) : list bool :=
  match fuel with
  | O => sy
  | S f =>
      (fix loop (l : list nat) (sy : list bool) : list bool :=
         match l with
         | [] => sy
         | p :: l' => if nth p sy false then sy else loop l' (share_break ps f p sy)
         end) (nth s ps []) (upd sy s true)
  end.
Definition sstep_break (st : sstate) (i : nat) (o : sop) : option sstate :=
  match o, nth_error (stacks st) i with
  | SRun, Some (s :: _) => Some (mkSS (pars st) (share_break (pars st) (S s) s (syn st)) (stacks st ++ [[s]]))
  | _, _ => sstep st i o
  end.
Fixpoint srun_break (st : sstate) (sch : list (nat * sop)) : option sstate :=
  match sch with
  | [] => Some st
  | (i, o) :: sch' => if guardb st i o then match sstep_break st i o with Some st' => srun_break st' sch' | None => None end else None
  end.

(* ---- the other repair in function.go: a form's argument slot is replaced by its compiled version on first
   evaluation.  The slot holds None (still a list) or Some c (compiled object c).  A thread reads the slot
   (under the read lock); if it saw the list it compiles its own object `mine` (outside any lock) and calls
   setCompiled, which stores it unless the slot is already compiled and returns what is in the slot;
   the thread then evaluates what it got. ---- *)
Inductive cphase := CStart | CSawList | CUse (c : nat).
Record cstate := mkCS { slot : option nat; phases : list cphase; writes : nat }.   (* writes: ghost, stores done *)

Definition cstep (st : cstate) (i : nat) : option cstate :=
  match nth_error (phases st) i with
  | Some CStart =>
      match slot st with
      | None => Some (mkCS (slot st) (upd (phases st) i CSawList) (writes st))
      | Some c => Some (mkCS (slot st) (upd (phases st) i (CUse c)) (writes st))
      end
  | Some CSawList =>                                    (* setCompiled args index (compiled object number i) *)
      match slot st with
      | None => Some (mkCS (Some i) (upd (phases st) i (CUse i)) (S (writes st)))
      | Some c => Some (mkCS (slot st) (upd (phases st) i (CUse c)) (writes st))
      end
  | _ => None
  end.
Definition cinit (n : nat) : cstate := mkCS None (repeat CStart n) 0.
Fixpoint crun (st : cstate) (sch : list nat) : option cstate :=
  match sch with
  | [] => Some st
  | i :: sch' => match cstep st i with Some st' => crun st' sch' | None => None end
  end.

(* the store before the repair: unconditional (`f.Args[i] = arg`), the thread evaluates its own object *)
Definition cstep_orig (st : cstate) (i : nat) : option cstate :=
  match nth_error (phases st) i with
  | Some CStart =>
      match slot st with
      | None => Some (mkCS (slot st) (upd (phases st) i CSawList) (writes st))
      | Some c => Some (mkCS (slot st) (upd (phases st) i (CUse c)) (writes st))
      end
  | Some CSawList => Some (mkCS (Some i) (upd (phases st) i (CUse i)) (S (writes st)))
  | _ => None
  end.
Fixpoint crun_orig (st : cstate) (sch : list nat) : option cstate :=
  match sch with
  | [] => Some st
  | i :: sch' => match cstep_orig st i with Some st' => crun_orig st' sch' | None => None end
  end.
