(* C17 — the per-scope mutex is released on every exit path of every scope operation: proofs over
   ScopeLockModel.v, for every scope structure, every lookup path, every history of operations. *)
From Coq Require Import List Arith Bool Lia.
From C17 Require Import Model ScopeModel ScopeLockModel.
Import ListNotations.

Lemma visit_all_release st held s k t b :
  visit all_release st held s k t b =
  if synced st s && is_held held s then None else Some (held, Nat.eqb s t).
Proof. unfold visit, all_release. simpl. rewrite andb_false_r. reflexivity. Qed.

(* whatever was held before, an operation that completes holds exactly the same afterwards: nothing is kept *)
Theorem access_releases : forall st path held k t b held',
  access all_release st held path k t b = Some held' -> held' = held.
Proof.
  induction path as [|s path IH]; simpl; intros held k t b held' H.
  - inversion H; auto.
  - rewrite visit_all_release in H.
    destruct (synced st s && is_held held s); try discriminate.
    destruct (Nat.eqb s t); [inversion H; auto | eauto].
Qed.

(* with no mutex left locked no operation waits, on any path through any scope structure *)
Theorem access_never_blocks : forall st path k t b, access all_release st [] path k t b = Some [].
Proof.
  induction path as [|s path IH]; simpl; intros; auto.
  rewrite visit_all_release. simpl. rewrite andb_false_r.
  destruct (Nat.eqb s t); auto.
Qed.

(* every history of scope operations by any routines runs to its end and leaves no scope mutex locked *)
Theorem scope_locks_released : forall st l, arun all_release st [] l = Some [].
Proof.
  induction l as [|[[[i k] t] b] l IH]; [reflexivity|].
  cbn [arun astep].
  destruct (nth_error (stacks st) i) as [[|s rest]|]; auto.
  rewrite access_never_blocks. auto.
Qed.

(* the converse, for EVERY exit path: a discipline that misses the release on one exit path (k, found b) or on the
   path towards the parents leaves the mutex of a shared scope locked, and the next operation through that scope
   waits for ever.  st: any state, s a synchronized scope on top of routine i's stack. *)
Theorem missed_release_blocks : forall rel st i s rest k b k2 t2 b2,
  nth_error (stacks st) i = Some (s :: rest) -> synced st s = true ->
  rel k (Some b) = false ->
  exists h, astep rel st [] (i, k, s, b) = Some h /\ is_held h s = true /\
            astep rel st h (i, k2, t2, b2) = None.
Proof.
  intros rel st i s rest k b k2 t2 b2 Hs Hsy Hrel.
  assert (A : anc st s = s :: flat_map (walk (pars st) s) (nth s (pars st) [])) by reflexivity.
  exists [s]. unfold astep. rewrite Hs, A. cbn [access].
  assert (V1 : visit rel st [] s k s b = Some ([s], true)).
  { unfold visit. rewrite Hsy, Nat.eqb_refl, Hrel. reflexivity. }
  rewrite V1. split; [reflexivity|]. split.
  - cbn [is_held existsb]. rewrite Nat.eqb_refl. reflexivity.
  - assert (V2 : visit rel st [s] s k2 t2 b2 = None).
    { unfold visit. rewrite Hsy. cbn [is_held existsb]. rewrite Nat.eqb_refl. reflexivity. }
    rewrite V2. reflexivity.
Qed.

(* the seeded discipline, concretely: two routines, (setq v ..) on the with-slots variable by either of them, then
   any lookup by the other one - here of a variable of the enclosing let - never returns *)
Theorem leak_set_ref_blocks_refuted :
  exists st, ex_slots_state = Some st /\
    arun all_release st [] [(0, KGet, 2, BRef); (0, KSet, 2, BRef); (1, KGet, 1, BPlain)] = Some [] /\
    arun leak_set_ref st [] [(0, KGet, 2, BRef); (0, KSet, 2, BRef)] = Some [2] /\
    arun leak_set_ref st [] [(0, KGet, 2, BRef); (0, KSet, 2, BRef); (1, KGet, 1, BPlain)] = None /\
    (* plain variables and unshared scopes do not show it *)
    arun leak_set_ref st [] [(0, KGet, 1, BPlain); (0, KSet, 1, BPlain); (1, KGet, 1, BPlain)] = Some [].
Proof.
  destruct ex_slots_state as [st|] eqn:E; [| vm_compute in E; discriminate].
  exists st. split; auto. vm_compute in E. inversion E; subst. vm_compute. auto.
Qed.

Example leak_needs_shared_scope :
  exists st, srun sinit [(0, SLet); (0, SLet)] = Some st /\
    arun leak_set_ref st [] [(0, KGet, 2, BRef); (0, KSet, 2, BRef); (0, KGet, 1, BPlain)] = Some [].
Proof.
  destruct (srun sinit [(0, SLet); (0, SLet)]) as [st|] eqn:E; [| vm_compute in E; discriminate].
  exists st. split; auto. vm_compute in E. inversion E; subst. vm_compute. auto.
Qed.
