(* C17 — executable model M of slip's concurrency primitives, as the Go code implements them:

   pkg/gi/channel.go, make-channel.go      a channel is a Go channel of capacity n >= 0
   pkg/gi/channel-push.go                  `ch <- v`      : blocks while the buffer is full; panics when closed
   pkg/gi/channel-pop.go                   `<-ch`         : blocks while empty and open; nil when closed and empty
   pkg/gi/channel-close.go                 `close(ch)`    : panics when already closed; parked senders panic
   pkg/gi/range.go + Channel.Range         `for v := range ch` : receives until closed and drained
   pkg/gi/select.go                        Go `select` over receive cases: any ready channel
   pkg/gi/mutex.go, make-mutex.go          sync.Mutex (not re-entrant)
   pkg/gi/with-mutex-lock.go               `defer Unlock(); Lock(); body` : unlocked on every outcome of the
                                           body, normal or panic
   pkg/cl/block.go, return-from.go, tagbody.go, go.go, let.go, ignore-errors.go
                                           return-from / go do not unwind: they RETURN a marker value
                                           (a slip.ReturnResult / slip.GoTo pointer) which every enclosing form that
                                           evaluates a body passes up at once, from any position of the body (after the
                                           repairs C07-1..21: the model ASSUMES them); a block consumes the return marker
                                           of its name, a tagbody the go marker of one of its tags;
                                           leaving with-mutex-lock this way runs the deferred Unlock
   pkg/gi/run.go                           `go func() { form.Eval(s) }()` : no recover, an uncaught error
                                           kills the process (status "crashed" below)
   pkg/clos/set-synchronized.go, hasslots.go, scope.go, locker.go, package.go
                                           a synchronized instance / a global variable takes its lock around
                                           EACH single read and EACH single write, never around a
                                           read-modify-write: a shared cell is an atomic register

   Go's channel is the assumed primitive: a FIFO of arrivals; a sender whose entry lies beyond the buffer
   is parked until a receiver moves it inside (or takes it, capacity 0).  A program is a list of routines,
   each a list of operations with nested bodies; the semantics is the interleaving small-step function
   `step s i k` (routine i moves; k only selects the ready clause of a `select`).  Ghost fields (`sent`,
   `rcvd`, `dropped`, `bumps`, `unwound`) record history and never influence a step.  No proofs here. *)
From Coq Require Export List Bool Arith ZArith Lia.
Export ListNotations.

Definition val := option Z.                          (* None = nil *)
Inductive vexpr := VLit (z : Z) | VGot | VAcc.       (* what a routine can push: a literal, the last value received, its accumulator *)
Inductive zexpr := ZLit (z : Z) | ZAccPlus (k : Z).  (* what it can store in a cell: a literal, accumulator + k *)

Inductive op :=
| OPush (c : nat) (e : vexpr)        (* (channel-push c e) *)
| OPop (c : nat)                     (* (setq got (channel-pop c)), logged *)
| ORange (c : nat)                   (* (range (lambda (v) (setq got v) log) c) *)
| OSelect (cs : list (option nat))   (* (select clause...): Some c = (c v (setq got v) log-with-tag-c);
                                        None = ((time-after T) tv log-with-tag-99), T beyond the run: never ready *)
| OClose (c : nat)                   (* (channel-close c) *)
| OLoad (x : nat)                    (* (setq acc <cell x>), logged *)
| OStore (x : nat) (e : zexpr)       (* (setf <cell x> e) *)
| OFail                              (* (error "boom") *)
| OLock (m : nat) (body : list op)   (* (with-mutex-lock m body...) *)
| OCatch (body : list op)            (* (ignore-errors body...) *)
| OBlock (tb : bool) (b : nat) (body : list op)   (* tb = false: (block b body...); tb = true: (tagbody body... b) *)
| OExit (tb : bool) (b : nat).       (* tb = false: (return-from b 7); tb = true: (go b) *)

Inductive ev := EvPop (c : nat) (v : val) | EvLoad (x : nat) (z : Z).

Inductive fkind := KPlain | KLock (m : nat) | KCatch | KBlock (tb : bool) (b : nat).
Record frame := mkF { fk : fkind; fops : list op }.
(* a routine: control stack (top first), unwinding flag (a Go panic travelling up), exit marker (the
   slip.ReturnResult / cl.GoTo VALUE that return-from / go produce, on its way up through the enclosing forms),
   registers, log.  finished = empty stack; crashed = empty stack while unwinding *)
Record routine := mkR { stk : list frame; unw : bool; ext : option (bool * nat); got : val; acc : Z; log : list ev }.

Record entry := mkE { e_val : val; e_from : nat }.
Record rcv := mkRcv { r_item : option entry; r_by : nat }.       (* None: nil from a closed, drained channel *)
Record chanst := mkC { cap : nat; q : list entry; closed : bool;
                       sent : list entry; rcvd : list rcv; dropped : list entry }.   (* last three: ghost *)
Record state := mkS { rs : list routine; chs : list chanst; mus : list (option nat); mem : list Z;
                      bumps : list Z; unwound : bool }.                              (* last two: ghost *)

Record prog := mkP { p_caps : list nat; p_nmutex : nat; p_mem : list Z; p_code : list (list op) }.

Definition init_routine (ops : list op) : routine := mkR [mkF KPlain ops] false None None 0%Z [].
Definition init (p : prog) : state :=
  mkS (map init_routine (p_code p)) (map (fun c => mkC c [] false [] [] []) (p_caps p))
      (repeat None (p_nmutex p)) (p_mem p) (repeat 0%Z (length (p_mem p))) false.

Fixpoint upd {A} (l : list A) (i : nat) (x : A) : list A :=
  match l, i with
  | [], _ => []
  | _ :: l', O => x :: l'
  | y :: l', S i' => y :: upd l' i' x
  end.

(* ---- parking: the sender of an entry beyond the buffer is blocked in its push ---- *)
Definition parked_in (i : nat) (c : chanst) : bool := existsb (fun e => Nat.eqb (e_from e) i) (skipn (cap c) (q c)).
Definition parked (s : state) (i : nat) : bool := existsb (parked_in i) (chs s).

Definition veval (r : routine) (e : vexpr) : val :=
  match e with VLit z => Some z | VGot => got r | VAcc => Some (acc r) end.
Definition zeval (r : routine) (e : zexpr) : Z :=
  match e with ZLit z => z | ZAccPlus k => (acc r + k)%Z end.

Definition set_stk (r : routine) (st : list frame) : routine := mkR st (unw r) (ext r) (got r) (acc r) (log r).
Definition set_unw (r : routine) (b : bool) : routine := mkR (stk r) b (ext r) (got r) (acc r) (log r).
Definition set_ext (r : routine) (e : option (bool * nat)) : routine := mkR (stk r) (unw r) e (got r) (acc r) (log r).
Definition recv (r : routine) (c : nat) (v : val) : routine := mkR (stk r) (unw r) (ext r) v (acc r) (log r ++ [EvPop c v]).
Definition load (r : routine) (x : nat) (z : Z) : routine := mkR (stk r) (unw r) (ext r) (got r) z (log r ++ [EvLoad x z]).

Definition set_r (s : state) (i : nat) (r : routine) : state :=
  mkS (upd (rs s) i r) (chs s) (mus s) (mem s) (bumps s) (unwound s).
Definition set_rc (s : state) (i : nat) (r : routine) (c : nat) (ch : chanst) : state :=
  mkS (upd (rs s) i r) (upd (chs s) c ch) (mus s) (mem s) (bumps s) (unwound s).
Definition set_rm (s : state) (i : nat) (r : routine) (m : nat) (o : option nat) : state :=
  mkS (upd (rs s) i r) (chs s) (upd (mus s) m o) (mem s) (bumps s) (unwound s).
Definition raise (s : state) (i : nat) (r : routine) : state :=       (* a Go panic starts in routine i *)
  mkS (upd (rs s) i (set_unw r true)) (chs s) (mus s) (mem s) (bumps s) true.

(* closing wakes the parked senders with a panic: every routine owning a dropped entry starts unwinding *)
Fixpoint mark_unw (ds : list entry) (j : nat) (l : list routine) : list routine :=
  match l with
  | [] => []
  | r :: l' => (if existsb (fun e => Nat.eqb (e_from e) j) ds then set_unw r true else r) :: mark_unw ds (S j) l'
  end.

(* receive by routine i on channel c: Some (value, new channel state), None when it would block *)
Definition take (ch : chanst) (i : nat) : option (val * chanst) :=
  match q ch with
  | e :: q' => Some (e_val e, mkC (cap ch) q' (closed ch) (sent ch) (rcvd ch ++ [mkRcv (Some e) i]) (dropped ch))
  | [] => if closed ch
          then Some (None, mkC (cap ch) [] true (sent ch) (rcvd ch ++ [mkRcv None i]) (dropped ch))
          else None
  end.
Definition ready (ch : chanst) : bool := match q ch with _ :: _ => true | [] => closed ch end.

(* one operation o of routine i (r already has o removed from its top frame) *)
Definition exec (s : state) (i : nat) (r : routine) (r0 : routine) (o : op) (k : nat) : option state :=
  match o with
  | OPush c e =>
      match nth_error (chs s) c with
      | None => None
      | Some ch =>
          if closed ch then Some (raise s i r)                       (* send on closed channel *)
          else let en := mkE (veval r e) i in
               Some (set_rc s i r c (mkC (cap ch) (q ch ++ [en]) false (sent ch ++ [en]) (rcvd ch) (dropped ch)))
      end
  | OPop c =>
      match nth_error (chs s) c with
      | None => None
      | Some ch => match take ch i with
                   | Some (v, ch') => Some (set_rc s i (recv r c v) c ch')
                   | None => None
                   end
      end
  | ORange c =>
      match nth_error (chs s) c with
      | None => None
      | Some ch =>
          match q ch with
          | _ :: _ => match take ch i with                             (* the operation stays: r0 keeps it *)
                      | Some (v, ch') => Some (set_rc s i (recv r0 c v) c ch')
                      | None => None
                      end
          | [] => if closed ch then Some (set_r s i r) else None
          end
      end
  | OSelect cs =>
      match nth_error cs k with
      | None => None
      | Some None => None                                           (* the timeout clause: its timer has not fired *)
      | Some (Some c) =>
          match nth_error (chs s) c with
          | None => None
          | Some ch => match take ch i with
                       | Some (v, ch') => Some (set_rc s i (recv r c v) c ch')
                       | None => None
                       end
          end
      end
  | OClose c =>
      match nth_error (chs s) c with
      | None => None
      | Some ch =>
          if closed ch then Some (raise s i r)                       (* close of closed channel *)
          else let ds := skipn (cap ch) (q ch) in
               Some (mkS (mark_unw ds 0 (upd (rs s) i r))
                         (upd (chs s) c (mkC (cap ch) (firstn (cap ch) (q ch)) true (sent ch) (rcvd ch) (dropped ch ++ ds)))
                         (mus s) (mem s) (bumps s) (match ds with [] => unwound s | _ => true end))
      end
  | OLoad x =>
      match nth_error (mem s) x with
      | None => None
      | Some z => Some (set_r s i (load r x z))
      end
  | OStore x e =>
      match nth_error (mem s) x with
      | None => None
      | Some _ =>
          Some (mkS (upd (rs s) i r) (chs s) (mus s) (upd (mem s) x (zeval r e))
                    (match e with ZAccPlus d => upd (bumps s) x (nth x (bumps s) 0 + d)%Z | ZLit _ => bumps s end)
                    (unwound s))
      end
  | OFail => Some (raise s i r)
  | OLock m body =>
      match nth_error (mus s) m with
      | Some None => Some (set_rm s i (set_stk r (mkF (KLock m) body :: stk r)) m (Some i))
      | _ => None                                                    (* held (also by i itself): blocked *)
      end
  | OCatch body => Some (set_r s i (set_stk r (mkF KCatch body :: stk r)))
  | OBlock tb b body => Some (set_r s i (set_stk r (mkF (KBlock tb b) body :: stk r)))
  | OExit tb b =>
      (* return-from checks Scope.InBlock(name): some enclosing block of that name; go checks Scope.TagBody: some
         enclosing tagbody (whatever its tags); otherwise a control-error *)
      if existsb (fun f => match fk f with
                           | KBlock tb' b' => if tb then tb' else negb tb' && Nat.eqb b' b
                           | _ => false end) (stk r)
      then Some (set_r s i (set_ext r (Some (tb, b))))
      else Some (raise s i r)
  end.

Definition step (s : state) (i k : nat) : option state :=
  match nth_error (rs s) i with
  | None => None
  | Some r =>
      if parked s i then None else
      match stk r with
      | [] => None                                                   (* finished or crashed *)
      | f :: rest =>
          if unw r then
            match fk f with
            | KCatch => Some (set_r s i (set_unw (set_stk r rest) false))       (* ignore-errors returns *)
            | KLock m => Some (set_rm s i (set_stk r rest) m None)              (* deferred Unlock *)
            | KPlain => Some (set_r s i (set_stk r rest))
            | KBlock _ _ => Some (set_r s i (set_stk r rest))
            end
          else
            match ext r with
            | Some (tb, b) =>
                (* the marker is the value of the form just evaluated in frame f: every form that evaluates a body
                   passes it up at once, from any position of the body (the forms left are skipped).  with-mutex-lock
                   releases its mutex on the way (the deferred Unlock); a block consumes the return marker that
                   carries its name; a tagbody consumes the go marker that carries its tag (the tag stands at its
                   end: it returns nil); every other combination passes the marker on unchanged *)
                match fk f with
                | KPlain => Some (set_r s i (set_stk r rest))
                | KLock m => Some (set_rm s i (set_stk r rest) m None)
                | KCatch => Some (set_r s i (set_stk r rest))
                | KBlock false b' =>
                    if tb then Some (set_r s i (set_stk r rest))
                    else Some (set_r s i (set_ext (set_stk r rest) (if Nat.eqb b' b then None else Some (tb, b))))
                | KBlock true b' =>
                    if tb && Nat.eqb b' b then Some (set_r s i (set_ext (set_stk r rest) None))
                    else Some (set_r s i (set_stk r rest))
                end
            | None =>
            match fops f with
            | [] => match fk f with
                    | KLock m => Some (set_rm s i (set_stk r rest) m None)      (* deferred Unlock *)
                    | _ => Some (set_r s i (set_stk r rest))
                    end
            | o :: ops' => exec s i (set_stk r (mkF (fk f) ops' :: rest)) r o k
            end
            end
      end
  end.

(* a schedule is the list of (routine, select choice) picked by the scheduler; None = it picked a move
   that is not enabled *)
Fixpoint run_sched (s : state) (sch : list (nat * nat)) : option state :=
  match sch with
  | [] => Some s
  | (i, k) :: sch' => match step s i k with Some s' => run_sched s' sch' | None => None end
  end.

Definition finished (r : routine) : bool := match stk r with [] => true | _ => false end.
Definition crashed (r : routine) : bool := finished r && unw r.
Definition all_finished (s : state) : bool := forallb finished (rs s).

(* is any move of routine i enabled?  (select: some clause) *)
Definition max_choice (r : routine) : nat :=
  match stk r with
  | f :: _ => match fops f with OSelect cs :: _ => S (length cs) | _ => 1 end
  | [] => 1
  end.
Definition enabled (s : state) (i : nat) : bool :=
  match nth_error (rs s) i with
  | None => false
  | Some r => existsb (fun k => match step s i k with Some _ => true | None => false end) (seq 0 (max_choice r))
  end.
Definition stuck (s : state) : bool := negb (existsb (enabled s) (seq 0 (length (rs s)))).
