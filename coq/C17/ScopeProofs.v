(* C17 — proofs about the scope model (ScopeModel.v): a scope that two routines can reach is synchronized;
   Share switches a locker only while the running routine is its only user; without run nothing is
   synchronized; a closure scope reached through a global function is the exception (refuted);
   the compile-slot protocol converges. *)
From Coq Require Import List Arith Bool Lia.
From C17 Require Import Model ScopeModel.
Import ListNotations.

(* ---------------------------------------------------------------------------------------------- *)
(* lists *)

Lemma upd_length {A} (l : list A) i x : length (upd l i x) = length l.
Proof. revert i; induction l; destruct i; simpl; auto. Qed.

Lemma nth_upd_same (l : list bool) i : i < length l -> nth i (upd l i true) false = true.
Proof. revert i; induction l; destruct i; simpl; intros; try lia; auto. apply IHl; lia. Qed.

Lemma nth_upd_mono (l : list bool) i t : nth t l false = true -> nth t (upd l i true) false = true.
Proof.
  revert i t; induction l; intros i t H; destruct i, t; simpl in *; auto; try discriminate.
Qed.

Lemma nth_upd_other (l : list bool) i t : i <> t -> nth t (upd l i true) false = nth t l false.
Proof.
  revert i t; induction l; intros i t H; destruct i, t; simpl in *; auto; try lia.
Qed.

Lemma nth_error_upd_same {A} (l : list A) i x : i < length l -> nth_error (upd l i x) i = Some x.
Proof. revert i; induction l; destruct i; simpl; intros; try lia; auto. apply IHl; lia. Qed.

Lemma nth_error_upd_other {A} (l : list A) i j x : i <> j -> nth_error (upd l i x) j = nth_error l j.
Proof. revert i j; induction l; destruct i, j; simpl; intros; try lia; auto. Qed.

Lemma mark_length l sy : length (mark l sy) = length sy.
Proof. revert sy; induction l; simpl; intros; auto. rewrite IHl. apply upd_length. Qed.

Lemma mark_mono l sy t : nth t sy false = true -> nth t (mark l sy) false = true.
Proof. revert sy; induction l; simpl; intros; auto. apply IHl. apply nth_upd_mono; auto. Qed.

Lemma mark_true l sy t : In t l -> t < length sy -> nth t (mark l sy) false = true.
Proof.
  revert sy; induction l; simpl; intros sy H Hl; [contradiction|].
  destruct H as [->|H].
  - apply mark_mono. apply nth_upd_same; auto.
  - apply IHl; auto. rewrite upd_length; auto.
Qed.

Lemma mark_other l sy t : ~ In t l -> nth t (mark l sy) false = nth t sy false.
Proof.
  revert sy; induction l; simpl; intros sy H; auto.
  rewrite IHl by tauto. apply nth_upd_other. tauto.
Qed.

Lemma flat_map_ext_in {A B} (f g : A -> list B) l : (forall a, In a l -> f a = g a) -> flat_map f l = flat_map g l.
Proof.
  induction l; simpl; intros H; auto. rewrite H by auto. f_equal. apply IHl. intros; apply H; auto.
Qed.

(* ---------------------------------------------------------------------------------------------- *)
(* the walk over parents *)

Definition older (ps : list (list nat)) : Prop := forall t p, In p (nth t ps []) -> p < t.

Lemma walk_le ps : older ps -> forall f s t, In t (walk ps f s) -> t <= s.
Proof.
  intros Ho f; induction f; simpl; intros s t H; [contradiction|].
  destruct H as [->|H]; [lia|].
  apply in_flat_map in H. destruct H as [p [Hp Ht]].
  apply IHf in Ht. apply Ho in Hp. lia.
Qed.

Lemma walk_fuel ps : older ps -> forall f s, s < f -> walk ps f s = walk ps (S s) s.
Proof.
  intros Ho f. induction f as [f IH] using lt_wf_ind. intros s Hs.
  destruct f; [lia|]. simpl. f_equal.
  apply flat_map_ext_in. intros p Hp. pose proof (Ho _ _ Hp) as Hlt.
  transitivity (walk ps (S p) p); [apply (IH f); lia|symmetry; apply (IH s); lia].
Qed.

Lemma walk_app ps x : older ps -> forall f s, s < length ps -> walk (ps ++ [x]) f s = walk ps f s.
Proof.
  intros Ho f; induction f; simpl; intros s Hs; auto. f_equal.
  rewrite app_nth1 by auto.
  apply flat_map_ext_in. intros p Hp. apply IHf. apply Ho in Hp. lia.
Qed.

Lemma walk_self ps f s : In s (walk ps (S f) s).
Proof. simpl; auto. Qed.

(* what a lookup reaches from c it also reaches from any scope that reaches c *)
Lemma walk_trans ps : older ps -> forall f s c, s < f -> In c (walk ps f s) -> incl (walk ps (S c) c) (walk ps f s).
Proof.
  intros Ho f; induction f; intros s c Hs H; [lia|].
  simpl in H. destruct H as [->|H].
  - rewrite (walk_fuel ps Ho (S f) c Hs). apply incl_refl.
  - apply in_flat_map in H. destruct H as [p [Hp Hc]].
    pose proof (Ho _ _ Hp) as Hlt.
    intros t Ht. simpl. right. apply in_flat_map. exists p. split; auto.
    apply (IHf p c); auto. lia.
Qed.

(* ---------------------------------------------------------------------------------------------- *)
(* invariants *)

Definition wf (st : sstate) : Prop :=
  length (syn st) = length (pars st) /\ older (pars st) /\
  (forall i stk s, nth_error (stacks st) i = Some stk -> In s stk -> s < length (pars st)).

Definition safe (st : sstate) : Prop :=
  forall i j t, i <> j -> touches st i t -> touches st j t -> synced st t = true.

(* a synchronized scope was shared together with everything a lookup reaches from it *)
Definition closed (st : sstate) : Prop :=
  forall t u, synced st t = true -> In u (anc st t) -> synced st u = true.

(* a call uses a closure that is lexically visible (its scope is reached from the caller's scope) or whose
   scope is synchronized already *)
Definition guard_op (st : sstate) (i : nat) (o : sop) : Prop :=
  match o with
  | SCall c => exists s rest, nth_error (stacks st) i = Some (s :: rest) /\ (In c (anc st s) \/ synced st c = true)
  | _ => True
  end.

Lemma touches_lt st i t : wf st -> touches st i t -> t < length (pars st).
Proof.
  intros [_ [Ho Hs]] [stk [s [Hn [Hin Ht]]]].
  apply (walk_le _ Ho) in Ht. pose proof (Hs _ _ _ Hn Hin). lia.
Qed.

Lemma wf_init : wf sinit.
Proof.
  split; [reflexivity|]. split.
  - intros t p H. destruct t as [|[|t]]; simpl in H; contradiction.
  - intros i stk s H Hin. destruct i as [|[|i]]; simpl in H; try discriminate.
    injection H as <-. destruct Hin as [<-|[]]. simpl; lia.
Qed.

Lemma safe_init : safe sinit.
Proof.
  intros i j t Hij [stk [s [Hn _]]] [stk' [s' [Hn' _]]].
  destruct i as [|[|i]], j as [|[|j]]; simpl in *; try discriminate; lia.
Qed.

Lemma older_app ps l : older ps -> (forall p, In p l -> p < length ps) -> older (ps ++ [l]).
Proof.
  intros Ho Hl t p H.
  destruct (Nat.lt_ge_cases t (length ps)) as [Hlt|Hge].
  - rewrite app_nth1 in H by auto. apply Ho; auto.
  - destruct (Nat.eq_dec t (length ps)) as [->|Hne].
    + rewrite app_nth2 in H by lia. rewrite Nat.sub_diag in H. simpl in H. apply Hl; auto.
    + rewrite nth_overflow in H by (rewrite app_length; simpl; lia). contradiction.
Qed.

Lemma synced_lt st t : wf st -> synced st t = true -> t < length (pars st).
Proof.
  intros [Hlen _] H. unfold synced in H.
  destruct (Nat.lt_ge_cases t (length (syn st))) as [Hlt|Hge]; [lia|].
  rewrite nth_overflow in H by auto. discriminate.
Qed.

(* a push of a new scope n on routine i's stack; its parents l are reached from the old top s or are
   synchronized already *)
Section Push.
  Variables (st : sstate) (i s : nat) (rest l : list nat).
  Let n := length (pars st).
  Let st' := mkSS (pars st ++ [l]) (syn st ++ [false]) (upd (stacks st) i (n :: s :: rest)).
  Hypothesis Hwf : wf st.
  Hypothesis Hcl : closed st.
  Hypothesis Hstk : nth_error (stacks st) i = Some (s :: rest).
  Hypothesis Hl : forall p, In p l -> In p (anc st s) \/ synced st p = true.

  Lemma push_l_lt : forall p, In p l -> p < n.
  Proof.
    intros p Hp. destruct (Hl _ Hp) as [Hp'|Hp'].
    - destruct Hwf as [_ [Ho Hs]].
      apply (walk_le _ Ho) in Hp'. pose proof (Hs _ _ _ Hstk (or_introl eq_refl)). unfold n. lia.
    - apply synced_lt; auto.
  Qed.

  Lemma push_wf : wf st'.
  Proof.
    destruct Hwf as [Hlen [Ho Hs]]. split; [|split].
    - unfold st'; simpl. rewrite !app_length. simpl. lia.
    - unfold st'; simpl. apply older_app; auto. apply push_l_lt.
    - unfold st'; simpl. intros j stk x Hn Hin. rewrite app_length; simpl.
      destruct (Nat.eq_dec i j) as [<-|Hne].
      + rewrite nth_error_upd_same in Hn by (apply nth_error_Some; congruence).
        injection Hn as <-. destruct Hin as [<-|Hin]; [unfold n; lia|].
        pose proof (Hs _ _ _ Hstk Hin). lia.
      + rewrite nth_error_upd_other in Hn by auto. pose proof (Hs _ _ _ Hn Hin). lia.
  Qed.

  Lemma push_anc_old : forall x, x < n -> anc st' x = anc st x.
  Proof.
    intros x Hx. unfold anc, st'; cbn [pars]. destruct Hwf as [_ [Ho _]]. apply walk_app; auto.
  Qed.

  Lemma push_synced_old : forall x, x < n -> synced st' x = synced st x.
  Proof.
    intros x Hx. unfold synced, st'; simpl. apply app_nth1. destruct Hwf as [Hlen _]. unfold n in Hx. lia.
  Qed.

  Lemma push_synced_new : synced st' n = false.
  Proof.
    unfold synced, st'; simpl. destruct Hwf as [Hlen _]. rewrite app_nth2 by (unfold n; lia).
    unfold n. rewrite Hlen, Nat.sub_diag. reflexivity.
  Qed.

  Lemma push_anc_new : forall t, In t (anc st' n) -> t = n \/ In t (anc st s) \/ (synced st t = true /\ t < n).
  Proof.
    intros t H. destruct Hwf as [_ [Ho Hs]].
    unfold anc, st' in H; simpl in H. fold n in H.
    destruct H as [H|H]; [left; auto|right].
    rewrite app_nth2 in H by (fold n; lia). fold n in H. rewrite Nat.sub_diag in H. simpl in H.
    apply in_flat_map in H. destruct H as [p [Hp Ht]].
    pose proof (push_l_lt _ Hp) as Hlt.
    rewrite walk_app in Ht by auto. rewrite (walk_fuel _ Ho n p Hlt) in Ht.
    destruct (Hl _ Hp) as [Hp'|Hp'].
    - left. unfold anc in *.
      apply (walk_trans _ Ho (S s) s p (Nat.lt_succ_diag_r s) Hp'). auto.
    - right. split.
      + apply (Hcl p t Hp'). exact Ht.
      + apply (walk_le _ Ho) in Ht. lia.
  Qed.

  Lemma push_touches : forall j t, touches st' j t -> (j = i /\ t = n) \/ touches st j t \/ (synced st t = true /\ t < n).
  Proof.
    intros j t [stk [x [Hn [Hin Ht]]]]. unfold st' in Hn; simpl in Hn.
    destruct Hwf as [_ [Ho Hs]].
    destruct (Nat.eq_dec i j) as [<-|Hne].
    - rewrite nth_error_upd_same in Hn by (apply nth_error_Some; congruence).
      injection Hn as <-. destruct Hin as [<-|Hin].
      + apply push_anc_new in Ht. destruct Ht as [->|[Ht|Ht]]; [left; auto| |right; right; auto].
        right. left. exists (s :: rest), s. simpl; auto.
      + right. left. exists (s :: rest), x. split; auto. split; auto.
        rewrite push_anc_old in Ht; auto. apply (Hs _ _ _ Hstk Hin).
    - rewrite nth_error_upd_other in Hn by auto.
      right. left. exists stk, x. split; auto. split; auto.
      rewrite push_anc_old in Ht; auto. apply (Hs _ _ _ Hn Hin).
  Qed.

  Lemma push_safe : safe st -> safe st'.
  Proof.
    intros Hsafe a b t Hab Ha Hb.
    apply push_touches in Ha. apply push_touches in Hb.
    assert (Hold : forall j, touches st j t -> t < n) by (intros j Hj; apply (touches_lt st j); auto).
    assert (Hsy : synced st t = true -> t < n -> synced st' t = true).
    { intros H Hlt. rewrite push_synced_old; auto. }
    destruct Ha as [[Ea Et]|[Ta|[Sa La]]]; destruct Hb as [[Eb Et']|[Tb|[Sb Lb]]].
    - exfalso; apply Hab; congruence.
    - apply Hold in Tb. lia.
    - lia.
    - apply Hold in Ta. lia.
    - apply Hsy; [apply (Hsafe a b t Hab Ta Tb)|apply (Hold _ Ta)].
    - apply Hsy; assumption.
    - lia.
    - apply Hsy; assumption.
    - apply Hsy; assumption.
  Qed.

  Lemma push_closed : closed st'.
  Proof.
    intros t u Ht Hu.
    destruct (Nat.lt_ge_cases t n) as [Hlt|Hge].
    - rewrite push_synced_old in Ht by auto. rewrite push_anc_old in Hu by auto.
      pose proof (Hcl t u Ht Hu) as H. rewrite push_synced_old; auto. apply synced_lt; auto.
    - destruct (Nat.eq_dec t n) as [->|Hne].
      + rewrite push_synced_new in Ht. discriminate.
      + unfold synced, st' in Ht; simpl in Ht. rewrite nth_overflow in Ht; [discriminate|].
        rewrite app_length; simpl. destruct Hwf as [Hlen _]. unfold n in *. lia.
  Qed.
End Push.

Lemma step_inv st i o st' : wf st -> safe st -> closed st -> guard_op st i o -> sstep st i o = Some st' ->
  wf st' /\ safe st' /\ closed st'.
Proof.
  intros Hwf Hsafe Hcl Hg H. unfold sstep in H.
  destruct (nth_error (stacks st) i) as [[|s rest]|] eqn:Hstk; try discriminate.
  destruct o.
  - (* let *)
    injection H as <-.
    assert (Hl : forall p, In p [s] -> In p (anc st s) \/ synced st p = true).
    { intros p [<-|[]]. left. unfold anc. apply walk_self. }
    split; [apply push_wf|split; [apply push_safe|apply push_closed]]; auto.
  - (* call *)
    destruct (Nat.ltb c (length (pars st))) eqn:Hc; try discriminate. injection H as <-.
    destruct Hg as [s0 [rest0 [Hstk0 Hin]]]. rewrite Hstk in Hstk0. injection Hstk0 as <- <-.
    assert (Hl : forall p, In p [c; s] -> In p (anc st s) \/ synced st p = true).
    { intros p [<-|[<-|[]]]; auto. left. unfold anc. apply walk_self. }
    split; [apply push_wf|split; [apply push_safe|apply push_closed]]; auto.
  - (* end *)
    injection H as <-. destruct Hwf as [Hlen [Ho Hs]].
    assert (Ht : forall j t, touches (mkSS (pars st) (syn st) (upd (stacks st) i rest)) j t -> touches st j t).
    { intros j t [stk [x [Hn [Hin Ht]]]]. simpl in Hn.
      destruct (Nat.eq_dec i j) as [<-|Hne].
      - rewrite nth_error_upd_same in Hn by (apply nth_error_Some; congruence). injection Hn as <-.
        exists (s :: rest), x. simpl; auto.
      - rewrite nth_error_upd_other in Hn by auto. exists stk, x; auto. }
    split; [|split].
    + split; [auto|split; auto]. simpl. intros j stk x Hn Hin.
      destruct (Nat.eq_dec i j) as [<-|Hne].
      * rewrite nth_error_upd_same in Hn by (apply nth_error_Some; congruence). injection Hn as <-.
        apply (Hs _ _ _ Hstk). simpl; auto.
      * rewrite nth_error_upd_other in Hn by auto. apply (Hs _ _ _ Hn Hin).
    + intros a b t Hab Ha Hb. apply Ht in Ha. apply Ht in Hb. apply (Hsafe a b t Hab Ha Hb).
    + exact Hcl.
  - (* run *)
    injection H as <-. pose proof Hwf as [Hlen [Ho Hs]].
    set (st' := mkSS (pars st) (mark (anc st s) (syn st)) (stacks st ++ [[s]])).
    assert (Ht : forall j t, touches st' j t -> touches st j t \/ (j = length (stacks st) /\ In t (anc st s))).
    { intros j t [stk [x [Hn [Hin Ht]]]]. unfold st' in Hn; simpl in Hn.
      destruct (Nat.lt_ge_cases j (length (stacks st))) as [Hlt|Hge].
      - rewrite nth_error_app1 in Hn by auto. left. exists stk, x; auto.
      - right. rewrite nth_error_app2 in Hn by auto.
        destruct (j - length (stacks st)) as [|k] eqn:Hk; simpl in Hn.
        + injection Hn as <-. destruct Hin as [<-|[]]. split; [lia|auto].
        + destruct k; discriminate. }
    assert (Hsn : s < length (pars st)) by (apply (Hs i (s :: rest) s Hstk); simpl; auto).
    assert (Hmark : forall t, In t (anc st s) -> synced st' t = true).
    { intros t Hin. change (nth t (mark (anc st s) (syn st)) false = true). apply mark_true; [exact Hin|].
      unfold anc in Hin. apply (walk_le _ Ho) in Hin. rewrite Hlen. lia. }
    split; [|split].
    + split; [|split; auto].
      * change (length (mark (anc st s) (syn st)) = length (pars st)). rewrite mark_length. exact Hlen.
      * unfold st'; cbn [stacks pars]. intros j stk x Hn Hin.
        destruct (Nat.lt_ge_cases j (length (stacks st))) as [Hlt|Hge].
        -- rewrite nth_error_app1 in Hn by auto. apply (Hs _ _ _ Hn Hin).
        -- rewrite nth_error_app2 in Hn by auto.
           destruct (j - length (stacks st)) as [|k]; simpl in Hn.
           ++ injection Hn as <-. destruct Hin as [<-|[]]. exact Hsn.
           ++ destruct k; discriminate.
    + intros a b t Hab Ha Hb. apply Ht in Ha. apply Ht in Hb.
      destruct Ha as [Ta|[_ Ta]]; [|apply Hmark; auto].
      destruct Hb as [Tb|[_ Tb]]; [|apply Hmark; auto].
      change (nth t (mark (anc st s) (syn st)) false = true). apply mark_mono. apply (Hsafe a b t Hab Ta Tb).
    + (* closed: what is newly marked lies in anc s, and so does everything reached from it *)
      intros t u Ht' Hu. change (anc st' t) with (anc st t) in Hu.
      destruct (in_dec Nat.eq_dec t (anc st s)) as [Hin|Hnin].
      * apply Hmark. unfold anc in *.
        apply (walk_trans _ Ho (S s) s t (Nat.lt_succ_diag_r s) Hin). exact Hu.
      * change (nth t (mark (anc st s) (syn st)) false = true) in Ht'. rewrite mark_other in Ht' by auto.
        change (nth u (mark (anc st s) (syn st)) false = true). apply mark_mono. apply (Hcl t u Ht' Hu).
  - (* a synchronized instance scope: no parents, on nobody's stack *)
    injection H as <-. pose proof Hwf as [Hlen [Ho Hs]].
    set (n := length (pars st)).
    set (st' := mkSS (pars st ++ [[]]) (syn st ++ [true]) (stacks st)).
    assert (Hanc : forall x, x < n -> anc st' x = anc st x).
    { intros x Hx. unfold anc, st'; cbn [pars]. apply walk_app; auto. }
    assert (Hsyn : forall x, x < n -> synced st' x = synced st x).
    { intros x Hx. unfold synced, st'; simpl. apply app_nth1. unfold n in Hx. lia. }
    assert (Ht : forall j t, touches st' j t -> touches st j t).
    { intros j t [stk [x [Hn [Hin Ht]]]]. unfold st' in Hn; simpl in Hn.
      exists stk, x. split; auto. split; auto. rewrite Hanc in Ht; auto. apply (Hs _ _ _ Hn Hin). }
    split; [|split].
    + split; [|split].
      * unfold st'; simpl. rewrite !app_length. simpl. lia.
      * unfold st'; simpl. apply older_app; auto. intros p [].
      * unfold st'; simpl. intros j stk x Hn Hin. rewrite app_length; simpl. pose proof (Hs _ _ _ Hn Hin). lia.
    + intros a b t Hab Ha Hb. apply Ht in Ha. apply Ht in Hb.
      pose proof (Hsafe a b t Hab Ha Hb) as H. rewrite Hsyn; auto. apply (touches_lt st a); auto.
    + intros t u Ht' Hu.
      destruct (Nat.lt_ge_cases t n) as [Hlt|Hge].
      * rewrite Hsyn in Ht' by auto. rewrite Hanc in Hu by auto.
        pose proof (Hcl t u Ht' Hu) as H. rewrite Hsyn; auto. apply synced_lt; auto.
      * destruct (Nat.eq_dec t n) as [->|Hne].
        -- unfold anc, st' in Hu; simpl in Hu. rewrite app_nth2 in Hu by (fold n; lia).
           fold n in Hu. rewrite Nat.sub_diag in Hu. simpl in Hu. destruct Hu as [<-|[]]. exact Ht'.
        -- unfold synced, st' in Ht'; simpl in Ht'. rewrite nth_overflow in Ht'; [discriminate|].
           rewrite app_length; simpl. fold n. unfold n in *. lia.
Qed.

Lemma closed_init : closed sinit.
Proof.
  intros t u H. destruct t as [|[|t]]; simpl in H; discriminate.
Qed.

(* every state of every program: any interleaving of lets, calls of visible closures, returns and runs *)
Inductive sreach : sstate -> Prop :=
| sr_init : sreach sinit
| sr_step st i o st' : sreach st -> guard_op st i o -> sstep st i o = Some st' -> sreach st'.

Lemma guardb_ok st i o : guardb st i o = true -> guard_op st i o.
Proof.
  destruct o; unfold guardb, guard_op; auto.
  destruct (nth_error (stacks st) i) as [[|s rest]|]; try discriminate.
  intros H. exists s, rest. split; auto. apply orb_prop in H. destruct H as [H|H]; [left|right; exact H].
  apply existsb_exists in H. destruct H as [x [Hin Hx]]. apply Nat.eqb_eq in Hx. subst x. exact Hin.
Qed.

Lemma srun_g_reach : forall sch st st', sreach st -> srun_g st sch = Some st' -> sreach st'.
Proof.
  induction sch as [|[i o] sch IH]; simpl; intros st st' Hr H.
  - injection H as <-. auto.
  - destruct (guardb st i o) eqn:Hg; try discriminate.
    destruct (sstep st i o) as [st1|] eqn:Hs; try discriminate.
    apply (IH st1); auto. apply (sr_step st i o st1); auto. apply guardb_ok; auto.
Qed.

Lemma sreach_inv st : sreach st -> wf st /\ safe st /\ closed st.
Proof.
  induction 1 as [|st i o st' _ [Hwf [Hsafe Hcl]] Hg Hstep].
  - split; [apply wf_init|split; [apply safe_init|apply closed_init]].
  - apply (step_inv st i o st'); auto.
Qed.

Theorem shared_scope_synchronized : forall st i j t,
  sreach st -> i <> j -> touches st i t -> touches st j t -> synced st t = true.
Proof. intros st i j t H. apply (proj1 (proj2 (sreach_inv st H))). Qed.

(* what run is for: after (run form) in scope s every scope a lookup reaches from s is synchronized - all parents of
   every scope on the way, also those that come after a parent that was synchronized before *)
Theorem run_synchronizes_all_reachable : forall st i st' stk s t,
  sreach st -> sstep st i SRun = Some st' -> nth_error (stacks st) i = Some (s :: stk) -> In t (anc st s) ->
  synced st' t = true.
Proof.
  intros st i st' stk s t Hr Hstep Hstk Hin. destruct (sreach_inv st Hr) as [[Hlen [Ho Hs]] _].
  unfold sstep in Hstep. rewrite Hstk in Hstep. injection Hstep as <-.
  change (nth t (mark (anc st s) (syn st)) false = true). apply mark_true; auto.
  unfold anc in Hin. apply (walk_le _ Ho) in Hin.
  assert (s < length (pars st)) by (apply (Hs i (s :: stk) s Hstk); simpl; auto). lia.
Qed.

(* ... and a synchronized scope has everything it reaches synchronized (which is why a walk MAY skip what lies
   behind a synchronized parent - but not the parents next to it) *)
Theorem synchronized_scope_is_closed : forall st t u,
  sreach st -> synced st t = true -> In u (anc st t) -> synced st u = true.
Proof. intros st t u H. apply (proj2 (proj2 (sreach_inv st H))). Qed.

(* locker.go: "changing from one to the other should only be done while there is only one thread using the
   Locker": whenever run switches the locker of scope t, no other routine can reach t *)
Theorem share_switches_while_single_user : forall st i st' t j,
  sreach st -> sstep st i SRun = Some st' -> synced st t = false -> synced st' t = true ->
  j <> i -> ~ touches st j t.
Proof.
  intros st i st' t j Hr Hstep Hf Ht Hji Hj.
  unfold sstep in Hstep. destruct (nth_error (stacks st) i) as [[|s rest]|] eqn:Hstk; try discriminate.
  injection Hstep as <-. unfold synced in *.
  change (nth t (mark (anc st s) (syn st)) false = true) in Ht.
  destruct (in_dec Nat.eq_dec t (anc st s)) as [Hin|Hnin].
  - assert (Ti : touches st i t).
    { exists (s :: rest), s. split; [exact Hstk|]. split; [simpl; auto|exact Hin]. }
    pose proof (shared_scope_synchronized st j i t Hr Hji Hj Ti) as H. unfold synced in H. congruence.
  - rewrite mark_other in Ht by auto. congruence.
Qed.

(* a program that never calls run pays nothing: no scope gets a mutex *)
Definition norun (sch : list (nat * sop)) : bool :=
  forallb (fun io => match snd io with SRun | SInst => false | _ => true end) sch.

Lemma nth_app_false (l : list bool) t : (forall x, nth x l false = false) -> nth t (l ++ [false]) false = false.
Proof.
  intros H. destruct (Nat.lt_ge_cases t (length l)).
  - rewrite app_nth1; auto.
  - rewrite app_nth2 by auto. destruct (t - length l) as [|[|k]]; reflexivity.
Qed.

Theorem no_run_no_mutex : forall sch st, srun sinit sch = Some st -> norun sch = true -> forall t, synced st t = false.
Proof.
  intros sch.
  assert (G : forall st0 st, (forall t, synced st0 t = false) -> srun st0 sch = Some st -> norun sch = true ->
                             forall t, synced st t = false).
  { induction sch as [|[i o] sch IH]; simpl; intros st0 st H0 Hr Hn.
    - injection Hr as <-. auto.
    - destruct (sstep st0 i o) as [st1|] eqn:Hs; try discriminate.
      apply andb_prop in Hn. destruct Hn as [Ho Hn]. simpl in Ho.
      apply (IH st1 st); auto.
      unfold sstep in Hs. destruct (nth_error (stacks st0) i) as [[|s rest]|]; try discriminate.
      destruct o; try discriminate.
      + injection Hs as <-. intros t. unfold synced; simpl. apply nth_app_false. apply H0.
      + destruct (Nat.ltb c (length (pars st0))); try discriminate.
        injection Hs as <-. intros t. unfold synced; simpl. apply nth_app_false. apply H0.
      + injection Hs as <-. auto. }
  intros st Hr Hn. apply (G sinit st); auto.
  intros t. destruct t as [|[|t]]; reflexivity.
Qed.

(* REFUTED without the guard: a function defined inside a let and called by two routines
   ((let ((n 0) (m (make-mutex))) (defun bump () ...)) (run (bump)) (bump)): its closure scope (1) is not reached
   from the scope the routines were started in, Share never sees it, both routines use it unsynchronized *)
Definition closure_witness : list (nat * sop) := [(0, SLet); (0, SEnd); (0, SRun); (0, SCall 1); (1, SCall 1)].
Theorem global_closure_scope_unsynchronized_refuted :
  exists st, srun sinit closure_witness = Some st /\ touches st 0 1 /\ touches st 1 1 /\ synced st 1 = false.
Proof.
  eexists. split; [reflexivity|]. split; [|split; [|reflexivity]].
  - exists [2; 0], 2. split; [reflexivity|]. split; [simpl; auto|]. vm_compute. auto.
  - exists [3; 0], 3. split; [reflexivity|]. split; [simpl; auto|]. vm_compute. auto.
Qed.

(* REFUTED for the seeded Share that stops at the first synchronized parent (break): a closure made in scope 1 is
   called from scope 1 and starts a routine (everything shared); it is called again from a fresh let (scope 3):
   the call scope 4 has the parents [1; 3], 1 is synchronized, the walk stops, 3 stays unsynchronized although the
   new routine reaches it *)
Definition break_witness : list (nat * sop) :=
  [(0, SLet); (0, SCall 1); (0, SRun); (0, SEnd); (0, SLet); (0, SCall 1); (0, SRun)].
Theorem share_stopping_at_synchronized_parent_refuted :
  exists st, srun_break sinit break_witness = Some st /\ touches st 0 3 /\ touches st 2 3 /\ synced st 3 = false.
Proof.
  eexists. split; [reflexivity|]. split; [|split; [|reflexivity]].
  - exists [4; 3; 1; 0], 3. split; [reflexivity|]. split; [simpl; auto|]. vm_compute. auto.
  - exists [4], 4. split; [reflexivity|]. split; [simpl; auto|]. vm_compute. auto.
Qed.
(* the same history with the real Share: scope 3 is synchronized *)
Theorem share_example_two_calls :
  exists st, srun_g sinit break_witness = Some st /\ sreach st /\ map (synced st) [0; 1; 2; 3; 4] = [true; true; true; true; true].
Proof.
  eexists. split; [reflexivity|]. split; [|reflexivity].
  apply (srun_g_reach break_witness sinit); [apply sr_init|reflexivity].
Qed.

(* non-vacuity: the documented example (let, two runs from it, the routines call a visible closure) is inside
   the guard, ends with the let scope and the root synchronized and the private scopes not *)
Definition example_sched : list (nat * sop) :=
  [(0, SLet); (0, SRun); (0, SRun); (1, SLet); (2, SCall 1); (1, SEnd); (0, SEnd)].
Theorem scope_example :
  exists st, srun_g sinit example_sched = Some st /\ sreach st /\ map (synced st) [0; 1; 2; 3] = [true; true; false; false] /\
             touches st 1 1 /\ touches st 2 1.
Proof.
  eexists. split; [reflexivity|]. split; [|split; [reflexivity|split]].
  - apply (srun_g_reach example_sched sinit); [apply sr_init|reflexivity].
  - exists [1], 1. split; [reflexivity|]. split; [simpl; auto|]. vm_compute. auto.
  - exists [3; 1], 3. split; [reflexivity|]. split; [simpl; auto|]. vm_compute. auto.
Qed.

(* ---------------------------------------------------------------------------------------------- *)
(* the compile slot *)

Definition cinv (st : cstate) : Prop :=
  match slot st with
  | None => writes st = 0 /\ forall i c, nth_error (phases st) i <> Some (CUse c)
  | Some c => writes st = 1 /\ forall i c', nth_error (phases st) i = Some (CUse c') -> c' = c
  end.

Lemma nth_error_upd_cases {A} (l : list A) i j x y :
  nth_error (upd l i x) j = Some y -> (i = j /\ y = x) \/ nth_error l j = Some y.
Proof.
  intros H. destruct (Nat.eq_dec i j) as [<-|Hne].
  - destruct (Nat.lt_ge_cases i (length l)).
    + rewrite nth_error_upd_same in H by auto. injection H as <-. auto.
    + assert (nth_error (upd l i x) i = None) by (apply nth_error_None; rewrite upd_length; auto). congruence.
  - rewrite nth_error_upd_other in H by auto. auto.
Qed.

Lemma cstep_inv st i st' : cinv st -> cstep st i = Some st' -> cinv st'.
Proof.
  unfold cinv, cstep. intros H Hs.
  destruct (nth_error (phases st) i) as [[| |c0]|] eqn:Hp; try discriminate;
    destruct (slot st) as [c|] eqn:Hsl; injection Hs as <-; simpl.
  - destruct H as [Hw H]. split; auto. intros j c' Hj.
    apply nth_error_upd_cases in Hj. destruct Hj as [[_ Hj]|Hj]; [congruence|eauto].
  - destruct H as [Hw H]. split; auto. intros j c' Hj.
    apply nth_error_upd_cases in Hj. destruct Hj as [[_ Hj]|Hj]; [discriminate|]. apply (H j c'); auto.
  - destruct H as [Hw H]. split; auto. intros j c' Hj.
    apply nth_error_upd_cases in Hj. destruct Hj as [[_ Hj]|Hj]; [congruence|eauto].
  - destruct H as [Hw H]. split; [lia|]. intros j c' Hj.
    apply nth_error_upd_cases in Hj. destruct Hj as [[_ Hj]|Hj]; [congruence|]. exfalso. apply (H j c'); auto.
Qed.

Lemma crun_inv sch : forall st st', cinv st -> crun st sch = Some st' -> cinv st'.
Proof.
  induction sch as [|i sch IH]; simpl; intros st st' H Hr.
  - injection Hr as <-. auto.
  - destruct (cstep st i) as [st1|] eqn:Hs; try discriminate.
    apply (IH st1); auto. apply (cstep_inv st i); auto.
Qed.

Lemma cinv_init n : cinv (cinit n).
Proof.
  unfold cinv, cinit; simpl. split; auto. intros i c H.
  apply nth_error_In in H. apply repeat_spec in H. discriminate.
Qed.

(* any number of threads, any interleaving: the slot is stored at most once, and every thread that has got
   its compiled object evaluates the one object that is in the slot *)
Theorem compile_slot_converges : forall n sch st, crun (cinit n) sch = Some st ->
  writes st <= 1 /\ forall i c, nth_error (phases st) i = Some (CUse c) -> slot st = Some c.
Proof.
  intros n sch st Hr. pose proof (crun_inv sch _ _ (cinv_init n) Hr) as H. unfold cinv in H.
  destruct (slot st) as [c0|].
  - destruct H as [Hw H]. split; [lia|]. intros i c Hi. f_equal. symmetry. apply (H i c Hi).
  - destruct H as [Hw H]. split; [lia|]. intros i c Hi. exfalso. apply (H i c Hi).
Qed.

(* the unconditional store before the repair: two threads, two stores, two different objects in use *)
Theorem original_store_diverges_refuted :
  exists st, crun_orig (cinit 2) [0; 1; 0; 1] = Some st /\ writes st = 2 /\
             nth_error (phases st) 0 = Some (CUse 0) /\ nth_error (phases st) 1 = Some (CUse 1) /\ slot st = Some 1.
Proof. eexists. repeat split; reflexivity. Qed.

Theorem compile_slot_example :
  exists st, crun (cinit 3) [0; 1; 1; 0; 2] = Some st /\ writes st = 1 /\ phases st = [CUse 1; CUse 1; CUse 1].
Proof. eexists. repeat split; reflexivity. Qed.
