(* C17 — property theorems only.  `reach p s` = "some schedule (any list of scheduler picks) leads program p
   from its initial state to s"; every theorem below is about ALL programs of the model (any number of
   routines, any buffer sizes, any nesting) and ALL schedules.  What the model cannot exhibit (Go scheduler,
   data races on interpreter globals, fatal `concurrent map` errors) is exercised on the implementation only:
   see props/C17.json. *)
From C17 Require Import Model Spec Steps ChanProofs MutexProofs CounterProofs FlatProofs ObsProofs Explore Corr Proofs ScopeModel ScopeProofs TableModel TableProofs ProofsReduction.

(* (1) "every item pushed on a channel is received exactly once".
   Conservation: what was sent on a channel = what was received ++ what is still queued ++ what a close
   dropped from parked senders (whose push then fails); in that order: nothing lost, duplicated, reordered. *)
Theorem C17_channel_conservation : forall p s c ch, reach p s -> nth_error (chs s) c = Some ch ->
  sent ch = items (rcvd ch) ++ q ch ++ dropped ch.
Proof. exact channel_conservation. Qed.
Print Assumptions C17_channel_conservation.

(* at most once: distinct items sent are received as distinct items *)
Theorem C17_received_at_most_once : forall p s c ch, reach p s -> nth_error (chs s) c = Some ch ->
  NoDup (sent ch) -> NoDup (items (rcvd ch)).
Proof. exact received_at_most_once. Qed.
Print Assumptions C17_received_at_most_once.

(* exactly once, at quiescence with the consumers draining: nothing queued, nothing dropped *)
Theorem C17_received_exactly_once : forall p s c ch, reach p s -> nth_error (chs s) c = Some ch ->
  q ch = [] -> dropped ch = [] -> items (rcvd ch) = sent ch.
Proof. exact received_exactly_once. Qed.
Print Assumptions C17_received_exactly_once.

(* (2) "items from one producer are received in the order pushed": what consumer i received from producer j,
   in i's order of reception, is a subsequence of what j sent, in j's order of sending ... *)
Theorem C17_per_producer_fifo : forall p s c ch i j, reach p s -> nth_error (chs s) c = Some ch ->
  subseq (from_ j (items (by_ i (rcvd ch)))) (from_ j (sent ch)).
Proof. exact per_producer_fifo. Qed.
Print Assumptions C17_per_producer_fifo.

(* ... and the log the consumer itself keeps (what the harness sees) is exactly those receptions *)
Theorem C17_log_shows_receptions : forall p s i r c ch, reach p s ->
  nth_error (rs s) i = Some r -> nth_error (chs s) c = Some ch ->
  pops c (log r) = map rcv_val (by_ i (rcvd ch)).
Proof. exact log_shows_receptions. Qed.
Print Assumptions C17_log_shows_receptions.

(* select, for EVERY clause order and with timeout clauses anywhere among the channel clauses: the item is taken
   from the channel of the chosen clause, delivered to that very clause (its log entry names the clause's channel),
   no other channel changes; a timeout clause whose timer has not fired never runs *)
Theorem C17_select_delivers_to_its_clause : forall s i k s' r f rest cs ops',
  nth_error (rs s) i = Some r -> stk r = f :: rest -> unw r = false -> ext r = None -> fops f = OSelect cs :: ops' ->
  step s i k = Some s' ->
  exists c ch ch' v r',
    nth_error cs k = Some (Some c) /\ nth_error (chs s) c = Some ch /\ take ch i = Some (v, ch') /\
    chs s' = upd (chs s) c ch' /\ nth_error (rs s') i = Some r' /\
    log r' = log r ++ [EvPop c v] /\ got r' = v /\ stk r' = mkF (fk f) ops' :: rest.
Proof. exact select_delivers_to_its_clause. Qed.
Print Assumptions C17_select_delivers_to_its_clause.

Theorem C17_select_never_runs_timeout_clause : forall s i k r f rest cs ops',
  nth_error (rs s) i = Some r -> stk r = f :: rest -> unw r = false -> ext r = None -> fops f = OSelect cs :: ops' ->
  nth_error cs k = Some None -> step s i k = None.
Proof. exact select_never_runs_timeout_clause. Qed.
Print Assumptions C17_select_never_runs_timeout_clause.

(* (3) "code inside with-mutex-lock on the same mutex never overlaps" *)
Theorem C17_mutual_exclusion : forall p s m i j, reach p s -> inside s i m -> inside s j m -> i = j.
Proof. exact mutual_exclusion. Qed.
Print Assumptions C17_mutual_exclusion.

(* the mutex is held exactly while its holder is inside the body *)
Theorem C17_held_iff_inside : forall p s m i, reach p s -> (nth_error (mus s) m = Some (Some i) <-> inside s i m).
Proof. exact held_iff_inside. Qed.
Print Assumptions C17_held_iff_inside.

(* (4) "the mutex is free again after any exit": whichever step takes routine i out of the body -- its end,
   or an error unwinding through it (the deferred Unlock) -- leaves the mutex free *)
Theorem C17_mutex_free_after_exit : forall p s i k s' m, reach p s -> step s i k = Some s' ->
  inside s i m -> ~ inside s' i m -> nth_error (mus s') m = Some None.
Proof. exact mutex_free_after_exit. Qed.
Print Assumptions C17_mutex_free_after_exit.

(* both kinds of exit occur: an error unwinding through the body, and the end of the body *)
Theorem C17_exit_examples :
  (exists s s', run_sched (init ex_exit) [(0,0); (0,0); (0,0)]%nat = Some s /\ step s 0 0 = Some s' /\
                inside s 0%nat 0%nat /\ ~ inside s' 0%nat 0%nat /\ unw (nth 0 (rs s) (init_routine [])) = true) /\
  (exists s s', run_sched (init ex_exit) [(0,0); (0,0); (0,0); (0,0); (0,0); (0,0)]%nat = Some s /\ step s 0 0 = Some s' /\
                inside s 0%nat 0%nat /\ ~ inside s' 0%nat 0%nat /\ unw (nth 0 (rs s) (init_routine [])) = false).
Proof. exact exit_by_error_and_by_end. Qed.
Print Assumptions C17_exit_examples.

(* ... and the third kind of exit: return-from / go to a block / tagbody OUTSIDE the with-mutex-lock.  In slip these
   produce a marker VALUE that the enclosing forms pass up; C17_mutex_free_after_exit covers the step that takes
   the marker out of a lock frame like any other.  Concretely (both kinds, out of two nested locks and an
   ignore-errors): each mutex is free right after its frame is left, the block catches the marker, the routine
   can take both mutexes again *)
Theorem C17_exit_by_marker : marker_facts false = true /\ marker_facts true = true.
Proof. exact exit_by_marker. Qed.
Print Assumptions C17_exit_by_marker.

(* after the repairs of slip's exit markers (C07-1..21, which this model assumes): a return-from that is NOT the
   last form of with-mutex-lock leaves it all the same - the forms after it are skipped, the mutex is free as soon as
   the marker has left the lock frame (4 moves), the block takes the marker, the routine locks the mutex again *)
Theorem C17_marker_leaves_from_any_position :
  (exists s4, run_sched (init ex_midbody) (repeat (0, 0)%nat 4) = Some s4 /\ mus s4 = [None] /\
              ext (nth 0 (rs s4) (init_routine [])) = Some (false, 0%nat)) /\
  exists sf, run_sched (init ex_midbody) (repeat (0, 0)%nat 9) = Some sf /\ all_finished sf = true /\ mem sf = [0%Z] /\ mus sf = [None] /\
             log (nth 0 (rs sf) (init_routine [])) = [EvLoad 0 0%Z].
Proof. exact marker_leaves_from_any_position. Qed.
Print Assumptions C17_marker_leaves_from_any_position.

Theorem C17_all_free_at_end : forall p s m o, reach p s -> all_finished s = true -> nth_error (mus s) m = Some o -> o = None.
Proof. exact all_free_at_end. Qed.
Print Assumptions C17_all_free_at_end.

(* (5) "updates to a synchronized instance or hash of counters are not lost" -- for updates made inside
   with-mutex-lock: if every access to cell x is the critical section
   (with-mutex-lock m (setq acc <x>) (setf <x> (+ acc k))), then in EVERY reachable state the cell equals its
   initial value plus the sum of all increments executed so far *)
Theorem C17_no_lost_update : forall p x m s, guarded p x m = true -> reach p s ->
  nth x (mem s) 0%Z = (nth x (p_mem p) 0 + nth x (bumps s) 0)%Z.
Proof. exact no_lost_update. Qed.
Print Assumptions C17_no_lost_update.

(* and when all routines have finished, in a program that cannot raise errors: initial value plus the sum
   of the increments written in the program *)
Theorem C17_counter_final : forall p x m s, guarded p x m = true -> nofail p = true -> reach p s -> all_finished s = true ->
  nth x (mem s) 0%Z = (nth x (p_mem p) 0 + total_incs p x)%Z.
Proof. exact counter_final. Qed.
Print Assumptions C17_counter_final.

(* so the result is the same on every schedule, in particular the one of running the routines one after the other *)
Theorem C17_guarded_result_schedule_independent : forall p x m s1 s2, guarded p x m = true -> nofail p = true ->
  reach p s1 -> all_finished s1 = true -> reach p s2 -> all_finished s2 = true -> nth x (mem s1) 0%Z = nth x (mem s2) 0%Z.
Proof. exact guarded_result_schedule_independent. Qed.
Print Assumptions C17_guarded_result_schedule_independent.

(* (5') FULL statement of the property: updates to a synchronized instance are not lost.  FALSE of the
   faithful model: set-synchronized / a global's lock cover each single read and each single write, not the
   read-modify-write; two routines both executing (setf <x> (+ 1 <x>)) can end with 1.  Known finding. *)
Theorem C17_unguarded_rmw_loses_refuted :
  exists s, reach w_unguarded s /\ all_finished s = true /\ nofail w_unguarded = true /\
            nth 0 (bumps s) 0%Z = 2%Z /\ nth 0 (mem s) 0%Z = 1%Z /\ guarded w_unguarded 0 0 = false.
Proof. exact unguarded_rmw_loses_update. Qed.
Print Assumptions C17_unguarded_rmw_loses_refuted.

(* the same with the schedule forced by two unbuffered channels (what the harness replays) *)
Theorem C17_forced_rmw_loses_refuted :
  exists s, reach w_forced s /\ all_finished s = true /\ nth 0 (bumps s) 0%Z = 2%Z /\ nth 0 (mem s) 0%Z = 1%Z.
Proof. exact forced_rmw_loses_update. Qed.
Print Assumptions C17_forced_rmw_loses_refuted.

(* (6) programs that use only mutexes and cells and never nest one with-mutex-lock in another never block
   for good: whenever nothing can move, every routine has finished *)
Theorem C17_flat_no_deadlock : forall p s, flat p = true -> reach p s -> stuck s = true -> all_finished s = true.
Proof. exact flat_no_deadlock. Qed.
Print Assumptions C17_flat_no_deadlock.

(* nesting in opposite orders can block: the restriction is needed *)
Theorem C17_lock_inversion_deadlocks_refuted :
  exists s, reach w_inversion s /\ stuck s = true /\ all_finished s = false /\ flat w_inversion = false.
Proof. exact lock_inversion_deadlocks. Qed.
Print Assumptions C17_lock_inversion_deadlocks_refuted.

(* (7) a program that cannot raise errors never starts unwinding, in particular no routine crashes *)
Theorem C17_nofail_never_unwinds : forall p s, nofail p = true -> reach p s ->
  unwound s = false /\ forall i r, nth_error (rs s) i = Some r -> unw r = false.
Proof. exact nofail_never_unwinds. Qed.
Print Assumptions C17_nofail_never_unwinds.

(* (8) "same result as some sequential execution" -- PARTIAL.  FULL statement: for a program that shares data
   only through these primitives, every result of a concurrent run equals the result of some execution in
   which the critical sections (and the routines, where they do not communicate) run one after the other.
   PROVED: (a) the verified per-run check: an observation accepted with code 0 IS the result of a schedule
   of the interleaving model, which executes one atomic operation at a time (sequential consistency of the
   primitives); (b) every condition in obs_ok holds for whatever any schedule can show, so an observation
   that breaks one (code 2) is outside the model; (c) for guarded counters the result is the one of every
   serial order (C17_counter_final: it does not depend on the schedule).  NOT proved: the reduction theorem
   that every schedule is equivalent to one with un-interleaved critical sections, for arbitrary bodies.
   (Since deepen5: the reduction theorem IS proved for the class `one_mutex_sections` -- see item (13) at the
   end of this file, C17_serial_reduction / C17_serial_reduction_reorders, which subsume (c) for that class; this
   theorem stays as the statement about the per-run checker.) *)
Theorem C17_serial_outcome_partial : forall p o sch, check_case (p, o, Some sch) = 0%N ->
  exists s, reach p s /\ matches s o = true /\ obs_ok p o = true.
Proof. exact check_zero_sound. Qed.
Print Assumptions C17_serial_outcome_partial.

Theorem C17_obs_ok_sound : forall p s o, reach p s -> matches s o = true -> obs_ok p o = true.
Proof. exact obs_ok_sound. Qed.
Print Assumptions C17_obs_ok_sound.

Theorem C17_code_two_outside_model : forall p o osch, check_case (p, o, osch) = 2%N ->
  forall s, reach p s -> matches s o = false.
Proof. exact check_two_outside_model. Qed.
Print Assumptions C17_code_two_outside_model.

(* the verified exhaustive explorer behind code 2 for small programs: if the closed set of (ghost-erased)
   states it computes contains no state showing the observation, then NO schedule of the program shows it *)
Theorem C17_exhaustive_none_sound : forall fuel p o, exhaustive_none fuel p o = true ->
  forall s, reach p s -> matches s o = false.
Proof. exact exhaustive_none_sound. Qed.
Print Assumptions C17_exhaustive_none_sound.

(* ... and it does say yes and no: two unguarded increments end with 1 or 2, never with 0 or 3 *)
Theorem C17_explorer_example :
  exhaustive_none 500 w_unguarded (obs_unguarded 3) = true /\ exhaustive_none 500 w_unguarded (obs_unguarded 0) = true /\
  exhaustive_none 500 w_unguarded (obs_unguarded 1) = false /\ exhaustive_none 500 w_unguarded (obs_unguarded 2) = false.
Proof. exact explorer_example. Qed.
Print Assumptions C17_explorer_example.

(* (9) non-vacuity: the hypotheses are satisfiable by non-trivial programs, with schedules reaching the end *)
Theorem C17_counter_example :
  guarded ex_counter 0 0 = true /\ nofail ex_counter = true /\ flat ex_counter = true /\ total_incs ex_counter 0 = 10%Z /\
  exists s, run_sched (init ex_counter) ex_counter_sched = Some s /\ all_finished s = true /\ nth 0 (mem s) 0%Z = 15%Z.
Proof. exact counter_example. Qed.
Print Assumptions C17_counter_example.

Theorem C17_chan_example :
  exists s, run_sched (init ex_chan) ex_chan_sched = Some s /\ all_finished s = true /\
    map (fun ch => map e_val (items (rcvd ch))) (chs s) = [[Some 1; Some 11; Some 2]; [Some 100; Some 101]]%Z /\
    mus s = [None] /\ mem s = [7%Z] /\ unwound s = true /\ existsb crashed (rs s) = false.
Proof. exact chan_example. Qed.
Print Assumptions C17_chan_example.

(* an uncaught error in a routine crashes it (on the implementation: the process), after freeing the mutex *)
Theorem C17_uncaught_error_crashes :
  exists s, reach w_crash s /\ existsb crashed (rs s) = true /\ mus s = [None].
Proof. exact uncaught_error_crashes_but_frees_mutex. Qed.
Print Assumptions C17_uncaught_error_crashes.

(* (10) "the interpreter's own shared tables are never corrupted": the scopes.  ScopeModel.v models what
   (run form) shares: a routine's variable lookups walk from its scope through `parents` (let: one parent; call of a
   lambda: its closure scope and the caller's scope); the repaired run makes every scope the new routine can reach
   synchronized (Scope.Share).  For every program and every interleaving of lets, calls of lexically visible closures,
   returns and runs: a scope that two different routines can reach is synchronized (its variable map is only touched
   under its mutex). *)
Theorem C17_shared_scope_synchronized : forall st i j t,
  sreach st -> i <> j -> touches st i t -> touches st j t -> synced st t = true.
Proof. exact shared_scope_synchronized. Qed.
Print Assumptions C17_shared_scope_synchronized.

(* ... and the switch from the no-op locker to a mutex is made only while the running routine is the scope's only
   user - the condition locker.go states for it *)
Theorem C17_share_switches_while_single_user : forall st i st' t j,
  sreach st -> sstep st i SRun = Some st' -> synced st t = false -> synced st' t = true -> j <> i -> ~ touches st j t.
Proof. exact share_switches_while_single_user. Qed.
Print Assumptions C17_share_switches_while_single_user.

(* ... and a program that never calls run gets no mutex at all (the repair costs single-threaded programs nothing) *)
Theorem C17_no_run_no_mutex : forall sch st, srun sinit sch = Some st -> norun sch = true -> forall t, synced st t = false.
Proof. exact no_run_no_mutex. Qed.
Print Assumptions C17_no_run_no_mutex.

(* what run is for: after (run form) in scope s EVERY scope a lookup reaches from s is synchronized - all parents of
   every scope on the way (a call scope has two: the closure's / instance's scope and the caller's), also those that
   come after a parent that was synchronized before *)
Theorem C17_run_synchronizes_all_reachable : forall st i st' stk s t,
  sreach st -> sstep st i SRun = Some st' -> nth_error (stacks st) i = Some (s :: stk) -> In t (anc st s) ->
  synced st' t = true.
Proof. exact run_synchronizes_all_reachable. Qed.
Print Assumptions C17_run_synchronizes_all_reachable.

(* a synchronized scope has everything it reaches synchronized *)
Theorem C17_synchronized_scope_is_closed : forall st t u,
  sreach st -> synced st t = true -> In u (anc st t) -> synced st u = true.
Proof. exact synchronized_scope_is_closed. Qed.
Print Assumptions C17_synchronized_scope_is_closed.

(* REFUTED for a Share that stops (break) at the first parent that is synchronized already: a closure that started a
   routine before is called again from a fresh let; the caller's scope stays unsynchronized although the new routine
   reaches it.  With the real Share the same history ends with all five scopes synchronized. *)
Theorem C17_share_stopping_at_synchronized_parent_refuted :
  exists st, srun_break sinit break_witness = Some st /\ touches st 0 3 /\ touches st 2 3 /\ synced st 3 = false.
Proof. exact share_stopping_at_synchronized_parent_refuted. Qed.
Print Assumptions C17_share_stopping_at_synchronized_parent_refuted.
Theorem C17_share_example_two_calls :
  exists st, srun_g sinit break_witness = Some st /\ sreach st /\ map (synced st) [0; 1; 2; 3; 4] = [true; true; true; true; true].
Proof. exact share_example_two_calls. Qed.
Print Assumptions C17_share_example_two_calls.

(* REFUTED outside the guard (known finding C17-closure-scope-race): a function defined inside a let and called by
   two routines brings a closure scope that no run ever saw: both routines use it, it is not synchronized *)
Theorem C17_global_closure_scope_unsynchronized_refuted :
  exists st, srun sinit closure_witness = Some st /\ touches st 0 1 /\ touches st 1 1 /\ synced st 1 = false.
Proof. exact global_closure_scope_unsynchronized_refuted. Qed.
Print Assumptions C17_global_closure_scope_unsynchronized_refuted.

(* non-vacuity: the documented example (a let, two routines started from it, one of them calls a visible closure) *)
Theorem C17_scope_example :
  exists st, srun_g sinit example_sched = Some st /\ sreach st /\ map (synced st) [0; 1; 2; 3] = [true; true; false; false] /\
             touches st 1 1 /\ touches st 2 1.
Proof. exact scope_example. Qed.
Print Assumptions C17_scope_example.

(* (10b) "mutex-protected critical sections ... / the interpreter's own shared tables": the mutex of a scope that run
   made synchronized, while the variables are used (ScopeLockModel.v: Scope.get / localGet / set / has / bound / remove /
   Let; a binding is a value or a *Ref, the variable of with-slots).  For every scope structure, every lookup path and
   every history of variable operations by any routines: every operation completes (nobody waits for ever) and no scope
   mutex is left locked - so a program that is serialisable by the theorems above also finishes. *)
From C17 Require Import ScopeLockModel ScopeLockProofs.
Theorem C17_scope_locks_released : forall st l, arun all_release st [] l = Some [].
Proof. exact scope_locks_released. Qed.
Print Assumptions C17_scope_locks_released.

(* one operation, from any set of mutexes left locked: if it completes, it holds what was held before - no more *)
Theorem C17_scope_operation_releases : forall st path held k t b held',
  access all_release st held path k t b = Some held' -> held' = held.
Proof. exact access_releases. Qed.
Print Assumptions C17_scope_operation_releases.

(* the release is needed on EVERY exit path: a lock discipline that misses it on one exit path (operation k finding a
   binding of kind b) leaves the mutex of a shared scope locked, and whatever operation comes next through that scope
   waits for ever *)
Theorem C17_missed_release_blocks : forall rel st i s rest k b k2 t2 b2,
  nth_error (stacks st) i = Some (s :: rest) -> synced st s = true ->
  rel k (Some b) = false ->
  exists h, astep rel st [] (i, k, s, b) = Some h /\ is_held h s = true /\
            astep rel st h (i, k2, t2, b2) = None.
Proof. exact missed_release_blocks. Qed.
Print Assumptions C17_missed_release_blocks.

(* REFUTED for the variant of Scope.set that returns from the *Ref branch without Unlock (a seeded change, not the
   code): routines started inside a with-slots body, (setq v ..) on the with-slots variable, then a lookup by the
   other routine never returns; let variables and unshared scopes do not show it *)
Theorem C17_leak_set_ref_blocks_refuted :
  exists st, ex_slots_state = Some st /\
    arun all_release st [] [(0, KGet, 2, BRef); (0, KSet, 2, BRef); (1, KGet, 1, BPlain)] = Some [] /\
    arun leak_set_ref st [] [(0, KGet, 2, BRef); (0, KSet, 2, BRef)] = Some [2] /\
    arun leak_set_ref st [] [(0, KGet, 2, BRef); (0, KSet, 2, BRef); (1, KGet, 1, BPlain)] = None /\
    arun leak_set_ref st [] [(0, KGet, 1, BPlain); (0, KSet, 1, BPlain); (1, KGet, 1, BPlain)] = Some [].
Proof. exact leak_set_ref_blocks_refuted. Qed.
Print Assumptions C17_leak_set_ref_blocks_refuted.

(* (11) forms compiled in place on first evaluation (function.go setCompiled): any number of threads, any
   interleaving of "read the slot / compile my own object / setCompiled": the slot is stored at most once and every
   thread evaluates the one object that is in the slot *)
Theorem C17_compile_slot_converges : forall n sch st, crun (cinit n) sch = Some st ->
  writes st <= 1 /\ forall i c, nth_error (phases st) i = Some (CUse c) -> slot st = Some c.
Proof. exact compile_slot_converges. Qed.
Print Assumptions C17_compile_slot_converges.

(* the unconditional store before the repair: two stores, two different objects in use *)
Theorem C17_original_store_diverges_refuted :
  exists st, crun_orig (cinit 2) [0; 1; 0; 1] = Some st /\ writes st = 2 /\
             nth_error (phases st) 0 = Some (CUse 0) /\ nth_error (phases st) 1 = Some (CUse 1) /\ slot st = Some 1.
Proof. exact original_store_diverges_refuted. Qed.
Print Assumptions C17_original_store_diverges_refuted.

Theorem C17_compile_slot_example :
  exists st, crun (cinit 3) [0; 1; 1; 0; 2] = Some st /\ writes st = 1 /\ phases st = [CUse 1; CUse 1; CUse 1].
Proof. exact compile_slot_example. Qed.
Print Assumptions C17_compile_slot_example.

(* (12) "the interpreter's own shared tables (packages ...) are never corrupted": the lock discipline.  TableModel.v:
   an access to a package table is an interval; a locked access holds the package mutex for it.  Any number of
   routines, any interleaving: if every access is locked, two routines are never inside an access at the same time *)
Theorem C17_locked_table_accesses_never_overlap : forall n sch st i j a b,
  trun (tinit n) sch = Some st -> disciplined sch = true -> i <> j ->
  nth_error (within st) i = Some (Some a) -> nth_error (within st) j = Some (Some b) -> False.
Proof. exact locked_table_accesses_never_overlap. Qed.
Print Assumptions C17_locked_table_accesses_never_overlap.

(* REFUTED without the discipline: one reader that does not take the mutex (a let binding's constant check) is inside
   the variable table together with a writer that does (defvar of a new variable): the Go map is read while written *)
Theorem C17_unlocked_reader_overlaps_writer_refuted :
  exists st, trun (tinit 2) [(0, TEnter w_defvar); (1, TEnter r_unlocked)] = Some st /\
             nth_error (within st) 0 = Some (Some w_defvar) /\ nth_error (within st) 1 = Some (Some r_unlocked) /\
             conflict w_defvar r_unlocked = true.
Proof. exact unlocked_reader_overlaps_writer_refuted. Qed.
Print Assumptions C17_unlocked_reader_overlaps_writer_refuted.

(* non-vacuity: with the discipline the reader's step is not enabled while the writer is inside *)
Theorem C17_locked_reader_waits :
  let r_locked := mkAc TVars false true in
  trun (tinit 2) [(0, TEnter w_defvar); (1, TEnter r_locked)] = None /\
  exists st, trun (tinit 2) [(0, TEnter w_defvar); (0, TLeave); (1, TEnter r_locked)] = Some st /\ holder st = Some 1.
Proof. exact locked_reader_waits. Qed.
Print Assumptions C17_locked_reader_waits.

(* "updates to a synchronized instance ... are not lost / the interpreter's tables are never corrupted": the instance
   lock.  REFUTED when a slot read of a synchronized instance does not take the lock: it is inside the slot map (a Go
   map) together with a writer.  (With the lock, C17_locked_table_accesses_never_overlap applies as it stands.) *)
Theorem C17_unlocked_slot_read_overlaps_write_refuted :
  exists st, trun (tinit 2) [(0, TEnter w_slot); (1, TEnter r_slot_unlocked)] = Some st /\
             nth_error (within st) 0 = Some (Some w_slot) /\ nth_error (within st) 1 = Some (Some r_slot_unlocked) /\
             conflict w_slot r_slot_unlocked = true.
Proof. exact unlocked_slot_read_overlaps_write_refuted. Qed.
Print Assumptions C17_unlocked_slot_read_overlaps_write_refuted.

(* the table the per-run probes are compared with: an operation must wait for the instance lock exactly when the
   instance is synchronized and the operation reads or writes its slot map *)
Theorem C17_must_wait_spec : forall o sy, must_wait o sy = true <-> (sy = true /\ iop_uses o <> []).
Proof. exact must_wait_spec. Qed.
Print Assumptions C17_must_wait_spec.

(* (13) "same result as some sequential execution" -- the reduction (serialisability) theorem, for the class
   `one_mutex_sections p`: the program uses only cells, ONE mutex, ignore-errors and (error) (= `flat p` with
   `p_nmutex p = 1`: no channel operation, no with-mutex-lock nested in another), and reads / writes cells only
   inside with-mutex-lock bodies (`sec p`).  Any number of routines, any number and length of sections, arbitrary
   section bodies (not only increments), errors unwinding out of sections included.
   For EVERY state that ANY schedule can reach -- intermediate or final -- there is a schedule reaching the SAME
   state (same cells, same registers, logs and control stacks of every routine) in which nobody else moves while a
   routine holds the mutex (`serial_from`: every pick (j,k) is made in a state where the mutex is free or held by
   j): the critical sections run one after the other, un-interleaved, in the order of their acquire steps.
   Subsumes item (8)(c) and C17_guarded_result_schedule_independent for programs of this class (any bodies, not
   only counters).  Not covered (still open): several mutexes, sections containing channel operations, cells
   accessed outside sections (`serial_from` says nothing about such accesses; C17_unguarded_rmw_loses_refuted
   shows what they allow). *)
Theorem C17_serial_reduction : forall p s, one_mutex_sections p = true -> reach p s ->
  exists sch, run_sched (init p) sch = Some s /\ serial_from (init p) sch.
Proof. exact serial_reduction_class. Qed.
Print Assumptions C17_serial_reduction.

(* ... and the un-interleaved schedule is a REORDERING of the given one: every routine makes the same picks in
   the same order (`proj x` = the picks of routine x); only the interleaving between routines changes *)
Theorem C17_serial_reduction_reorders : forall p sch s, one_mutex_sections p = true -> run_sched (init p) sch = Some s ->
  exists sch', run_sched (init p) sch' = Some s /\ serial_from (init p) sch' /\ forall x, proj x sch' = proj x sch.
Proof. exact serial_reduction_sched_class. Qed.
Print Assumptions C17_serial_reduction_reorders.

(* the mover lemma behind it, for all states: while routine i holds the mutex, a step of another routine j that
   follows a step of i can be taken before it, with the same result (j's step is local: it is not inside a
   section, cannot acquire, and does not touch a cell) *)
Theorem C17_local_step_moves_left : forall nx s i b s1 j k s2,
  flat_inv 1 nx s -> flat_inv 1 nx s1 -> lock_inv s1 -> sec_inv s1 ->
  i <> j -> step s i b = Some s1 -> nth_error (mus s1) 0 = Some (Some i) -> step s1 j k = Some s2 ->
  exists s1', step s j k = Some s1' /\ step s1' i b = Some s2 /\ mus s1' = mus s.
Proof. exact commute_local. Qed.
Print Assumptions C17_local_step_moves_left.

(* non-vacuity: two routines with two sections each (and a caught error between two sections): an interleaved
   schedule (routine 0 moves three times while routine 1 is inside its first section; not un-interleaved) and
   the un-interleaved one reach the same finished state, cells [9; 6] *)
Theorem C17_serial_reduction_example :
  one_mutex_sections ex_red = true /\ serialb (init ex_red) ex_red_interleaved = false /\
  exists s, run_sched (init ex_red) ex_red_interleaved = Some s /\ all_finished s = true /\ mem s = [9; 6]%Z /\
            run_sched (init ex_red) ex_red_serial = Some s /\ serial_from (init ex_red) ex_red_serial.
Proof. exact reduction_example. Qed.
Print Assumptions C17_serial_reduction_example.
