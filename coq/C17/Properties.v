(* C17 — property theorems only. *)
From C17 Require Import Model Spec Proofs.
Theorem C17_placeholder : all_finished (init (mkP [] 0 [] [])) = true.
Proof. exact init_example. Qed.
Print Assumptions C17_placeholder.
