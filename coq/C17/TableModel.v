(* C17 — model of the lock discipline of the package tables (package.go: `vars`, `funcs`, `lambdas`, `classes` are
   Go maps, `mu` is the package mutex; scope.go: Scope.Let / Scope.set ask the variable table whether the name is a
   constant; function.go: FindFunc / CompileList use the function table).  No proofs in this file.

   An access to a table is an interval: the routine enters it, is within for a while (the Go map operation), and
   leaves.  A locked access takes the package mutex for the interval (it waits while another routine holds it); an
   unlocked access does not.  Go maps tolerate no overlap of a write with any other access ("fatal error: concurrent
   map read and map write"). *)
From Coq Require Import List Arith Bool.
From C17 Require Import Model.
Import ListNotations.

Inductive tab := TVars | TFuncs | TSlots.   (* TSlots: the slot map of one instance, guarded by the instance's locker *)
Definition tab_eqb (a b : tab) : bool :=
  match a, b with TVars, TVars | TFuncs, TFuncs | TSlots, TSlots => true | _, _ => false end.
Record access := mkAc { a_tab : tab; a_write : bool; a_locked : bool }.
Record tstate := mkTS { holder : option nat; within : list (option access) }.
Inductive tev := TEnter (a : access) | TLeave.

Definition tstep (st : tstate) (i : nat) (e : tev) : option tstate :=
  match nth_error (within st) i, e with
  | Some None, TEnter a =>
      if a_locked a
      then match holder st with
           | None => Some (mkTS (Some i) (upd (within st) i (Some a)))
           | Some _ => None                                             (* waits in sync.Mutex.Lock *)
           end
      else Some (mkTS (holder st) (upd (within st) i (Some a)))
  | Some (Some a), TLeave => Some (mkTS (if a_locked a then None else holder st) (upd (within st) i None))
  | _, _ => None
  end.
Definition tinit (n : nat) : tstate := mkTS None (repeat None n).
Fixpoint trun (st : tstate) (sch : list (nat * tev)) : option tstate :=
  match sch with
  | [] => Some st
  | (i, e) :: sch' => match tstep st i e with Some st' => trun st' sch' | None => None end
  end.
Definition disciplined (sch : list (nat * tev)) : bool :=
  forallb (fun ie => match snd ie with TEnter a => a_locked a | TLeave => true end) sch.
(* two accesses that a Go map does not survive when they overlap *)
Definition conflict (a b : access) : bool := tab_eqb (a_tab a) (a_tab b) && (a_write a || a_write b).

(* ---- the operations of the interpreter that the harness probes (harness/c17/locks.go), and the tables each of
   them uses, with the place in the Go code ---- *)
Inductive lop :=
| LLetBind | LLetStarBind | LSetLocal | LCallParam | LDotimes | LDolist | LFuncallLambda | LMultipleValueBind
| LReadGlobal | LSetGlobal | LDefvarNew | LDefparameterNew | LDefconstantNew | LSetqNewGlobal | LMakunbound
| LBoundp | LSymbolValue
| LDefunNew | LFboundp | LFirstEval | LFunctionQuote
| LReadLocal | LArithLocal | LQuote | LConsLocal | LIfLocal | LPrognLocal.

(* (table, writes it) *)
Definition lop_uses (o : lop) : list (tab * bool) :=
  match o with
  (* Scope.Let / Scope.set: CurrentPackage.GetVarVal(name) - "is it a constant?" - for every variable bound or set *)
  | LLetBind | LLetStarBind | LSetLocal | LCallParam | LDotimes | LDolist | LFuncallLambda | LMultipleValueBind =>
      [(TVars, false)]
  (* Scope.get falls through to Package.Get; Package.Set / SetIfHas / DefConst / Remove / Has *)
  | LReadGlobal | LBoundp | LSymbolValue => [(TVars, false)]
  | LSetGlobal => [(TVars, false)]
  | LDefvarNew | LDefparameterNew | LDefconstantNew | LSetqNewGlobal | LMakunbound => [(TVars, true)]
  (* Package.DefLambda; FindFunc / GetFunc *)
  | LDefunNew => [(TFuncs, true); (TVars, false)]
  | LFboundp | LFirstEval | LFunctionQuote => [(TFuncs, false)]
  (* a variable found in the scope chain, a compiled call of a builtin: no table of the package *)
  | LReadLocal | LArithLocal | LQuote | LConsLocal | LIfLocal | LPrognLocal => []
  end.
Definition uses_tables (o : lop) : bool := match lop_uses o with [] => false | _ => true end.

(* ---- the slot map of an instance (pkg/clos/hasslots.go: `vars`, `locker`; flavors: the instance's Scope).  The
   same discipline with the instance's own lock: after (set-synchronized o t) every slot operation takes it around
   the map access; an unsynchronized instance has the no-op locker.  The operations the harness probes, for
   standard-object and flavors instances, and whether they read / write the slot map ---- *)
Inductive iop :=
| ISlotValue | ISetfSlotValue | ISlotBoundp | ISlotMakunbound | ISlotExistsp
| IAccessorRead | IReaderRead | IAccessorWrite | IWriterWrite | IWithSlotsRead | IWithSlotsWrite
| ISendGet | ISendSet | IMethodReadsVar | IMethodSetsVar
| ISynchronizedp | IJustTheInstance.
Definition iop_uses (o : iop) : list (tab * bool) :=
  match o with
  | ISlotValue | ISlotBoundp | ISlotExistsp | IAccessorRead | IReaderRead | IWithSlotsRead
  | ISendGet | IMethodReadsVar => [(TSlots, false)]                       (* HasSlots.SlotValue / Scope.get *)
  | ISetfSlotValue | ISlotMakunbound | IAccessorWrite | IWriterWrite | IWithSlotsWrite
  | ISendSet | IMethodSetsVar => [(TSlots, true)]                         (* HasSlots.SetSlotValue / Scope.set *)
  | ISynchronizedp | IJustTheInstance => []
  end.
Definition uses_slots (o : iop) : bool := match iop_uses o with [] => false | _ => true end.
(* must the operation wait while another routine is inside a slot access (holds the instance lock)? *)
Definition must_wait (o : iop) (synchronized : bool) : bool := synchronized && uses_slots o.
