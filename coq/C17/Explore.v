(* C17 — a verified exhaustive explorer for small programs.  Ghost fields never influence a step, so states
   are explored modulo `erase`; a finite set of erased states that contains the initial state and is closed
   under every move contains (the erasure of) every reachable state.  The per-run check uses it to turn
   "the search found no schedule" into a kernel-checked "no schedule exists" (code 2). *)
From Coq Require Import FMapPositive.
From C17 Require Import Model Spec Steps.

(* ---- decidable equality (only soundness is needed) ---- *)
Definition val_eqb (a b : val) : bool :=
  match a, b with Some x, Some y => Z.eqb x y | None, None => true | _, _ => false end.
Definition vexpr_eqb (a b : vexpr) : bool :=
  match a, b with VLit x, VLit y => Z.eqb x y | VGot, VGot => true | VAcc, VAcc => true | _, _ => false end.
Definition zexpr_eqb (a b : zexpr) : bool :=
  match a, b with ZLit x, ZLit y => Z.eqb x y | ZAccPlus x, ZAccPlus y => Z.eqb x y | _, _ => false end.

Definition onat_eqb (a b : option nat) : bool :=
  match a, b with Some x, Some y => Nat.eqb x y | None, None => true | _, _ => false end.

Fixpoint op_eqb (a b : op) {struct a} : bool :=
  let fix leq (l1 l2 : list op) : bool :=
    match l1, l2 with [], [] => true | x :: l1', y :: l2' => op_eqb x y && leq l1' l2' | _, _ => false end in
  match a, b with
  | OPush c e, OPush c' e' => Nat.eqb c c' && vexpr_eqb e e'
  | OPop c, OPop c' => Nat.eqb c c'
  | ORange c, ORange c' => Nat.eqb c c'
  | OSelect cs, OSelect cs' => list_eqb onat_eqb cs cs'
  | OClose c, OClose c' => Nat.eqb c c'
  | OLoad x, OLoad x' => Nat.eqb x x'
  | OStore x e, OStore x' e' => Nat.eqb x x' && zexpr_eqb e e'
  | OFail, OFail => true
  | OLock m b1, OLock m' b2 => Nat.eqb m m' && leq b1 b2
  | OCatch b1, OCatch b2 => leq b1 b2
  | OBlock t1 n1 b1, OBlock t2 n2 b2 => Bool.eqb t1 t2 && Nat.eqb n1 n2 && leq b1 b2
  | OExit t1 n1, OExit t2 n2 => Bool.eqb t1 t2 && Nat.eqb n1 n2
  | _, _ => false
  end.

Definition fkind_eqb (a b : fkind) : bool :=
  match a, b with KPlain, KPlain => true | KLock m, KLock m' => Nat.eqb m m' | KCatch, KCatch => true
  | KBlock t1 n1, KBlock t2 n2 => Bool.eqb t1 t2 && Nat.eqb n1 n2 | _, _ => false end.
Definition frame_eqb (a b : frame) : bool := fkind_eqb (fk a) (fk b) && list_eqb op_eqb (fops a) (fops b).
Definition ext_eqb (a b : option (bool * nat)) : bool :=
  match a, b with Some (t1, n1), Some (t2, n2) => Bool.eqb t1 t2 && Nat.eqb n1 n2 | None, None => true | _, _ => false end.
Definition routine_eqb (a b : routine) : bool :=
  Bool.eqb (unw a) (unw b) && ext_eqb (ext a) (ext b) && val_eqb (got a) (got b) && Z.eqb (acc a) (acc b) &&
  list_eqb frame_eqb (stk a) (stk b) && list_eqb ev_eqb (log a) (log b).
Definition entry_eqb (a b : entry) : bool := val_eqb (e_val a) (e_val b) && Nat.eqb (e_from a) (e_from b).
Definition chan_eqb (a b : chanst) : bool :=
  Nat.eqb (cap a) (cap b) && Bool.eqb (closed a) (closed b) && list_eqb entry_eqb (q a) (q b).
(* on erased states *)
Definition state_eqb (a b : state) : bool :=
  list_eqb Z.eqb (mem a) (mem b) && list_eqb onat_eqb (mus a) (mus b) &&
  list_eqb chan_eqb (chs a) (chs b) && list_eqb routine_eqb (rs a) (rs b).

Lemma list_eqb_sound : forall A (eqb : A -> A -> bool), (forall a b, eqb a b = true -> a = b) ->
  forall l1 l2, list_eqb eqb l1 l2 = true -> l1 = l2.
Proof.
  intros A eqb H. induction l1; destruct l2; simpl; intros E; try discriminate; auto.
  apply andb_true_iff in E. destruct E as [E1 E2]. f_equal; auto.
Qed.
Lemma list_eqb_sound_Forall : forall A (eqb : A -> A -> bool) l1,
  Forall (fun a => forall b, eqb a b = true -> a = b) l1 -> forall l2, list_eqb eqb l1 l2 = true -> l1 = l2.
Proof.
  intros A eqb l1 F. induction F; destruct l2; simpl; intros E; try discriminate; auto.
  apply andb_true_iff in E. destruct E as [E1 E2]. f_equal; auto.
Qed.

Lemma val_eqb_sound : forall a b, val_eqb a b = true -> a = b.
Proof. destruct a, b; simpl; intros; try discriminate; auto. apply Z.eqb_eq in H. congruence. Qed.
Lemma vexpr_eqb_sound : forall a b, vexpr_eqb a b = true -> a = b.
Proof. destruct a, b; simpl; intros; try discriminate; auto. apply Z.eqb_eq in H. congruence. Qed.
Lemma zexpr_eqb_sound : forall a b, zexpr_eqb a b = true -> a = b.
Proof. destruct a, b; simpl; intros; try discriminate; apply Z.eqb_eq in H; congruence. Qed.
Lemma nat_eqb_sound : forall a b, Nat.eqb a b = true -> a = b.
Proof. intros. apply Nat.eqb_eq; auto. Qed.
Lemma Z_eqb_sound : forall a b, Z.eqb a b = true -> a = b.
Proof. intros. apply Z.eqb_eq; auto. Qed.

Lemma onat_eqb_sound : forall a b, onat_eqb a b = true -> a = b.
Proof. destruct a, b; simpl; intros; try discriminate; auto. apply Nat.eqb_eq in H. congruence. Qed.

Lemma op_ind2 : forall P : op -> Prop,
  (forall c e, P (OPush c e)) -> (forall c, P (OPop c)) -> (forall c, P (ORange c)) -> (forall cs, P (OSelect cs)) ->
  (forall c, P (OClose c)) -> (forall x, P (OLoad x)) -> (forall x e, P (OStore x e)) -> P OFail ->
  (forall m body, Forall P body -> P (OLock m body)) -> (forall body, Forall P body -> P (OCatch body)) ->
  (forall tb b body, Forall P body -> P (OBlock tb b body)) -> (forall tb b, P (OExit tb b)) -> forall o, P o.
Proof.
  intros P H1 H2 H3 H4 H5 H6 H7 H8 HL HC HB HE. fix IH 1. intros [c e|c|c|cs|c|x|x e| |m body|body|tb b body|tb b].
  - apply H1. - apply H2. - apply H3. - apply H4. - apply H5. - apply H6. - apply H7. - apply H8.
  - apply HL. revert body. fix IHl 1. intros [|x l]; constructor; [apply IH | apply IHl].
  - apply HC. revert body. fix IHl 1. intros [|x l]; constructor; [apply IH | apply IHl].
  - apply HB. revert body. fix IHl 1. intros [|x l]; constructor; [apply IH | apply IHl].
  - apply HE.
Qed.

Lemma op_eqb_sound : forall a b, op_eqb a b = true -> a = b.
Proof.
  intros a. induction a using op_ind2; intros o2 E; destruct o2; simpl in E; try discriminate; auto.
  - apply andb_true_iff in E. destruct E as [E1 E2]. apply Nat.eqb_eq in E1. apply vexpr_eqb_sound in E2. congruence.
  - apply Nat.eqb_eq in E. congruence.
  - apply Nat.eqb_eq in E. congruence.
  - f_equal. apply (list_eqb_sound _ _ onat_eqb_sound); auto.
  - apply Nat.eqb_eq in E. congruence.
  - apply Nat.eqb_eq in E. congruence.
  - apply andb_true_iff in E. destruct E as [E1 E2]. apply Nat.eqb_eq in E1. apply zexpr_eqb_sound in E2. congruence.
  - apply andb_true_iff in E. destruct E as [E1 E2]. apply Nat.eqb_eq in E1. subst. f_equal.
    match type of E2 with ?f body body0 = true =>
      assert (L : forall l1 l2, f l1 l2 = list_eqb op_eqb l1 l2) by (induction l1; destruct l2; simpl; auto; rewrite IHl1; auto) end.
    rewrite L in E2. apply (list_eqb_sound_Forall _ op_eqb _ H). exact E2.
  - f_equal.
    match type of E with ?f body body0 = true =>
      assert (L : forall l1 l2, f l1 l2 = list_eqb op_eqb l1 l2) by (induction l1; destruct l2; simpl; auto; rewrite IHl1; auto) end.
    rewrite L in E. apply (list_eqb_sound_Forall _ op_eqb _ H). exact E.
  - apply andb_true_iff in E. destruct E as [E1 E2]. apply andb_true_iff in E1. destruct E1 as [E0 E1].
    apply eqb_prop in E0. apply Nat.eqb_eq in E1. subst. f_equal.
    match type of E2 with ?f body body0 = true =>
      assert (L : forall l1 l2, f l1 l2 = list_eqb op_eqb l1 l2) by (induction l1; destruct l2; simpl; auto; rewrite IHl1; auto) end.
    rewrite L in E2. apply (list_eqb_sound_Forall _ op_eqb _ H). exact E2.
  - apply andb_true_iff in E. destruct E as [E0 E1]. apply eqb_prop in E0. apply Nat.eqb_eq in E1. congruence.
Qed.

Lemma ev_eqb_sound : forall a b, ev_eqb a b = true -> a = b.
Proof.
  destruct a, b; simpl; intros E; try discriminate; apply andb_true_iff in E; destruct E as [E1 E2]; apply Nat.eqb_eq in E1; subst.
  - f_equal. apply val_eqb_sound. exact E2.
  - apply Z.eqb_eq in E2. congruence.
Qed.
Lemma fkind_eqb_sound : forall k1 k2, fkind_eqb k1 k2 = true -> k1 = k2.
Proof.
  intros k1 k2 H. destruct k1 as [|m1| |t1 n1], k2 as [|m2| |t2 n2]; simpl in H; try discriminate; auto.
  - apply Nat.eqb_eq in H. congruence.
  - apply andb_true_iff in H. destruct H as [A B]. apply eqb_prop in A. apply Nat.eqb_eq in B. congruence.
Qed.
Lemma ext_eqb_sound : forall a b, ext_eqb a b = true -> a = b.
Proof.
  destruct a as [[t1 n1]|], b as [[t2 n2]|]; simpl; intros; try discriminate; auto.
  apply andb_true_iff in H. destruct H as [A B]. apply eqb_prop in A. apply Nat.eqb_eq in B. congruence.
Qed.
Lemma frame_eqb_sound : forall a b, frame_eqb a b = true -> a = b.
Proof.
  destruct a, b; unfold frame_eqb; simpl; intros E. apply andb_true_iff in E. destruct E as [E1 E2].
  apply fkind_eqb_sound in E1. apply (list_eqb_sound _ _ op_eqb_sound) in E2. congruence.
Qed.
Lemma routine_eqb_sound : forall a b, routine_eqb a b = true -> a = b.
Proof.
  destruct a, b; unfold routine_eqb; simpl; intros E. repeat (apply andb_true_iff in E; destruct E as [E ?]).
  apply eqb_prop in E. apply ext_eqb_sound in H3. apply val_eqb_sound in H2. apply Z.eqb_eq in H1.
  apply (list_eqb_sound _ _ frame_eqb_sound) in H0. apply (list_eqb_sound _ _ ev_eqb_sound) in H. congruence.
Qed.
Lemma entry_eqb_sound : forall a b, entry_eqb a b = true -> a = b.
Proof.
  destruct a, b; unfold entry_eqb; simpl; intros E. apply andb_true_iff in E. destruct E as [E1 E2].
  apply val_eqb_sound in E1. apply Nat.eqb_eq in E2. congruence.
Qed.

(* ---- erasure of the ghost fields ---- *)
Definition erase_ch (ch : chanst) : chanst := mkC (cap ch) (q ch) (closed ch) [] [] [].
Definition erase (s : state) : state := mkS (rs s) (map erase_ch (chs s)) (mus s) (mem s) [] false.
Definition erased (s : state) : Prop := erase s = s.

Lemma chan_eqb_sound : forall a b, erase_ch a = a -> erase_ch b = b -> chan_eqb a b = true -> a = b.
Proof.
  intros a b EA EB E. unfold chan_eqb in E. repeat (apply andb_true_iff in E; destruct E as [E ?]).
  apply Nat.eqb_eq in E. apply eqb_prop in H0. apply (list_eqb_sound _ _ entry_eqb_sound) in H.
  rewrite <- EA, <- EB. unfold erase_ch. congruence.
Qed.

Lemma erase_idem : forall s, erase (erase s) = erase s.
Proof. intros. unfold erase. simpl. f_equal. rewrite map_map. apply map_ext. intros; reflexivity. Qed.

Lemma chans_eqb_sound : forall l1 l2, map erase_ch l1 = l1 -> map erase_ch l2 = l2 -> list_eqb chan_eqb l1 l2 = true -> l1 = l2.
Proof.
  induction l1; destruct l2; simpl; intros E1 E2 E; try discriminate; auto.
  inversion E1. inversion E2. apply andb_true_iff in E. destruct E as [A B].
  f_equal. - apply chan_eqb_sound; auto. - rewrite H1, H3. apply IHl1; auto.
Qed.

Lemma state_eqb_sound : forall a b, erased a -> erased b -> state_eqb a b = true -> a = b.
Proof.
  intros a b EA EB E. unfold state_eqb in E. repeat (apply andb_true_iff in E; destruct E as [E ?]).
  apply (list_eqb_sound _ _ Z_eqb_sound) in E. apply (list_eqb_sound _ _ onat_eqb_sound) in H1.
  apply (list_eqb_sound _ _ routine_eqb_sound) in H.
  assert (C : chs a = chs b).
  { apply chans_eqb_sound; auto.
    - unfold erased, erase in EA. destruct a; simpl in *. inversion EA. rewrite H3. auto.
    - unfold erased, erase in EB. destruct b; simpl in *. inversion EB. rewrite H3. auto. }
  rewrite <- EA, <- EB. unfold erase. congruence.
Qed.

(* ---- a step commutes with erasure ---- *)
Lemma map_upd : forall A B (f : A -> B) l i x, map f (upd l i x) = upd (map f l) i (f x).
Proof. induction l; destruct i; simpl; intros; auto. f_equal; auto. Qed.
Lemma existsb_map : forall A B (f : A -> B) (p : B -> bool) l, existsb p (map f l) = existsb (fun a => p (f a)) l.
Proof. induction l; simpl; auto. rewrite IHl. auto. Qed.
Lemma parked_erase : forall s i, parked (erase s) i = parked s i.
Proof. intros. unfold parked, erase; simpl. rewrite existsb_map. auto. Qed.
Lemma nth_error_erase : forall l c, nth_error (map erase_ch l) c = option_map erase_ch (nth_error l c).
Proof. intros. apply nth_error_map. Qed.

Lemma take_erase : forall ch i,
  match take ch i with
  | Some (v, ch') => exists ch'', take (erase_ch ch) i = Some (v, ch'') /\ erase_ch ch'' = erase_ch ch'
  | None => take (erase_ch ch) i = None
  end.
Proof.
  intros. unfold take. simpl. destruct (q ch); [destruct (closed ch) |]; eauto.
Qed.

Lemma erase_ch_idem : forall ch, erase_ch (erase_ch ch) = erase_ch ch.
Proof. reflexivity. Qed.
Lemma map_erase_idem : forall l, map erase_ch (map erase_ch l) = map erase_ch l.
Proof. intros. rewrite map_map. apply map_ext. reflexivity. Qed.
Lemma erase_eq : forall a b, rs a = rs b -> map erase_ch (chs a) = map erase_ch (chs b) -> mus a = mus b -> mem a = mem b ->
  erase a = erase b.
Proof. intros. unfold erase. congruence. Qed.

Ltac fin := simpl; f_equal; apply erase_eq; simpl; auto; rewrite ?map_upd, ?map_erase_idem; simpl; auto.

Lemma erase_step : forall s i k, option_map erase (step (erase s) i k) = option_map erase (step s i k).
Proof.
  intros s i k. unfold step. rewrite parked_erase. change (rs (erase s)) with (rs s).
  destruct (nth_error (rs s) i) as [r|]; auto.
  destruct (parked s i); auto.
  destruct (stk r) as [|f rest]; auto.
  destruct (unw r).
  { destruct (fk f); fin. }
  destruct (ext r) as [[tb b]|].
  { destruct (fk f) as [| m | | [] b']; destruct tb; try destruct (Nat.eqb b' b); cbn [andb]; fin. }
  destruct (fops f) as [|o ops'].
  { destruct (fk f); fin. }
  unfold exec. change (chs (erase s)) with (map erase_ch (chs s)). change (mus (erase s)) with (mus s).
  change (mem (erase s)) with (mem s).
  destruct o.
  - (* push *)
    rewrite nth_error_erase. destruct (nth_error (chs s) c) as [ch|]; simpl; auto.
    destruct (closed ch); fin.
  - (* pop *)
    rewrite nth_error_erase. destruct (nth_error (chs s) c) as [ch|]; simpl; auto.
    assert (T := take_erase ch i). destruct (take ch i) as [[v ch']|].
    + destruct T as (ch'' & T & E). rewrite T. fin. rewrite E. auto.
    + rewrite T. reflexivity.
  - (* range *)
    rewrite nth_error_erase. destruct (nth_error (chs s) c) as [ch|]; simpl; auto.
    destruct (q ch) eqn:Q.
    + destruct (closed ch); fin.
    + assert (T := take_erase ch i). destruct (take ch i) as [[v ch']|].
      * destruct T as (ch'' & T & E). rewrite T. fin. rewrite E. auto.
      * rewrite T. reflexivity.
  - (* select *)
    destruct (nth_error cs k) as [[c|]|]; auto.
    rewrite nth_error_erase. destruct (nth_error (chs s) c) as [ch|]; simpl; auto.
    assert (T := take_erase ch i). destruct (take ch i) as [[v ch']|].
    + destruct T as (ch'' & T & E). rewrite T. fin. rewrite E. auto.
    + rewrite T. reflexivity.
  - (* close *)
    rewrite nth_error_erase. destruct (nth_error (chs s) c) as [ch|]; simpl; auto.
    destruct (closed ch); fin.
  - (* load *)
    destruct (nth_error (mem s) x); fin.
  - (* store *)
    destruct (nth_error (mem s) x); fin.
  - fin.
  - (* lock *)
    destruct (nth_error (mus s) m) as [[j|]|]; fin.
  - fin.
  - fin.
  - destruct (existsb _ _); fin.
Qed.

Definition is_some {A} (o : option A) : bool := match o with Some _ => true | None => false end.
Lemma step_some_erase : forall s i k, is_some (step (erase s) i k) = is_some (step s i k).
Proof. intros. assert (E := erase_step s i k). destruct (step (erase s) i k), (step s i k); simpl in *; auto; discriminate. Qed.

Lemma existsb_ext' : forall A (p1 p2 : A -> bool) l, (forall a, p1 a = p2 a) -> existsb p1 l = existsb p2 l.
Proof. induction l; simpl; intros; auto. rewrite H, IHl; auto. Qed.

Lemma enabled_erase : forall s i, enabled (erase s) i = enabled s i.
Proof.
  intros. unfold enabled. change (rs (erase s)) with (rs s). destruct (nth_error (rs s) i); auto.
  apply existsb_ext'. intros k. apply (step_some_erase s i k).
Qed.
Lemma stuck_erase : forall s, stuck (erase s) = stuck s.
Proof. intros. unfold stuck. change (rs (erase s)) with (rs s). f_equal. apply existsb_ext'. apply enabled_erase. Qed.
Lemma matches_erase : forall s o, matches (erase s) o = matches s o.
Proof.
  intros. unfold matches. rewrite stuck_erase. change (rs (erase s)) with (rs s). change (mem (erase s)) with (mem s).
  change (chs (erase s)) with (map erase_ch (chs s)). rewrite map_map.
  replace (map (fun x => buffered (erase_ch x)) (chs s)) with (map buffered (chs s)) by (apply map_ext; reflexivity). auto.
Qed.

(* the only choices that matter are below max_choice *)
Lemma step_choice : forall s i k r, nth_error (rs s) i = Some r -> is_some (step s i k) = true ->
  exists k', k' < max_choice r /\ step s i k' = step s i k.
Proof.
  intros s i k r R H. unfold step in *. rewrite R in *. destruct (parked s i); try discriminate.
  unfold max_choice. destruct (stk r) as [|f rest]; try discriminate.
  destruct (unw r). { exists 0. split; [destruct (fops f) as [|[] ?]; lia | auto]. }
  destruct (ext r). { exists 0. split; [destruct (fops f) as [|[] ?]; lia | auto]. }
  destruct (fops f) as [|o ops']. { exists 0. split; [lia | auto]. }
  destruct o; try (exists 0; split; [lia | reflexivity]).
  (* select *)
  unfold exec in *. destruct (nth_error cs k) as [[c|]|] eqn:N; try discriminate.
  exists k. split; [| rewrite N; reflexivity]. assert (k < length cs) by (apply nth_error_Some; congruence). lia.
Qed.

(* ---- exploration ---- *)
Module PM := PositiveMap.
Definition estep (s : state) (i k : nat) : option state := option_map erase (step s i k).
Definition succs (s : state) : list state :=
  flat_map (fun i => match nth_error (rs s) i with
                     | Some r => flat_map (fun k => match estep s i k with Some t => [t] | None => [] end) (seq 0 (max_choice r))
                     | None => [] end) (seq 0 (length (rs s))).

(* a cheap hash of a state; any function would do for the proofs *)
Definition mix (h v : N) : N := N.modulo (h * 31 + v + 7) 1048573.
Definition key_routine (r : routine) : N :=
  fold_left (fun h f => mix (mix h (N.of_nat (length (fops f)))) (match fk f with KPlain => 0 | KLock m => 1 + N.of_nat m | KCatch => 100 | KBlock _ b => 200 + N.of_nat b end))
            (stk r) (mix (mix (N.of_nat (length (log r))) (if unw r then 1 else 0)) (Z.to_N (Z.abs (acc r)))).
Definition key (s : state) : positive :=
  N.succ_pos (fold_left (fun h r => mix h (key_routine r)) (rs s)
               (fold_left (fun h ch => mix h (N.of_nat (length (q ch)) + (if closed ch then 50 else 0))) (chs s)
                  (fold_left (fun h z => mix h (Z.to_N (Z.abs z))) (mem s) 0%N))).

Definition sset := PM.t (list state).
Definition memb (t : state) (m : sset) : bool :=
  match PM.find (key t) m with Some l => existsb (state_eqb t) l | None => false end.
Definition insert (t : state) (m : sset) : sset :=
  PM.add (key t) (t :: match PM.find (key t) m with Some l => l | None => [] end) m.
Definition all_states (m : sset) : list state := flat_map snd (PM.elements m).

Fixpoint add_new (ts : list state) (seen : sset) : list state * sset :=   (* (new ones, seen extended) *)
  match ts with
  | [] => ([], seen)
  | t :: ts' => if memb t seen then add_new ts' seen
                else let '(n, sn) := add_new ts' (insert t seen) in (t :: n, sn)
  end.
Fixpoint explore (fuel : nat) (todo : list state) (seen : sset) : option sset :=
  match fuel with
  | O => None
  | S fuel' =>
      match todo with
      | [] => Some seen
      | s :: todo' => let '(n, sn) := add_new (succs s) seen in explore fuel' (n ++ todo') sn
      end
  end.
Definition closedb (m : sset) : bool := forallb (fun s => forallb (fun t => memb t m) (succs s)) (all_states m).

Lemma erased_erase : forall s, erased (erase s).
Proof. intros. apply erase_idem. Qed.

Lemma memb_In : forall t m, erased t -> Forall erased (all_states m) -> memb t m = true -> In t (all_states m).
Proof.
  intros t m ET F M. unfold memb in M. destruct (PM.find (key t) m) as [l|] eqn:FD; try discriminate.
  apply existsb_exists in M. destruct M as (x & IN & E).
  assert (INX : In x (all_states m)).
  { unfold all_states. apply in_flat_map. exists (key t, l). split; auto. apply PM.elements_correct. auto. }
  rewrite Forall_forall in F. rewrite (state_eqb_sound _ _ ET (F _ INX) E). auto.
Qed.

Lemma succs_complete : forall s i k t, estep s i k = Some t -> In t (succs s).
Proof.
  intros s i k t E. unfold estep in E. destruct (step s i k) as [s'|] eqn:ST; inversion E; subst.
  assert (R : exists r, nth_error (rs s) i = Some r).
  { unfold step in ST. destruct (nth_error (rs s) i); [eauto | discriminate]. }
  destruct R as (r & R).
  destruct (step_choice s i k r R) as (k' & LT & EQ); [rewrite ST; auto |].
  unfold succs. apply in_flat_map. exists i. split.
  - apply in_seq. split; [lia |]. simpl. apply nth_error_Some. congruence.
  - rewrite R. apply in_flat_map. exists k'. split; [apply in_seq; lia |].
    unfold estep. rewrite EQ, ST. simpl. auto.
Qed.

(* a closed set of erased states containing the initial one contains every reachable state (erased) *)
Theorem closed_contains_reachable : forall p m, Forall erased (all_states m) -> In (erase (init p)) (all_states m) ->
  closedb m = true -> forall s, reach p s -> In (erase s) (all_states m).
Proof.
  intros p m ER I0 CL s R. apply (reach_ind p (fun s => In (erase s) (all_states m))); auto.
  intros s0 i k s1 _ IN ST.
  assert (E : estep (erase s0) i k = Some (erase s1)).
  { unfold estep. rewrite erase_step. rewrite ST. reflexivity. }
  unfold closedb in CL. rewrite forallb_forall in CL. assert (C := CL _ IN). rewrite forallb_forall in C.
  apply memb_In; auto. apply erased_erase. apply C. eapply succs_complete; eauto.
Qed.

Definition is_nil {A} (l : list A) : bool := match l with [] => true | _ => false end.
Definition erasedb (s : state) : bool :=
  forallb (fun ch => is_nil (sent ch) && is_nil (rcvd ch) && is_nil (dropped ch)) (chs s) && is_nil (bumps s) && negb (unwound s).
Lemma erasedb_sound : forall s, erasedb s = true -> erased s.
Proof.
  intros [r c m me b u] H. unfold erasedb in H. simpl in H. repeat (apply andb_true_iff in H; destruct H as [H ?]).
  unfold erased, erase. simpl. destruct b; try discriminate. destruct u; try discriminate. f_equal.
  clear - H. induction c; simpl in *; auto. apply andb_true_iff in H. destruct H as [A B]. f_equal; auto.
  destruct a as [cp qq cl se rc dr]. simpl in A. repeat (apply andb_true_iff in A; destruct A as [A ?]).
  destruct se, rc, dr; try discriminate. reflexivity.
Qed.

(* the verified verdict: no state the program can reach shows observation o *)
Definition exhaustive_none (fuel : nat) (p : prog) (o : obs) : bool :=
  let e0 := erase (init p) in
  match explore fuel [e0] (insert e0 (PM.empty _)) with
  | Some m => let l := all_states m in
              forallb erasedb l && memb e0 m && closedb m && negb (existsb (fun s => matches s o) l)
  | None => false
  end.

Theorem exhaustive_none_sound : forall fuel p o, exhaustive_none fuel p o = true ->
  forall s, reach p s -> matches s o = false.
Proof.
  unfold exhaustive_none; intros fuel p o H s R.
  destruct (explore fuel [erase (init p)] (insert (erase (init p)) (PM.empty _))) as [m|]; try discriminate.
  repeat (apply andb_true_iff in H; destruct H as [H ?]).
  assert (ER : Forall erased (all_states m)).
  { apply Forall_forall. intros x IN. rewrite forallb_forall in H. apply erasedb_sound; auto. }
  assert (I0 : In (erase (init p)) (all_states m)) by (apply memb_In; auto; apply erased_erase).
  assert (IN := closed_contains_reachable p m ER I0 H1 s R).
  apply negb_true_iff in H0. rewrite <- matches_erase.
  destruct (matches (erase s) o) eqn:M; auto.
  assert (X : existsb (fun s => matches s o) (all_states m) = true) by (apply existsb_exists; eauto). congruence.
Qed.
