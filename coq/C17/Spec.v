(* C17 — specification side: what is observed of a run, and the conditions S every observation must meet. *)
From C17 Require Import Model.

(* what the harness can see of one run of a program on the implementation *)
Record obs := mkO {
  o_crash : bool;                 (* the process died (uncaught error in a routine, Go fatal error) *)
  o_fin : list bool;              (* routine i ran to completion and reported its log *)
  o_logs : list (list ev);        (* the reported logs (meaningful where o_fin) *)
  o_mem : list Z;                 (* cells after quiescence *)
  o_lens : list nat               (* (length channel) after quiescence: buffered items *)
}.

Definition obs_ok (p : prog) (o : obs) : bool := true.
