(* C17 — specification side: the vocabulary in which the property is stated (what was sent, what was
   received, by whom, in which order; who is inside which with-mutex-lock; what an increment is), what is
   observed of a run, and the conditions every observation must meet. *)
From C17 Require Import Model.

(* ---- lists ---- *)
Inductive subseq {A} : list A -> list A -> Prop :=
| sub_nil : forall l, subseq [] l
| sub_cons : forall x a b, subseq a b -> subseq (x :: a) (x :: b)
| sub_skip : forall x a b, subseq a b -> subseq a (x :: b).

(* ---- channels: histories ---- *)
Definition items (l : list rcv) : list entry :=
  flat_map (fun r => match r_item r with Some e => [e] | None => [] end) l.
Definition rcv_val (r : rcv) : val := match r_item r with Some e => e_val e | None => None end.
Definition by_ (i : nat) (l : list rcv) : list rcv := filter (fun r => Nat.eqb (r_by r) i) l.
Definition from_ (j : nat) (l : list entry) : list entry := filter (fun e => Nat.eqb (e_from e) j) l.
(* what routine's log says it received on channel c, in order *)
Definition pops (c : nat) (l : list ev) : list val :=
  flat_map (fun e => match e with EvPop c' v => if Nat.eqb c' c then [v] else [] | _ => [] end) l.

(* ---- mutexes: who is inside a with-mutex-lock on m ---- *)
Definition locks_of (st : list frame) : list nat :=
  flat_map (fun f => match fk f with KLock m => [m] | _ => [] end) st.
Definition inside (s : state) (i m : nat) : Prop :=
  exists r, nth_error (rs s) i = Some r /\ In m (locks_of (stk r)).

(* ---- counters ---- *)
(* the critical section (with-mutex-lock m (setq acc <x>) (setf <x> (+ acc k))) *)
Definition incr_body (x : nat) (body : list op) : bool :=
  match body with
  | [OLoad x1; OStore x2 (ZAccPlus _)] => Nat.eqb x1 x && Nat.eqb x2 x
  | _ => false
  end.
(* every access to cell x in the operation is such a critical section on mutex m *)
Fixpoint ok_op (x m : nat) (o : op) {struct o} : bool :=
  let fix all (l : list op) : bool := match l with [] => true | o' :: l' => ok_op x m o' && all l' end in
  match o with
  | OLock m' body => (Nat.eqb m' m && incr_body x body) || all body
  | OCatch body => all body
  | OLoad x' => negb (Nat.eqb x' x)
  | OStore x' _ => negb (Nat.eqb x' x)
  | _ => true
  end.
Definition ok_ops (x m : nat) (l : list op) : bool := forallb (ok_op x m) l.
Definition guarded (p : prog) (x m : nat) : bool := forallb (ok_ops x m) (p_code p).

(* the sum of the increments of x written in the operation *)
Fixpoint incs_op (x : nat) (o : op) {struct o} : Z :=
  let fix sum (l : list op) : Z := match l with [] => 0%Z | o' :: l' => (incs_op x o' + sum l')%Z end in
  match o with
  | OStore x' (ZAccPlus k) => if Nat.eqb x' x then k else 0%Z
  | OLock _ body => sum body
  | OCatch body => sum body
  | _ => 0%Z
  end.
Definition incs_ops (x : nat) (l : list op) : Z := fold_right (fun o a => (incs_op x o + a)%Z) 0%Z l.
Definition total_incs (p : prog) (x : nat) : Z := fold_right (fun l a => (incs_ops x l + a)%Z) 0%Z (p_code p).

(* no operation of the program can raise an error: no (error ...), no channel-close (hence no push on /
   close of a closed channel) *)
Fixpoint nofail_op (o : op) {struct o} : bool :=
  let fix all (l : list op) : bool := match l with [] => true | o' :: l' => nofail_op o' && all l' end in
  match o with
  | OFail => false
  | OClose _ => false
  | OLock _ body => all body
  | OCatch body => all body
  | _ => true
  end.
Definition nofail_ops (l : list op) : bool := forallb nofail_op l.
Definition nofail (p : prog) : bool := forallb nofail_ops (p_code p).

(* ---- what the harness can see of one run of a program on the implementation ---- *)
Record obs := mkO {
  o_crash : bool;                 (* the process died (uncaught error in a routine, Go fatal error) *)
  o_fin : list bool;              (* routine i ran to completion and reported its log *)
  o_logs : list (list ev);        (* the reported logs (meaningful where o_fin) *)
  o_mem : list Z;                 (* cells after quiescence *)
  o_lens : list nat               (* (length channel) after quiescence: buffered items *)
}.

Definition obs_ok (p : prog) (o : obs) : bool := true.
