(* C17 — specification side: the vocabulary in which the property is stated (what was sent, what was
   received, by whom, in which order; who is inside which with-mutex-lock; what an increment is), what is
   observed of a run, and the conditions every observation must meet. *)
From C17 Require Import Model.

(* ---- lists ---- *)
Inductive subseq {A} : list A -> list A -> Prop :=
| sub_nil : forall l, subseq [] l
| sub_cons : forall x a b, subseq a b -> subseq (x :: a) (x :: b)
| sub_skip : forall x a b, subseq a b -> subseq a (x :: b).

(* ---- channels: histories ---- *)
Definition items (l : list rcv) : list entry :=
  flat_map (fun r => match r_item r with Some e => [e] | None => [] end) l.
Definition rcv_val (r : rcv) : val := match r_item r with Some e => e_val e | None => None end.
Definition by_ (i : nat) (l : list rcv) : list rcv := filter (fun r => Nat.eqb (r_by r) i) l.
Definition from_ (j : nat) (l : list entry) : list entry := filter (fun e => Nat.eqb (e_from e) j) l.
(* what routine's log says it received on channel c, in order *)
Definition pops (c : nat) (l : list ev) : list val :=
  flat_map (fun e => match e with EvPop c' v => if Nat.eqb c' c then [v] else [] | _ => [] end) l.

(* ---- mutexes: who is inside a with-mutex-lock on m ---- *)
Definition locks_of (st : list frame) : list nat :=
  flat_map (fun f => match fk f with KLock m => [m] | _ => [] end) st.
Definition inside (s : state) (i m : nat) : Prop :=
  exists r, nth_error (rs s) i = Some r /\ In m (locks_of (stk r)).

(* ---- counters ---- *)
(* the critical section (with-mutex-lock m (setq acc <x>) (setf <x> (+ acc k))) *)
Definition incr_body (x : nat) (body : list op) : bool :=
  match body with
  | [OLoad x1; OStore x2 (ZAccPlus _)] => Nat.eqb x1 x && Nat.eqb x2 x
  | _ => false
  end.
(* every access to cell x in the operation is such a critical section on mutex m *)
Fixpoint ok_op (x m : nat) (o : op) {struct o} : bool :=
  let fix all (l : list op) : bool := match l with [] => true | o' :: l' => ok_op x m o' && all l' end in
  match o with
  | OLock m' body => (Nat.eqb m' m && incr_body x body) || all body
  | OCatch body => all body
  | OBlock _ _ body => all body
  | OLoad x' => negb (Nat.eqb x' x)
  | OStore x' _ => negb (Nat.eqb x' x)
  | _ => true
  end.
Definition ok_ops (x m : nat) (l : list op) : bool := forallb (ok_op x m) l.
Definition guarded (p : prog) (x m : nat) : bool := forallb (ok_ops x m) (p_code p).

(* the sum of the increments of x written in the operation *)
Fixpoint incs_op (x : nat) (o : op) {struct o} : Z :=
  let fix sum (l : list op) : Z := match l with [] => 0%Z | o' :: l' => (incs_op x o' + sum l')%Z end in
  match o with
  | OStore x' (ZAccPlus k) => if Nat.eqb x' x then k else 0%Z
  | OLock _ body => sum body
  | OCatch body => sum body
  | OBlock _ _ body => sum body
  | _ => 0%Z
  end.
Definition incs_ops (x : nat) (l : list op) : Z := fold_right (fun o a => (incs_op x o + a)%Z) 0%Z l.
Definition total_incs (p : prog) (x : nat) : Z := fold_right (fun l a => (incs_ops x l + a)%Z) 0%Z (p_code p).

(* no operation of the program can raise an error or leave code unexecuted: no (error ...), no channel-close
   (hence no push on / close of a closed channel), no return-from / go *)
Fixpoint nofail_op (o : op) {struct o} : bool :=
  let fix all (l : list op) : bool := match l with [] => true | o' :: l' => nofail_op o' && all l' end in
  match o with
  | OFail => false
  | OClose _ => false
  | OExit _ _ => false            (* skips the rest of the enclosing forms, or is a control-error *)
  | OLock _ body => all body
  | OCatch body => all body
  | OBlock _ _ body => all body
  | _ => true
  end.
Definition nofail_ops (l : list op) : bool := forallb nofail_op l.
Definition nofail (p : prog) : bool := forallb nofail_ops (p_code p).

(* ---- programs that only use mutexes and cells, without nesting one with-mutex-lock in another ---- *)
Definition is_chan_op (o : op) : bool :=
  match o with OPush _ _ | OPop _ | ORange _ | OSelect _ | OClose _ => true | _ => false end.
(* inside a with-mutex-lock body: no channel operation, no further lock; indices in range *)
Fixpoint lockfree_op (nm nx : nat) (o : op) {struct o} : bool :=
  let fix all (l : list op) : bool := match l with [] => true | o' :: l' => lockfree_op nm nx o' && all l' end in
  match o with
  | OLock _ _ => false
  | OCatch body => all body
  | OLoad x => Nat.ltb x nx
  | OStore x _ => Nat.ltb x nx
  | OFail => true
  | _ => false
  end.
Definition lockfree_ops nm nx (l : list op) : bool := forallb (lockfree_op nm nx) l.
Fixpoint flat_op (nm nx : nat) (o : op) {struct o} : bool :=
  let fix all (l : list op) : bool := match l with [] => true | o' :: l' => flat_op nm nx o' && all l' end in
  match o with
  | OLock m body => Nat.ltb m nm && lockfree_ops nm nx body
  | OCatch body => all body
  | OLoad x => Nat.ltb x nx
  | OStore x _ => Nat.ltb x nx
  | OFail => true
  | _ => false
  end.
Definition flat_ops nm nx (l : list op) : bool := forallb (flat_op nm nx) l.
Definition flat (p : prog) : bool := forallb (flat_ops (p_nmutex p) (length (p_mem p))) (p_code p).

(* ---- what the harness can see of one run of a program on the implementation ---- *)
Record obs := mkO {
  o_crash : bool;                 (* the process died (uncaught error in a routine, Go fatal error) *)
  o_fin : list bool;              (* routine i ran to completion and reported its log *)
  o_logs : list (list ev);        (* the reported logs (meaningful where o_fin) *)
  o_mem : list Z;                 (* cells after quiescence *)
  o_lens : list nat               (* (length channel) after quiescence: buffered items *)
}.

Definition ev_eqb (a b : ev) : bool :=
  match a, b with
  | EvPop c v, EvPop c' v' => Nat.eqb c c' && match v, v' with Some x, Some y => Z.eqb x y | None, None => true | _, _ => false end
  | EvLoad x z, EvLoad x' z' => Nat.eqb x x' && Z.eqb z z'
  | _, _ => false
  end.
Fixpoint list_eqb {A} (eqb : A -> A -> bool) (a b : list A) : bool :=
  match a, b with [], [] => true | x :: a', y :: b' => eqb x y && list_eqb eqb a' b' | _, _ => false end.

Definition buffered (ch : chanst) : nat := Nat.min (length (q ch)) (cap ch).

Fixpoint logs_match (rl : list routine) (fin : list bool) (logs : list (list ev)) : bool :=
  match rl, fin, logs with
  | [], [], [] => true
  | r :: rl', f :: fin', l :: logs' =>
      Bool.eqb (finished r && negb (unw r)) f && (if f then list_eqb ev_eqb (log r) l else true) && logs_match rl' fin' logs'
  | _, _, _ => false
  end.

(* state s of the model shows exactly what was observed, and is quiescent (no routine can move) *)
Definition matches (s : state) (o : obs) : bool :=
  if o_crash o then existsb crashed (rs s)
  else negb (existsb crashed (rs s)) && stuck s && logs_match (rs s) (o_fin o) (o_logs o)
       && list_eqb Z.eqb (mem s) (o_mem o) && list_eqb Nat.eqb (map buffered (chs s)) (o_lens o).

(* ---- S: conditions on an observation that hold on EVERY schedule of the model (Proofs: obs_ok_sound) ---- *)
Definition all_true (l : list bool) : bool := forallb (fun b => b) l.
Definition counter_ok (p : prog) (o : obs) (x : nat) : bool :=
  if existsb (fun m => guarded p x m) (seq 0 (p_nmutex p))
  then Z.eqb (nth x (o_mem o) 0%Z) (nth x (p_mem p) 0%Z + total_incs p x)%Z
  else true.
Definition obs_ok (p : prog) (o : obs) : bool :=
  if o_crash o then negb (nofail p)                                         (* only a program that can raise may die *)
  else (if flat p then all_true (o_fin o) else true)                        (* un-nested locks never block for good *)
       && (if nofail p && all_true (o_fin o)                                (* no lost update *)
           then forallb (counter_ok p o) (seq 0 (length (p_mem p))) else true).
