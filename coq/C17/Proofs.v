(* C17 — refutation witnesses, non-vacuity examples and the soundness of the per-run check. *)
From C17 Require Import Model Spec Steps ChanProofs MutexProofs CounterProofs FlatProofs ObsProofs Explore Corr ScopeModel ScopeProofs.
Local Open Scope Z_scope.

(* ---- the per-run check: code 0 really exhibits a schedule of the model ---- *)
Theorem check_zero_sound : forall p o sch, check_case (p, o, Some sch) = 0%N ->
  exists s, reach p s /\ matches s o = true /\ obs_ok p o = true.
Proof.
  unfold check_case; intros p o sch H.
  destruct (run_sched (init p) sch) as [s|] eqn:R.
  - destruct (matches s o) eqn:M.
    + destruct (obs_ok p o) eqn:O; try discriminate. exists s. repeat split; auto. exists sch; auto.
    + destruct (obs_ok p o); try discriminate. destruct (small p && exhaustive_none explore_fuel p o); discriminate.
  - destruct (obs_ok p o); try discriminate. destruct (small p && exhaustive_none explore_fuel p o); discriminate.
Qed.

(* code 2 is never produced for something the model can show *)
Theorem check_two_outside_model : forall p o osch, check_case (p, o, osch) = 2%N ->
  forall s, reach p s -> matches s o = false.
Proof.
  unfold check_case; intros p o osch H s R. destruct (matches s o) eqn:M; auto.
  rewrite (obs_ok_sound _ _ _ R M) in H.
  destruct osch as [sch|]; try discriminate.
  destruct (match run_sched (init p) sch with Some s0 => matches s0 o | None => false end); try discriminate.
  destruct (small p && exhaustive_none explore_fuel p o) eqn:X; try discriminate.
  apply andb_true_iff in X. destruct X as [_ X]. rewrite (exhaustive_none_sound _ _ _ X s R) in M. discriminate.
Qed.



(* ---- unguarded read-modify-write loses an update (also on a synchronized instance: its lock covers each
        single read and each single write, not the pair) ---- *)
Definition w_unguarded : prog :=
  mkP [] 0 [0] [[OLoad 0; OStore 0 (ZAccPlus 1)]; [OLoad 0; OStore 0 (ZAccPlus 1)]].
Definition w_unguarded_sched : list (nat * nat) := [(0,0); (1,0); (0,0); (1,0); (0,0); (1,0)]%nat.

Theorem unguarded_rmw_loses_update :
  exists s, reach w_unguarded s /\ all_finished s = true /\ nofail w_unguarded = true /\
            nth 0 (bumps s) 0 = 2 /\ nth 0 (mem s) 0 = 1 /\ guarded w_unguarded 0 0 = false.
Proof.
  destruct (run_sched (init w_unguarded) w_unguarded_sched) as [s|] eqn:E; [| vm_compute in E; discriminate].
  exists s. split; [exists w_unguarded_sched; auto |]. vm_compute in E. inversion E; subst. vm_compute. repeat split; auto.
Qed.

(* the explorer at work: two unguarded increments can end with 1 or 2, never with 3 (nor with 0) *)
Definition obs_unguarded (z : Z) : obs :=
  mkO false [true; true] [[EvLoad 0 (if Z.eqb z 2 then 0 else 0)]; [EvLoad 0 (if Z.eqb z 2 then 1 else 0)]] [z] [].
Example explorer_example :
  exhaustive_none 500 w_unguarded (obs_unguarded 3) = true /\ exhaustive_none 500 w_unguarded (obs_unguarded 0) = true /\
  exhaustive_none 500 w_unguarded (obs_unguarded 1) = false /\ exhaustive_none 500 w_unguarded (obs_unguarded 2) = false.
Proof. vm_compute. auto. Qed.

(* the schedule is forced by two unbuffered channels: EVERY run of this program loses the update, which is
   how the harness reproduces the finding on the implementation *)
Definition w_forced : prog :=
  mkP [0; 0]%nat 0 [0]
      [[OLoad 0; OPush 0 (VLit 1); OPop 1; OStore 0 (ZAccPlus 1)];
       [OPop 0; OLoad 0; OStore 0 (ZAccPlus 1); OPush 1 (VLit 1)]].
Definition w_forced_sched : list (nat * nat) :=
  [(0,0); (0,0); (1,0); (1,0); (1,0); (1,0); (0,0); (0,0); (0,0); (1,0)]%nat.
Theorem forced_rmw_loses_update :
  exists s, reach w_forced s /\ all_finished s = true /\ nth 0 (bumps s) 0 = 2 /\ nth 0 (mem s) 0 = 1.
Proof.
  destruct (run_sched (init w_forced) w_forced_sched) as [s|] eqn:E; [| vm_compute in E; discriminate].
  exists s. split; [exists w_forced_sched; auto |]. vm_compute in E. inversion E; subst. vm_compute. repeat split; auto.
Qed.

(* ---- non-vacuity: a guarded, error-free program with 3 routines; every hypothesis of counter_final holds
        and a schedule reaches the end ---- *)
Definition ex_counter : prog :=
  mkP [] 1 [5]
      [[OLock 0 [OLoad 0; OStore 0 (ZAccPlus 1)]; OLock 0 [OLoad 0; OStore 0 (ZAccPlus 2)]];
       [OLock 0 [OLoad 0; OStore 0 (ZAccPlus 3)]];
       [OCatch [OLock 0 [OLoad 0; OStore 0 (ZAccPlus 4)]]]].
Definition ex_counter_sched : list (nat * nat) :=
  [(0,0);(0,0);(0,0);(0,0); (1,0);(1,0);(1,0);(1,0);(1,0); (2,0);(2,0);(2,0);(2,0);(2,0);(2,0);(2,0);
   (0,0);(0,0);(0,0);(0,0);(0,0)]%nat.
Example counter_example :
  guarded ex_counter 0 0 = true /\ nofail ex_counter = true /\ flat ex_counter = true /\ total_incs ex_counter 0 = 10 /\
  exists s, run_sched (init ex_counter) ex_counter_sched = Some s /\ all_finished s = true /\ nth 0 (mem s) 0 = 15.
Proof.
  repeat split; try (vm_compute; reflexivity).
  destruct (run_sched (init ex_counter) ex_counter_sched) as [s|] eqn:E; [| vm_compute in E; discriminate].
  exists s. split; auto. vm_compute in E. inversion E; subst. vm_compute. auto.
Qed.

(* ---- non-vacuity: channels.  Two producers, two consumers over an unbuffered channel, a close, a range,
        an error unwinding through a with-mutex-lock; reachable, drained, and the mutex is free ---- *)
Definition ex_chan : prog :=
  mkP [0; 2]%nat 1 [0]
      [[OPush 0 (VLit 1); OPush 0 (VLit 2); OPush 1 (VLit 100)];
       [OPush 0 (VLit 11); OPush 1 (VLit 101)];
       [OPop 1; OPop 1; OClose 0];
       [ORange 0];
       [OPop 0; OCatch [OLock 0 [OStore 0 (ZLit 7); OFail; OStore 0 (ZLit 9)]]; OLock 0 [OLoad 0]]].
Definition ex_chan_sched : list (nat * nat) :=
  [(0,0); (4,0); (1,0); (3,0); (0,0); (3,0); (0,0); (1,0); (2,0); (2,0); (2,0); (3,0);
   (4,0); (4,0); (4,0); (4,0); (4,0); (4,0); (4,0); (4,0); (4,0);
   (0,0); (1,0); (2,0); (3,0); (4,0)]%nat.
Example chan_example :
  exists s, run_sched (init ex_chan) ex_chan_sched = Some s /\ all_finished s = true /\
    map (fun ch => map e_val (items (rcvd ch))) (chs s) = [[Some 1; Some 11; Some 2]; [Some 100; Some 101]] /\
    mus s = [None] /\ mem s = [7] /\ unwound s = true /\ existsb crashed (rs s) = false.
Proof.
  destruct (run_sched (init ex_chan) ex_chan_sched) as [s|] eqn:E; [| vm_compute in E; discriminate].
  exists s. split; auto. vm_compute in E. inversion E; subst. vm_compute. repeat split; auto.
Qed.

(* ---- a nested with-mutex-lock in opposite orders can block for good: `flat` excludes it for a reason ---- *)
Definition w_inversion : prog :=
  mkP [] 2 [0] [[OLock 0 [OLock 1 [OLoad 0]]]; [OLock 1 [OLock 0 [OLoad 0]]]].
Theorem lock_inversion_deadlocks :
  exists s, reach w_inversion s /\ stuck s = true /\ all_finished s = false /\ flat w_inversion = false.
Proof.
  destruct (run_sched (init w_inversion) [(0,0); (1,0)]%nat) as [s|] eqn:E; [| vm_compute in E; discriminate].
  exists s. split; [exists [(0,0); (1,0)]%nat; auto |]. vm_compute in E. inversion E; subst. vm_compute. auto.
Qed.

(* ---- an uncaught error in a routine: the model's "crashed" (on the implementation the process dies) ---- *)
Definition w_crash : prog := mkP [] 1 [0] [[OLock 0 [OFail]]; [OLock 0 [OLoad 0]]].
Theorem uncaught_error_crashes_but_frees_mutex :
  exists s, reach w_crash s /\ existsb crashed (rs s) = true /\ mus s = [None].
Proof.
  destruct (run_sched (init w_crash) [(0,0); (0,0); (0,0); (0,0)]%nat) as [s|] eqn:E; [| vm_compute in E; discriminate].
  exists s. split; [exists [(0,0); (0,0); (0,0); (0,0)]%nat; auto |]. vm_compute in E. inversion E; subst. vm_compute. auto.
Qed.

(* ---- the hypotheses of mutex_free_after_exit are met by both kinds of exit ---- *)
Definition ex_exit : prog := mkP [] 1 [0] [[OCatch [OLock 0 [OFail]]; OLock 0 []]].
Example exit_by_error_and_by_end :
  (exists s s', run_sched (init ex_exit) [(0,0); (0,0); (0,0)]%nat = Some s /\ step s 0 0 = Some s' /\
                inside s 0%nat 0%nat /\ ~ inside s' 0%nat 0%nat /\ unw (nth 0 (rs s) (init_routine [])) = true) /\
  (exists s s', run_sched (init ex_exit) [(0,0); (0,0); (0,0); (0,0); (0,0); (0,0)]%nat = Some s /\ step s 0 0 = Some s' /\
                inside s 0%nat 0%nat /\ ~ inside s' 0%nat 0%nat /\ unw (nth 0 (rs s) (init_routine [])) = false).
Proof.
  split.
  - destruct (run_sched (init ex_exit) [(0,0); (0,0); (0,0)]%nat) as [s|] eqn:E; [| vm_compute in E; discriminate].
    destruct (step s 0 0) as [s'|] eqn:E'; [| vm_compute in E; inversion E; subst; vm_compute in E'; discriminate].
    exists s, s'. vm_compute in E. inversion E; subst. vm_compute in E'. inversion E'; subst.
    repeat split; auto.
    + eexists. split; [reflexivity | simpl; auto].
    + intros (r & A & B). vm_compute in A. inversion A; subst. simpl in B. contradiction.
  - destruct (run_sched (init ex_exit) [(0,0); (0,0); (0,0); (0,0); (0,0); (0,0)]%nat) as [s|] eqn:E; [| vm_compute in E; discriminate].
    destruct (step s 0 0) as [s'|] eqn:E'; [| vm_compute in E; inversion E; subst; vm_compute in E'; discriminate].
    exists s, s'. vm_compute in E. inversion E; subst. vm_compute in E'. inversion E'; subst.
    repeat split; auto.
    + eexists. split; [reflexivity | simpl; auto].
    + intros (r & A & B). vm_compute in A. inversion A; subst. simpl in B. contradiction.
Qed.

(* ---- leaving with-mutex-lock by return-from / go: the marker is a VALUE that travels up through the forms;
        at the lock frame the deferred Unlock runs ---- *)
Definition ex_marker (tb : bool) : prog :=
  mkP [] 2 [0] [[OBlock tb 0 [OLock 1 [OCatch [OLock 0 [OStore 0 (ZLit 1); OExit tb 0]]]; OStore 0 (ZLit 9)]; OLock 0 [OLock 1 [OLoad 0]]]].
Definition insideb (s : state) (i m : nat) : bool :=
  match nth_error (rs s) i with Some r => existsb (Nat.eqb m) (locks_of (stk r)) | None => false end.
(* after 6 moves the marker is set inside both locks; the 7th move leaves the inner with-mutex-lock and frees its
   mutex, the 9th the outer one; the block catches the marker (the store after it is skipped); the routine then
   takes both mutexes again and finishes *)
Definition marker_facts (tb : bool) : bool :=
  match run_sched (init (ex_marker tb)) (repeat (0, 0)%nat 6) with
  | Some s =>
      insideb s 0 0 && insideb s 0 1 &&
      match ext (nth 0 (rs s) (init_routine [])) with Some (t, b) => Bool.eqb t tb && Nat.eqb b 0 | None => false end &&
      match step s 0 0 with
      | Some s1 =>
          negb (insideb s1 0 0) && insideb s1 0 1 &&
          match nth_error (mus s1) 0 with Some None => true | _ => false end &&
          match run_sched s1 (repeat (0, 0)%nat 2) with
          | Some s3 =>
              negb (insideb s3 0 1) &&
              match mus s3 with [None; None] => true | _ => false end &&
              match run_sched s3 (repeat (0, 0)%nat 7) with
              | Some sf => all_finished sf &&
                           match mem sf, log (nth 0 (rs sf) (init_routine [])) with
                           | [1], [EvLoad 0 1] => true | _, _ => false end
              | None => false
              end
          | None => false
          end
      | None => false
      end
  | None => false
  end.
Example exit_by_marker : marker_facts false = true /\ marker_facts true = true.
Proof. split; vm_compute; reflexivity. Qed.

(* a return-from that is NOT the last form of with-mutex-lock leaves it all the same (after the repairs C07-1..21
   every form passes the marker up from any position of its body): the store after it is skipped, the mutex is
   released on the way, the block takes the marker, the routine locks the same mutex again and finishes *)
Definition ex_midbody : prog := mkP [] 1 [0] [[OBlock false 0 [OLock 0 [OExit false 0; OStore 0 (ZLit 5)]]; OLock 0 [OLoad 0]]].
Example marker_leaves_from_any_position :
  (exists s4, run_sched (init ex_midbody) (repeat (0, 0)%nat 4) = Some s4 /\ mus s4 = [None] /\
              ext (nth 0 (rs s4) (init_routine [])) = Some (false, 0%nat)) /\
  exists sf, run_sched (init ex_midbody) (repeat (0, 0)%nat 9) = Some sf /\ all_finished sf = true /\ mem sf = [0] /\ mus sf = [None] /\
             log (nth 0 (rs sf) (init_routine [])) = [EvLoad 0 0].
Proof.
  split.
  - destruct (run_sched (init ex_midbody) (repeat (0, 0)%nat 4)) as [s|] eqn:E; [| vm_compute in E; discriminate].
    exists s. split; auto. vm_compute in E. inversion E; subst. vm_compute. auto.
  - destruct (run_sched (init ex_midbody) (repeat (0, 0)%nat 9)) as [s|] eqn:E; [| vm_compute in E; discriminate].
    exists s. split; auto. vm_compute in E. inversion E; subst. vm_compute. auto.
Qed.

(* ---- the per-run replay of scope scenarios stays inside the model and its guard: every state it passes is a
        state the scope theorems speak about ---- *)
Lemma exec_code_reach : forall code st i acc st' acc',
  sreach st -> exec_code st i code acc = Some (st', acc') -> sreach st'.
Proof.
  induction code as [|[o|k|k t b] code IH]; cbn [exec_code]; intros st i acc st' acc' R H.
  - inversion H; subst; auto.
  - destruct (guardb st i o) eqn:G; try discriminate.
    destruct (sstep st i o) as [st1|] eqn:S; try discriminate.
    eapply IH; [|eauto]. eapply sr_step; eauto. apply guardb_ok; auto.
  - destruct (nth_error (stacks st) i) as [[|s0 rest]|]; try discriminate. eapply IH; eauto.
  - destruct (nth_error (stacks st) i) as [[|s0 rest]|]; try discriminate.
    destruct (existsb (Nat.eqb t) (anc st s0)); try discriminate.
    destruct (ScopeLockModel.access ScopeLockModel.all_release st [] (anc st s0) k t b) as [[|? ?]|]; try discriminate. eapply IH; eauto.
Qed.
