From C17 Require Import Model Spec.
Lemma init_example : all_finished (init (mkP [] 0 [] [])) = true.
Proof. reflexivity. Qed.
