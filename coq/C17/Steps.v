(* C17 — infrastructure: list update lemmas and a relational view of `step` (one constructor per branch of
   the Go-level behaviour), with the inversion lemma `step_Step` proved once.  Every invariant in
   Proofs.v is then a case analysis over `Step`. *)
From C17 Require Import Model.

(* ---- upd ---- *)
Lemma upd_length : forall A (l : list A) i x, length (upd l i x) = length l.
Proof. induction l; destruct i; simpl; intros; auto. Qed.

Lemma nth_error_upd_same : forall A (l : list A) i x y, nth_error l i = Some y -> nth_error (upd l i x) i = Some x.
Proof. induction l; destruct i; simpl; intros; try discriminate; eauto. Qed.

Lemma nth_error_upd_other : forall A (l : list A) i j x, i <> j -> nth_error (upd l i x) j = nth_error l j.
Proof. induction l; destruct i; destruct j; simpl; intros; auto; try congruence. Qed.

Lemma nth_error_upd : forall A (l : list A) i j x,
  nth_error (upd l i x) j = if Nat.eqb i j then match nth_error l i with Some _ => Some x | None => None end else nth_error l j.
Proof.
  intros. destruct (Nat.eqb_spec i j).
  - subst. destruct (nth_error l j) eqn:E.
    + eapply nth_error_upd_same; eauto.
    + revert j E. induction l; destruct j; simpl; intros; auto; try discriminate.
  - apply nth_error_upd_other; auto.
Qed.

Lemma upd_split : forall A (l : list A) i x y, nth_error l i = Some y ->
  l = firstn i l ++ y :: skipn (S i) l /\ upd l i x = firstn i l ++ x :: skipn (S i) l.
Proof.
  induction l; destruct i; simpl; intros; try discriminate.
  - inversion H; subst. auto.
  - destruct (IHl _ x _ H) as [E1 E2]. split; f_equal; auto.
Qed.

Lemma nth_upd_same : forall (l : list Z) i x d, i < length l -> nth i (upd l i x) d = x.
Proof. induction l; destruct i; simpl; intros; try lia; auto. apply IHl. lia. Qed.

Lemma nth_upd_other : forall (l : list Z) i j x d, i <> j -> nth j (upd l i x) d = nth j l d.
Proof. induction l; destruct i; destruct j; simpl; intros; auto; try congruence. Qed.

Lemma nth_error_nth' : forall (l : list Z) i z d, nth_error l i = Some z -> nth i l d = z.
Proof. induction l; destruct i; simpl; intros; try discriminate; auto. congruence. Qed.

(* ---- mark_unw only sets the unwinding flag ---- *)
Lemma mark_unw_nth : forall ds l j k r, nth_error l k = Some r ->
  exists b, nth_error (mark_unw ds j l) k = Some (mkR (stk r) b (ext r) (got r) (acc r) (log r)) /\ (b = unw r \/ b = true).
Proof.
  induction l; destruct k; simpl; intros; try discriminate.
  - inversion H; subst. destruct (existsb _ ds).
    + exists true. split; auto.
    + exists (unw r). split; auto. destruct r; auto.
  - eapply IHl; eauto.
Qed.
Lemma mark_unw_none : forall ds l j k, nth_error l k = None -> nth_error (mark_unw ds j l) k = None.
Proof. induction l; destruct k; simpl; intros; try discriminate; auto. Qed.
Lemma mark_unw_length : forall ds l j, length (mark_unw ds j l) = length l.
Proof. induction l; simpl; intros; auto. Qed.

(* ---- channel transitions ---- *)
Inductive chan_trans (i : nat) : chanst -> chanst -> Prop :=
| CTpush : forall ch v, closed ch = false ->
    chan_trans i ch (mkC (cap ch) (q ch ++ [mkE v i]) false (sent ch ++ [mkE v i]) (rcvd ch) (dropped ch))
| CTitem : forall ch e q', q ch = e :: q' ->
    chan_trans i ch (mkC (cap ch) q' (closed ch) (sent ch) (rcvd ch ++ [mkRcv (Some e) i]) (dropped ch))
| CTnil : forall ch, q ch = [] -> closed ch = true ->
    chan_trans i ch (mkC (cap ch) [] true (sent ch) (rcvd ch ++ [mkRcv None i]) (dropped ch))
| CTclose : forall ch, closed ch = false ->
    chan_trans i ch (mkC (cap ch) (firstn (cap ch) (q ch)) true (sent ch) (rcvd ch) (dropped ch ++ skipn (cap ch) (q ch))).

Lemma take_trans : forall ch i v ch', take ch i = Some (v, ch') ->
  chan_trans i ch ch' /\
  ((exists e q', q ch = e :: q' /\ v = e_val e /\ rcvd ch' = rcvd ch ++ [mkRcv (Some e) i]) \/
   (q ch = [] /\ closed ch = true /\ v = None /\ rcvd ch' = rcvd ch ++ [mkRcv None i])).
Proof.
  unfold take; intros. destruct (q ch) eqn:Q.
  - destruct (closed ch) eqn:C; inversion H; subst. split; [ apply CTnil; auto | right; auto ].
  - inversion H; subst. split; [ apply CTitem; auto | left; eauto ].
Qed.

(* ---- the step relation ---- *)
Section StepRel.
Variable s : state.
Variable i : nat.
Variable r : routine.      (* routine i before the step *)
Variable f : frame.        (* its top frame *)
Variable rest : list frame.

Definition adv (ops' : list op) : routine := set_stk r (mkF (fk f) ops' :: rest).

Inductive Step : state -> Prop :=
| SUnwCatch : unw r = true -> fk f = KCatch -> Step (set_r s i (set_unw (set_stk r rest) false))
| SUnwLock : forall m, unw r = true -> fk f = KLock m -> Step (set_rm s i (set_stk r rest) m None)
| SUnwPlain : unw r = true -> fk f = KPlain -> Step (set_r s i (set_stk r rest))
| SExitLock : forall m, unw r = false -> fops f = [] -> fk f = KLock m -> Step (set_rm s i (set_stk r rest) m None)
| SExitOther : unw r = false -> fops f = [] -> (forall m, fk f <> KLock m) -> Step (set_r s i (set_stk r rest))
| SPushClosed : forall c e ops' ch, unw r = false -> fops f = OPush c e :: ops' ->
    nth_error (chs s) c = Some ch -> closed ch = true -> Step (raise s i (adv ops'))
| SPush : forall c e ops' ch ch', unw r = false -> fops f = OPush c e :: ops' ->
    nth_error (chs s) c = Some ch -> closed ch = false ->
    ch' = mkC (cap ch) (q ch ++ [mkE (veval (adv ops') e) i]) false (sent ch ++ [mkE (veval (adv ops') e) i]) (rcvd ch) (dropped ch) ->
    Step (set_rc s i (adv ops') c ch')
| SPop : forall c ops' ch v ch', unw r = false -> fops f = OPop c :: ops' ->
    nth_error (chs s) c = Some ch -> take ch i = Some (v, ch') -> Step (set_rc s i (recv (adv ops') c v) c ch')
| SRangeTake : forall c ops' ch v ch', unw r = false -> fops f = ORange c :: ops' ->
    nth_error (chs s) c = Some ch -> q ch <> [] -> take ch i = Some (v, ch') -> Step (set_rc s i (recv r c v) c ch')
| SRangeEnd : forall c ops' ch, unw r = false -> fops f = ORange c :: ops' ->
    nth_error (chs s) c = Some ch -> q ch = [] -> closed ch = true -> Step (set_r s i (adv ops'))
| SSelect : forall cs k c ops' ch v ch', unw r = false -> fops f = OSelect cs :: ops' -> nth_error cs k = Some (Some c) ->
    nth_error (chs s) c = Some ch -> take ch i = Some (v, ch') -> Step (set_rc s i (recv (adv ops') c v) c ch')
| SCloseClosed : forall c ops' ch, unw r = false -> fops f = OClose c :: ops' ->
    nth_error (chs s) c = Some ch -> closed ch = true -> Step (raise s i (adv ops'))
| SClose : forall c ops' ch, unw r = false -> fops f = OClose c :: ops' ->
    nth_error (chs s) c = Some ch -> closed ch = false ->
    Step (mkS (mark_unw (skipn (cap ch) (q ch)) 0 (upd (rs s) i (adv ops')))
              (upd (chs s) c (mkC (cap ch) (firstn (cap ch) (q ch)) true (sent ch) (rcvd ch) (dropped ch ++ skipn (cap ch) (q ch))))
              (mus s) (mem s) (bumps s) (match skipn (cap ch) (q ch) with [] => unwound s | _ => true end))
| SLoad : forall x ops' z, unw r = false -> fops f = OLoad x :: ops' -> nth_error (mem s) x = Some z ->
    Step (set_r s i (load (adv ops') x z))
| SStore : forall x e ops' z0, unw r = false -> fops f = OStore x e :: ops' -> nth_error (mem s) x = Some z0 ->
    Step (mkS (upd (rs s) i (adv ops')) (chs s) (mus s) (upd (mem s) x (zeval (adv ops') e))
              (match e with ZAccPlus d => upd (bumps s) x (nth x (bumps s) 0 + d)%Z | ZLit _ => bumps s end) (unwound s))
| SFail : forall ops', unw r = false -> fops f = OFail :: ops' -> Step (raise s i (adv ops'))
| SLock : forall m body ops', unw r = false -> fops f = OLock m body :: ops' -> nth_error (mus s) m = Some None ->
    Step (set_rm s i (set_stk (adv ops') (mkF (KLock m) body :: stk (adv ops'))) m (Some i))
| SCatch : forall body ops', unw r = false -> fops f = OCatch body :: ops' ->
    Step (set_r s i (set_stk (adv ops') (mkF KCatch body :: stk (adv ops'))))
| SBlock : forall tb b body ops', unw r = false -> fops f = OBlock tb b body :: ops' ->
    Step (set_r s i (set_stk (adv ops') (mkF (KBlock tb b) body :: stk (adv ops'))))
| SExit : forall tb b ops', unw r = false -> fops f = OExit tb b :: ops' -> Step (set_r s i (set_ext (adv ops') (Some (tb, b))))
| SExitFail : forall tb b ops', unw r = false -> fops f = OExit tb b :: ops' -> Step (raise s i (adv ops'))
(* an exit marker on its way up: the frame is left (keeping or consuming the marker), a lock frame is left and
   unlocked - from any position of the body *)
| SUnwBlock : forall tb b, unw r = true -> fk f = KBlock tb b -> Step (set_r s i (set_stk r rest))
| SExtPop : forall e e', unw r = false -> ext r = Some e -> (forall m, fk f <> KLock m) ->
    Step (set_r s i (set_ext (set_stk r rest) e'))
| SExtPopLock : forall e m, unw r = false -> ext r = Some e -> fk f = KLock m ->
    Step (set_rm s i (set_stk r rest) m None).
End StepRel.

Lemma step_Step : forall s i k s', step s i k = Some s' ->
  exists r f rest, nth_error (rs s) i = Some r /\ parked s i = false /\ stk r = f :: rest /\ Step s i r f rest s'.
Proof.
  unfold step; intros s i k s' H.
  destruct (nth_error (rs s) i) as [r|] eqn:R; try discriminate.
  destruct (parked s i) eqn:P; try discriminate.
  destruct (stk r) as [|f rest] eqn:ST; try discriminate.
  exists r, f, rest. repeat split; auto.
  destruct (unw r) eqn:U.
  - destruct (fk f) eqn:K; inversion H; subst.
    + apply SUnwPlain; auto.
    + eapply SUnwLock; eauto.
    + apply SUnwCatch; auto.
    + eapply SUnwBlock; eauto.
  - destruct (ext r) as [[tb b]|] eqn:EX.
    { assert (POP : forall e', (forall m, fk f <> KLock m) -> Step s i r f rest (set_r s i (set_ext (set_stk r rest) e'))).
      { intros. eapply SExtPop; eauto. }
      assert (POP0 : (forall m, fk f <> KLock m) -> Step s i r f rest (set_r s i (set_stk r rest))).
      { intros N. exact (POP (ext r) N). }
      destruct (fk f) eqn:K.
      - inversion H; subst. apply POP0. intros; congruence.
      - inversion H; subst. eapply SExtPopLock; eauto.
      - inversion H; subst. apply POP0. intros; congruence.
      - destruct tb0.
        + destruct (tb && Nat.eqb b0 b); inversion H; subst.
          * apply POP. intros; congruence.
          * apply POP0. intros; congruence.
        + destruct tb; inversion H; subst.
          * apply POP0. intros; congruence.
          * apply POP. intros; congruence. }
    destruct (fops f) as [|o ops'] eqn:O.
    + destruct (fk f) eqn:K; inversion H; subst.
      * apply SExitOther; auto. intros; congruence.
      * eapply SExitLock; eauto.
      * apply SExitOther; auto. intros; congruence.
      * apply SExitOther; auto. intros; congruence.
    + unfold exec in H. fold (adv r f rest ops') in H.
      destruct o.
      * destruct (nth_error (chs s) c) as [ch|] eqn:C; try discriminate.
        destruct (closed ch) eqn:CL; inversion H; subst.
        -- eapply SPushClosed; eauto.
        -- eapply SPush; eauto.
      * destruct (nth_error (chs s) c) as [ch|] eqn:C; try discriminate.
        destruct (take ch i) as [[v ch']|] eqn:T; inversion H; subst. eapply SPop; eauto.
      * destruct (nth_error (chs s) c) as [ch|] eqn:C; try discriminate.
        destruct (q ch) eqn:Q.
        -- destruct (closed ch) eqn:CL; inversion H; subst. eapply SRangeEnd; eauto.
        -- destruct (take ch i) as [[v ch']|] eqn:T; inversion H; subst. eapply SRangeTake; eauto. congruence.
      * destruct (nth_error cs k) as [[c|]|] eqn:N; try discriminate.
        destruct (nth_error (chs s) c) as [ch|] eqn:C; try discriminate.
        destruct (take ch i) as [[v ch']|] eqn:T; inversion H; subst. eapply SSelect; eauto.
      * destruct (nth_error (chs s) c) as [ch|] eqn:C; try discriminate.
        destruct (closed ch) eqn:CL; inversion H; subst.
        -- eapply SCloseClosed; eauto.
        -- eapply SClose; eauto.
      * destruct (nth_error (mem s) x) as [z|] eqn:M; inversion H; subst. eapply SLoad; eauto.
      * destruct (nth_error (mem s) x) as [z|] eqn:M; inversion H; subst. eapply SStore; eauto.
      * inversion H; subst. eapply SFail; eauto.
      * destruct (nth_error (mus s) m) as [[j|]|] eqn:M; inversion H; subst. eapply SLock; eauto.
      * inversion H; subst. eapply SCatch; eauto.
      * inversion H; subst. eapply SBlock; eauto.
      * destruct (existsb _ (stk (adv r f rest ops'))); inversion H; subst.
        -- eapply SExit; eauto.
        -- eapply SExitFail; eauto.
Qed.

(* reachability: some schedule leads from the initial state to s *)
Definition reach (p : prog) (s : state) : Prop := exists sch, run_sched (init p) sch = Some s.

Lemma reach_ind : forall (p : prog) (P : state -> Prop),
  P (init p) ->
  (forall s i k s', reach p s -> P s -> step s i k = Some s' -> P s') ->
  forall s, reach p s -> P s.
Proof.
  intros p P H0 HS s [sch R].
  assert (G : forall sch s0 s, reach p s0 -> P s0 -> run_sched s0 sch = Some s -> P s).
  { clear sch s R. induction sch as [|[i k] sch IH]; simpl; intros s0 s R0 P0 E.
    - inversion E; subst; auto.
    - destruct (step s0 i k) as [s1|] eqn:S; try discriminate.
      eapply IH; [ | eapply HS; eauto | eauto ].
      destruct R0 as [sch0 R0]. exists (sch0 ++ [(i, k)]).
      clear - R0 S. revert R0. generalize (init p). induction sch0 as [|[a b] sch0 IH']; simpl; intros.
      + inversion R0; subst. rewrite S. auto.
      + destruct (step s a b); try discriminate. auto. }
  eapply G; eauto. exists []; auto.
Qed.
