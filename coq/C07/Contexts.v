(* C07 — laws of the reference evaluator S about exits travelling through arbitrary nestings, proved by
   induction on the nesting: an exit (return-from / go / error) raised in the hole of a context E made of
   any number of frames (16 kinds), none of which is its target or a handler, comes out of E unchanged, and on the
   way exactly the cleanups of E run, innermost first (unwind-protect cleanup forms, mutex releases, stream
   closes), nothing else.  Corollaries: return-from reaches the lexically matching block and no other and
   yields the value; go reaches the matching tag; an unhandled error keeps its class. *)
From C07 Require Import Model Spec.

Ltac inv H := inversion H; subst; clear H.

Definition trs (ks : list N) : list form := map Tr ks.
Definition tri (ks : list N) : list item := map (fun k => IForm (Tr k)) ks.

(* one level of nesting with a hole; the forms before the hole are trace markers (they complete normally) *)
Inductive frame :=
| FProgn (pre : list N) (post : list form)
| FWhen (pre : list N) (post : list form)                 (* (when t pre.. [] post..) *)
| FLet (pre : list N) (post : list form)                  (* (let () pre.. [] post..) *)
| FArg (pre : list N) (post : list form)                  (* (list pre.. [] post..) *)
| FBlock (t : N) (pre : list N) (post : list form)
| FUnwind (u : N) (cs : list N)                           (* (unwind-protect [] (tr c)..) *)
| FIgnore (pre : list N) (post : list form)
| FRecover (h : form) (pre : list N) (post : list form)
| FMutex (m : N) (pre : list N) (post : list form)
| FFile (f : N) (pre : list N) (post : list form)
| FLam (pre : list N) (post : list form)
| FTagbody (pre : list N) (post : list item)              (* (tagbody pre.. [] post..) *)
| FLoop (k : loopkind) (n : nat) (pre : list N) (post : list item) (res : form)   (* n+1 iterations, the first one *)
| FDo (n : nat) (pre : list N) (post : list item) (res : list form)
| FUnless (pre : list N) (post : list form)               (* (unless nil pre.. [] post..) *)
| FIf (b : form).                                         (* (if t [] b) *)

Definition plug1 (F : frame) (x : form) : form :=
  match F with
  | FProgn pre post => Progn (trs pre ++ x :: post)
  | FWhen pre post => When (Const LT) (trs pre ++ x :: post)
  | FLet pre post => Let [] (trs pre ++ x :: post)
  | FArg pre post => CallList (trs pre ++ x :: post)
  | FBlock t pre post => Block t (trs pre ++ x :: post)
  | FUnwind u cs => UnwindProtect u x (trs cs)
  | FIgnore pre post => IgnoreErrors (trs pre ++ x :: post)
  | FRecover h pre post => Recover h (trs pre ++ x :: post)
  | FMutex m pre post => WithMutex m (trs pre ++ x :: post)
  | FFile f pre post => WithFile f (trs pre ++ x :: post)
  | FLam pre post => Lam (trs pre ++ x :: post)
  | FTagbody pre post => Tagbody (tri pre ++ IForm x :: post)
  | FLoop k n pre post res => Loop k (S n) (tri pre ++ IForm x :: post) res
  | FDo n pre post res => Do (S n) (tri pre ++ IForm x :: post) res
  | FUnless pre post => Unless (Const LNil) (trs pre ++ x :: post)
  | FIf b => If (Const LT) x b
  end.
(* a context: frames from the outermost to the innermost *)
Fixpoint plug (E : list frame) (x : form) : form :=
  match E with [] => x | F :: E' => plug1 F (plug E' x) end.

(* lexical context of the hole *)
Definition bl1 (F : frame) (bl : list N) : list N :=
  match F with FBlock t _ _ => t :: bl | FLoop _ _ _ _ _ | FDo _ _ _ _ => 0%N :: bl | _ => bl end.
Definition tg1 (F : frame) (tg : list N) : list N :=
  match F with FTagbody _ post | FLoop _ _ _ post _ | FDo _ _ post _ => tags_of post ++ tg | _ => tg end.
Fixpoint bl_in (E : list frame) (bl : list N) : list N :=
  match E with [] => bl | F :: E' => bl_in E' (bl1 F bl) end.
Fixpoint tg_in (E : list frame) (tg : list N) : list N :=
  match E with [] => tg | F :: E' => tg_in E' (tg1 F tg) end.

Fixpoint logtrs (ks : list N) (st : state) : state :=
  match ks with [] => st | k :: r => logtrs r (log (ETr k (locks st) (files st)) st) end.

(* what happens on the way in ... *)
Definition enter1 (F : frame) (st : state) : state :=
  match F with
  | FProgn pre _ | FWhen pre _ | FLet pre _ | FArg pre _ | FBlock _ pre _ | FIgnore pre _ | FRecover _ pre _
  | FLam pre _ | FTagbody pre _ | FLoop _ _ pre _ _ | FDo _ pre _ _ | FUnless pre _ => logtrs pre st
  | FIf _ => st
  | FUnwind u _ => log (EEnter u) st
  | FMutex m pre _ => logtrs pre (lock m st)
  | FFile f pre _ => logtrs pre (fopen f st)
  end.
(* ... and on the way out when an exit passes *)
Definition leave1 (F : frame) (st : state) : state :=
  match F with
  | FUnwind u cs => logtrs cs (log (ECleanup u) st)
  | FMutex m _ _ => unlock m st
  | FFile f _ _ => fclose f st
  | _ => st
  end.
Fixpoint enter (E : list frame) (st : state) : state :=
  match E with [] => st | F :: E' => enter E' (enter1 F st) end.
(* innermost first *)
Fixpoint leave (E : list frame) (st : state) : state :=
  match E with [] => st | F :: E' => leave1 F (leave E' st) end.

(* a mutex frame can only be entered when its mutex is free at that point *)
Fixpoint enterable (E : list frame) (st : state) : Prop :=
  match E with
  | [] => True
  | F :: E' => match F with FMutex m _ _ => N.testbit (locks st) m = false | _ => True end /\ enterable E' (enter1 F st)
  end.

Definition is_exit (o : outcome) : Prop := match o with Ret _ _ | Goto _ | Err _ => True | _ => False end.

(* F is neither the target of o nor a handler for it *)
Definition transp1 (F : frame) (o : outcome) : bool :=
  match o with
  | Ret t _ =>
      match F with
      | FBlock t' _ _ => negb (N.eqb t' t)
      | FLoop _ _ _ _ _ | FDo _ _ _ _ => negb (N.eqb 0 t)
      | _ => true
      end
  | Goto t =>
      match F with
      | FTagbody _ post | FLoop _ _ _ post _ | FDo _ _ post _ => negb (memN t (tags_of post))
      | _ => true
      end
  | Err _ => match F with FIgnore _ _ | FRecover _ _ _ => false | _ => true end
  | _ => false
  end.
Definition transp (E : list frame) (o : outcome) : bool := forallb (fun F => transp1 F o) E.

(* ---- evaluating the markers before the hole ------------------------------------------------------ *)
Lemma tags_of_app_c : forall a b, tags_of (a ++ b) = tags_of a ++ tags_of b.
Proof. induction a as [|[t|f] a IH]; intros; cbn; [reflexivity | rewrite IH; reflexivity | apply IH]. Qed.
Lemma tags_tri : forall pre rest, tags_of (tri pre ++ rest) = tags_of rest.
Proof. induction pre; cbn; auto. Qed.

Section Pre.
  Variable ev : form -> state -> outcome * state.
  Hypothesis seval_tr : forall k st, ev (Tr k) st = (Normal (VInt (Z.of_N k)), log (ETr k (locks st) (files st)) st).

  Lemma s_seq_trs : forall pre y post last st o s,
    is_exit o -> ev y (logtrs pre st) = (o, s) -> s_seq ev (trs pre ++ y :: post) last st = (o, s).
  Proof.
    induction pre as [|k pre IH]; intros y post last st o s X H; cbn [trs map app s_seq logtrs] in *.
    - rewrite H. destruct o; try contradiction; reflexivity.
    - rewrite seval_tr. apply IH; assumption.
  Qed.
  Lemma s_args_trs : forall pre y post acc st o s,
    is_exit o -> ev y (logtrs pre st) = (o, s) -> s_args ev (trs pre ++ y :: post) acc st = (inl o, s).
  Proof.
    induction pre as [|k pre IH]; intros y post acc st o s X H; cbn [trs map app s_args logtrs] in *.
    - rewrite H. destruct o; try contradiction; reflexivity.
    - rewrite seval_tr. apply IH; assumption.
  Qed.
  Lemma s_pass_trs : forall own pre y post st o s,
    is_exit o -> ev y (logtrs pre st) = (o, s) ->
    s_pass ev own (tri pre ++ IForm y :: post) st =
    (match o with Goto t => if memN t own then SJump t else SOut o | _ => SOut o end, s).
  Proof.
    induction pre as [|k pre IH]; intros y post st o s X H; cbn [tri map app s_pass logtrs] in *.
    - rewrite H. destruct o; try contradiction; try reflexivity. destruct (memN t own); reflexivity.
    - rewrite seval_tr. apply IH; assumption.
  Qed.
  (* an exit that does not target the body leaves the (first iteration of the) body at once *)
  Lemma s_tagbody_trs : forall k pre y post st o s,
    is_exit o -> (forall t, o = Goto t -> memN t (tags_of post) = false) ->
    ev y (logtrs pre st) = (o, s) ->
    s_tagbody ev (tri pre ++ IForm y :: post) k (tri pre ++ IForm y :: post) st = (o, s).
  Proof.
    intros k pre y post st o s X NG H.
    assert (P := s_pass_trs (tags_of (tri pre ++ IForm y :: post)) pre y post st o s X H).
    rewrite tags_tri in P. cbn [tags_of] in P.
    destruct k; cbn [s_tagbody]; rewrite tags_tri; cbn [tags_of]; rewrite P;
      destruct o; try contradiction; try reflexivity; rewrite (NG _ eq_refl); reflexivity.
  Qed.
End Pre.

(* ---- one frame ----------------------------------------------------------------------------------- *)
Lemma frame_step : forall defs F o, is_exit o -> transp1 F o = true -> forall n bl tg y st st2,
  match F with FMutex m _ _ => N.testbit (locks st) m = false | _ => True end ->
  seval defs n (bl1 F bl) (tg1 F tg) y (enter1 F st) = (o, st2) ->
  seval defs (S n) bl tg (plug1 F y) st = (o, leave1 F st2).
Proof.
  intros defs F o X T n bl tg y st st2 FR H.
  assert (TR : forall bl tg k st, seval defs n bl tg (Tr k) st =
                                  (Normal (VInt (Z.of_N k)), log (ETr k (locks st) (files st)) st)).
  { destruct n; [cbn in H; inv H; contradiction | reflexivity]. }
  destruct F; cbn [plug1 seval bl1 tg1 enter1 leave1] in *.
  - (* progn *) apply s_seq_trs; auto.
  - (* when *) assert (TC : seval defs n bl tg (Const LT) st = (Normal VT, st)) by (destruct n; [cbn in H; inv H; contradiction | reflexivity]).
    rewrite TC. cbn [is_nil]. apply s_seq_trs; auto.
  - (* let *) cbn [s_args]. apply s_seq_trs; auto.
  - (* argument *) rewrite (s_args_trs _ (TR bl tg) pre y post [] st o st2 X H). reflexivity.
  - (* block *)
    rewrite (s_seq_trs _ (TR (t :: bl) tg) pre y post VNil st o st2 X H).
    destruct o; try contradiction; cbn [catch]; try reflexivity.
    cbn [transp1] in T. apply negb_true_iff in T. rewrite T. reflexivity.
  - (* unwind-protect *)
    rewrite H.
    assert (C : forall ks s last, exists v, s_seq (seval defs n bl tg) (trs ks) last s = (Normal v, logtrs ks s)).
    { induction ks as [|k ks IH]; intros s last; cbn [trs map s_seq logtrs]; [eexists; reflexivity|].
      rewrite TR. apply IH. }
    destruct (C cs (log (ECleanup u) st2) VNil) as [v ->]. destruct o; try contradiction; reflexivity.
  - (* ignore-errors *)
    rewrite (s_seq_trs _ (TR bl tg) pre y post VNil st o st2 X H).
    destruct o; try contradiction; try reflexivity. discriminate.
  - (* recover *)
    rewrite (s_seq_trs _ (TR bl tg) pre y post VNil st o st2 X H).
    destruct o; try contradiction; try reflexivity. discriminate.
  - (* with-mutex-lock *)
    rewrite FR. rewrite (s_seq_trs _ (TR bl tg) pre y post VNil (lock m st) o st2 X H).
    destruct o; try contradiction; reflexivity.
  - (* with-open-file *)
    rewrite (s_seq_trs _ (TR bl tg) pre y post VNil (fopen f st) o st2 X H).
    destruct o; try contradiction; reflexivity.
  - (* lambda *) apply s_seq_trs; auto.
  - (* tagbody *)
    rewrite tags_tri. cbn [tags_of].
    apply s_tagbody_trs; auto.
    intros t ->. cbn [transp1] in T. apply negb_true_iff in T. exact T.
  - (* dolist / dotimes *)
    cbn [s_iter]. rewrite tags_tri. cbn [tags_of].
    rewrite (s_tagbody_trs _ (TR (0%N :: bl) (tags_of post ++ tg)) n pre y post st o st2 X); try assumption.
    + destruct o; try contradiction; cbn [catch]; try reflexivity.
      cbn [transp1] in T. apply negb_true_iff in T. rewrite T. reflexivity.
    + intros t ->. cbn [transp1] in T. apply negb_true_iff in T. exact T.
  - (* do *)
    cbn [s_iter]. rewrite tags_tri. cbn [tags_of].
    rewrite (s_tagbody_trs _ (TR (0%N :: bl) (tags_of post ++ tg)) n pre y post st o st2 X); try assumption.
    + destruct o; try contradiction; cbn [catch]; try reflexivity.
      cbn [transp1] in T. apply negb_true_iff in T. rewrite T. reflexivity.
    + intros t ->. cbn [transp1] in T. apply negb_true_iff in T. exact T.
  - (* unless *) assert (TC : seval defs n bl tg (Const LNil) st = (Normal VNil, st)) by (destruct n; [cbn in H; inv H; contradiction | reflexivity]).
    rewrite TC. cbn [is_nil]. apply s_seq_trs; auto.
  - (* if *) assert (TC : seval defs n bl tg (Const LT) st = (Normal VT, st)) by (destruct n; [cbn in H; inv H; contradiction | reflexivity]).
    rewrite TC. cbn [is_nil]. exact H.
Qed.

(* ---- any depth ----------------------------------------------------------------------------------- *)
Theorem exit_through_context : forall defs E o, is_exit o -> transp E o = true ->
  forall x bl tg st fuel st1, enterable E st ->
  seval defs fuel (bl_in E bl) (tg_in E tg) x (enter E st) = (o, st1) ->
  seval defs (length E + fuel) bl tg (plug E x) st = (o, leave E st1).
Proof.
  intros defs E o X. induction E as [|F E IH]; intros T x bl tg st fuel st1 EN H.
  - exact H.
  - cbn in T. apply andb_true_iff in T. destruct T as [T1 T2]. destruct EN as [FR EN].
    cbn [length plug leave Nat.add].
    apply frame_step; try assumption.
    apply IH; assumption.
Qed.

(* the cleanups of the inner frames come before those of the outer ones *)
Lemma leave_app : forall E1 E2 st, leave (E1 ++ E2) st = leave E1 (leave E2 st).
Proof. induction E1 as [|F E1 IH]; intros; cbn; [reflexivity | rewrite IH; reflexivity]. Qed.
Lemma enter_app : forall E1 E2 st, enter (E1 ++ E2) st = enter E2 (enter E1 st).
Proof. induction E1 as [|F E1 IH]; intros; cbn; [reflexivity | apply IH]. Qed.

Lemma bl_in_mem : forall E t bl, memN t bl = true -> memN t (bl_in E bl) = true.
Proof.
  induction E as [|F E IH]; intros t bl H; cbn; [exact H|]. apply IH.
  unfold memN in *. destruct F; cbn [bl1 existsb]; try exact H; rewrite H; apply orb_true_r.
Qed.
Lemma memN_app_r : forall t a b, memN t b = true -> memN t (a ++ b) = true.
Proof. intros. unfold memN in *. rewrite existsb_app, H. apply orb_true_r. Qed.
Lemma memN_app_l : forall t a b, memN t a = true -> memN t (a ++ b) = true.
Proof. intros. unfold memN in *. rewrite existsb_app, H. reflexivity. Qed.
Lemma tg_in_mem : forall E t tg, memN t tg = true -> memN t (tg_in E tg) = true.
Proof.
  induction E as [|F E IH]; intros t tg H; cbn; [exact H|]. apply IH.
  destruct F; cbn; try exact H; apply memN_app_r; exact H.
Qed.

(* return-from reaches the lexically matching block, through every frame in between (other blocks
   included), runs exactly the cleanups of those frames innermost first, the block yields the value, and
   the forms after the exit are not evaluated *)
Theorem return_reaches_block : forall defs E t v pre post bl tg st fuel,
  transp E (Ret t (VInt v)) = true -> enterable E (logtrs pre st) ->
  seval defs (S (length E + S (S fuel))) bl tg
        (Block t (trs pre ++ plug E (ReturnFrom t (Const (LInt v))) :: post)) st
  = (Normal (VInt v), leave E (enter E (logtrs pre st))).
Proof.
  intros defs E t v pre post bl tg st fuel T EN. cbn [seval].
  assert (TR : forall k s, seval defs (length E + S (S fuel)) (t :: bl) tg (Tr k) s =
                           (Normal (VInt (Z.of_N k)), log (ETr k (locks s) (files s)) s)).
  { rewrite Nat.add_succ_r. reflexivity. }
  rewrite (s_seq_trs _ TR pre _ post VNil st (Ret t (VInt v)) (leave E (enter E (logtrs pre st))) I).
  - cbn [catch]. rewrite N.eqb_refl. reflexivity.
  - apply exit_through_context; [exact I | exact T | exact EN |].
    cbn [seval]. rewrite bl_in_mem; [reflexivity|]. cbn. rewrite N.eqb_refl. reflexivity.
Qed.

(* go reaches its tag: control continues with the statements after the tag, the cleanups of the frames in
   between having run *)
Theorem go_reaches_tag : forall defs E t pre mid rest bl tg st fuel,
  transp E (Goto t) = true -> enterable E (logtrs pre st) -> memN t (tags_of mid) = false ->
  let items := tri pre ++ IForm (plug E (Go t)) :: mid ++ ITag t :: rest in
  seval defs (S (length E + S fuel)) bl tg (Tagbody items) st =
  s_tagbody (seval defs (length E + S fuel) bl (tags_of items ++ tg)) items (length E + fuel) rest
            (leave E (enter E (logtrs pre st))).
Proof.
  intros defs E t pre mid rest bl tg st fuel T EN NM items.
  assert (MT : memN t (tags_of items) = true).
  { unfold items. rewrite tags_tri. cbn [tags_of]. rewrite tags_of_app_c. apply memN_app_r. cbn. rewrite N.eqb_refl. reflexivity. }
  assert (AT : after_tag t items = rest).
  { unfold items. clear -NM. induction pre as [|k pre IH]; cbn [tri map app after_tag]; [| exact IH].
    induction mid as [|[t'|f] mid IH]; cbn [app after_tag tags_of] in *.
    - rewrite N.eqb_refl. reflexivity.
    - cbn in NM. apply orb_false_iff in NM. destruct NM as [N1 N2]. rewrite N.eqb_sym, N1. apply IH. exact N2.
    - apply IH. exact NM. }
  assert (TR : forall k s, seval defs (length E + S fuel) bl (tags_of items ++ tg) (Tr k) s =
                           (Normal (VInt (Z.of_N k)), log (ETr k (locks s) (files s)) s)).
  { rewrite Nat.add_succ_r. reflexivity. }
  assert (HX : seval defs (length E + S fuel) bl (tags_of items ++ tg) (plug E (Go t)) (logtrs pre st) =
               (Goto t, leave E (enter E (logtrs pre st)))).
  { apply exit_through_context; [exact I | exact T | exact EN |].
    cbn [seval]. rewrite tg_in_mem; [reflexivity|]. apply memN_app_l. exact MT. }
  assert (P : s_pass (seval defs (length E + S fuel) bl (tags_of items ++ tg)) (tags_of items) items st =
              (SJump t, leave E (enter E (logtrs pre st)))).
  { change (s_pass (seval defs (length E + S fuel) bl (tags_of items ++ tg)) (tags_of items)
                   (tri pre ++ IForm (plug E (Go t)) :: mid ++ ITag t :: rest) st =
            (SJump t, leave E (enter E (logtrs pre st)))).
    rewrite (s_pass_trs _ TR (tags_of items) pre _ (mid ++ ITag t :: rest) st (Goto t) _ I HX).
    rewrite MT. reflexivity. }
  cbn [seval]. rewrite Nat.add_succ_r. cbn [s_tagbody]. rewrite <- Nat.add_succ_r. rewrite P, AT. reflexivity.
Qed.

(* an error that no frame handles surfaces with its class, after exactly the cleanups on its way *)
Theorem error_class_preserved : forall defs E c bl tg st fuel,
  transp E (Err c) = true -> enterable E st ->
  seval defs (length E + S fuel) bl tg (plug E (Signal c)) st = (Err c, leave E (enter E st)).
Proof.
  intros. apply exit_through_context; [exact I | assumption | assumption | reflexivity].
Qed.
