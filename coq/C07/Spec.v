(* C07 — S: the reference evaluator written from the language definition (CLHS block / return-from /
   tagbody / go / unwind-protect; slip's documentation for ignore-errors, recover, with-mutex-lock,
   with-open-file), and the guard: programs whose return-from / go name lexically visible blocks / tags.

   In S a non-local exit is an OUTCOME, not a value: Normal v | Ret tag v | Goto tag | Err class.  A
   sub-form that does not complete normally ends the evaluation of every enclosing form immediately until
   a block with that name / a tagbody holding that tag / a handler is reached; unwind-protect runs its
   cleanup forms once on the way.  Visibility is lexical: bl / tg are the block names and go tags in whose
   scope the form is written.  S tracks primary values only (ignore-errors yields nil on an error; its
   second value is not part of the property); VNilVals never occurs in S. *)
From C07 Require Export Model.

Inductive outcome := Normal (v : value) | Ret (t : N) (v : value) | Goto (t : N) | Err (c : cls) | Hang | OOF.

Inductive sstep := SDone | SOut (o : outcome) | SJump (t : N).

Section SCombinators.
  Variable ev : form -> state -> outcome * state.

  (* implicit progn: the value of the last form; anything but a normal completion ends it *)
  Fixpoint s_seq (fs : list form) (last : value) (st : state) : outcome * state :=
    match fs with
    | [] => (Normal last, st)
    | f :: r =>
        match ev f st with
        | (Normal v, st1) => s_seq r v st1
        | (o, st1) => (o, st1)
        end
    end.

  Fixpoint s_args (fs : list form) (acc : list value) (st : state) : (outcome + list value) * state :=
    match fs with
    | [] => (inr (rev acc), st)
    | f :: r =>
        match ev f st with
        | (Normal v, st1) => s_args r (v :: acc) st1
        | (o, st1) => (inl o, st1)
        end
    end.

  Fixpoint s_cond (cs : list (form * list form)) (st : state) : outcome * state :=
    match cs with
    | [] => (Normal VNil, st)
    | (c, b) :: r =>
        match ev c st with
        | (Normal v, st1) =>
            if is_nil v then s_cond r st1
            else match b with [] => (Normal v, st1) | _ => s_seq b VNil st1 end
        | (o, st1) => (o, st1)
        end
    end.

  (* one pass over the statements of a tagbody up to the first transfer *)
  Fixpoint s_pass (own : list N) (items : list item) (st : state) : sstep * state :=
    match items with
    | [] => (SDone, st)
    | ITag _ :: r => s_pass own r st
    | IForm f :: r =>
        match ev f st with
        | (Normal _, st1) => s_pass own r st1
        | (Goto t, st1) => if memN t own then (SJump t, st1) else (SOut (Goto t), st1)
        | (o, st1) => (SOut o, st1)
        end
    end.

  (* tagbody: k bounds the number of jumps (a backward go can loop for ever) *)
  Fixpoint s_tagbody (all : list item) (k : nat) (items : list item) (st : state) {struct k} : outcome * state :=
    match s_pass (tags_of all) items st with
    | (SDone, st1) => (Normal VNil, st1)
    | (SOut o, st1) => (o, st1)
    | (SJump t, st1) =>
        match k with
        | O => (OOF, st1)
        | S k' => s_tagbody all k' (after_tag t all) st1
        end
    end.

  (* n iterations of a loop body (an implicit tagbody) *)
  Fixpoint s_iter (k : nat) (n : nat) (body : list item) (st : state) : outcome * state :=
    match n with
    | O => (Normal VNil, st)
    | S n' =>
        match s_tagbody body k body st with
        | (Normal _, st1) => s_iter k n' body st1
        | (o, st1) => (o, st1)
        end
    end.
End SCombinators.

Definition catch (t : N) (r : outcome * state) : outcome * state :=
  match r with
  | (Ret t' v, st) => if N.eqb t t' then (Normal v, st) else r
  | _ => r
  end.

Section S.
  Variable defs : list def.

  Fixpoint seval (fuel : nat) (bl tg : list N) (f : form) (st : state) {struct fuel} : outcome * state :=
    match fuel with
    | O => (OOF, st)
    | S n =>
      let ev := seval n in
      match f with
      | Const l => (Normal (lit_val l), st)
      | Tr k => (Normal (VInt (Z.of_N k)), log (ETr k (locks st) (files st)) st)
      | Signal c => (Err c, st)
      | Incf x =>
          match nth_error (vars st) x with
          | Some z => (Normal (VInt (z + 1)), set_var x (z + 1)%Z st)
          | None => (Err CUnbound, st)
          end
      | Lt x k =>
          match nth_error (vars st) x with
          | Some z => (Normal (if (z <? k)%Z then VT else VNil), st)
          | None => (Err CUnbound, st)
          end
      | Setv x z => (Normal (VInt z), set_var x z st)
      | CallList args =>
          match s_args (ev bl tg) args [] st with
          | (inr vs, st1) => (Normal (mk_list vs), st1)
          | (inl o, st1) => (o, st1)
          end
      | Progn body => s_seq (ev bl tg) body VNil st
      | When c body =>
          match ev bl tg c st with
          | (Normal v, st1) => if is_nil v then (Normal VNil, st1) else s_seq (ev bl tg) body VNil st1
          | (o, st1) => (o, st1)
          end
      | Cond cs => s_cond (ev bl tg) cs st
      | Let inits body =>
          match s_args (ev bl tg) inits [] st with
          | (inr _, st1) => s_seq (ev bl tg) body VNil st1
          | (inl o, st1) => (o, st1)
          end
      | Block t body => catch t (s_seq (ev (t :: bl) tg) body VNil st)
      | ReturnFrom t e =>
          if memN t bl then
            match ev bl tg e st with
            | (Normal v, st1) => (Ret t v, st1)
            | (o, st1) => (o, st1)
            end
          else (Err CControl, st)
      | Return e =>
          if memN 0%N bl then
            match ev bl tg e st with
            | (Normal v, st1) => (Ret 0%N v, st1)
            | (o, st1) => (o, st1)
            end
          else (Err CControl, st)
      | Tagbody items => s_tagbody (ev bl (tags_of items ++ tg)) items n items st
      | Go t => if memN t tg then (Goto t, st) else (Err CControl, st)
      | UnwindProtect u p cs =>
          match ev bl tg p (log (EEnter u) st) with
          | (Hang, st1) => (Hang, st1)
          | (OOF, st1) => (OOF, st1)
          | (o, st1) =>
              match s_seq (ev bl tg) cs VNil (log (ECleanup u) st1) with
              | (Normal _, st2) => (o, st2)          (* the exit in progress continues *)
              | (o2, st2) => (o2, st2)               (* an exit out of the cleanup supersedes it *)
              end
          end
      | IgnoreErrors body =>
          match s_seq (ev bl tg) body VNil st with
          | (Err _, st1) => (Normal VNil, st1)
          | r => r
          end
      | Recover h body =>
          match s_seq (ev bl tg) body VNil st with
          | (Err _, st1) => ev bl tg h st1
          | r => r
          end
      | WithMutex m body =>
          if N.testbit (locks st) m then (Hang, st) else
          match s_seq (ev bl tg) body VNil (lock m st) with
          | (Hang, st1) => (Hang, st1)
          | (OOF, st1) => (OOF, st1)
          | (o, st1) => (o, unlock m st1)
          end
      | WithFile f body =>
          match s_seq (ev bl tg) body VNil (fopen f st) with
          | (Hang, st1) => (Hang, st1)
          | (OOF, st1) => (OOF, st1)
          | (o, st1) => (o, fclose f st1)
          end
      | Loop _ cnt body res =>       (* (block nil (tagbody body...) ... res) *)
          let bl' := 0%N :: bl in
          catch 0%N
            match s_iter (ev bl' (tags_of body ++ tg)) n cnt body st with
            | (Normal _, st1) => ev bl' tg res st1
            | r => r
            end
      | Do cnt body res =>
          let bl' := 0%N :: bl in
          catch 0%N
            match s_iter (ev bl' (tags_of body ++ tg)) n cnt body st with
            | (Normal _, st1) => s_seq (ev bl' tg) res VNil st1
            | r => r
            end
      | Lam body => s_seq (ev bl tg) body VNil st      (* a closure called at once: the lexical context is its own *)
      | CallU i =>
          match nth_error defs i with
          | None => (Err CUndefFn, st)
          | Some (_, body) =>                (* the blocks around the defun form have exited when the function is called *)
              catch (fn_tag i) (s_seq (ev [fn_tag i] []) body VNil st)
          end
      | Unless c body =>
          match ev bl tg c st with
          | (Normal v, st1) => if is_nil v then s_seq (ev bl tg) body VNil st1 else (Normal VNil, st1)
          | (o, st1) => (o, st1)
          end
      | If c a b =>
          match ev bl tg c st with
          | (Normal v, st1) => if is_nil v then ev bl tg b st1 else ev bl tg a st1
          | (o, st1) => (o, st1)
          end
      end
    end.
End S.

(* S tracks primary values only: the second value of ignore-errors is dropped before comparing *)
Fixpoint norm (v : value) : value :=
  match v with VNilVals => VNil | VRetM t w => VRetM t (norm w) | _ => v end.
Definition norm_res (r : mres) : mres := match r with MVal v => MVal (norm v) | _ => r end.

Definition srun (fuel : nat) (p : prog) (st : state) : outcome * state := seval (fst p) fuel [] [] (snd p) st.

(* what an S outcome looks like when the implementation hands it back as a value / a panic *)
Definition to_mres (o : outcome) : mres :=
  match o with
  | Normal v => MVal v
  | Ret t v => MVal (VRetM t v)
  | Goto t => MVal (VGoM t)
  | Err c => MErr c
  | Hang => MHang
  | OOF => MOOF
  end.

(* ---- the guard --------------------------------------------------------------------------------- *)
(* gd R G f: every return-from / return in f names a block in R or a block of f itself around it, every go
   a tag in G or a tag of a tagbody / loop body of f around it.  With R and G the block names and tags in
   whose scope f is written this says that f is LEXICALLY SCOPED, which is all the guard asks since
   repo_fixes/C07-1 .. C07-21: every form passes every exit on from every position.  What it excludes is
   where slip looks blocks and tags up dynamically (known findings C07-block-lookup-is-dynamic,
   C07-go-lookup-is-dynamic, C07-go-unknown-tag-escapes): a function body that names a block or tag of its
   caller, and a go inside some tagbody to a tag that no enclosing tagbody has. *)
Definition compound (f : form) : bool := match f with Const _ => false | _ => true end.

Section Guard.
  Variable gd : list N -> list N -> form -> bool.
  Fixpoint g_all (R G : list N) (fs : list form) : bool :=
    match fs with [] => true | f :: r => gd R G f && g_all R G r end.
  (* statements of a tagbody-like body (a statement is a list form, anything else would be read as a tag) *)
  Fixpoint g_items (R G : list N) (items : list item) : bool :=
    match items with
    | [] => true
    | ITag t :: r => g_items R G r
    | IForm f :: r => compound f && gd R G f && g_items R G r
    end.
  Fixpoint g_clauses (R G : list N) (cs : list (form * list form)) : bool :=
    match cs with
    | [] => true
    | (c, b) :: r => gd R G c && g_all R G b && g_clauses R G r
    end.
End Guard.

Fixpoint gd (R G : list N) (f : form) {struct f} : bool :=
  match f with
  | Const _ | Tr _ | Signal _ | Incf _ | Lt _ _ | Setv _ _ => true
  | CallList args => g_all gd R G args
  | Progn body => g_all gd R G body
  | When c body => gd R G c && g_all gd R G body
  | Cond cs => g_clauses gd R G cs
  | Let inits body => g_all gd R G inits && g_all gd R G body
  | Block t body => g_all gd (t :: R) G body
  | ReturnFrom t e => memN t R && gd R G e
  | Return e => memN 0%N R && gd R G e
  | Tagbody items => g_items gd R (tags_of items ++ G) items
  | Go t => memN t G
  | UnwindProtect _ p cs => gd R G p && g_all gd R G cs
  | IgnoreErrors body => g_all gd R G body
  | Recover h body => gd R G h && g_all gd R G body
  | WithMutex _ body => g_all gd R G body
  | WithFile _ body => g_all gd R G body
  | Loop _ _ body res => g_items gd (0%N :: R) (tags_of body ++ G) body && gd (0%N :: R) G res
  | Do _ body res => g_items gd (0%N :: R) (tags_of body ++ G) body && g_all gd (0%N :: R) G res
  | Lam body => g_all gd R G body
  | CallU _ => true
  | Unless c body => gd R G c && g_all gd R G body
  | If c a b => gd R G c && gd R G a && gd R G b
  end.

(* a function body sees its own block only *)
Fixpoint gd_defs (i : nat) (defs : list def) : bool :=
  match defs with
  | [] => true
  | (_, b) :: r => g_all gd [fn_tag i] [] b && gd_defs (S i) r
  end.

(* well-formed: what the rendering into Lisp needs to be injective and accepted by the argument-count
   checks: a statement of a tagbody-like body is a list form (a bare constant would be read as a tag),
   unwind-protect has at least one cleanup form. *)
Fixpoint wf (f : form) {struct f} : bool :=
  let all := fix all (fs : list form) : bool := match fs with [] => true | f :: r => wf f && all r end in
  let alli := fix alli (is : list item) : bool :=
                match is with [] => true | ITag _ :: r => alli r | IForm f :: r => compound f && wf f && alli r end in
  match f with
  | Const _ | Tr _ | Signal _ | Incf _ | Lt _ _ | Go _ | CallU _ => true
  | Setv x _ => Nat.ltb x NVARS
  | CallList fs | Progn fs | Block _ fs | IgnoreErrors fs | WithMutex _ fs | WithFile _ fs | Lam fs => all fs
  | When c fs | Recover c fs | Unless c fs => wf c && all fs
  | If c a b => wf c && wf a && wf b
  | Cond cs =>
      (fix gc (cs : list (form * list form)) : bool :=
         match cs with [] => true | (c, b) :: r => wf c && all b && gc r end) cs
  | Let a b => all a && all b
  | ReturnFrom _ e | Return e => wf e
  | Tagbody is => alli is
  | UnwindProtect _ p cs => wf p && negb (match cs with [] => true | _ => false end) && all cs
  | Loop _ _ is res => alli is && wf res
  | Do _ is res => alli is && all res
  end.
(* a defining context is made of let scopes (false, 0) and blocks (true, b) with b nil or one of b1..b49 *)
Definition wf_dscope (s : scope) : bool := if fst s then N.ltb (snd s) 50 else N.eqb (snd s) 0.
Definition wf_def (d : def) : bool := forallb wf_dscope (fst d) && forallb wf (snd d).
Definition wf_prog (p : prog) : bool := wf (snd p) && forallb wf_def (fst p).

Definition guard (p : prog) : bool := gd [] [] (snd p) && gd_defs 0 (fst p).
