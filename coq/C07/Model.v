(* C07 — syntax of the programs the property quantifies over, the observable state, and M: an executable
   model of what slip's Go code DOES with them.

   In the Go code a non-local exit is an ordinary object: (return-from b v) evaluates to a
   *slip.ReturnResult{Tag,Result}, (go t) to a *slip.GoTo{Tag}; every form that evaluates a body has to look
   at each value and pass such a marker up itself.  Errors are Go panics.  M therefore has only
   "value | panic" results, the markers are VALUES (VRetM, VGoM), and each form below is a transcription
   of the body loop of its Call method, as it is after repo_fixes/C07-1 .. C07-21 (every loop now has the
   test of let.go: "switch result.(type) { case *slip.ReturnResult, *GoTo: return result }"):

     pkg/cl/progn.go, when.go, unless.go, if.go, cond.go, ignore-errors.go, let.go, with-open-file.go,
       pkg/gi/recover.go, with-mutex-lock.go, block.go, lambda.go BoundCall,
       unwind-protect.go (cleanup forms), do.go (result forms)            -> m_seq
     function.go Function.Eval (ordinary arguments), util.go processBinding (let inits) -> m_args
     the tests of when / cond, the value form of return-from / return     -> "if is_marker v then"
     pkg/cl/tagbody.go, dolist.go, dotimes.go, do.go (statement loops)    -> m_pass, m_tagbody, m_iter
     pkg/cl/return-from.go, return.go, scope.go InBlock, pkg/cl/go.go     -> in_block, tb flag
     pkg/cl/unwind-protect.go (defer), trace.go normalAfter (class kept)  -> UnwindProtect case

   What is left of the difference to the reference S is the LOOKUP: InBlock walks the calling scopes and
   Scope.TagBody is a flag inherited by every scope made while a tagbody is active, so a return-from / go
   is accepted whenever a block of that name / any tagbody is somewhere on the call chain.

   No proofs in this file. *)
From Coq Require Export List Bool Arith ZArith NArith Lia.
Export ListNotations.

(* ---- names ------------------------------------------------------------------------------------- *)
(* Block names: 0 is nil, 1..49 the symbols b1..b49, 100+i the name of the i-th user function fi (defun
   gives the body a block of that name), 99 stands for the symbol "lambda" (Lambda.Call names the scope of
   an anonymous function so; no program mentions it).  Go tags: t < 50 is the integer t, t >= 50 the
   symbol g<t>. *)
Notation tag := N (only parsing).
Definition LAMBDA : N := 99%N.
Definition fn_tag (i : nat) : N := (100 + N.of_nat i)%N.
Definition sym_tag (t : N) : bool := (50 <=? t)%N.
Arguments fn_tag : simpl never.
Arguments sym_tag : simpl never.

(* condition classes a program can signal: (error "boom"), (/ 1 0), (car 1), (list unbound-xyz),
   (undefined-fn-xyz); control-error comes from return-from / go outside any block / tagbody. COther is
   only ever OBSERVED (any class the model does not know). *)
Inductive cls := CError | CDivZero | CTypeError | CUnbound | CUndefFn | CControl | COther.

Inductive lit := LNil | LT | LInt (z : Z).

Inductive value :=
| VNil | VT | VInt (z : Z)
| VList (l : list value)
| VRetM (t : N) (v : value)      (* a *slip.ReturnResult seen as a value *)
| VGoM (t : N)                   (* a *cl.GoTo seen as a value *)
| VNilVals.                      (* the slip.Values{nil, condition} ignore-errors returns: an object that is
                                    not nil for "!= nil" tests; Function.Eval takes its first value *)

Inductive loopkind := KDolist | KDotimes.

(* ---- programs ---------------------------------------------------------------------------------- *)
Inductive form :=
| Const (l : lit)
| Tr (k : N)                                   (* (tr k): appends k and the current lock / open-file state to the trace, returns k *)
| Signal (c : cls)                             (* a form that signals an error of class c *)
| Incf (x : nat)                               (* (setq vx (+ vx 1)) on one of the global counters *)
| Lt (x : nat) (k : Z)                         (* (< vx k) *)
| Setv (x : nat) (z : Z)                       (* (setq vx z): lets a program rewind a counter, so that a function
                                                  can be re-entered on several calls *)
| CallList (args : list form)                  (* (list a ...): an ordinary function call *)
| Progn (body : list form)
| When (c : form) (body : list form)
| Cond (clauses : list (form * list form))
| Let (inits : list form) (body : list form)   (* (let ((u1 init1) ...) body...) ; the variables are never read *)
| Block (t : N) (body : list form)
| ReturnFrom (t : N) (e : form)
| Return (e : form)                            (* (return e) = (return-from nil e), its own Go file *)
| Tagbody (items : list item)
| Go (t : N)
| UnwindProtect (u : N) (p : form) (cleanup : list form)   (* u: an identity for the ghost events *)
| IgnoreErrors (body : list form)
| Recover (h : form) (body : list form)        (* (recover r h body...) *)
| WithMutex (m : N) (body : list form)         (* (with-mutex-lock mm body...) *)
| WithFile (f : N) (body : list form)          (* (with-open-file (s "<dir>/f<f>") body...) *)
| Loop (k : loopkind) (n : nat) (body : list item) (res : form)   (* (dolist (x '(1 .. n) res) body...) / (dotimes (x n res) body...) *)
| Do (n : nat) (body : list item) (res : list form)     (* (do ((i 0 (+ i 1))) ((= i n) res...) body...) *)
| Lam (body : list form)                       (* (funcall (lambda () body...)) *)
| CallU (i : nat)                              (* (fi): call of the i-th user function, no arguments *)
| Unless (c : form) (body : list form)         (* unless.go: the twin of when.go *)
| If (c : form) (a b : form)                   (* (if c a b) *)
with item :=
| ITag (t : N)
| IForm (f : form).

(* a scope of the chain InBlock walks: (Scope.Block, Scope.Name) *)
Definition scope := (bool * N)%type.

(* a user function (defun fi () body...): where the defun is written and the body.  The defining context is
   the list of scopes around the defun form, innermost first: (false, 0) for a (let ((c 1)) ...), (true, b) for
   a (block b ...).  defun.go gives the function the scope it is evaluated in as its Closure whenever that
   scope has a parent, i.e. whenever the context is not empty; a defun at the top level has no closure. *)
Definition def := (list scope * list form)%type.
(* a program: the user functions f0, f1, ... (all defined before the main form runs) and the main form *)
Definition prog := (list def * form)%type.

(* ---- state ------------------------------------------------------------------------------------- *)
(* ETr is what the harness observes; EEnter/ECleanup are ghost events of the model (the protected form of
   unwind-protect u is entered / its cleanup starts) used to state the exactly-once and ordering laws. *)
Inductive event := ETr (k : N) (lk fl : N) | EEnter (u : N) | ECleanup (u : N).

(* locks: bit m set = mutex m is held.  files: sum of 8^f over the open streams of file f. *)
Record state := mkSt { trace : list event; vars : list Z; locks : N; files : N }.

Definition log (e : event) (st : state) : state :=
  {| trace := trace st ++ [e]; vars := vars st; locks := locks st; files := files st |}.
Fixpoint set_nth {A} (n : nat) (x : A) (l : list A) : list A :=
  match n, l with
  | O, _ :: l' => x :: l'
  | S n', y :: l' => y :: set_nth n' x l'
  | _, [] => []
  end.
Definition set_var (x : nat) (z : Z) (st : state) : state :=
  {| trace := trace st; vars := set_nth x z (vars st); locks := locks st; files := files st |}.
Definition set_locks (l : N) (st : state) : state :=
  {| trace := trace st; vars := vars st; locks := l; files := files st |}.
Definition set_files (l : N) (st : state) : state :=
  {| trace := trace st; vars := vars st; locks := locks st; files := l |}.
Definition lock (m : N) (st : state) := set_locks (N.setbit (locks st) m) st.
Definition unlock (m : N) (st : state) := set_locks (N.clearbit (locks st) m) st.
Definition fopen (f : N) (st : state) := set_files (files st + 8 ^ f)%N st.
Definition fclose (f : N) (st : state) := set_files (files st - 8 ^ f)%N st.
Definition init_state (vs : list Z) : state := {| trace := []; vars := vs; locks := 0%N; files := 0%N |}.

Definition NVARS : nat := 2.      (* the global counters v0, v1 *)
Definition lit_val (l : lit) : value := match l with LNil => VNil | LT => VT | LInt z => VInt z end.
Definition is_nil (v : value) : bool := match v with VNil => true | _ => false end.
Definition is_marker (v : value) : bool := match v with VRetM _ _ | VGoM _ => true | _ => false end.
(* "if vs, ok := v.(Values); ok { v = vs[0] }" in Function.Eval *)
Definition prim (v : value) : value := match v with VNilVals => VNil | _ => v end.
(* an empty slip.List is turned into nil by EvalArg / printed as nil *)
Definition mk_list (vs : list value) : value := match vs with [] => VNil | _ => VList vs end.

(* ---- tags of a statement list ------------------------------------------------------------------- *)
Definition memN (t : N) (l : list N) : bool := existsb (N.eqb t) l.
Fixpoint tags_of (items : list item) : list N :=
  match items with [] => [] | ITag t :: r => t :: tags_of r | IForm _ :: r => tags_of r end.
(* the statements after the first occurrence of tag t:
   "for i = 0; i < len(args); i++ { if args[i] == tr.Tag { break } }" and the i++ of the enclosing loop *)
Fixpoint after_tag (t : N) (items : list item) : list item :=
  match items with
  | [] => []
  | ITag t' :: r => if N.eqb t' t then r else after_tag t r
  | IForm _ :: r => after_tag t r
  end.

(* ---- M ----------------------------------------------------------------------------------------- *)
Inductive mres := MVal (v : value) | MErr (c : cls) | MHang | MOOF.

(* scope.go InBlock: "if s.Block && name == s.Name { return true }; for _, p := range s.parents { if p.InBlock(name)
   { return true } }".  The chain is the scope itself, then what its parents reach.  Lambda.Call gives the call
   scope of a function with a closure TWO parents, [closure, caller]: its chain is itself, the defining
   context, the callers. *)
Definition in_block (sc : list scope) (t : N) : bool := existsb (fun s => fst s && N.eqb (snd s) t) sc.

(* what a statement loop does with one pass over its statements *)
Inductive mstep := MDone | MOut (r : mres) | MJump (t : N).

Section Combinators.
  Variable ev : form -> state -> mres * state.

  (* for i := range forms { result = EvalArg(...); switch result.(type) { case *ReturnResult, *GoTo: return result } } *)
  Fixpoint m_seq (fs : list form) (last : value) (st : state) : mres * state :=
    match fs with
    | [] => (MVal last, st)
    | f :: r =>
        match ev f st with
        | (MVal v, st1) => if is_marker v then (MVal v, st1) else m_seq r v st1
        | (o, st1) => (o, st1)
        end
    end.

  (* Function.Eval: the arguments are evaluated left to right; one that is a marker ends the call and is
     returned (repo_fixes/C07-19); of several values the first is the argument *)
  Fixpoint m_args (fs : list form) (acc : list value) (st : state) : (mres + list value) * state :=
    match fs with
    | [] => (inr (rev acc), st)
    | f :: r =>
        match ev f st with
        | (MVal v, st1) => if is_marker v then (inl (MVal v), st1) else m_args r (prim v :: acc) st1
        | (o, st1) => (inl o, st1)
        end
    end.

  (* cond.go: the first value of the test decides and is what a clause without forms returns; a marker is
     returned at once (repo_fixes/C07-18), as is a marker in the clause body (C07-2) *)
  Fixpoint m_cond (cs : list (form * list form)) (st : state) : mres * state :=
    match cs with
    | [] => (MVal VNil, st)
    | (c, b) :: r =>
        match ev c st with
        | (MVal v, st1) =>
            if is_nil (prim v) then m_cond r st1
            else if is_marker v then (MVal v, st1)
            else m_seq b (prim v) st1
        | (o, st1) => (o, st1)
        end
    end.

  (* The statement loop shared by tagbody.go, dolist.go, dotimes.go, do.go: only lists are evaluated (tags
     are skipped); a return marker is handed to onret and returned; the tag of a go marker is searched in
     the whole body (own = its tags): found, the loop goes on after it (MJump), otherwise the marker is
     returned for an outer tagbody. *)
  Fixpoint m_pass (onret : N -> value -> value) (own : list N) (items : list item) (st : state) : mstep * state :=
    match items with
    | [] => (MDone, st)
    | ITag _ :: r => m_pass onret own r st
    | IForm f :: r =>
        match ev f st with
        | (MVal (VGoM t), st1) => if memN t own then (MJump t, st1) else (MOut (MVal (VGoM t)), st1)
        | (MVal (VRetM t v), st1) => (MOut (MVal (onret t v)), st1)
        | (MVal _, st1) => m_pass onret own r st1
        | (o, st1) => (MOut o, st1)
        end
    end.

  (* k bounds the number of jumps (a backward go can loop for ever).
     Result: Some r = the form returns r at once; None = the statements are exhausted. *)
  Fixpoint m_tagbody (onret : N -> value -> value) (all : list item) (k : nat) (items : list item) (st : state)
           {struct k} : option mres * state :=
    match m_pass onret (tags_of all) items st with
    | (MDone, st1) => (None, st1)
    | (MOut r, st1) => (Some r, st1)
    | (MJump t, st1) =>
        match k with
        | O => (Some MOOF, st1)
        | S k' => m_tagbody onret all k' (after_tag t all) st1
        end
    end.

  Fixpoint m_iter (onret : N -> value -> value) (k : nat) (n : nat) (body : list item) (st : state) : option mres * state :=
    match n with
    | O => (None, st)
    | S n' =>
        match m_tagbody onret body k body st with
        | (Some r, st1) => (Some r, st1)
        | (None, st1) => m_iter onret k n' body st1
        end
    end.
End Combinators.

(* tagbody.go: "case *slip.ReturnResult: return tr" *)
Definition onret_pass (t : N) (v : value) : value := VRetM t v.
(* dolist.go / dotimes.go / do.go: "if tr.Tag == nil { return tr.Result }; return tr" *)
Definition onret_loop (t : N) (v : value) : value := if N.eqb t 0 then v else VRetM t v.
(* block.go "if ns.Name == tr.Tag { return tr.Result }; return tr", lambda.go BoundCall "if rr.Tag == s.Name
   { result = rr.Result }", and the same test applied to the value of the result form(s) of a loop
   (repo_fixes/C07-14, C07-15) *)
Definition m_catch (t : N) (r : mres * state) : mres * state :=
  match r with
  | (MVal (VRetM t' v), st) => if N.eqb t t' then (MVal v, st) else r
  | _ => r
  end.

Section M.
  Variable defs : list def.

  Fixpoint meval (fuel : nat) (sc : list scope) (tb : bool) (f : form) (st : state) {struct fuel} : mres * state :=
    match fuel with
    | O => (MOOF, st)
    | S n =>
      let ev := meval n in
      match f with
      | Const l => (MVal (lit_val l), st)
      | Tr k => (MVal (VInt (Z.of_N k)), log (ETr k (locks st) (files st)) st)
      | Signal c => (MErr c, st)
      | Incf x =>
          match nth_error (vars st) x with
          | Some z => (MVal (VInt (z + 1)), set_var x (z + 1)%Z st)
          | None => (MErr CUnbound, st)
          end
      | Lt x k =>
          match nth_error (vars st) x with
          | Some z => (MVal (if (z <? k)%Z then VT else VNil), st)
          | None => (MErr CUnbound, st)
          end
      | Setv x z => (MVal (VInt z), set_var x z st)   (* x < NVARS (wf); setq of a new name would create it *)
      | CallList args =>
          match m_args (ev sc tb) args [] st with
          | (inr vs, st1) => (MVal (mk_list vs), st1)
          | (inl o, st1) => (o, st1)
          end
      | Progn body => m_seq (ev sc tb) body VNil st
      | When c body =>                       (* when.go: a marker in the test is returned (C07-18); otherwise firstValue(..) decides *)
          match ev sc tb c st with
          | (MVal v, st1) =>
              if is_marker v then (MVal v, st1)
              else if is_nil (prim v) then (MVal VNil, st1) else m_seq (ev sc tb) body VNil st1
          | (o, st1) => (o, st1)
          end
      | Cond cs => m_cond (ev sc tb) cs st
      | Let inits body =>                    (* processBinding stops at a marker and let returns it (C07-17) *)
          match m_args (ev sc tb) inits [] st with
          | (inr _, st1) => m_seq (ev ((false, 0%N) :: sc) tb) body VNil st1
          | (inl o, st1) => (o, st1)
          end
      | Block t body =>
          m_catch t (m_seq (ev ((true, t) :: sc) tb) body VNil st)
      | ReturnFrom t e =>
          if in_block sc t then
            match ev sc tb e st with
            | (MVal v, st1) => if is_marker v then (MVal v, st1) else (MVal (VRetM t v), st1)   (* C07-21 *)
            | (o, st1) => (o, st1)
            end
          else (MErr CControl, st)
      | Return e =>
          if in_block sc 0%N then
            match ev sc tb e st with
            | (MVal v, st1) => if is_marker v then (MVal v, st1) else (MVal (VRetM 0%N v), st1)
            | (o, st1) => (o, st1)
            end
          else (MErr CControl, st)
      | Tagbody items =>
          match m_tagbody (ev ((false, 0%N) :: sc) true) onret_pass items n items st with
          | (Some r, st1) => (r, st1)
          | (None, st1) => (MVal VNil, st1)
          end
      | Go t => if tb then (MVal (VGoM t), st) else (MErr CControl, st)
      | UnwindProtect u p cs =>
          match ev sc tb p (log (EEnter u) st) with
          | (MHang, st1) => (MHang, st1)
          | (MOOF, st1) => (MOOF, st1)
          | (r, st1) =>                   (* the deferred function: runs for a value and for a panic alike *)
              match m_seq (ev sc tb) cs VNil (log (ECleanup u) st1) with
              | (MVal v, st2) =>
                  if is_marker v then (MVal v, st2)  (* an exit out of a cleanup form replaces whatever was in flight (C07-20: recover() + result = tr) *)
                  else (r, st2)                       (* other cleanup values are dropped *)
              | (r2, st2) => (r2, st2)               (* a panic in the cleanup replaces whatever was in flight *)
              end
          end
      | IgnoreErrors body =>
          match m_seq (ev sc tb) body VNil st with
          | (MErr _, st1) => (MVal VNilVals, st1)    (* result = slip.Values{nil, condition} *)
          | r => r
          end
      | Recover h body =>
          match m_seq (ev sc tb) body VNil st with
          | (MErr _, st1) => ev ((false, 0%N) :: sc) tb h st1
          | r => r
          end
      | WithMutex m body =>
          if N.testbit (locks st) m then (MHang, st) else
          match m_seq (ev sc tb) body VNil (lock m st) with
          | (MHang, st1) => (MHang, st1)
          | (MOOF, st1) => (MOOF, st1)
          | (r, st1) => (r, unlock m st1)
          end
      | WithFile f body =>
          match m_seq (ev ((false, 0%N) :: sc) tb) body VNil (fopen f st) with
          | (MHang, st1) => (MHang, st1)
          | (MOOF, st1) => (MOOF, st1)
          | (r, st1) => (r, fclose f st1)
          end
      | Loop _ cnt body res =>
          let sc' := (true, 0%N) :: sc in
          match m_iter (ev sc' true) onret_loop n cnt body st with
          | (Some r, st1) => (r, st1)
          | (None, st1) => m_catch 0%N (ev sc' true res st1)
          end
      | Do cnt body res =>
          let sc' := (true, 0%N) :: sc in
          match m_iter (ev sc' true) onret_loop n cnt body st with
          | (Some r, st1) => (r, st1)
          | (None, st1) => m_catch 0%N (m_seq (ev sc' true) res VNil st1)
          end
      | Lam body =>                         (* Lambda.Call: ss.Block = true, ss.Name = "lambda"; BoundCall never unwraps for that name *)
          m_seq (ev ((true, LAMBDA) :: sc) tb) body VNil st
      | CallU i =>
          match nth_error defs i with
          | None => (MErr CUndefFn, st)
          | Some (dc, body) =>             (* Lambda.Call: ss.parents = [closure, caller]; TagBody comes from the caller *)
              m_catch (fn_tag i) (m_seq (ev ((true, fn_tag i) :: dc ++ sc) tb) body VNil st)
          end
      | Unless c body =>
          match ev sc tb c st with
          | (MVal v, st1) =>
              if is_marker v then (MVal v, st1)
              else if is_nil (prim v) then m_seq (ev sc tb) body VNil st1 else (MVal VNil, st1)
          | (o, st1) => (o, st1)
          end
      | If c a b =>                          (* if.go: a marker in the test is returned (C07-18); the value of the branch is returned as it is *)
          match ev sc tb c st with
          | (MVal v, st1) =>
              if is_marker v then (MVal v, st1)
              else if is_nil (prim v) then ev sc tb b st1 else ev sc tb a st1
          | (o, st1) => (o, st1)
          end
      end
    end.
End M.

(* a program is evaluated in a fresh top-level scope: no block, no tagbody *)
Definition mrun (fuel : nat) (p : prog) (st : state) : mres * state := meval (fst p) fuel [] false (snd p) st.

(* what the harness sees of a trace *)
Fixpoint visible (tr : list event) : list (N * N * N) :=
  match tr with
  | [] => []
  | ETr k l f :: r => (k, l, f) :: visible r
  | _ :: r => visible r
  end.
